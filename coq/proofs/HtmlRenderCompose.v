(* C09, Level B composed with Level A: for every document of the grammar, the public functions run on the
   rendered TEXT return the innermost element / the enclosing chain / the first-child chain of the
   document's own record, and get_attributes over a rendered tag returns exactly the attributes as written. *)
From Coq Require Import List NArith ZArith Bool Lia ZifyBool.
From Emmet Require Import lib.Base lib.HtmlLib gen.GenHtml model.HtmlScan model.HtmlMatch
  proofs.HtmlScanProofs proofs.HtmlFoldProofs proofs.HtmlForestProofs
  proofs.HtmlRenderLib proofs.HtmlRender proofs.HtmlRenderScan.
Import ListNotations.
Local Open Scope nat_scope.

(* ================================================================== SPEC: void names *)
(* void names only as single tags (HTML mode), an element written `<x>` without close tag is void *)
Fixpoint item_names (o : opts) (i : item) : bool :=
  match i with
  | IPaired n _ _ kids => negb (is_self_close o n) && forallb (item_names o) kids
  | IRaw n _ _ _ => negb (is_self_close o n)
  | IVoid n _ _ => is_self_close o n
  | _ => true
  end.

(* the documents the end-to-end theorems speak about *)
Definition doc_ok (o : opts) (d : list item) : bool :=
  forallb (item_ok (o_special o)) d && forallb (item_names o) d.

Definition names_item_stmt (o : opts) (i : item) : Prop :=
  forall p, item_names o i = true -> forallb (names_ok o) (nodes_item p i) = true.
Definition names_items_stmt (o : opts) (d : list item) : Prop :=
  forall p, forallb (item_names o) d = true -> forallb (names_ok o) (nodes_items p d) = true.

Lemma names_ok_nodes o : (forall i, names_item_stmt o i) /\ (forall d, names_items_stmt o d).
Proof.
  assert (HT : forall s, names_item_stmt o (IText s)) by (intros s p _; reflexivity).
  assert (HLt : forall s, names_item_stmt o (ILt s)) by (intros s p _; reflexivity).
  assert (HCo : forall b, names_item_stmt o (IComment b)) by (intros s p _; reflexivity).
  assert (HCd : forall b, names_item_stmt o (ICData b)) by (intros s p _; reflexivity).
  assert (HPi : forall ps, names_item_stmt o (IPI ps)) by (intros s p _; reflexivity).
  assert (HSe : forall n l w, names_item_stmt o (ISelf n l w)) by (intros n l w p _; reflexivity).
  assert (HPa : forall n l w kids, names_items_stmt o kids -> names_item_stmt o (IPaired n l w kids)).
  { intros n l w kids IH p H. cbn [item_names] in H. apply andb_true_iff in H. destruct H as [H1 H2].
    rewrite nodes_item_paired. cbv zeta. cbn [forallb names_ok]. rewrite H1, (IH _ H2). reflexivity. }
  assert (HVo : forall n l w, names_item_stmt o (IVoid n l w)).
  { intros n l w p H. cbn [item_names nodes_item forallb names_ok] in *. rewrite H. reflexivity. }
  assert (HRa : forall n l w b, names_item_stmt o (IRaw n l w b)).
  { intros n l w b p H. cbn [item_names nodes_item forallb names_ok] in *. rewrite H. reflexivity. }
  assert (HQ0 : names_items_stmt o []) by (intros p _; reflexivity).
  assert (HQ1 : forall i d, names_item_stmt o i -> names_items_stmt o d -> names_items_stmt o (i :: d)).
  { intros i d Hi Hd p H. cbn [forallb] in H. apply andb_true_iff in H. destruct H as [H1 H2].
    cbn [nodes_items]. rewrite forallb_app. rewrite (Hi p H1), (Hd _ H2). reflexivity. }
  split.
  - exact (item_ind2 _ _ HT HLt HCo HCd HPi HPa HSe HVo HRa HQ0 HQ1).
  - exact (items_ind2 _ _ HT HLt HCo HCd HPi HPa HSe HVo HRa HQ0 HQ1).
Qed.

Lemma doc_ok_parts o d : doc_ok o d = true ->
  fst (scan (o_special o) (render d)) = events_forest (forest_of d) /\ forallb (names_ok o) (forest_of d) = true.
Proof.
  unfold doc_ok. intros H. apply andb_true_iff in H. destruct H as [H1 H2]. split.
  - rewrite (scan_render (o_special o) d H1). reflexivity.
  - destruct (names_ok_nodes o) as [_ G]. apply G. exact H2.
Qed.

(* ================================================================== end to end *)
Theorem match_text o d pos :
  doc_ok o d = true ->
  html_match o (render d) pos =
  Ok (match innermost (forest_of d) pos with
      | Some b => Some (mkMatched (b_name b)
                          (get_attributes (render d) (fst (b_open b)) (snd (b_open b)) (b_name b))
                          (b_open b) (b_close b))
      | None => None
      end).
Proof. intros H. destruct (doc_ok_parts o d H) as [H1 H2]. apply html_match_forest; assumption. Qed.

Theorem outward_text o d pos :
  doc_ok o d = true -> balanced_outward o (render d) pos = Ok (enclosing (forest_of d) pos).
Proof. intros H. destruct (doc_ok_parts o d H) as [H1 H2]. apply balanced_outward_forest; assumption. Qed.

Theorem inward_text o d pos :
  doc_ok o d = true -> balanced_inward o (render d) pos = Ok (inward_spec (forest_of d) pos).
Proof. intros H. destruct (doc_ok_parts o d H) as [H1 H2]. apply balanced_inward_forest; assumption. Qed.

(* ================================================================== get_attributes over a rendered tag *)
Lemma last_app_ne {A} (a b : list A) d : b <> [] -> last (a ++ b) d = last b d.
Proof.
  intros Hb. induction a as [|x a IH]; [reflexivity|].
  cbn [app]. destruct (a ++ b) as [|y r] eqn:E.
  - apply app_eq_nil in E. destruct E as [_ ->]. contradiction.
  - rewrite <- IH. reflexivity.
Qed.

Lemma last_forallb (p : char -> bool) : forall s d, s <> [] -> forallb p s = true -> p (last s d) = true.
Proof.
  induction s as [|c s IH]; intros d Hs H; [contradiction|].
  cbn [forallb] in H. apply andb_true_iff in H. destruct H as [Hc H].
  destruct s as [|c2 s]; [exact Hc|]. change (last (c :: c2 :: s) d) with (last (c2 :: s) d).
  apply IH; [discriminate|exact H].
Qed.

Definition not_slash (c : char) : Prop := (c =? c_slash)%N = false.

Lemma name_char_not_slash c : name_char c = true -> not_slash c.
Proof.
  intros H. unfold not_slash. destruct (c =? c_slash)%N eqn:E; [|reflexivity].
  apply N.eqb_eq in E. subst c. discriminate H.
Qed.

Lemma name_ok_all n : name_ok n = true -> n <> [] /\ forallb name_char n = true.
Proof.
  destruct n as [|c r]; [discriminate|]. cbn [name_ok]. intros H. apply andb_true_iff in H. destruct H as [Hc Hr].
  split; [discriminate|]. cbn [forallb]. rewrite (name_start_is_name c Hc), Hr. reflexivity.
Qed.

Lemma last_name n : name_ok n = true -> not_slash (last n 0%N).
Proof.
  intros H. destruct (name_ok_all n H) as [Hne Hall]. apply name_char_not_slash.
  apply last_forallb; assumption.
Qed.

Lemma last_aname a : aname_ok a = true -> render_aname a <> [] /\ not_slash (last (render_aname a) 0%N).
Proof.
  intros Ha. destruct a as [n|d n|o ps]; cbn [aname_ok render_aname] in *.
  - destruct (name_ok_all n Ha) as [Hne _]. split; [exact Hne|apply last_name; exact Ha].
  - apply andb_true_iff in Ha. destruct Ha as [Hd Hn]. split; [discriminate|].
    destruct n as [|x r].
    + cbn [last]. unfold not_slash. chars.
    + change (d :: x :: r) with ([d] ++ x :: r). rewrite last_app_ne by discriminate. apply last_name. exact Hn.
  - apply andb_true_iff in Ha. destruct Ha as [Ho _]. split; [discriminate|].
    change (o :: render_pieces o (closer o) ps ++ [closer o]) with ((o :: render_pieces o (closer o) ps) ++ [closer o]).
    rewrite last_last. apply bracket_cases in Ho. destruct Ho as [-> | [-> | ->]]; reflexivity.
Qed.

Lemma last_render_attr a : dattr_ok a = true -> render_attr a <> [] /\ not_slash (last (render_attr a) 0%N).
Proof.
  intros Ha. destruct (dattr_ok_parts a Ha) as (Hne & Hws & Hn & Hv).
  destruct (last_aname _ Hn) as [Hnn Hnl].
  split.
  { unfold render_attr. intros E. apply app_eq_nil in E. destruct E as [E _]. contradiction. }
  unfold render_attr, value_part.
  destruct (da_val a) as [|q body|body|ps]; cbn [value_text aval_ok] in *.
  - rewrite app_nil_r. rewrite last_app_ne by exact Hnn. exact Hnl.
  - rewrite app_assoc. change (c_eq :: q :: body ++ [q]) with ((c_eq :: q :: body) ++ [q]).
    rewrite app_assoc. rewrite last_last.
    unfold quoted_ok in Hv. apply andb_true_iff in Hv. destruct Hv as [Hq _]. unfold not_slash. chars.
  - destruct body as [|c body]; [discriminate|]. cbn [unquoted_ok] in Hv.
    apply andb_true_iff in Hv. destruct Hv as [_ Hall].
    rewrite app_assoc. change (c_eq :: c :: body) with ([c_eq] ++ c :: body). rewrite app_assoc.
    rewrite last_app_ne by discriminate.
    pose proof (last_forallb is_unquoted (c :: body) 0%N ltac:(discriminate) Hall) as HL.
    unfold not_slash. revert HL. generalize (last (c :: body) 0%N). intros x HL. chars.
  - rewrite app_assoc. change (c_eq :: c_lbrace :: render_expr ps ++ [c_rbrace]) with ((c_eq :: c_lbrace :: render_expr ps) ++ [c_rbrace]).
    rewrite app_assoc. rewrite last_last. reflexivity.
Qed.

Lemma last_render_attrs : forall l, l <> [] -> forallb dattr_ok l = true ->
  render_attrs l <> [] /\ not_slash (last (render_attrs l) 0%N).
Proof.
  induction l as [|a l IH]; intros Hne Hl; [contradiction|].
  cbn [forallb] in Hl. apply andb_true_iff in Hl. destruct Hl as [Ha Hl].
  destruct (last_render_attr a Ha) as [A1 A2].
  unfold render_attrs. cbn [flat_map]. fold (render_attrs l).
  split.
  { intros E. apply app_eq_nil in E. destruct E as [E _]. contradiction. }
  destruct l as [|a2 l].
  - cbn [render_attrs flat_map]. rewrite app_nil_r. exact A2.
  - destruct (IH ltac:(discriminate) Hl) as [B1 B2]. rewrite last_app_ne by exact B1. exact B2.
Qed.

Lemma tag_last_not_slash n l w :
  tag_ok n l w = true -> not_slash (last (c_lt :: n ++ render_attrs l ++ w) 0%N).
Proof.
  intros Hok. destruct (tag_ok_parts n l w Hok) as (Hn & Hl & Hw).
  destruct (name_ok_all n Hn) as [Hnn _].
  change (c_lt :: n ++ render_attrs l ++ w) with ([c_lt] ++ n ++ render_attrs l ++ w).
  destruct w as [|x w].
  - rewrite app_nil_r. destruct l as [|a l].
    + cbn [render_attrs flat_map]. rewrite app_nil_r. rewrite last_app_ne by exact Hnn. apply last_name. exact Hn.
    + destruct (last_render_attrs (a :: l) ltac:(discriminate) Hl) as [B1 B2].
      rewrite app_assoc. rewrite last_app_ne by exact B1. exact B2.
  - rewrite !app_assoc. rewrite last_app_ne by discriminate.
    pose proof (last_forallb is_space (x :: w) 0%N ltac:(discriminate) Hw) as HL.
    unfold not_slash. revert HL. generalize (last (x :: w) 0%N). intros y HL. chars.
Qed.

Lemma ends_with_slash_gt_open_tag n l w sc :
  tag_ok n l w = true -> ends_with_slash_gt (open_tag n l w sc) = sc.
Proof.
  intros Hok. unfold ends_with_slash_gt, open_tag.
  pose proof (tag_last_not_slash n l w Hok) as HL.
  assert (E0 : c_lt :: n ++ render_attrs l ++ w ++ (if sc then [c_slash; c_gt] else [c_gt]) =
               (c_lt :: n ++ render_attrs l ++ w) ++ (if sc then [c_slash; c_gt] else [c_gt])).
  { rewrite <- app_comm_cons. f_equal. rewrite <- !app_assoc. reflexivity. }
  rewrite E0. clear E0. generalize dependent (c_lt :: n ++ render_attrs l ++ w). intros pre HL.
  rewrite rev_app_distr. destruct sc; [reflexivity|]. cbn [rev app].
  destruct (rev pre) as [|b t] eqn:E; [reflexivity|].
  apply (f_equal (@rev char)) in E. rewrite rev_involutive in E. cbn [rev] in E.
  rewrite E in HL. rewrite last_last in HL. unfold not_slash in HL. rewrite HL. apply andb_false_r.
Qed.

Lemma shift_attr_tokens d : forall l p, map (shift_attr d) (attr_tokens p l) = attr_tokens (p + d)%N l.
Proof.
  induction l as [|a l IH]; intros p; [reflexivity|].
  cbn [attr_tokens map]. rewrite IH. f_equal.
  - unfold shift_attr. cbn [a_name a_ns a_ne a_value].
    destruct (value_text (da_val a)) as [t|]; f_equal; try lia. f_equal. f_equal; [f_equal|]; lia.
  - f_equal. lia.
Qed.

Lemma sliceN_middle (pre mid post : str) :
  sliceN (pre ++ mid ++ post) (N.of_nat (length pre)) (N.of_nat (length pre) + N.of_nat (length mid))%N = mid.
Proof.
  unfold sliceN. rewrite Nat2N.id.
  replace (N.to_nat (N.of_nat (length pre) + N.of_nat (length mid) - N.of_nat (length pre))) with (length mid) by lia.
  rewrite skipn_app_exact by reflexivity. apply firstn_app_exact. reflexivity.
Qed.

(* attributes() given the whole tag and its name *)
Theorem attributes_open_tag n l w sc :
  tag_ok n l w = true ->
  attributes (open_tag n l w sc) (Some n) = attr_tokens (N.of_nat (S (length n))) l.
Proof.
  intros Hok. destruct (tag_ok_parts n l w Hok) as (Hn & Hl & Hw).
  unfold attributes. destruct n as [|c r] eqn:En; [discriminate|]. rewrite <- En in *.
  rewrite ends_with_slash_gt_open_tag by exact Hok.
  assert (E : firstn (length (open_tag n l w sc) - (if sc then 2 else 1) - S (length n))
                     (skipn (S (length n)) (open_tag n l w sc)) = render_attrs l ++ w).
  { rewrite open_tag_length. unfold open_tag. cbn [skipn]. rewrite skipn_app_exact by reflexivity.
    rewrite (app_assoc (render_attrs l)). apply firstn_app_exact. rewrite app_length. destruct sc; lia. }
  rewrite E. apply attrs_go_render; assumption.
Qed.

(* what match() reports for the attributes of a tag that lies anywhere in a source: the attributes
   as written -- names, values with their quotes / braces -- at their exact ranges *)
Theorem get_attributes_text (pre post : str) n l w sc :
  tag_ok n l w = true ->
  get_attributes (pre ++ open_tag n l w sc ++ post)
                 (N.of_nat (length pre)) (N.of_nat (length pre) + N.of_nat (length (open_tag n l w sc)))%N n =
  attr_tokens (N.of_nat (length pre) + N.of_nat (S (length n)))%N l.
Proof.
  intros Hok. unfold get_attributes. rewrite sliceN_middle.
  rewrite attributes_open_tag by exact Hok. rewrite shift_attr_tokens. f_equal. lia.
Qed.

(* every token of the record slices the source exactly to the attribute's name and value *)
Definition token_slices (src : str) (a : attr) : Prop :=
  sliceN src (a_ns a) (a_ne a) = a_name a /\
  match a_value a with Some (v, vs, ve) => sliceN src vs ve = v | None => True end.

Theorem attr_tokens_slice : forall l (pre post : str),
  Forall (token_slices (pre ++ render_attrs l ++ post)) (attr_tokens (N.of_nat (length pre)) l).
Proof.
  induction l as [|a l IH]; intros pre post; [constructor|].
  cbn [attr_tokens]. constructor.
  - unfold token_slices. cbn [a_ns a_ne a_name a_value].
    unfold render_attrs. cbn [flat_map]. fold (render_attrs l). unfold render_attr at 1 2. unfold value_part.
    split.
    + rewrite <- !app_assoc. rewrite (app_assoc pre).
      rewrite <- Nat2N.inj_add, <- app_length.
      rewrite <- (Nat2N.inj_add (length (pre ++ da_ws a))).
      pose proof (sliceN_middle (pre ++ da_ws a) (render_aname (da_name a))) as S1. rewrite <- Nat2N.inj_add in S1. apply S1.
    + destruct (value_text (da_val a)) as [t|]; [|exact I].
      rewrite <- !app_assoc. cbn [app].
      change (pre ++ da_ws a ++ render_aname (da_name a) ++ c_eq :: t ++ render_attrs l ++ post)
        with (pre ++ da_ws a ++ render_aname (da_name a) ++ [c_eq] ++ t ++ render_attrs l ++ post).
      rewrite (app_assoc (render_aname (da_name a))). rewrite (app_assoc (da_ws a)). rewrite (app_assoc pre).
      pose proof (sliceN_middle (pre ++ da_ws a ++ render_aname (da_name a) ++ [c_eq]) t (render_attrs l ++ post)) as S1.
      rewrite !app_length in S1. cbn [length] in S1.
      replace (N.of_nat (length pre) + N.of_nat (length (da_ws a)) + N.of_nat (length (render_aname (da_name a))) + 1)%N
        with (N.of_nat (length pre + (length (da_ws a) + (length (render_aname (da_name a)) + 1)))) by lia.
      replace (N.of_nat (length pre + (length (da_ws a) + (length (render_aname (da_name a)) + 1))) + N.of_nat (length t))%N
        with (N.of_nat (length pre + (length (da_ws a) + (length (render_aname (da_name a)) + 1))) + N.of_nat (length t))%N by lia.
      exact S1.
  - unfold render_attrs. cbn [flat_map]. fold (render_attrs l). rewrite <- app_assoc. rewrite (app_assoc pre).
    replace (N.of_nat (length pre) + N.of_nat (length (render_attr a)))%N with (N.of_nat (length (pre ++ render_attr a)))
      by (rewrite app_length; lia).
    apply IH.
Qed.

(* ================================================================== the record is well nested *)
Lemma node_wf_kids_forest cs : forall kids lo,
  (fix go (lo : N) (l : list node) : bool :=
     match l with
     | [] => true
     | k :: r => node_wf lo cs k && go (node_end k) r
     end) lo kids = forest_wf lo cs kids.
Proof. induction kids as [|k r IH]; intros lo; [reflexivity|]. cbn [forest_wf]. rewrite IH. reflexivity. Qed.

Lemma open_tag_pos n l w sc : 1 <= length (open_tag n l w sc).
Proof. unfold open_tag. cbn [length]. lia. Qed.
Lemma close_tag_pos n : 1 <= length (close_tag n).
Proof. unfold close_tag. cbn [length]. lia. Qed.

(* the nodes of an item lie inside the item's text; the next sibling starts after them *)
Definition wf_item_stmt (i : item) : Prop :=
  forall p lo hi, (lo <= p)%N -> (p + N.of_nat (length (render_item i)) <= hi)%N ->
    forall rest, forest_wf (p + N.of_nat (length (render_item i)))%N hi rest = true ->
                 forest_wf lo hi (nodes_item p i ++ rest) = true.
Definition wf_items_stmt (d : list item) : Prop :=
  forall p lo hi, (lo <= p)%N -> (p + N.of_nat (length (render d)) <= hi)%N ->
    forest_wf lo hi (nodes_items p d) = true.

Lemma forest_wf_weaken : forall f lo lo' hi, (lo' <= lo)%N -> forest_wf lo hi f = true -> forest_wf lo' hi f = true.
Proof.
  destruct f as [|k r]; intros lo lo' hi Hle H; [reflexivity|].
  cbn [forest_wf] in *. apply andb_true_iff in H. destruct H as [H1 H2]. rewrite H2, andb_true_r.
  destruct k as [name os oe cs ce kids|name sc s e]; cbn [node_wf] in *.
  - repeat (apply andb_true_iff in H1; destruct H1 as [H1 ?]).
    repeat (apply andb_true_iff; split); try assumption; lia.
  - repeat (apply andb_true_iff in H1; destruct H1 as [H1 ?]).
    repeat (apply andb_true_iff; split); try assumption; lia.
Qed.

Lemma forest_wf_doc : (forall i, wf_item_stmt i) /\ (forall d, wf_items_stmt d).
Proof.
  assert (Hnone : forall i, (forall p, nodes_item p i = []) -> wf_item_stmt i).
  { intros i Hn p lo hi H1 H2 rest Hr. rewrite Hn. cbn [app]. eapply forest_wf_weaken; [|exact Hr]. lia. }
  assert (HT : forall s, wf_item_stmt (IText s)) by (intros; apply Hnone; reflexivity).
  assert (HLt : forall s, wf_item_stmt (ILt s)) by (intros; apply Hnone; reflexivity).
  assert (HCo : forall b, wf_item_stmt (IComment b)) by (intros; apply Hnone; reflexivity).
  assert (HCd : forall b, wf_item_stmt (ICData b)) by (intros; apply Hnone; reflexivity).
  assert (HPi : forall ps, wf_item_stmt (IPI ps)) by (intros; apply Hnone; reflexivity).
  assert (HSe : forall n l w, wf_item_stmt (ISelf n l w)).
  { intros n l w p lo hi H1 H2 rest Hr. cbn [render_item nodes_item app forest_wf node_wf node_end] in *.
    pose proof (open_tag_pos n l w true). rewrite Hr. rewrite andb_true_r.
    repeat (apply andb_true_iff; split); lia. }
  assert (HVo : forall n l w, wf_item_stmt (IVoid n l w)).
  { intros n l w p lo hi H1 H2 rest Hr. cbn [render_item nodes_item app forest_wf node_wf node_end] in *.
    pose proof (open_tag_pos n l w false). rewrite Hr. rewrite andb_true_r.
    repeat (apply andb_true_iff; split); lia. }
  assert (HRa : forall n l w b, wf_item_stmt (IRaw n l w b)).
  { intros n l w b p lo hi H1 H2 rest Hr. cbn [render_item nodes_item] in *. cbv zeta.
    cbn [app forest_wf node_wf node_end]. rewrite !app_length in *.
    pose proof (open_tag_pos n l w false). pose proof (close_tag_pos n).
    replace (p + N.of_nat (length (open_tag n l w false)) + N.of_nat (length b) + N.of_nat (length (close_tag n)))%N
      with (p + N.of_nat (length (open_tag n l w false) + (length b + length (close_tag n))))%N by lia.
    rewrite Hr. rewrite !andb_true_r. repeat (apply andb_true_iff; split); lia. }
  assert (HPa : forall n l w kids, wf_items_stmt kids -> wf_item_stmt (IPaired n l w kids)).
  { intros n l w kids IH p lo hi H1 H2 rest Hr. rewrite nodes_item_paired. cbv zeta.
    cbn [render_item] in *. fold (render kids) in *. rewrite !app_length in *.
    cbn [app forest_wf node_wf node_end]. rewrite node_wf_kids_forest.
    pose proof (open_tag_pos n l w false). pose proof (close_tag_pos n).
    replace (p + N.of_nat (length (open_tag n l w false)) + N.of_nat (length (render kids)) + N.of_nat (length (close_tag n)))%N
      with (p + N.of_nat (length (open_tag n l w false) + (length (render kids) + length (close_tag n))))%N by lia.
    rewrite Hr. rewrite IH by lia. rewrite !andb_true_r. repeat (apply andb_true_iff; split); lia. }
  assert (HQ0 : wf_items_stmt []) by (intros p lo hi _ _; reflexivity).
  assert (HQ1 : forall i d, wf_item_stmt i -> wf_items_stmt d -> wf_items_stmt (i :: d)).
  { intros i d Hi Hd p lo hi H1 H2. unfold render in *. cbn [flat_map nodes_items] in *. fold (render d) in *.
    rewrite app_length in H2. apply Hi; [exact H1|lia|]. apply Hd; lia. }
  split.
  - exact (item_ind2 _ _ HT HLt HCo HCd HPi HPa HSe HVo HRa HQ0 HQ1).
  - exact (items_ind2 _ _ HT HLt HCo HCd HPi HPa HSe HVo HRa HQ0 HQ1).
Qed.

Theorem forest_of_wf d : forest_wf 0 (N.of_nat (length (render d))) (forest_of d) = true.
Proof. destruct forest_wf_doc as [_ G]. apply G; lia. Qed.

(* the elements enclosing a position of the text form a strictly nested chain: the head is the innermost *)
Theorem enclosing_chain_text o d pos :
  doc_ok o d = true ->
  Forall (contains_pos pos) (enclosing (forest_of d) pos) /\ strictly_nested (enclosing (forest_of d) pos).
Proof.
  intros H. destruct (doc_ok_parts o d H) as [_ H2].
  eapply enclosing_is_chain; [exact H2|apply forest_of_wf].
Qed.

(* ================================================================== the attributes of the matched element *)
(* the open tags of a document with their offsets: where each one starts, how it is written *)
Record tagrec := mkTagRec { tr_start : N; tr_name : str; tr_attrs : list dattr; tr_ws : str; tr_sc : bool }.
Definition tr_text (t : tagrec) : str := open_tag (tr_name t) (tr_attrs t) (tr_ws t) (tr_sc t).
Definition tr_end (t : tagrec) : N := (tr_start t + N.of_nat (length (tr_text t)))%N.

Fixpoint tags_item (p : N) (i : item) : list tagrec :=
  match i with
  | IPaired n l w kids =>
      mkTagRec p n l w false ::
      (fix go (p : N) (ks : list item) : list tagrec :=
         match ks with
         | [] => []
         | k :: r => tags_item p k ++ go (p + N.of_nat (length (render_item k)))%N r
         end) (p + N.of_nat (length (open_tag n l w false)))%N kids
  | ISelf n l w => [mkTagRec p n l w true]
  | IVoid n l w => [mkTagRec p n l w false]
  | IRaw n l w _ => [mkTagRec p n l w false]
  | _ => []
  end.
Fixpoint tags_items (p : N) (d : list item) : list tagrec :=
  match d with
  | [] => []
  | k :: r => tags_item p k ++ tags_items (p + N.of_nat (length (render_item k)))%N r
  end.
Definition tags_of (d : list item) : list tagrec := tags_items 0 d.

Lemma tags_item_paired p n l w kids :
  tags_item p (IPaired n l w kids) =
  mkTagRec p n l w false :: tags_items (p + N.of_nat (length (open_tag n l w false)))%N kids.
Proof. reflexivity. Qed.

(* every element of the record is one of those tags *)
Definition node_of_tag (n : node) (t : tagrec) : Prop :=
  b_open (entry n) = (tr_start t, tr_end t) /\ b_name (entry n) = tr_name t.

Definition nt_item_stmt (i : item) : Prop :=
  forall p n, In n (postorder (nodes_item p i)) -> exists t, In t (tags_item p i) /\ node_of_tag n t.
Definition nt_items_stmt (d : list item) : Prop :=
  forall p n, In n (postorder (nodes_items p d)) -> exists t, In t (tags_items p d) /\ node_of_tag n t.

Lemma node_tag_doc : (forall i, nt_item_stmt i) /\ (forall d, nt_items_stmt d).
Proof.
  assert (Hnone : forall i, (forall p, nodes_item p i = []) -> nt_item_stmt i).
  { intros i Hn p n H. rewrite Hn in H. destruct H. }
  assert (HT : forall s, nt_item_stmt (IText s)) by (intros; apply Hnone; reflexivity).
  assert (HLt : forall s, nt_item_stmt (ILt s)) by (intros; apply Hnone; reflexivity).
  assert (HCo : forall b, nt_item_stmt (IComment b)) by (intros; apply Hnone; reflexivity).
  assert (HCd : forall b, nt_item_stmt (ICData b)) by (intros; apply Hnone; reflexivity).
  assert (HPi : forall ps, nt_item_stmt (IPI ps)) by (intros; apply Hnone; reflexivity).
  assert (HSe : forall n l w, nt_item_stmt (ISelf n l w)).
  { intros n l w p x H. cbn [nodes_item postorder flat_map postorder_node app In] in H. destruct H as [<-|[]].
    eexists. split; [left; reflexivity|]. split; reflexivity. }
  assert (HVo : forall n l w, nt_item_stmt (IVoid n l w)).
  { intros n l w p x H. cbn [nodes_item postorder flat_map postorder_node app In] in H. destruct H as [<-|[]].
    eexists. split; [left; reflexivity|]. split; reflexivity. }
  assert (HRa : forall n l w b, nt_item_stmt (IRaw n l w b)).
  { intros n l w b p x H. cbn [nodes_item] in H. cbv zeta in H.
    cbn [postorder flat_map postorder_node app In] in H. destruct H as [<-|[]].
    eexists. split; [left; reflexivity|]. split; reflexivity. }
  assert (HPa : forall n l w kids, nt_items_stmt kids -> nt_item_stmt (IPaired n l w kids)).
  { intros n l w kids IH p x H. rewrite nodes_item_paired in H. cbv zeta in H.
    cbn [postorder flat_map postorder_node] in H. rewrite app_nil_r in H. apply in_app_or in H.
    rewrite tags_item_paired. destruct H as [H|[<-|[]]].
    - destruct (IH _ _ H) as (t & Ht & Hnt). exists t. split; [right; exact Ht|exact Hnt].
    - eexists. split; [left; reflexivity|]. split; reflexivity. }
  assert (HQ0 : nt_items_stmt []) by (intros p n []).
  assert (HQ1 : forall i d, nt_item_stmt i -> nt_items_stmt d -> nt_items_stmt (i :: d)).
  { intros i d Hi Hd p n H. cbn [nodes_items tags_items] in *. unfold postorder in H. rewrite flat_map_app in H.
    apply in_app_or in H. destruct H as [H|H].
    - destruct (Hi _ _ H) as (t & Ht & Hnt). exists t. split; [apply in_or_app; left; exact Ht|exact Hnt].
    - destruct (Hd _ _ H) as (t & Ht & Hnt). exists t. split; [apply in_or_app; right; exact Ht|exact Hnt]. }
  split.
  - exact (item_ind2 _ _ HT HLt HCo HCd HPi HPa HSe HVo HRa HQ0 HQ1).
  - exact (items_ind2 _ _ HT HLt HCo HCd HPi HPa HSe HVo HRa HQ0 HQ1).
Qed.

(* every tag lies in the rendered text at its offset and is well formed *)
Definition tag_in (p : N) (text : str) (t : tagrec) : Prop :=
  tag_ok (tr_name t) (tr_attrs t) (tr_ws t) = true /\
  exists pre post : str, text = pre ++ tr_text t ++ post /\ tr_start t = (p + N.of_nat (length pre))%N.

Lemma tag_in_shift p q (a b text : str) t :
  q = (p + N.of_nat (length a))%N -> tag_in q text t -> tag_in p (a ++ text ++ b) t.
Proof.
  intros -> (Hok & pre & post & -> & Hs). split; [exact Hok|].
  exists (a ++ pre), (post ++ b). split.
  - rewrite <- !app_assoc. reflexivity.
  - rewrite Hs, app_length. lia.
Qed.

Section TagsIn.
  Variable special : list (str * option (list str)).
  Definition ti_item_stmt (i : item) : Prop :=
    forall p t, item_ok special i = true -> In t (tags_item p i) -> tag_in p (render_item i) t.
  Definition ti_items_stmt (d : list item) : Prop :=
    forall p t, forallb (item_ok special) d = true -> In t (tags_items p d) -> tag_in p (render d) t.

  Lemma tag_in_head p n l w sc (post : str) :
    tag_ok n l w = true -> tag_in p (open_tag n l w sc ++ post) (mkTagRec p n l w sc).
  Proof.
    intros Hok. split; [exact Hok|]. exists [], post. split; [reflexivity|]. cbn [length tr_start]. lia.
  Qed.

  Lemma tags_in_doc : (forall i, ti_item_stmt i) /\ (forall d, ti_items_stmt d).
  Proof.
    assert (Hnone : forall i, (forall p, tags_item p i = []) -> ti_item_stmt i).
    { intros i Hn p t _ H. rewrite Hn in H. destruct H. }
    assert (HT : forall s, ti_item_stmt (IText s)) by (intros; apply Hnone; reflexivity).
    assert (HLt : forall s, ti_item_stmt (ILt s)) by (intros; apply Hnone; reflexivity).
    assert (HCo : forall b, ti_item_stmt (IComment b)) by (intros; apply Hnone; reflexivity).
    assert (HCd : forall b, ti_item_stmt (ICData b)) by (intros; apply Hnone; reflexivity).
    assert (HPi : forall ps, ti_item_stmt (IPI ps)) by (intros; apply Hnone; reflexivity).
    assert (HSe : forall n l w, ti_item_stmt (ISelf n l w)).
    { intros n l w p t Hok H. cbn [tags_item In item_ok render_item] in *. destruct H as [<-|[]].
      rewrite <- (app_nil_r (open_tag n l w true)). apply tag_in_head. exact Hok. }
    assert (HVo : forall n l w, ti_item_stmt (IVoid n l w)).
    { intros n l w p t Hok H. cbn [tags_item In item_ok render_item] in *. destruct H as [<-|[]].
      apply andb_true_iff in Hok. destruct Hok as [Hok _].
      rewrite <- (app_nil_r (open_tag n l w false)). apply tag_in_head. exact Hok. }
    assert (HRa : forall n l w b, ti_item_stmt (IRaw n l w b)).
    { intros n l w b p t Hok H. cbn [tags_item In item_ok render_item] in *. destruct H as [<-|[]].
      apply andb_true_iff in Hok. destruct Hok as [Hok _]. apply andb_true_iff in Hok. destruct Hok as [Hok _].
      apply tag_in_head. exact Hok. }
    assert (HPa : forall n l w kids, ti_items_stmt kids -> ti_item_stmt (IPaired n l w kids)).
    { intros n l w kids IH p t Hok H. rewrite tags_item_paired in H. cbn [item_ok render_item] in *.
      fold (render kids).
      apply andb_true_iff in Hok. destruct Hok as [Hok Hk]. apply andb_true_iff in Hok. destruct Hok as [Hok _].
      destruct H as [<-|H].
      - apply tag_in_head. exact Hok.
      - eapply tag_in_shift; [reflexivity|]. apply IH; assumption. }
    assert (HQ0 : ti_items_stmt []) by (intros p t _ []).
    assert (HQ1 : forall i d, ti_item_stmt i -> ti_items_stmt d -> ti_items_stmt (i :: d)).
    { intros i d Hi Hd p t Hok H. cbn [forallb] in Hok. apply andb_true_iff in Hok. destruct Hok as [H1 H2].
      cbn [tags_items] in H. unfold render. cbn [flat_map]. fold (render d). apply in_app_or in H. destruct H as [H|H].
      - pose proof (Hi p t H1 H) as G. apply (tag_in_shift p p [] (render d)) in G; [exact G|cbn [length]; lia].
      - pose proof (Hd _ t H2 H) as G. rewrite <- (app_nil_r (render d)).
        eapply tag_in_shift; [reflexivity|exact G]. }
    split.
    - exact (item_ind2 _ _ HT HLt HCo HCd HPi HPa HSe HVo HRa HQ0 HQ1).
    - exact (items_ind2 _ _ HT HLt HCo HCd HPi HPa HSe HVo HRa HQ0 HQ1).
  Qed.
End TagsIn.

(* get_attributes over the text of the document, at the range of any of its tags: the attributes as written *)
Theorem get_attributes_doc special d t :
  forallb (item_ok special) d = true -> In t (tags_of d) ->
  get_attributes (render d) (tr_start t) (tr_end t) (tr_name t) =
  attr_tokens (tr_start t + N.of_nat (S (length (tr_name t))))%N (tr_attrs t).
Proof.
  intros Hok Ht. destruct (tags_in_doc special) as [_ G].
  destruct (G d 0%N t Hok Ht) as (Htag & pre & post & E & Hs).
  rewrite N.add_0_l in Hs. unfold tr_end. rewrite E, Hs. apply get_attributes_text. exact Htag.
Qed.

(* end to end: what match() returns on the text -- the innermost element of the record, and its attributes
   are those of one of the document's tags, as written, at their exact ranges *)
Theorem match_text_attrs o d pos m :
  doc_ok o d = true -> html_match o (render d) pos = Ok (Some m) ->
  exists b t, innermost (forest_of d) pos = Some b /\ In t (tags_of d) /\
    m_name m = b_name b /\ m_open m = b_open b /\ m_close m = b_close b /\
    b_name b = tr_name t /\ b_open b = (tr_start t, tr_end t) /\
    m_attrs m = attr_tokens (tr_start t + N.of_nat (S (length (tr_name t))))%N (tr_attrs t).
Proof.
  intros Hd Hm. rewrite (match_text o d pos Hd) in Hm.
  destruct (innermost (forest_of d) pos) as [b|] eqn:Ei; [|discriminate].
  inversion Hm; subst m; clear Hm. cbn [m_name m_open m_close m_attrs].
  assert (Hin : In b (enclosing (forest_of d) pos)).
  { unfold innermost in Ei. destruct (enclosing (forest_of d) pos); [discriminate|]. inversion Ei; subst. left. reflexivity. }
  unfold enclosing in Hin. apply in_map_iff in Hin. destruct Hin as (n & <- & Hn). apply filter_In in Hn. destruct Hn as [Hn _].
  destruct node_tag_doc as [_ G]. destruct (G d 0%N n Hn) as (t & Ht & Ho & Hname).
  exists (entry n), t. repeat split; try assumption; try reflexivity.
  rewrite Ho, Hname. cbn [fst snd].
  unfold doc_ok in Hd. apply andb_true_iff in Hd. destruct Hd as [Hd _].
  apply (get_attributes_doc (o_special o)); assumption.
Qed.
