(* C06, user property snippets with value alternatives, for ALL snippet tables and ALL parsed values:
   typing the key prints  <property><between><first alternative><after>  where the first alternative is
   written token by token with single blanks (call arguments with ", "), wrapped in tabstops numbered 1..k
   in document order exactly when the snippet lists several alternatives and the first has no field of its own.
   Composes C06_key_reaches_property_snippet (proofs/StyleReachProofs.v) with proofs/CssValuePrint.v. *)
From Coq Require Import ZArith List Bool Lia ZifyBool String PrimFloat.
From Emmet Require Import lib.Base lib.StyleLib model.CssTokenizer model.CssParser model.Score model.Color
     model.CssSnippets model.CssResolve model.CssFormat
     proofs.CssFormatStream proofs.CssFormatStreamEq proofs.CssWrapFields proofs.CssValuePrint
     proofs.StyleSweep proofs.StyleReachProofs.
Import ListNotations.
Local Open Scope N_scope.

(* a number written with a unit that is not a unit alias keeps its unit (resolve_numeric_value) *)
Definition unit_given (cfg : sconfig) (t : cval) : Prop :=
  match t with
  | VTok (CNumber _ _ u) _ _ => u <> [] /\ assoc_str u (c_aliases cfg) = None
  | _ => True
  end.

Lemma numeric_settled cfg name v : Forall (unit_given cfg) v -> map (resolve_numeric_token cfg name) v = v.
Proof.
  induction 1 as [|t r Ht _ IH]; [reflexivity|]. cbn [map]. rewrite IH. f_equal.
  destruct t as [k st en|]; [|reflexivity]. destruct k as [| |value raw u| | | | | |]; try reflexivity.
  cbn [unit_given] in Ht. destruct Ht as [Hu Ha].
  cbn [resolve_numeric_token]. destruct u; [contradiction|]. rewrite Ha. reflexivity.
Qed.

Lemma wrapped_no_numbers cfg v : forall i, Forall (unit_given cfg) (fst (wrap_list cfg v i)).
Proof.
  induction v as [|t r IH]; intros i; cbn [wrap_list]; [constructor|].
  assert (H1 : unit_given cfg (fst (wrap_val cfg t i))).
  { destruct t as [[] st en|name args]; try exact I. rewrite wrap_val_func. destruct (wrap_args cfg args i). exact I. }
  destruct (wrap_val cfg t i) as [o1 i1]. specialize (IH i1). destruct (wrap_list cfg r i1) as [o2 i2].
  cbn [fst] in *. constructor; assumption.
Qed.

Lemma wrappable_no_field t : wrappable t = true -> has_field_val t = false.
Proof.
  induction t as [k st en|name args IH] using cval_ind2; intros H.
  - destruct k; try discriminate; reflexivity.
  - cbn [wrappable has_field_val] in *.
    induction IH as [|a r Ha _ IHr]; [reflexivity|]. cbn [forallb existsb] in *.
    apply andb_prop in H. destruct H as [H1 H2]. rewrite (IHr H2), orb_false_r.
    clear IHr H2. induction Ha as [|x xs Hx _ IHx]; [reflexivity|]. cbn [forallb existsb] in *.
    apply andb_prop in H1. destruct H1 as [X1 X2]. rewrite (Hx X1), (IHx X2). reflexivity.
Qed.
Lemma wrappable_value_no_field v : forallb wrappable v = true -> has_field v = false.
Proof.
  unfold has_field. induction v as [|t r IH]; [reflexivity|]. cbn [forallb existsb]. intros H.
  apply andb_prop in H. destruct H as [H1 H2]. rewrite (wrappable_no_field t H1), (IH H2). reflexivity.
Qed.

(* the line of a property whose value is one (comma-free) css value *)
Lemma property_line cfg (prop : str) (v : cssvalue) :
  c_json cfg = false -> nobreakb (prop ++ c_between cfg) = true -> Forall (unit_given cfg) v ->
  css_property cfg (resolve_numeric_value cfg (mkProp (Some prop) [v] false true)) =
  prop ++ c_between cfg ++ output_value cfg v ++ c_after cfg.
Proof.
  intros Hj Hb Hu. unfold resolve_numeric_value. cbn [pname pvalue pimportant psnippet map].
  rewrite (numeric_settled cfg (Some prop) v Hu).
  unfold css_property. cbn [pname pvalue]. rewrite Hj. rewrite (push_string_nobreak cfg _ Hb).
  unfold css_property_value, get_single_numeric. rewrite Hj. cbn [pvalue join_values output_important pimportant app].
  rewrite <- app_assoc, !app_nil_r. reflexivity.
Qed.

(* the line of a property snippet, by the shape of its value list *)
Lemma own_line_plain cfg key (prop : str) (v : cssvalue) others kws deps :
  c_json cfg = false -> others = [] \/ has_field v = true ->
  forallb (printable cfg) v = true -> Forall (unit_given cfg) v -> nobreakb (prop ++ c_between cfg) = true ->
  own_line cfg (SnProp key prop ([v] :: others) kws deps) = prop ++ c_between cfg ++ wprint (abs cfg v) ++ c_after cfg.
Proof.
  intros Hj Hsingle Hp Hn Hb. unfold own_line.
  assert (Hv : own_value cfg ([v] :: others) = [v]).
  { unfold own_value. destruct others as [|o os]; [reflexivity|]. destruct Hsingle as [H|H]; [discriminate|].
    cbn [existsb]. rewrite H. reflexivity. }
  rewrite Hv. etransitivity; [exact (property_line cfg prop v Hj Hb Hn)|]. rewrite (value_print cfg v Hp). reflexivity.
Qed.
Lemma own_line_wrapped cfg key (prop : str) (v : cssvalue) o others kws deps :
  c_json cfg = false -> forallb wrappable v = true -> nobreakb (prop ++ c_between cfg) = true ->
  own_line cfg (SnProp key prop ([v] :: o :: others) kws deps) =
  prop ++ c_between cfg ++ wprint (relabel (field_of cfg) (abs cfg v)) ++ c_after cfg.
Proof.
  intros Hj Hw Hb. unfold own_line.
  assert (Hv : own_value cfg ([v] :: o :: others) = [wrap_with_field cfg v]).
  { unfold own_value. cbn [existsb]. rewrite (wrappable_value_no_field v Hw). reflexivity. }
  rewrite Hv. etransitivity; [exact (property_line cfg prop _ Hj Hb (wrapped_no_numbers cfg v 1))|].
  pose proof (wrapped_print cfg v Hw) as W. unfold wrap_with_field in W. rewrite W. reflexivity.
Qed.

(* THEOREM: one alternative, or a first alternative with fields of its own: printed as written, unwrapped *)
Theorem user_value_line_plain cfg sn key prop v others kws deps :
  name_ok key -> str_eqb key gradient_name = false -> c_context cfg = None -> c_json cfg = false ->
  In (SnProp key prop ([v] :: others) kws deps) sn ->
  (forall x, In x sn -> lower (sn_key x) = lower key -> x = SnProp key prop ([v] :: others) kws deps) ->
  others = [] \/ has_field v = true ->
  forallb (printable cfg) v = true -> Forall (unit_given cfg) v -> nobreakb (prop ++ c_between cfg) = true ->
  expand_with cfg sn key = Ok (prop ++ c_between cfg ++ wprint (abs cfg v) ++ c_after cfg).
Proof.
  intros Hk Hg Hc Hj Hin Hu Hsingle Hp Hn Hb.
  rewrite (key_reaches_property_snippet cfg sn key prop ([v] :: others) kws deps Hk Hg Hc Hj Hin Hu). f_equal.
  unfold own_line.
  assert (Hv : own_value cfg ([v] :: others) = [v]).
  { unfold own_value. destruct others as [|o os]; [reflexivity|]. destruct Hsingle as [H|H]; [discriminate|].
    cbn [existsb]. rewrite H. reflexivity. }
  rewrite Hv. etransitivity; [exact (property_line cfg prop v Hj Hb Hn)|]. rewrite (value_print cfg v Hp). reflexivity.
Qed.

(* THEOREM: several alternatives, the first without a field: every leaf token in a tabstop, numbered from 1 in
   document order; names of calls, parentheses, ", " and the blanks between tokens stay outside the tabstops *)
Theorem user_value_line_wrapped cfg sn key prop v o others kws deps :
  name_ok key -> str_eqb key gradient_name = false -> c_context cfg = None -> c_json cfg = false ->
  In (SnProp key prop ([v] :: o :: others) kws deps) sn ->
  (forall x, In x sn -> lower (sn_key x) = lower key -> x = SnProp key prop ([v] :: o :: others) kws deps) ->
  forallb wrappable v = true -> nobreakb (prop ++ c_between cfg) = true ->
  expand_with cfg sn key =
  Ok (prop ++ c_between cfg ++ wprint (relabel (field_of cfg) (abs cfg v)) ++ c_after cfg).
Proof.
  intros Hk Hg Hc Hj Hin Hu Hw Hb.
  rewrite (key_reaches_property_snippet cfg sn key prop ([v] :: o :: others) kws deps Hk Hg Hc Hj Hin Hu). f_equal.
  unfold own_line.
  assert (Hv : own_value cfg ([v] :: o :: others) = [wrap_with_field cfg v]).
  { unfold own_value. cbn [existsb]. rewrite (wrappable_value_no_field v Hw). reflexivity. }
  rewrite Hv. etransitivity; [exact (property_line cfg prop _ Hj Hb (wrapped_no_numbers cfg v 1))|].
  pose proof (wrapped_print cfg v Hw) as W. unfold wrap_with_field in W. rewrite W. reflexivity.
Qed.
