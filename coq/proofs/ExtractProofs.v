(* Proofs about the extract_abbreviation model (C11). *)
From Coq Require Import ZArith List Bool Lia ZifyBool.
From Emmet Require Import lib.Base model.Extract.
Import ListNotations.

(* The hard-coded character constants of the model agree with the tables
   regenerated from the source on every run. *)
Lemma tables_ok :
  ex_brackets = [c_lbrack; c_rbrack; c_lparen; c_rparen; c_lbrace; c_rbrace] /\
  ex_brace_pairs = [(c_lbrack, c_rbrack); (c_lparen, c_rparen); (c_lbrace, c_rbrace)] /\
  (forall c, In c [c_lbrack; c_lparen; c_lbrace] -> assoc_N c ex_brace_pairs = Some (brace_pair c)) /\
  ex_html_chars = [c_tab; c_space; c_dash; c_slash; c_colon; c_eq; c_lt; c_gt] /\
  ex_default_type = s_markup /\ ex_default_look_ahead = true /\ ex_default_prefix = [] /\
  ex_trim_chars = [c_star; c_plus; c_gt; c_caret].
Proof.
  repeat split; try reflexivity.
  intros c H. cbn in H. repeat destruct H as [H|H]; try subst c; try reflexivity; contradiction.
Qed.
