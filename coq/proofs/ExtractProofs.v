(* Proofs about the extract_abbreviation model (C11). *)
From Coq Require Import ZArith List Bool Lia ZifyBool.
From Emmet Require Import lib.Base lib.ExtractLib model.Extract.
Import ListNotations.

(* The hard-coded character constants of the model agree with the tables
   regenerated from the source on every run. *)
Lemma tables_ok :
  ex_brackets = [c_lbrack; c_rbrack; c_lparen; c_rparen; c_lbrace; c_rbrace] /\
  ex_brace_pairs = [(c_lbrack, c_rbrack); (c_lparen, c_rparen); (c_lbrace, c_rbrace)] /\
  (forall c, In c [c_lbrack; c_lparen; c_lbrace] -> assoc_N c ex_brace_pairs = Some (brace_pair c)) /\
  ex_html_chars = [c_tab; c_space; c_dash; c_slash; c_colon; c_eq; c_lt; c_gt] /\
  ex_default_type = s_markup /\ ex_default_look_ahead = true /\ ex_default_prefix = [] /\
  ex_trim_chars = [c_star; c_plus; c_gt; c_caret].
Proof.
  repeat split; try reflexivity.
  intros c H. cbn in H. repeat destruct H as [H|H]; try subst c; try reflexivity; contradiction.
Qed.

(* ================================================================== *)
(* Part 1.  Consistency                                                *)
(* ================================================================== *)

(* ---- generic list facts *)
Lemma slice_length : forall {A} (l : list A) a b, b <= length l -> length (slice l a b) = b - a.
Proof.
  intros A l a b H. unfold slice. rewrite firstn_length, skipn_length. lia.
Qed.

Lemma skipn_skipn' : forall {A} (l : list A) x y, skipn x (skipn y l) = skipn (y + x) l.
Proof.
  intros A l x y. revert l. induction y as [|y IH]; intros l; [reflexivity|].
  destruct l as [|a l]; cbn [skipn plus]; [destruct x; reflexivity|apply IH].
Qed.

Lemma skipn_slice : forall {A} (l : list A) a b k, skipn k (slice l a b) = slice l (a + k) b.
Proof.
  intros A l a b k. unfold slice. rewrite skipn_firstn_comm, skipn_skipn'. f_equal. lia.
Qed.

Lemma slice_suffix : forall {A} (l : list A) a b d s,
  a <= b -> b <= length l -> slice l a b = d ++ s -> s = slice l (b - length s) b.
Proof.
  intros A l a b d s Hab Hb E.
  assert (L : length (slice l a b) = b - a) by (apply slice_length; exact Hb).
  rewrite E, app_length in L.
  assert (S1 : s = skipn (length d) (slice l a b)).
  { rewrite E. rewrite skipn_app, skipn_all, Nat.sub_diag. reflexivity. }
  rewrite skipn_slice in S1. rewrite S1 at 1. f_equal. lia.
Qed.

Lemma slice_prefix_of_firstn : forall {A} (l : list A) n x pre,
  firstn n l = x ++ pre -> n <= length l -> slice l (n - length pre) n = pre.
Proof.
  intros A l n x pre E Hn.
  assert (L : length (firstn n l) = n) by (rewrite firstn_length; lia).
  rewrite E, app_length in L.
  unfold slice. replace (n - (n - length pre)) with (length pre) by lia.
  replace (n - length pre) with (length x) by lia.
  assert (E2 : skipn (length x) (firstn n l) = pre).
  { rewrite E, skipn_app, skipn_all, Nat.sub_diag. reflexivity. }
  rewrite skipn_firstn_comm in E2.
  replace (n - length x) with (length pre) in E2 by lia. exact E2.
Qed.

Lemma lstrip_by_spec : forall p s,
  exists d, s = d ++ lstrip_by p s /\
            (forall c r, lstrip_by p s = c :: r -> p c = false).
Proof.
  induction s as [|c s IH]; cbn [lstrip_by].
  - exists []. split; [reflexivity|discriminate].
  - destruct (p c) eqn:E.
    + destruct IH as [d [H1 H2]]. exists (c :: d). split; [cbn; f_equal; exact H1|exact H2].
    + exists []. split; [reflexivity|]. intros c' r H. inversion H; subst. exact E.
Qed.

Lemma starts_with_app : forall p s, starts_with p s = true -> exists t, s = p ++ t.
Proof.
  induction p as [|x p IH]; intros s H.
  - exists s. reflexivity.
  - destruct s as [|y s]; cbn in H; [discriminate|].
    apply andb_true_iff in H. destruct H as [H1 H2]. apply N.eqb_eq in H1. subst y.
    destruct (IH s H2) as [t Ht]. exists t. cbn. f_equal. exact Ht.
Qed.

(* ---- the scanning loops only ever return a suffix of what they were given *)
Lemma scan_suffix : forall mk lb rl st rem st',
  scan mk lb rl st = (rem, st') -> exists used, rl = used ++ rem.
Proof.
  induction rl as [|ch r IH]; intros st rem st' H; cbn [scan] in H.
  - inversion H; subst. exists []. reflexivity.
  - destruct (scan_step mk lb (ch :: r) ch st) as [s|s].
    + inversion H; subst. exists []. reflexivity.
    + destruct (IH _ _ _ H) as [u Hu]. exists (ch :: u). cbn. f_equal. exact Hu.
Qed.

Lemma start_loop_spec : forall rp rl skip n,
  start_loop rp skip rl = Some n ->
  exists pre suf, rl = pre ++ suf /\ length suf = n /\ consume_list rp suf = true.
Proof.
  induction rl as [|c r IH]; intros skip n H; cbn [start_loop] in H; [discriminate|].
  assert (K : forall k, start_loop rp k r = Some n ->
                        exists pre suf, c :: r = pre ++ suf /\ length suf = n /\ consume_list rp suf = true).
  { intros k Hk. destruct (IH _ _ Hk) as [pre [suf [E [L C]]]].
    exists (c :: pre), suf. split; [cbn; f_equal; exact E|split; assumption]. }
  destruct skip as [|k]; [|exact (K _ H)].
  destruct (consume_pair c_rbrack c_lbrack (c :: r)); [exact (K _ H)|].
  destruct (consume_pair c_rbrace c_lbrace (c :: r)); [exact (K _ H)|].
  destruct (consume_list rp (c :: r)) eqn:C; [|exact (K _ H)].
  inversion H; subst. exists [], (c :: r). split; [reflexivity|]. split; [reflexivity|exact C].
Qed.

(* get_start_offset: the offset returned is the right end of an occurrence of
   the prefix, left of pos *)
Lemma get_start_offset_spec : forall line p prefix start,
  p <= length line ->
  get_start_offset line p prefix = Some start ->
  start <= p /\
  (prefix = [] -> start = 0) /\
  (prefix <> [] -> length prefix <= start /\ slice line (start - length prefix) start = prefix).
Proof.
  intros line p prefix start Hp H. unfold get_start_offset in H.
  destruct prefix as [|x prefix].
  - inversion H; subst. split; [lia|]. split; [reflexivity|]. intros C; contradiction C; reflexivity.
  - set (pf := x :: prefix) in *.
    destruct (start_loop_spec _ _ _ _ H) as [pre [suf [E [L C]]]].
    assert (Lr : length (rev (firstn p line)) = p) by (rewrite rev_length, firstn_length; lia).
    rewrite E, app_length in Lr.
    unfold consume_list in C.
    assert (C' : starts_with (rev pf) suf = true).
    { destruct (rev pf) eqn:R; [discriminate|exact C]. }
    destruct (starts_with_app _ _ C') as [t Ht].
    (* firstn p line = rev suf' ... *)
    assert (F : firstn p line = rev t ++ pf ++ rev pre).
    { rewrite <- (rev_involutive (firstn p line)), E, Ht.
      rewrite !rev_app_distr, rev_involutive, app_assoc. reflexivity. }
    assert (Lpf : length suf = length pf + length t).
    { rewrite Ht, app_length, rev_length. reflexivity. }
    split; [lia|]. split; [intros D; discriminate|]. intros _. split; [lia|].
    (* firstn start line = rev t ++ pf *)
    assert (F2 : firstn start line = rev t ++ pf).
    { assert (firstn start (firstn p line) = rev t ++ pf).
      { rewrite F, app_assoc, firstn_app.
        replace (start - length (rev t ++ pf)) with 0
          by (rewrite app_length, rev_length; lia).
        rewrite firstn_O, app_nil_r. apply firstn_all2. rewrite app_length, rev_length. lia. }
      rewrite firstn_firstn in H0. replace (Nat.min start p) with start in H0 by lia. exact H0. }
    apply slice_prefix_of_firstn with (x := rev t); [exact F2|lia].
Qed.

(* ---- offset_past_auto_closed *)
Definition close_run (mk : bool) (s : str) : Prop := forall c, In c s -> is_close_brace mk c = true.

(* the text the look-ahead may cross: at most one quote, then closing brackets *)
Definition auto_closed_shape (mk : bool) (s : str) : Prop :=
  close_run mk s \/ exists q s', s = q :: s' /\ is_quote q = true /\ close_run mk s'.

Lemma span_firstn : forall p s, (forall c, In c (firstn (span p s) s) -> p c = true) /\ span p s <= length s.
Proof.
  induction s as [|c s [IH1 IH2]]; cbn [span].
  - split; [intros c []|cbn; lia].
  - destruct (p c) eqn:E.
    + split; [|cbn; lia]. cbn [firstn]. intros c' [H|H]; [subst; exact E|exact (IH1 _ H)].
    + split; [intros c' []|cbn; lia].
Qed.

Lemma past_auto_closed_spec : forall mk rest,
  past_auto_closed mk rest <= length rest /\
  auto_closed_shape mk (firstn (past_auto_closed mk rest) rest).
Proof.
  intros mk rest. unfold past_auto_closed. destruct rest as [|c rest'].
  - split; [cbn; lia|]. left. intros c [].
  - destruct (is_quote c) eqn:Q.
    + destruct (span_firstn (is_close_brace mk) rest') as [H1 H2].
      split; [cbn; lia|]. right. exists c, (firstn (span (is_close_brace mk) rest') rest').
      cbn [firstn]. repeat split; [exact Q|exact H1].
    + destruct (span_firstn (is_close_brace mk) (c :: rest')) as [H1 H2].
      split; [exact H2|]. left. exact H1.
Qed.

Lemma clamp_pos_le : forall line pos, clamp_pos line pos <= length line.
Proof. intros line [z|]; cbn [clamp_pos]; lia. Qed.

Lemma clamp_pos_Z : forall line pos,
  Z.of_nat (clamp_pos line pos) =
  match pos with
  | None => Z.of_nat (length line)
  | Some z => Z.min (Z.of_nat (length line)) (Z.max 0 z)
  end.
Proof. intros line [z|]; cbn [clamp_pos]; lia. Qed.

Lemma is_trim_dangling : forall c, is_trim c = false -> ~ dangling c.
Proof.
  intros c H D. unfold is_trim in H. rewrite (proj2 (proj2 (proj2 (proj2 (proj2 (proj2 (proj2 tables_ok))))))) in H.
  unfold dangling in D. cbn in D, H.
  repeat destruct D as [D|D]; try contradiction; subst c; cbn in H; discriminate.
Qed.

(* The statement, on the result record.  [c] is the clamped caret. *)
Definition consistent (line : str) (pos : option Z) (o : opts) (x : extracted) : Prop :=
  let len := Z.of_nat (length line) in
  let c := match pos with None => len | Some z => Z.min len (Z.max 0 z) end in
  let plen := Z.of_nat (length (o_prefix o)) in
  (* 0 <= start <= location <= end <= len(line) *)
  (0 <= x_start x /\ x_start x <= x_location x /\ x_location x <= x_end x /\ x_end x <= len)%Z /\
  (* abbreviation is the text between location and end *)
  x_abbr x = slice line (Z.to_nat (x_location x)) (Z.to_nat (x_end x)) /\
  (* it does not begin with a dangling operator *)
  (forall ch rest, x_abbr x = ch :: rest -> ~ dangling ch) /\
  (* a configured prefix is the text found at start, the abbreviation is to its right *)
  (o_prefix o <> [] ->
     slice line (Z.to_nat (x_start x)) (Z.to_nat (x_start x + plen)) = o_prefix o /\
     (x_start x + plen <= x_location x)%Z) /\
  (* look-ahead moves the end only across one quote and closing brackets *)
  (c <= x_end x)%Z /\
  (o_look o = false -> x_end x = c) /\
  auto_closed_shape (is_markup o) (slice line (Z.to_nat c) (Z.to_nat (x_end x))).

Lemma extract_consistent : forall line pos o x,
  extract_abbreviation line pos o = Some x -> consistent line pos o x.
Proof.
  intros line pos o x H. unfold extract_abbreviation in H.
  set (mk := is_markup o) in *.
  set (p0 := clamp_pos line pos) in *.
  assert (Hp0 : p0 <= length line) by apply clamp_pos_le.
  assert (Zp0 := clamp_pos_Z line pos). fold p0 in Zp0.
  destruct (past_auto_closed_spec mk (skipn p0 line)) as [Hk Hshape].
  rewrite skipn_length in Hk.
  set (k := past_auto_closed mk (skipn p0 line)) in *.
  set (p := if o_look o then p0 + k else p0) in *.
  assert (Hp : p <= length line) by (unfold p; destruct (o_look o); lia).
  assert (Hp0p : p0 <= p) by (unfold p; destruct (o_look o); lia).
  destruct (get_start_offset line p (o_prefix o)) as [start|] eqn:GS; [|discriminate].
  destruct (get_start_offset_spec _ _ _ _ Hp GS) as [Hsp [Hnop Hpre]].
  destruct (scan mk (bslash_before line start) (rev (slice line start p)) []) as [rem stack] eqn:SC.
  destruct (scan_suffix _ _ _ _ _ _ SC) as [used Hused].
  assert (Lrem : length rem <= p - start).
  { assert (L : length (rev (slice line start p)) = p - start) by (rewrite rev_length; apply slice_length; exact Hp).
    rewrite Hused, app_length in L. lia. }
  destruct stack; [|discriminate].
  set (spos := start + length rem) in *.
  destruct (Nat.eqb spos p) eqn:EQ; [discriminate|].
  apply Nat.eqb_neq in EQ.
  destruct (lstrip_by_spec is_trim (slice line spos p)) as [d [Hd Hhead]].
  set (abbr := lstrip_by is_trim (slice line spos p)) in *.
  assert (Hspos : spos <= p) by (unfold spos; lia).
  assert (Labbr : length abbr <= p - spos).
  { assert (L : length (slice line spos p) = p - spos) by (apply slice_length; exact Hp).
    rewrite Hd, app_length in L. lia. }
  assert (Habbr : abbr = slice line (p - length abbr) p).
  { apply slice_suffix with (a := spos) (d := d); assumption. }
  inversion H; subst x; clear H. unfold consistent. cbn [x_abbr x_location x_start x_end].
  rewrite <- Zp0.
  assert (Hend : slice line (Z.to_nat (Z.of_nat p0)) (Z.to_nat (Z.of_nat p)) = firstn (p - p0) (skipn p0 line)).
  { rewrite !Nat2Z.id. reflexivity. }
  assert (Hlook : o_look o = false -> Z.of_nat p = Z.of_nat p0).
  { intros HL. unfold p. rewrite HL. reflexivity. }
  assert (Hsh : auto_closed_shape mk (slice line (Z.to_nat (Z.of_nat p0)) (Z.to_nat (Z.of_nat p)))).
  { rewrite Hend. unfold p. destruct (o_look o).
    - replace (p0 + k - p0) with k by lia. exact Hshape.
    - rewrite Nat.sub_diag. left. intros c []. }
  assert (Hab2 : abbr = slice line (Z.to_nat (Z.of_nat p - Z.of_nat (length abbr))) (Z.to_nat (Z.of_nat p))).
  { replace (Z.to_nat (Z.of_nat p - Z.of_nat (length abbr))) with (p - length abbr) by lia.
    rewrite Nat2Z.id. exact Habbr. }
  assert (Hdang : forall ch rest, abbr = ch :: rest -> ~ dangling ch).
  { intros ch rest E. apply is_trim_dangling. exact (Hhead _ _ E). }
  destruct (o_prefix o) as [|pc ps] eqn:P.
  - split; [lia|]. split; [exact Hab2|]. split; [exact Hdang|].
    split; [intros C; contradiction C; reflexivity|].
    split; [lia|]. split; [exact Hlook|exact Hsh].
  - assert (Hne : pc :: ps <> []) by discriminate.
    destruct (Hpre Hne) as [H1 H2]. unfold spos in *.
    split; [lia|]. split; [exact Hab2|]. split; [exact Hdang|].
    split.
    { intros _.
      replace (Z.to_nat (Z.of_nat start - Z.of_nat (length (pc :: ps)))) with (start - length (pc :: ps)) by lia.
      replace (Z.to_nat (Z.of_nat start - Z.of_nat (length (pc :: ps)) + Z.of_nat (length (pc :: ps)))) with start by lia.
      split; [exact H2|lia]. }
    split; [lia|]. split; [exact Hlook|exact Hsh].
Qed.
