(* C04 -- "the deepest last element": on every forest, deepest_node(items[-1]) is the node visited
   last in document order, and insert_text changes the value of that node only. *)
From Coq Require Import ZArith List Bool Lia.
From Emmet Require Import lib.Base model.MarkupTokenizer model.MarkupParser model.MarkupConvert.
Local Open Scope nat_scope.

(* a node without its children *)
Record payload := mkPl {
  pl_name : option str; pl_value : option (list vtok); pl_repeat : option rep;
  pl_attrs : option (list aattr); pl_self : bool }.

(* document order: preorder list of (depth, payload) *)
Fixpoint flat (d : nat) (n : anode) : list (nat * payload) :=
  match n with
  | ANode nm v rp at_ ch sc =>
      (d, mkPl nm v rp at_ sc) ::
      (fix go (l : list anode) := match l with [] => [] | c :: r => flat (S d) c ++ go r end) ch
  end.
Definition flatL (d : nat) (l : list anode) : list (nat * payload) := flat_map (flat d) l.

Lemma flat_node d nm v rp at_ ch sc :
  flat d (ANode nm v rp at_ ch sc) = (d, mkPl nm v rp at_ sc) :: flatL (S d) ch.
Proof.
  cbn [flat]; f_equal; try (induction ch as [|c r IH]; [reflexivity|cbn [flatL flat_map]; rewrite IH; reflexivity]).
Qed.

(* apply [g] to the last element of a list *)
Fixpoint map_last {A} (g : A -> A) (l : list A) : list A :=
  match l with
  | [] => []
  | [x] => [g x]
  | x :: l' => x :: map_last g l'
  end.

Lemma map_last_app {A} (g : A -> A) (a b : list A) : b <> [] -> map_last g (a ++ b) = a ++ map_last g b.
Proof.
  intros Hb. induction a as [|x a IH]; [reflexivity|].
  cbn [app]. destruct (a ++ b) as [|y l] eqn:E.
  - destruct a; [cbn in E; congruence|discriminate].
  - cbn [map_last]. cbn [map_last] in IH. rewrite <- IH. reflexivity.
Qed.

Lemma map_last_cons {A} (g : A -> A) x (l : list A) : l <> [] -> map_last g (x :: l) = x :: map_last g l.
Proof. intros H. destruct l; [congruence|reflexivity]. Qed.

(* what insert_text does to a node: only the value changes *)
Definition value_insert (v : option (list vtok)) (text : str) : list vtok :=
  match v with
  | Some ((_ :: _) as l) =>
      match last_opt l with
      | Some (VStr s) => drop_last l ++ [VStr (s ++ text)]
      | _ => l ++ [VStr text]
      end
  | _ => [VStr text]
  end.
Definition pl_insert (text : str) (x : nat * payload) : nat * payload :=
  let '(d, p) := x in
  (d, mkPl (pl_name p) (Some (value_insert (pl_value p) text)) (pl_repeat p) (pl_attrs p) (pl_self p)).

Lemma anode_ind' (P : anode -> Prop) :
  (forall nm v rp at_ ch sc, Forall P ch -> P (ANode nm v rp at_ ch sc)) -> forall n, P n.
Proof.
  intros H. fix IH 1. intros [nm v rp at_ ch sc]. apply H.
  induction ch as [|c r IHr]; constructor; [apply IH|exact IHr].
Qed.

Lemma flat_nonempty d n : flat d n <> [].
Proof. destruct n. cbn [flat]. discriminate. Qed.
Lemma flatL_nonempty d l : l <> [] -> flatL d l <> [].
Proof.
  destruct l as [|c r]; [congruence|]. intros _. cbn [flatL flat_map].
  pose proof (flat_nonempty d c). destruct (flat d c); [congruence|discriminate].
Qed.

(* on a list: if [h] acts as [g] on the flattening of each element, so does map_last *)
Lemma flatL_map_last d (h : anode -> anode) (g : nat * payload -> nat * payload) (l : list anode) :
  Forall (fun n => flat d (h n) = map_last g (flat d n)) l ->
  flatL d (map_last h l) = map_last g (flatL d l).
Proof.
  induction l as [|x l IH]; intros HF; [reflexivity|].
  inversion HF as [|y z Hx HF']; subst.
  destruct l as [|x2 l'].
  - cbn [map_last flatL flat_map]. rewrite !app_nil_r. exact Hx.
  - rewrite map_last_cons by discriminate.
    change (flatL d (x :: map_last h (x2 :: l'))) with (flat d x ++ flatL d (map_last h (x2 :: l'))).
    rewrite IH by exact HF'.
    change (flatL d (x :: x2 :: l')) with (flat d x ++ flatL d (x2 :: l')).
    rewrite map_last_app by (apply flatL_nonempty; discriminate). reflexivity.
Qed.

Lemma on_deepest_go (f : anode -> anode) (ch : list anode) :
  (fix go (l : list anode) : list anode :=
     match l with
     | [] => []
     | [x] => [on_deepest f x]
     | x :: l' => x :: go l'
     end) ch = map_last (on_deepest f) ch.
Proof. induction ch as [|x l IH]; [reflexivity|]. destruct l; [reflexivity|]. rewrite IH. reflexivity. Qed.

Lemma on_deepest_node f nm v rp at_ ch sc :
  on_deepest f (ANode nm v rp at_ ch sc) =
    match ch with
    | [] => f (ANode nm v rp at_ ch sc)
    | _ => ANode nm v rp at_ (map_last (on_deepest f) ch) sc
    end.
Proof.
  cbn [on_deepest]. rewrite on_deepest_go.
  destruct ch as [|c r]; [reflexivity|].
  destruct (rev (c :: r)) eqn:E; [|reflexivity].
  apply (f_equal (@length anode)) in E. rewrite rev_length in E. discriminate.
Qed.

(* deepest_node + insert_text = change the value of the node visited last *)
Theorem on_deepest_flat text : forall n d,
  flat d (on_deepest (fun n => insert_text n text) n) = map_last (pl_insert text) (flat d n).
Proof.
  induction n as [nm v rp at_ ch sc IH] using anode_ind'. intros d.
  rewrite on_deepest_node. destruct ch as [|c r].
  - cbn [insert_text]. rewrite !flat_node. cbn [flatL flat_map map_last pl_insert pl_name pl_value pl_repeat pl_attrs pl_self value_insert].
    reflexivity.
  - rewrite !flat_node.
    rewrite (flatL_map_last (S d) _ (pl_insert text)).
    + rewrite map_last_cons by (apply flatL_nonempty; discriminate). reflexivity.
    + eapply Forall_impl; [|exact IH]. intros a Ha. apply Ha.
Qed.

Lemma on_last_deepest_map_last f items : on_last_deepest f items = map_last (on_deepest f) items.
Proof.
  unfold on_last_deepest, last_opt.
  destruct (rev items) as [|x r] eqn:E.
  - apply (f_equal (@rev anode)) in E. rewrite rev_involutive in E. subst. reflexivity.
  - assert (Hi : items = rev r ++ [x]) by (rewrite <- (rev_involutive items), E; reflexivity). subst items.
    unfold drop_last. rewrite app_length. cbn [length].
    replace (length (rev r) + 1 - 1) with (length (rev r)) by lia.
    rewrite firstn_app, firstn_all, Nat.sub_diag. cbn [firstn]. rewrite app_nil_r.
    rewrite map_last_app by discriminate. reflexivity.
Qed.

(* "inserted once into the deepest last element", for ALL forests: in document order, every node
   keeps its depth and payload except the very last one, whose value receives the text at its end *)
Theorem insert_into_deepest_last text items d :
  flatL d (on_last_deepest (fun n => insert_text n text) items) = map_last (pl_insert text) (flatL d items).
Proof.
  rewrite on_last_deepest_map_last. apply flatL_map_last.
  apply Forall_forall. intros n _. apply on_deepest_flat.
Qed.
