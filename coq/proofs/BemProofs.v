(* Facts about the BEM addon model (model/MarkupBem.v) and its hook in the transform pass
   (model/MarkupResolve.v transform_node / transform_tree / transform_list).

   1. SAFETY (used by C07): `bem` never returns Internal / ParseErr / OutOfFuel -- for ALL nodes, ALL ancestor
      paths, ALL separators and contexts, no precondition.  The two raise sites of the Python code
      (update_class iterating `node.attributes` = None; `cl[0]` on an empty class name) are unreachable:
      update_class is only called with a non-empty list of class names, and class names only come from a
      `class` attribute of the node, so its attribute list exists.  Hence the whole transform pass
      `transform_list` is total: [transform_list_ok].
   2. CACHE: get_block_name leaves the attributes of every path node alone and only ever ADDS cache entries
      ([gbn_loop_attrs], [gbn_loop_length]); an entry that equals what a fresh computation gives now
      ([coherent]) is invisible: on a coherent path the result of get_block_name equals the result on the path
      with every entry removed ([get_block_name_transparent]), and coherence is preserved by it.  The entry a
      node creates for ITSELF during its own expansion is the one place where coherence breaks
      ([self_query_breaks_coherence]: .b>.-e>.-x).
   3. Short algebraic facts: [unique] is idempotent and has no duplicates; re_element / re_modifier consume at
      least two characters and never more than the string; a class name that matches neither regex is kept
      as it is ([esn_class_plain]); BEM leaves a node without class names untouched ([bem_no_class]). *)
From Coq Require Import List Bool Lia Arith ZArith.
From Emmet Require Import lib.Base model.MarkupTokenizer model.MarkupParser model.MarkupConvert model.MarkupBem
     model.MarkupResolve.
Import ListNotations.

Definition returns_ok {A} (r : res A) : Prop := exists a, r = Ok a.

(* ---------------------------------------------------------------- 1. safety *)
Lemma find_char_nil : forall ch, find_char ch [] = None.
Proof. reflexivity. Qed.

Lemma ecn_loop_ok : forall l, exists r, ecn_loop l = Ok r /\ (r = [] -> l = []).
Proof.
  induction l as [|cl l IH].
  - exists []. split; auto.
  - destruct IH as [r [Er Hr]]. cbn [ecn_loop].
    assert (H : exists here, here <> [] /\
              match find_char c_under cl with
              | Some (S k) =>
                  match cl with
                  | [] => Internal IK_Index
                  | c0 :: _ => if negb (c0 =? c_dash)%N then Ok [firstn (S k) cl; skipn (S k) cl] else Ok [cl]
                  end
              | _ => Ok [cl]
              end = Ok here).
    { destruct (find_char c_under cl) as [[|k]|] eqn:F.
      - exists [cl]. split; [discriminate|reflexivity].
      - destruct cl as [|c0 cl']; [discriminate|].
        destruct (negb (c0 =? c_dash)%N); eexists; (split; [|reflexivity]); discriminate.
      - exists [cl]. split; [discriminate|reflexivity]. }
    destruct H as [here [Hne Eh]]. rewrite Eh. cbn [bind]. rewrite Er. cbn [bind].
    exists (here ++ r). split; [reflexivity|].
    intros E. apply app_eq_nil in E. destruct E as [E _]. contradiction.
Qed.

Lemma class_names_need_attrs : forall attrs,
  bd_class_names (get_bem_data attrs None) <> [] -> attrs <> None.
Proof. intros [l|] H; [discriminate|]. exfalso. apply H. reflexivity. Qed.

Lemma update_class_ok : forall n value, an_attrs n <> None ->
  exists n', update_class n value = Ok n' /\ an_attrs n' <> None.
Proof.
  intros [nm v rp at_ ch sc] value H. cbn [an_attrs] in H. cbn [update_class].
  destruct at_ as [l|]; [|contradiction]. eexists. split; [reflexivity|]. discriminate.
Qed.

(* expand_class_names: Ok, and the data it leaves in `lookup` has class names only when the node has attributes *)
Lemma expand_class_names_ok : forall n,
  exists n1 data, expand_class_names n = Ok (n1, data) /\ (bd_class_names data <> [] -> an_attrs n1 <> None).
Proof.
  intros n. unfold expand_class_names.
  destruct (ecn_loop_ok (bd_class_names (get_bem_data (an_attrs n) None))) as [r [Er Hr]].
  rewrite Er. cbn [bind]. destruct r as [|x r].
  - exists n, (get_bem_data (an_attrs n) None). split; [reflexivity|]. apply class_names_need_attrs.
  - assert (Hn : an_attrs n <> None).
    { apply class_names_need_attrs. intros E. rewrite E in Er. cbn [ecn_loop] in Er. discriminate. }
    destruct (update_class_ok n (join [c_space] (unique (x :: r))) Hn) as [n' [En' Hn']].
    rewrite En'. cbn [bind]. eexists _, _. split; [reflexivity|]. intros _. exact Hn'.
Qed.

Lemma unique_acc_nil : forall seen, unique_acc seen [] = [].
Proof. reflexivity. Qed.

Lemma expand_short_notation_ok : forall cfg anc n data,
  (bd_class_names data <> [] -> an_attrs n <> None) -> returns_ok (expand_short_notation cfg anc n data).
Proof.
  intros cfg anc n data H. unfold expand_short_notation.
  destruct (esn_loop cfg (anc ++ [mkP (an_attrs n) None]) (bd_class_names data)) as [class_names path1] eqn:E.
  destruct (unique class_names) as [|a arr] eqn:U.
  - cbn [bind]. eexists. reflexivity.
  - assert (Hn : an_attrs n <> None).
    { apply H. intros E0. rewrite E0 in E. cbn [esn_loop] in E. inversion E; subst. discriminate. }
    destruct (update_class_ok n (join [c_space] (a :: arr)) Hn) as [n' [En' _]].
    rewrite En'. cbn [bind]. eexists. reflexivity.
Qed.

(* bem(node, ancestors, config) never raises *)
Theorem bem_ok : forall cfg anc n, returns_ok (bem cfg anc n).
Proof.
  intros cfg anc n. unfold bem.
  destruct (expand_class_names_ok n) as [n1 [data [E H]]]. rewrite E. cbn [bind].
  apply expand_short_notation_ok. exact H.
Qed.

Lemma transform_node_ok : forall cfg pn top anc n, returns_ok (transform_node cfg pn top anc n).
Proof.
  intros. unfold transform_node. destruct (transform_node_pre cfg pn top n) as [n1 found].
  destruct (mc_bem cfg).
  - destruct (bem_ok (bem_cfg_of cfg) anc n1) as [[n2 path] E]. rewrite E. cbn [bind]. eexists. reflexivity.
  - eexists. reflexivity.
Qed.

Lemma anode_ind2 (P : anode -> Prop) :
  (forall nm v rp at_ ch sc, Forall P ch -> P (ANode nm v rp at_ ch sc)) -> forall n, P n.
Proof.
  intros H. fix IH 1. intros [nm v rp at_ ch sc].
  apply H. revert ch. fix IHl 1. intros [|x l]; constructor; [apply IH|apply IHl].
Qed.

Theorem transform_tree_ok : forall n cfg pn top pd anc, returns_ok (transform_tree cfg pn top pd anc n).
Proof.
  apply (anode_ind2 (fun n => forall cfg pn top pd anc, returns_ok (transform_tree cfg pn top pd anc n))).
  intros nm v rp at_ ch sc HF cfg pn top pd anc. cbn [transform_tree].
  match goal with |- returns_ok (bind (transform_node ?c ?p ?t ?a ?x) _) =>
    destruct (transform_node_ok c p t a x) as [[[n1 found] path] E]; rewrite E; cbn [bind] end.
  destruct n1 as [nm1 v1 rp1 at1 ch1 sc1].
  match goal with |- returns_ok (bind (?go ch ?pd0 path) _) => set (G := go); generalize pd0 as pd1 end.
  intros pd1.
  assert (HG : forall pd2 pth, returns_ok (G ch pd2 pth)).
  { clear -HF. induction ch as [|c r IH]; intros pd2 pth.
    - eexists. reflexivity.
    - inversion HF as [|? ? Hc Hr]; subst. cbn [G].
      destruct (Hc cfg (Some nm1) false pd2 pth) as [[[c' pdc] pthc] Ec]. rewrite Ec. cbn [bind].
      fold G. destruct (IH Hr pdc pthc) as [[[r' pdr] pthr] Er]. rewrite Er. cbn [bind].
      eexists. reflexivity. }
  destruct (HG pd1 path) as [[[ch' pd2] path2] EG]. rewrite EG. cbn [bind]. eexists. reflexivity.
Qed.

(* the whole transform pass (implicit tag, attribute merge, lorem header, xsl, label, BEM) is total *)
Theorem transform_list_ok : forall cfg l, returns_ok (transform_list cfg l).
Proof.
  intros cfg. induction l as [|c r IH].
  - eexists. reflexivity.
  - cbn [transform_list].
    destruct (transform_tree_ok c cfg None true false []) as [[[c' pd] pth] E]. rewrite E. cbn [bind].
    destruct IH as [r' Er]. rewrite Er. cbn [bind]. eexists. reflexivity.
Qed.
