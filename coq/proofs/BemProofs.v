(* Facts about the BEM addon model (model/MarkupBem.v) and its hook in the transform pass
   (model/MarkupResolve.v transform_node / transform_tree / transform_list).

   1. SAFETY (used by C07): `bem` never returns Internal / ParseErr / OutOfFuel -- for ALL nodes, ALL ancestor
      paths, ALL separators and contexts, no precondition.  The two raise sites of the Python code
      (update_class iterating `node.attributes` = None; `cl[0]` on an empty class name) are unreachable:
      update_class is only called with a non-empty list of class names, and class names only come from a
      `class` attribute of the node, so its attribute list exists.  Hence the whole transform pass
      `transform_list` is total: [transform_list_ok].
   2. CACHE: get_block_name leaves the attributes of every path node alone and only ever ADDS cache entries
      ([gbn_loop_attrs], [gbn_loop_length]); an entry that equals what a fresh computation gives now
      ([coherent]) is invisible: on a coherent path the result of get_block_name equals the result on the path
      with every entry removed ([get_block_name_transparent]), and coherence is preserved by it.  The entry a
      node creates for ITSELF during its own expansion is the one place where coherence breaks
      ([self_query_breaks_coherence]: .b>.-e>.-x).
      WALK LEVEL ([transform_tree_transparent]): when the real walk hands only coherent paths to the children of
      every node ([clean_walk]; in particular when no node queries its own block: [self_none_coherent]) it returns
      exactly the tree of the cache-free walk [transform_tree_nc].
   3. Short algebraic facts: [unique] is idempotent and has no duplicates; re_element / re_modifier consume at
      least two characters and never more than the string; a class name that matches neither regex is kept
      as it is ([esn_class_plain]); BEM leaves a node without class names untouched ([bem_no_class]). *)
From Coq Require Import List Bool Lia Arith ZArith.
From Emmet Require Import lib.Base model.MarkupTokenizer model.MarkupParser model.MarkupConvert model.MarkupBem
     model.MarkupResolve.
Import ListNotations.

Definition returns_ok {A} (r : res A) : Prop := exists a, r = Ok a.

(* ---------------------------------------------------------------- 1. safety *)
Lemma find_char_nil : forall ch, find_char ch [] = None.
Proof. reflexivity. Qed.

Lemma ecn_loop_ok : forall l, exists r, ecn_loop l = Ok r /\ (r = [] -> l = []).
Proof.
  induction l as [|cl l IH].
  - exists []. split; auto.
  - destruct IH as [r [Er Hr]]. cbn [ecn_loop].
    assert (H : exists here, here <> [] /\
              match find_char c_under cl with
              | Some (S k) =>
                  match cl with
                  | [] => Internal IK_Index
                  | c0 :: _ => if negb (c0 =? c_dash)%N then Ok [firstn (S k) cl; skipn (S k) cl] else Ok [cl]
                  end
              | _ => Ok [cl]
              end = Ok here).
    { destruct (find_char c_under cl) as [[|k]|] eqn:F.
      - exists [cl]. split; [discriminate|reflexivity].
      - destruct cl as [|c0 cl']; [discriminate|].
        destruct (negb (c0 =? c_dash)%N); eexists; (split; [|reflexivity]); discriminate.
      - exists [cl]. split; [discriminate|reflexivity]. }
    destruct H as [here [Hne Eh]]. rewrite Eh. cbn [bind]. rewrite Er. cbn [bind].
    exists (here ++ r). split; [reflexivity|].
    intros E. apply app_eq_nil in E. destruct E as [E _]. contradiction.
Qed.

Lemma class_names_need_attrs : forall attrs,
  bd_class_names (get_bem_data attrs None) <> [] -> attrs <> None.
Proof. intros [l|] H; [discriminate|]. exfalso. apply H. reflexivity. Qed.

Lemma update_class_ok : forall n value, an_attrs n <> None ->
  exists n', update_class n value = Ok n' /\ an_attrs n' <> None.
Proof.
  intros [nm v rp at_ ch sc] value H. cbn [an_attrs] in H. cbn [update_class].
  destruct at_ as [l|]; [|contradiction]. eexists. split; [reflexivity|]. discriminate.
Qed.

(* expand_class_names: Ok, and the data it leaves in `lookup` has class names only when the node has attributes *)
Lemma expand_class_names_ok : forall n,
  exists n1 data, expand_class_names n = Ok (n1, data) /\ (bd_class_names data <> [] -> an_attrs n1 <> None).
Proof.
  intros n. unfold expand_class_names.
  destruct (ecn_loop_ok (bd_class_names (get_bem_data (an_attrs n) None))) as [r [Er Hr]].
  rewrite Er. cbn [bind]. destruct r as [|x r].
  - exists n, (get_bem_data (an_attrs n) None). split; [reflexivity|]. apply class_names_need_attrs.
  - assert (Hn : an_attrs n <> None).
    { apply class_names_need_attrs. intros E. rewrite E in Er. cbn [ecn_loop] in Er. discriminate. }
    destruct (update_class_ok n (join [c_space] (unique (x :: r))) Hn) as [n' [En' Hn']].
    rewrite En'. cbn [bind]. eexists _, _. split; [reflexivity|]. intros _. exact Hn'.
Qed.

Lemma unique_acc_nil : forall seen, unique_acc seen [] = [].
Proof. reflexivity. Qed.

Lemma expand_short_notation_ok : forall cfg anc n data,
  (bd_class_names data <> [] -> an_attrs n <> None) -> returns_ok (expand_short_notation cfg anc n data).
Proof.
  intros cfg anc n data H. unfold expand_short_notation.
  destruct (esn_loop cfg (anc ++ [mkP (an_attrs n) None]) (bd_class_names data)) as [class_names path1] eqn:E.
  destruct (unique class_names) as [|a arr] eqn:U.
  - cbn [bind]. eexists. reflexivity.
  - assert (Hn : an_attrs n <> None).
    { apply H. intros E0. rewrite E0 in E. cbn [esn_loop] in E. inversion E; subst. discriminate. }
    destruct (update_class_ok n (join [c_space] (a :: arr)) Hn) as [n' [En' _]].
    rewrite En'. cbn [bind]. eexists. reflexivity.
Qed.

(* bem(node, ancestors, config) never raises *)
Theorem bem_ok : forall cfg anc n, returns_ok (bem cfg anc n).
Proof.
  intros cfg anc n. unfold bem.
  destruct (expand_class_names_ok n) as [n1 [data [E H]]]. rewrite E. cbn [bind].
  apply expand_short_notation_ok. exact H.
Qed.

Lemma transform_node_ok : forall cfg pn top anc n, returns_ok (transform_node cfg pn top anc n).
Proof.
  intros. unfold transform_node. destruct (transform_node_pre cfg pn top n) as [n1 found].
  destruct (mc_bem cfg).
  - destruct (bem_ok (bem_cfg_of cfg) anc n1) as [[n2 path] E]. rewrite E. cbn [bind]. eexists. reflexivity.
  - eexists. reflexivity.
Qed.

Lemma anode_ind2 (P : anode -> Prop) :
  (forall nm v rp at_ ch sc, Forall P ch -> P (ANode nm v rp at_ ch sc)) -> forall n, P n.
Proof.
  intros H. fix IH 1. intros [nm v rp at_ ch sc].
  apply H. revert ch. fix IHl 1. intros [|x l]; constructor; [apply IH|apply IHl].
Qed.

Theorem transform_tree_ok : forall n cfg pn top pd anc, returns_ok (transform_tree cfg pn top pd anc n).
Proof.
  apply (anode_ind2 (fun n => forall cfg pn top pd anc, returns_ok (transform_tree cfg pn top pd anc n))).
  intros nm v rp at_ ch sc HF cfg pn top pd anc. cbn [transform_tree].
  match goal with |- returns_ok (bind (transform_node ?c ?p ?t ?a ?x) _) =>
    destruct (transform_node_ok c p t a x) as [[[n1 found] path] E]; rewrite E; cbn [bind] end.
  destruct n1 as [nm1 v1 rp1 at1 ch1 sc1].
  match goal with |- returns_ok (bind (?go ch ?pd0 path) _) => set (G := go); generalize pd0 as pd1 end.
  intros pd1.
  assert (HG : forall pd2 pth, returns_ok (G ch pd2 pth)).
  { clear -HF. induction ch as [|c r IH]; intros pd2 pth.
    - eexists. reflexivity.
    - inversion HF as [|? ? Hc Hr]; subst. cbn [G].
      destruct (Hc cfg (Some nm1) false pd2 pth) as [[[c' pdc] pthc] Ec]. rewrite Ec. cbn [bind].
      fold G. destruct (IH Hr pdc pthc) as [[[r' pdr] pthr] Er]. rewrite Er. cbn [bind].
      eexists. reflexivity. }
  destruct (HG pd1 path) as [[[ch' pd2] path2] EG]. rewrite EG. cbn [bind]. eexists. reflexivity.
Qed.

(* the whole transform pass after the lorem draws (implicit tag, attribute merge, lorem name/attribute part, xsl,
   label, BEM) is total; the drawing pass lorem_fill is proofs/LoremProofs.v *)
Theorem transform_forest_ok : forall cfg l, returns_ok (transform_forest cfg l).
Proof.
  intros cfg. induction l as [|c r IH].
  - eexists. reflexivity.
  - cbn [transform_forest].
    destruct (transform_tree_ok c cfg None true false []) as [[[c' pd] pth] E]. rewrite E. cbn [bind].
    destruct IH as [r' Er]. rewrite Er. cbn [bind]. eexists. reflexivity.
Qed.

(* ---------------------------------------------------------------- 2. the module-lifetime cache *)
(* an entry is coherent when it equals what get_bem_data would compute from the node's attributes now *)
Definition coherent (p : pnode) : Prop :=
  match pn_cache p with
  | None => True
  | Some d => d = parse_bem (class_value_of (pn_attrs p))
  end.
Definition same_attrs (p q : list pnode) : Prop := map pn_attrs p = map pn_attrs q.
(* two cache states of the same path, both coherent *)
Definition cache_rel (p q : list pnode) : Prop := same_attrs p q /\ Forall coherent p /\ Forall coherent q.
Definition uncached (path : list pnode) : list pnode := map (fun p => mkP (pn_attrs p) None) path.

Lemma coherent_data : forall p, coherent p ->
  get_bem_data (pn_attrs p) (pn_cache p) = parse_bem (class_value_of (pn_attrs p)).
Proof. intros [a [d|]] H; cbn in *; [subst; reflexivity|reflexivity]. Qed.

Lemma coherent_fresh : forall a d, d = get_bem_data a None -> coherent (mkP a (Some d)).
Proof. intros a d ->. reflexivity. Qed.

Lemma R_uncached : forall p, Forall coherent p -> cache_rel p (uncached p).
Proof.
  intros p H. split; [|split; [exact H|]].
  - unfold same_attrs, uncached. rewrite map_map. reflexivity.
  - unfold uncached. apply Forall_forall. intros x Hx. apply in_map_iff in Hx. destruct Hx as [y [<- _]]. exact I.
Qed.

Lemma same_attrs_length : forall p q, same_attrs p q -> length p = length q.
Proof. intros p q H. unfold same_attrs in H. apply (f_equal (@length _)) in H. rewrite !map_length in H. exact H. Qed.

Lemma same_attrs_nth : forall p q ix, same_attrs p q ->
  match nth_error p ix, nth_error q ix with
  | Some a, Some b => pn_attrs a = pn_attrs b
  | None, None => True
  | _, _ => False
  end.
Proof.
  induction p as [|a p IH]; intros [|b q] ix H; try discriminate.
  - destruct ix; exact I.
  - inversion H. destruct ix as [|k]; cbn [nth_error]; [assumption|]. apply IH. assumption.
Qed.

Lemma set_nth_length : forall A ix (x : A) l, length (set_nth ix x l) = length l.
Proof. intros A ix x l. revert ix. induction l as [|a l IH]; intros [|k]; cbn [set_nth length]; auto. Qed.

Lemma set_nth_attrs : forall path ix p0 p, nth_error path ix = Some p0 -> pn_attrs p = pn_attrs p0 ->
  map pn_attrs (set_nth ix p path) = map pn_attrs path.
Proof.
  induction path as [|a path IH]; intros [|k] p0 p H E; cbn [nth_error] in H; try discriminate.
  - inversion H; subst. cbn [set_nth map]. rewrite E. reflexivity.
  - cbn [set_nth map]. f_equal. eapply IH; eauto.
Qed.

Lemma set_nth_attrs' : forall path ix p0 d, nth_error path ix = Some p0 ->
  map pn_attrs (set_nth ix (mkP (pn_attrs p0) d) path) = map pn_attrs path.
Proof. intros. eapply set_nth_attrs; eauto. Qed.

Lemma set_nth_Forall : forall (P : pnode -> Prop) path ix p, Forall P path -> P p -> Forall P (set_nth ix p path).
Proof.
  intros P. induction path as [|a path IH]; intros [|k] p HF Hp; cbn [set_nth]; auto;
    inversion HF; subst; constructor; auto.
Qed.

Lemma nth_error_Forall : forall (P : pnode -> Prop) path ix p, Forall P path -> nth_error path ix = Some p -> P p.
Proof. intros P path ix p HF H. rewrite Forall_forall in HF. apply HF. eapply nth_error_In; eauto. Qed.

(* one round of the while loop of get_block_name *)
Definition gbn_step (path : list pnode) (ix : nat) : option str * list pnode :=
  match get_item path ix with
  | Some p =>
      let d := get_bem_data (pn_attrs p) (pn_cache p) in
      (truthy_str (bd_block d), set_nth ix (mkP (pn_attrs p) (Some d)) path)
  | None => (None, path)
  end.
Lemma gbn_loop_unfold : forall path ix,
  gbn_loop path ix =
    let '(found, path1) := gbn_step path ix in
    match found with
    | Some b => (Some b, path1)
    | None => match ix with O => (None, path1) | S k => gbn_loop path1 k end
    end.
Proof. intros path [|k]; reflexivity. Qed.

Lemma gbn_step_R : forall p q ix, cache_rel p q ->
  fst (gbn_step p ix) = fst (gbn_step q ix) /\ cache_rel (snd (gbn_step p ix)) (snd (gbn_step q ix))
  /\ same_attrs (snd (gbn_step p ix)) p.
Proof.
  intros p q ix [HS [HP HQ]]. unfold gbn_step, get_item.
  pose proof (same_attrs_nth p q ix HS) as HN.
  destruct (nth_error p ix) as [a|] eqn:EA; destruct (nth_error q ix) as [b|] eqn:EB; try contradiction.
  - pose proof (nth_error_Forall _ _ _ _ HP EA) as CA. pose proof (nth_error_Forall _ _ _ _ HQ EB) as CB.
    rewrite (coherent_data a CA), (coherent_data b CB). cbn [fst snd]. split; [rewrite HN; reflexivity|].
    split; [split; [|split]|].
    + unfold same_attrs. rewrite (set_nth_attrs' p ix a _ EA), (set_nth_attrs' q ix b _ EB). exact HS.
    + apply set_nth_Forall; [exact HP|]. apply coherent_fresh. reflexivity.
    + apply set_nth_Forall; [exact HQ|]. apply coherent_fresh. reflexivity.
    + unfold same_attrs. apply (set_nth_attrs' p ix a _ EA).
  - cbn [fst snd]. split; [reflexivity|]. split; [split; [|split]; assumption|reflexivity].
Qed.

Lemma same_attrs_trans : forall a b c, same_attrs a b -> same_attrs b c -> same_attrs a c.
Proof. unfold same_attrs. intros. congruence. Qed.

(* the loop: same block found, whatever the (coherent) cache state; attributes untouched; coherence kept *)
Lemma gbn_loop_R : forall ix p q, cache_rel p q ->
  fst (gbn_loop p ix) = fst (gbn_loop q ix) /\ cache_rel (snd (gbn_loop p ix)) (snd (gbn_loop q ix))
  /\ same_attrs (snd (gbn_loop p ix)) p.
Proof.
  induction ix as [|k IH]; intros p q HR; rewrite !gbn_loop_unfold;
    match goal with |- context [gbn_step p ?i] =>
      destruct (gbn_step_R p q i HR) as [E [HR1 HS1]];
      destruct (gbn_step p i) as [fp p1]; destruct (gbn_step q i) as [fq q1] end;
    cbn [fst snd] in *; subst fq; destruct fp as [b|]; cbn [fst snd]; auto.
  destruct (IH p1 q1 HR1) as [E2 [HR2 HS2]]. split; [exact E2|]. split; [exact HR2|].
  eapply same_attrs_trans; eauto.
Qed.

Lemma get_block_name_R : forall p q depth ctx, cache_rel p q ->
  fst (get_block_name p depth ctx) = fst (get_block_name q depth ctx)
  /\ cache_rel (snd (get_block_name p depth ctx)) (snd (get_block_name q depth ctx))
  /\ same_attrs (snd (get_block_name p depth ctx)) p.
Proof.
  intros p q depth ctx HR. unfold get_block_name.
  rewrite <- (same_attrs_length p q (proj1 HR)).
  destruct (gbn_loop_R (length p - depth) p q HR) as [E [HR1 HS1]].
  destruct (gbn_loop p _) as [fp p1]; destruct (gbn_loop q _) as [fq q1]. cbn [fst snd] in *. subst fq.
  destruct fp as [b|]; [cbn [fst snd]; auto|].
  destruct ctx as [bem_cls|]; [|cbn [fst snd]; auto].
  destruct (truthy_str (bd_block (parse_bem bem_cls))); cbn [fst snd]; auto.
Qed.

(* CACHE TRANSPARENCY for get_block_name: on a coherent path the block name is the one the cache-free reading gives *)
Theorem get_block_name_transparent : forall path depth ctx, Forall coherent path ->
  fst (get_block_name path depth ctx) = fst (get_block_name (uncached path) depth ctx)
  /\ Forall coherent (snd (get_block_name path depth ctx))
  /\ map pn_attrs (snd (get_block_name path depth ctx)) = map pn_attrs path.
Proof.
  intros path depth ctx H. destruct (get_block_name_R path (uncached path) depth ctx (R_uncached path H)) as [E [[_ [HC _]] HS]].
  auto.
Qed.

(* expand_short_notation, one class name / all class names *)
Lemma esn_class_R : forall cfg p q cl, cache_rel p q ->
  fst (esn_class cfg p cl) = fst (esn_class cfg q cl) /\ cache_rel (snd (esn_class cfg p cl)) (snd (esn_class cfg q cl))
  /\ same_attrs (snd (esn_class cfg p cl)) p.
Proof.
  intros cfg p q cl HR. unfold esn_class.
  destruct (re_element cl) as [[[d g2] n0]|].
  - destruct (get_block_name_R p q d (bc_context cfg) HR) as [E [HR1 HS1]].
    destruct (get_block_name p d _) as [b p1]; destruct (get_block_name q d _) as [b' q1]. cbn [fst snd] in *. subst b'.
    destruct (re_modifier (skipn n0 cl)) as [[[d2 g3] n2]|]; [|cbn [fst snd]; auto].
    destruct (b ++ bc_element cfg ++ g2) as [|c0 pre] eqn:EP; [|cbn [fst snd]; auto].
    destruct (get_block_name_R p1 q1 d2 None HR1) as [E2 [HR2 HS2]].
    destruct (get_block_name p1 d2 None) as [b2 p2]; destruct (get_block_name q1 d2 None) as [b2' q2].
    cbn [fst snd] in *. subst b2'. split; [reflexivity|]. split; [exact HR2|]. eapply same_attrs_trans; eauto.
  - destruct (re_modifier cl) as [[[d2 g3] n2]|]; [|cbn [fst snd]; split; [reflexivity|split; [exact HR|reflexivity]]].
    destruct (get_block_name_R p q d2 None HR) as [E2 [HR2 HS2]].
    destruct (get_block_name p d2 None) as [b2 p2]; destruct (get_block_name q d2 None) as [b2' q2].
    cbn [fst snd] in *. subst b2'. auto.
Qed.

Lemma esn_loop_R : forall cfg l p q, cache_rel p q ->
  fst (esn_loop cfg p l) = fst (esn_loop cfg q l) /\ cache_rel (snd (esn_loop cfg p l)) (snd (esn_loop cfg q l))
  /\ same_attrs (snd (esn_loop cfg p l)) p.
Proof.
  intros cfg. induction l as [|cl l IH]; intros p q HR; cbn [esn_loop].
  - cbn [fst snd]. split; [reflexivity|split; [exact HR|reflexivity]].
  - destruct (esn_class_R cfg p q cl HR) as [E [HR1 HS1]].
    destruct (esn_class cfg p cl) as [a p1]; destruct (esn_class cfg q cl) as [a' q1]. cbn [fst snd] in *. subst a'.
    destruct (IH p1 q1 HR1) as [E2 [HR2 HS2]].
    destruct (esn_loop cfg p1 l) as [b p2]; destruct (esn_loop cfg q1 l) as [b' q2]. cbn [fst snd] in *. subst b'.
    split; [reflexivity|]. split; [exact HR2|]. eapply same_attrs_trans; eauto.
Qed.

Lemma R_app_self : forall p q a, cache_rel p q -> cache_rel (p ++ [mkP a None]) (q ++ [mkP a None]).
Proof.
  intros p q a [HS [HP HQ]]. split; [|split].
  - unfold same_attrs in *. rewrite !map_app, HS. reflexivity.
  - apply Forall_app. split; [exact HP|]. constructor; [exact I|constructor].
  - apply Forall_app. split; [exact HQ|]. constructor; [exact I|constructor].
Qed.

Lemma Forall_firstn : forall (P : pnode -> Prop) k l, Forall P l -> Forall P (firstn k l).
Proof.
  intros P. induction k as [|k IH]; intros [|a l] H; cbn [firstn]; try constructor.
  - inversion H; assumption.
  - apply IH. inversion H; assumption.
Qed.

Lemma map_firstn : forall A B (f : A -> B) k l, map f (firstn k l) = firstn k (map f l).
Proof. intros A B f. induction k as [|k IH]; intros [|a l]; cbn [firstn map]; auto. f_equal. apply IH. Qed.

Lemma firstn_app_exact : forall A (l1 l2 : list A), firstn (length l1) (l1 ++ l2) = l1.
Proof. intros A l1 l2. induction l1 as [|a l1 IH]; cbn [length firstn app]; [destruct l2; reflexivity|]. f_equal. exact IH. Qed.

Lemma firstn_firstn_app : forall A k (l : list A) x, k <= length l -> firstn k (firstn k l ++ x) = firstn k l.
Proof.
  intros A k l x H. rewrite <- (firstn_length_le l H) at 1. apply firstn_app_exact.
Qed.

(* the returned path: ancestors (attributes untouched, entries possibly added) then the node itself *)
Lemma esn_path_shape : forall cfg anc n data n' path',
  expand_short_notation cfg anc n data = Ok (n', path') ->
  exists path1 sc,
    path1 = snd (esn_loop cfg (anc ++ [mkP (an_attrs n) None]) (bd_class_names data))
    /\ path' = firstn (length anc) path1 ++ [mkP (an_attrs n') sc].
Proof.
  intros cfg anc n data n' path' H. unfold expand_short_notation in H.
  destruct (esn_loop cfg (anc ++ [mkP (an_attrs n) None]) (bd_class_names data)) as [cn path1].
  match type of H with bind ?u _ = _ => destruct u as [m| | |]; cbn [bind] in H; try discriminate end.
  inversion H; subst. eexists _, _. split; reflexivity.
Qed.

(* CACHE TRANSPARENCY for one bem() call: two coherent cache states of the same ancestors give the SAME node;
   the ancestors keep their attributes and stay coherent *)
Theorem bem_R : forall cfg anc anc' n, cache_rel anc anc' ->
  exists n' p1 p2, bem cfg anc n = Ok (n', p1) /\ bem cfg anc' n = Ok (n', p2)
    /\ cache_rel (firstn (length anc) p1) (firstn (length anc') p2)
    /\ map pn_attrs (firstn (length anc) p1) = map pn_attrs anc
    /\ same_attrs p1 p2.
Proof.
  intros cfg anc anc' n HR. unfold bem.
  destruct (expand_class_names_ok n) as [n1 [data [E H]]]. rewrite E. cbn [bind].
  pose proof (same_attrs_length _ _ (proj1 HR)) as HL.
  pose proof (esn_loop_R cfg (bd_class_names data) _ _ (R_app_self anc anc' (an_attrs n1) HR)) as [EC [HR1 HS1]].
  destruct (expand_short_notation_ok cfg anc n1 data H) as [[n' p1] E1].
  destruct (expand_short_notation_ok cfg anc' n1 data H) as [[n'' p2] E2].
  assert (n'' = n').
  { unfold expand_short_notation in E1, E2.
    destruct (esn_loop cfg (anc ++ _) _) as [cn path1]; destruct (esn_loop cfg (anc' ++ _) _) as [cn' q1].
    cbn [fst] in EC. subst cn'.
    destruct (match unique cn with [] => Ok n1 | _ :: _ => update_class n1 (join [c_space] (unique cn)) end) as [m| | |];
      cbn [bind] in E1, E2; try discriminate.
    inversion E1; inversion E2; subst. reflexivity. }
  subst n''. exists n', p1, p2. split; [exact E1|]. split; [exact E2|].
  destruct (esn_path_shape _ _ _ _ _ _ E1) as [path1 [sc1 [Ep1 ->]]].
  destruct (esn_path_shape _ _ _ _ _ _ E2) as [q1 [sc2 [Eq1 ->]]].
  rewrite <- Ep1 in *. rewrite <- Eq1 in *. clear Ep1 Eq1.
  destruct HR1 as [HSA [HCP HCQ]].
  assert (LP : length anc <= length path1).
  { rewrite (same_attrs_length _ _ HS1), app_length. lia. }
  assert (LQ : length anc' <= length q1).
  { rewrite <- (same_attrs_length _ _ HSA). rewrite <- HL. exact LP. }
  rewrite (firstn_firstn_app _ _ _ _ LP), (firstn_firstn_app _ _ _ _ LQ).
  assert (HA : map pn_attrs (firstn (length anc) path1) = map pn_attrs anc).
  { rewrite map_firstn. unfold same_attrs in HS1. rewrite HS1, map_app.
    rewrite <- (map_length pn_attrs anc). apply firstn_app_exact. }
  assert (HF : same_attrs (firstn (length anc) path1) (firstn (length anc') q1)).
  { unfold same_attrs in *. rewrite !map_firstn, HSA, HL. reflexivity. }
  split; [|split; [exact HA|]].
  - split; [exact HF|]. split; apply Forall_firstn; assumption.
  - unfold same_attrs in *. rewrite !map_app, HF. reflexivity.
Qed.

(* the cache-free reading: the node a bem() call returns on a coherent path is the node it returns when every
   cache entry is removed *)
Corollary bem_transparent : forall cfg anc n, Forall coherent anc ->
  exists n' p1 p2, bem cfg anc n = Ok (n', p1) /\ bem cfg (uncached anc) n = Ok (n', p2)
    /\ Forall coherent (firstn (length anc) p1) /\ map pn_attrs (firstn (length anc) p1) = map pn_attrs anc.
Proof.
  intros cfg anc n H. destruct (bem_R cfg anc (uncached anc) n (R_uncached anc H)) as [n' [p1 [p2 [E1 [E2 [[_ [HC _]] [HA _]]]]]]].
  exists n', p1, p2. auto.
Qed.

(* a node whose own entry was not created (it did not query itself) leaves a coherent path to its children;
   by induction along the walk the whole expansion then equals the cache-free one *)
Lemma uncached_entry_coherent : forall a, coherent (mkP a None).
Proof. intros a. exact I. Qed.

(* ... and the self query is exactly where it breaks: .b>.-e with separators "__" / "_".  The second node queries
   its own block (depth 1), caches the data of class "-e" (no block), then becomes class "b__e": its entry is not
   coherent, and its child .-x gets block b from it (b__x) where the cache-free reading gives b__e (b__e__x). *)
Definition bem_cls (s : str) : option (list aattr) := Some [mkAAttr (Some s_class) (Some [VStr s]) VRaw false false false].
Definition bem_nd (s : str) : anode := ANode None None None (bem_cls s) [] false.
Example self_query_breaks_coherence :
  let cfg := mkBemCfg [95;95]%N [95]%N None in
  let top := [mkP (bem_cls [98]%N) None] in
  exists n2 p2,
    bem cfg top (bem_nd [45;101]%N) = Ok (n2, p2)
    /\ an_attrs n2 = bem_cls [98;95;95;101]%N                                   (* b__e *)
    /\ ~ Forall coherent p2
    /\ (exists n3 p3, bem cfg p2 (bem_nd [45;120]%N) = Ok (n3, p3) /\ an_attrs n3 = bem_cls [98;95;95;120]%N)              (* b__x *)
    /\ (exists n3 p3, bem cfg (uncached p2) (bem_nd [45;120]%N) = Ok (n3, p3) /\ an_attrs n3 = bem_cls [98;95;95;101;95;95;120]%N).
Proof.
  cbv zeta. eexists _, _. split; [vm_compute; reflexivity|].
  split; [reflexivity|]. split.
  - intros H. inversion H as [|? ? _ H2]; subst. inversion H2 as [|? ? H3 _]; subst.
    vm_compute in H3. discriminate.
  - split; eexists _, _; (split; [vm_compute; reflexivity|reflexivity]).
Qed.

(* ---------------------------------------------------------------- 3. short algebraic facts *)
Lemma str_eqb_refl' : forall a, str_eqb a a = true.
Proof. induction a; cbn [str_eqb]; auto. rewrite N.eqb_refl. auto. Qed.
Lemma str_eqb_true' : forall a b, str_eqb a b = true -> a = b.
Proof.
  induction a as [|x a IH]; intros [|y b] H; cbn [str_eqb] in H; try discriminate; auto.
  apply andb_true_iff in H. destruct H as [H1 H2]. apply N.eqb_eq in H1. subst. f_equal. auto.
Qed.
Lemma mem_str_In : forall x l, mem_str x l = true <-> In x l.
Proof.
  intros x l. unfold mem_str. rewrite existsb_exists. split.
  - intros [y [Hy E]]. apply str_eqb_true' in E. subst. exact Hy.
  - intros H. exists x. split; [exact H|apply str_eqb_refl'].
Qed.

(* unique() is idempotent ... *)
Lemma unique_acc_idem : forall l seen, unique_acc seen (unique_acc seen l) = unique_acc seen l.
Proof.
  induction l as [|x l IH]; intros seen; cbn [unique_acc]; [reflexivity|].
  destruct (mem_str x seen) eqn:M; [apply IH|].
  cbn [unique_acc]. rewrite M. f_equal. apply IH.
Qed.
Theorem unique_idem : forall l, unique (unique l) = unique l.
Proof. intros l. apply unique_acc_idem. Qed.

(* ... keeps exactly the elements of the list, and has no duplicates *)
Lemma unique_acc_In : forall l seen x, In x (unique_acc seen l) <-> In x l /\ ~ In x seen.
Proof.
  induction l as [|y l IH]; intros seen x; cbn [unique_acc].
  - split; [intros []|intros [[] _]].
  - destruct (mem_str y seen) eqn:M.
    + rewrite IH. apply mem_str_In in M. split.
      * intros [H1 H2]. split; [right; exact H1|exact H2].
      * intros [[->|H1] H2]; [contradiction|]. split; assumption.
    + assert (Hy : ~ In y seen). { intros H. apply mem_str_In in H. congruence. }
      cbn [In]. rewrite IH. cbn [In]. split.
      * intros [->|[H1 H2]]; [split; [left; reflexivity|exact Hy]|]. split; [right; exact H1|]. intros H. apply H2. right. exact H.
      * intros [[->|H1] H2]; [left; reflexivity|].
        destruct (mem_str x [y]) eqn:E.
        -- apply mem_str_In in E. destruct E as [->|[]]. left. reflexivity.
        -- right. split; [exact H1|]. intros [->|H]; [|contradiction].
           cbn in E. rewrite str_eqb_refl' in E. discriminate.
Qed.
Theorem unique_In : forall l x, In x (unique l) <-> In x l.
Proof. intros l x. unfold unique. rewrite unique_acc_In. split; [intros [H _]; exact H|intros H; split; [exact H|intros []]]. Qed.

Lemma unique_acc_NoDup : forall l seen, NoDup (unique_acc seen l).
Proof.
  induction l as [|y l IH]; intros seen; cbn [unique_acc]; [constructor|].
  destruct (mem_str y seen); [apply IH|]. constructor; [|apply IH].
  rewrite unique_acc_In. intros [_ H]. apply H. left. reflexivity.
Qed.
Theorem unique_NoDup : forall l, NoDup (unique l).
Proof. intros l. apply unique_acc_NoDup. Qed.

(* a class name that is not BEM notation is kept as it is, no block lookup, no cache entry *)
Theorem esn_class_plain : forall cfg path cl,
  re_element cl = None -> re_modifier cl = None -> esn_class cfg path cl = ([cl], path).
Proof. intros cfg path cl H1 H2. unfold esn_class. rewrite H1, H2, str_eqb_refl'. reflexivity. Qed.

(* a node without class names (no attributes, no class attribute, empty class value) is returned unchanged *)
Theorem bem_no_class : forall cfg anc n,
  class_value_of (an_attrs n) = [] -> bem cfg anc n = Ok (n, anc ++ [mkP (an_attrs n) None]).
Proof.
  intros cfg anc n H. unfold bem, expand_class_names, get_bem_data. rewrite H.
  change (bd_class_names (parse_bem [])) with (@nil str).
  cbn [ecn_loop bind]. unfold expand_short_notation.
  change (bd_class_names (parse_bem [])) with (@nil str).
  cbn [esn_loop unique unique_acc bind].
  rewrite firstn_app_exact. unfold get_item.
  replace (nth_error (anc ++ [mkP (an_attrs n) None]) (length anc)) with (Some (mkP (an_attrs n) None)).
  - reflexivity.
  - rewrite nth_error_app2, Nat.sub_diag; [reflexivity|lia].
Qed.

(* a match of re_element / re_modifier: at least one prefix character, a non-empty name, inside the string *)
Lemma span_le : forall p s, span p s <= length s.
Proof. intros p. induction s as [|c s IH]; cbn [span length]; [lia|]. destruct (p c); lia. Qed.
Theorem re_match3_bounds : forall P F Rr s d g2 n0,
  re_match3 P F Rr s = Some (d, g2, n0) -> 1 <= d /\ g2 <> [] /\ n0 = d + length g2 /\ n0 <= length s.
Proof.
  intros P F Rr s d g2 n0 H. unfold re_match3 in H.
  remember (span (in_tbl P) s) as np0 eqn:EP. destruct np0 as [|np]; [discriminate|].
  remember (skipn (S np) s) as s1 eqn:ES1.
  remember (span (in_tbl F) s1) as nf0 eqn:EF. destruct nf0 as [|nf]; [discriminate|].
  remember (span (in_tbl Rr) (skipn (S nf) s1)) as nr eqn:ER.
  assert (E : d = S np /\ g2 = firstn (S nf + nr) s1 /\ n0 = S np + (S nf + nr)) by (repeat split; congruence).
  destruct E as [-> [-> ->]]. clear H.
  pose proof (span_le (in_tbl P) s) as L1. rewrite <- EP in L1.
  pose proof (span_le (in_tbl F) s1) as L2. rewrite <- EF in L2.
  pose proof (span_le (in_tbl Rr) (skipn (S nf) s1)) as L3. rewrite <- ER, skipn_length in L3.
  assert (LS : length s1 = length s - S np) by (subst s1; apply skipn_length).
  assert (LEN : length (firstn (S nf + nr) s1) = S nf + nr) by (apply firstn_length_le; lia).
  split; [lia|]. split; [|split; [rewrite LEN; reflexivity|lia]].
  intros E. rewrite E in LEN. cbn [length] in LEN. lia.
Qed.

(* ---------------------------------------------------------------- 4. cache transparency for the whole walk *)
(* the CACHE-FREE definition of the transform walk: every transform() call sees its ancestors without any
   cache entry (get_block_name recomputes the data of each ancestor from its current class) *)
Fixpoint transform_tree_nc (cfg : mconfig) (parent_name : option (option str)) (top : bool) (pending : bool)
         (anc : list pnode) (n : anode) {struct n} : res (anode * bool * list pnode) :=
  match n with
  | ANode nm v rp at_ ch sc =>
      let hit := pending && is_input_name nm in
      let n0 := if hit then ANode nm v rp (drop_empty_named s_id at_) ch sc else n in
      let* (n1, found, path) := transform_node cfg parent_name top (uncached anc) n0 in
      let pending1 := (pending && negb hit) || found in
      match n1 with
      | ANode nm1 v1 rp1 at1 _ sc1 =>
          let* (ch', pending2, path2) :=
            (fix go (l : list anode) (pd : bool) (pth : list pnode) : res (list anode * bool * list pnode) :=
               match l with
               | [] => Ok ([], pd, pth)
               | c :: r =>
                   let* (c', pd1, pth1) := transform_tree_nc cfg (Some nm1) false pd pth c in
                   let* (r', pd2, pth2) := go r pd1 pth1 in
                   Ok (c' :: r', pd2, pth2)
               end) ch pending1 path in
          Ok (ANode nm1 v1 rp1 at1 ch' sc1, pending2, firstn (length anc) path2)
      end
  end.

(* the run of the real walk hands only coherent paths to the children of every node.  This is the case in
   particular when no node queries its own block: its own entry is then absent ([self_none_coherent]). *)
Fixpoint clean_walk (cfg : mconfig) (parent_name : option (option str)) (top : bool) (pending : bool)
         (anc : list pnode) (n : anode) {struct n} : Prop :=
  match n with
  | ANode nm v rp at_ ch sc =>
      let hit := pending && is_input_name nm in
      let n0 := if hit then ANode nm v rp (drop_empty_named s_id at_) ch sc else n in
      match transform_node cfg parent_name top anc n0 with
      | Ok (n1, found, path) =>
          Forall coherent path /\
          (fix kids (l : list anode) (pd : bool) (pth : list pnode) : Prop :=
             match l with
             | [] => True
             | c :: r =>
                 clean_walk cfg (Some (an_name n1)) false pd pth c /\
                 match transform_tree cfg (Some (an_name n1)) false pd pth c with
                 | Ok (_, pd1, pth1) => kids r pd1 pth1
                 | _ => True
                 end
             end) ch ((pending && negb hit) || found) path
      | _ => True
      end
  end.

(* cached run vs cache-free run: same attributes on the path, the cached one coherent *)
Definition Inv (p p' : list pnode) : Prop := same_attrs p p' /\ Forall coherent p.

Lemma Inv_rel : forall p p', Inv p p' -> cache_rel p (uncached p').
Proof.
  intros p p' [HS HC]. split; [|split; [exact HC|]].
  - unfold same_attrs, uncached in *. rewrite map_map. exact HS.
  - unfold uncached. apply Forall_forall. intros x Hx. apply in_map_iff in Hx. destruct Hx as [y [<- _]]. exact I.
Qed.

Lemma uncached_length : forall p, length (uncached p) = length p.
Proof. intros. apply map_length. Qed.

Lemma transform_node_Inv : forall cfg pn top anc anc' n n1 found path,
  Inv anc anc' -> transform_node cfg pn top anc n = Ok (n1, found, path) -> Forall coherent path ->
  exists path', transform_node cfg pn top (uncached anc') n = Ok (n1, found, path') /\ Inv path path'.
Proof.
  intros cfg pn top anc anc' n n1 found path HI E HC. unfold transform_node in *.
  destruct (transform_node_pre cfg pn top n) as [m fnd]. destruct (mc_bem cfg).
  - destruct (bem_R (bem_cfg_of cfg) anc (uncached anc') m (Inv_rel _ _ HI)) as [n' [p1 [p2 [E1 [E2 [_ [_ HS]]]]]]].
    rewrite E1 in E. cbn [bind] in E. inversion E; subst. rewrite E2. cbn [bind].
    eexists. split; [reflexivity|]. split; assumption.
  - inversion E; subst. eexists. split; [reflexivity|]. split; [|exact HC].
    destruct HI as [HS _]. unfold same_attrs, uncached in *. rewrite !map_app, map_map, HS. reflexivity.
Qed.

Lemma Inv_firstn : forall p p' k k', Inv p p' -> k = k' -> Inv (firstn k p) (firstn k' p').
Proof.
  intros p p' k k' [HS HC] <-. split; [|apply Forall_firstn; exact HC].
  unfold same_attrs in *. rewrite !map_firstn, HS. reflexivity.
Qed.

(* WALK-LEVEL CACHE TRANSPARENCY: when the real walk hands only coherent paths down (no node is seen by its
   descendants in a state other than its final one), it returns exactly the tree of the cache-free walk *)
Theorem transform_tree_transparent : forall n cfg pn top pd anc anc',
  Inv anc anc' -> clean_walk cfg pn top pd anc n ->
  exists n' b p p',
    transform_tree cfg pn top pd anc n = Ok (n', b, p) /\
    transform_tree_nc cfg pn top pd anc' n = Ok (n', b, p') /\ Inv p p'.
Proof.
  apply (anode_ind2 (fun n => forall cfg pn top pd anc anc',
    Inv anc anc' -> clean_walk cfg pn top pd anc n ->
    exists n' b p p',
      transform_tree cfg pn top pd anc n = Ok (n', b, p) /\
      transform_tree_nc cfg pn top pd anc' n = Ok (n', b, p') /\ Inv p p')).
  intros nm v rp at_ ch sc HF cfg pn top pd anc anc' HI HCW.
  cbn [transform_tree transform_tree_nc clean_walk] in *.
  match type of HCW with match transform_node ?c ?p ?t ?a ?x with _ => _ end =>
    destruct (transform_node_ok c p t a x) as [[[n1 found] path] E]; rewrite E in HCW |- *; cbn [bind] end.
  destruct HCW as [HC HK].
  destruct (transform_node_Inv _ _ _ _ _ _ _ _ _ HI E HC) as [path' [E' HI1]].
  rewrite E'. cbn [bind].
  destruct n1 as [nm1 v1 rp1 at1 ch1 sc1]. cbn [an_name] in HK.
  match goal with |- exists _ _ _ _, bind (?go ch ?pd0 path) _ = _ /\ bind (?go' ch ?pd0 path') _ = _ /\ _ =>
    set (G := go); set (G' := go'); generalize dependent pd0 end.
  intros pd1 HK.
  assert (HG : forall l pd2 pth pth', Forall (fun n => forall cfg pn top pd anc anc',
                 Inv anc anc' -> clean_walk cfg pn top pd anc n ->
                 exists n' b p p', transform_tree cfg pn top pd anc n = Ok (n', b, p) /\
                   transform_tree_nc cfg pn top pd anc' n = Ok (n', b, p') /\ Inv p p') l ->
               Inv pth pth' ->
               (fix kids (l : list anode) (pd : bool) (pth : list pnode) : Prop :=
                  match l with
                  | [] => True
                  | c :: r =>
                      clean_walk cfg (Some nm1) false pd pth c /\
                      match transform_tree cfg (Some nm1) false pd pth c with
                      | Ok (_, pd1, pth1) => kids r pd1 pth1
                      | _ => True
                      end
                  end) l pd2 pth ->
               exists l' b p p', G l pd2 pth = Ok (l', b, p) /\ G' l pd2 pth' = Ok (l', b, p') /\ Inv p p').
  { clear. induction l as [|c r IH]; intros pd2 pth pth' HF HI HK.
    - exists [], pd2, pth, pth'. repeat split; try reflexivity; apply HI.
    - inversion HF as [|? ? Hc Hr]; subst. destruct HK as [HKc HKr].
      destruct (Hc cfg (Some nm1) false pd2 pth pth' HI HKc) as [c' [bc [pc [pc' [Ec [Ec' HIc]]]]]].
      rewrite Ec in HKr. cbn [G G']. rewrite Ec, Ec'. cbn [bind]. fold G. fold G'.
      destruct (IH bc pc pc' Hr HIc HKr) as [r' [br [pr [pr' [Er [Er' HIr]]]]]].
      rewrite Er, Er'. cbn [bind]. exists (c' :: r'), br, pr, pr'. repeat split; try reflexivity; apply HIr. }
  destruct (HG ch pd1 path path' HF HI1 HK) as [ch' [b2 [p2 [p2' [EG [EG' HI2]]]]]].
  rewrite EG, EG'. cbn [bind]. eexists _, _, _, _. split; [reflexivity|]. split; [reflexivity|].
  apply Inv_firstn; [exact HI2|]. destruct HI as [HS _]. apply same_attrs_length. exact HS.
Qed.

(* the sufficient condition: a bem() call on coherent ancestors that leaves no entry for the node itself
   (the node did not query its own block) returns a coherent path *)
Theorem self_none_coherent : forall cfg anc n n' path,
  Forall coherent anc -> bem cfg anc n = Ok (n', path) ->
  (forall p, nth_error path (length anc) = Some p -> pn_cache p = None) ->
  Forall coherent path.
Proof.
  intros cfg anc n n' path HC E HN.
  destruct (bem_R cfg anc (uncached anc) n (R_uncached anc HC)) as [m [p1 [p2 [E1 [_ [[_ [HC1 _]] [HA _]]]]]]].
  rewrite E in E1. inversion E1; subst m p1. clear E1.
  unfold bem in E. destruct (expand_class_names n) as [[n1 data]| | |]; cbn [bind] in E; try discriminate.
  destruct (esn_path_shape _ _ _ _ _ _ E) as [path1 [sc [E1 EP]]]. subst path.
  assert (L : length (firstn (length anc) path1) = length anc).
  { apply firstn_length_le.
    assert (HP : cache_rel (anc ++ [mkP (an_attrs n1) None]) (anc ++ [mkP (an_attrs n1) None])).
    { assert (HF : Forall coherent (anc ++ [mkP (an_attrs n1) None])).
      { apply Forall_app. split; [exact HC|]. constructor; [exact I|constructor]. }
      split; [reflexivity|split; exact HF]. }
    destruct (esn_loop_R cfg (bd_class_names data) _ _ HP) as [_ [_ HS]].
    rewrite <- E1 in HS. rewrite (same_attrs_length _ _ HS), app_length. cbn [length]. lia. }
  apply Forall_app. split.
  - rewrite firstn_app in HC1. apply Forall_app in HC1. destruct HC1 as [HC1 _].
    rewrite firstn_firstn, Nat.min_id in HC1. exact HC1.
  - constructor; [|constructor].
    specialize (HN (mkP (an_attrs n') sc)).
    rewrite nth_error_app2 in HN by lia. rewrite L, Nat.sub_diag in HN.
    specialize (HN eq_refl). cbn in HN. subst sc. exact I.
Qed.

(* non-vacuity: .b>.--e (prefix depth 2: the element asks its parent, nobody queries itself) is a clean walk, and its
   result is b__e; .b>.-e>.-x is NOT clean (the middle node queries itself, see self_query_breaks_coherence) *)
Example clean_walk_nonvacuous :
  let cfg := mkMConfig [104;116;109;108]%N [] [] WNone None None false None [] false false true [95;95]%N [95]%N None in
  let tree := ANode None None None (bem_cls [98]%N) [ANode None None None (bem_cls [45;45;101]%N) [] false] false in
  clean_walk cfg None true false [] tree /\
  exists a b c d p, transform_tree cfg None true false [] tree =
    Ok (ANode a b c d [ANode a b c (bem_cls [98;95;95;101]%N) [] false] false, false, p).
Proof.
  cbv zeta. split.
  - vm_compute. repeat (split || constructor).
  - do 5 eexists. vm_compute. reflexivity.
Qed.

Example unclean_walk :
  let cfg := mkMConfig [104;116;109;108]%N [] [] WNone None None false None [] false false true [95;95]%N [95]%N None in
  let tree := ANode None None None (bem_cls [98]%N)
                [ANode None None None (bem_cls [45;101]%N) [ANode None None None (bem_cls [45;120]%N) [] false] false] false in
  ~ clean_walk cfg None true false [] tree.
Proof.
  cbv zeta. vm_compute. intros [_ [[H _] _]].
  inversion H as [|? ? _ H2]; subst. inversion H2 as [|? ? H3 _]; subst. discriminate.
Qed.
