(* C09, Level B: from TEXT to scanner events.

   A document grammar (an inductive type), its rendering to a string, the record of where every
   element of the rendered text lies, and the theorem that the scanner model run over the rendered
   text reports exactly the tag events of that record -- for EVERY document of the grammar (no bound
   on size, depth, number of attributes or length of any part).

   This file: the grammar (SPEC), attribute-level lemmas (skip_attributes / attributes over a
   rendered attribute list).  proofs/HtmlRenderScan.v: tags, sections, the whole scan and the
   composition with Level A. *)
From Coq Require Import List NArith ZArith Bool Lia ZifyBool.
From Emmet Require Import lib.Base lib.HtmlLib gen.GenHtml model.HtmlScan model.HtmlMatch
  proofs.HtmlScanProofs proofs.HtmlFoldProofs proofs.HtmlForestProofs proofs.HtmlRenderLib.
Import ListNotations.
Local Open Scope nat_scope.

(* ================================================================== SPEC: the document grammar *)
(* ---- attribute values *)
(* the inside of a `{...}` expression value: plain characters, quoted strings, nested braces *)
Inductive epiece :=
| EChar (c : char)
| EQuoted (q : char) (body : str)
| ENested (ps : list epiece).

(* written between the brackets [o] ... [c]; nested pieces use the same pair *)
Fixpoint render_epiece (o c : char) (e : epiece) : str :=
  match e with
  | EChar x => [x]
  | EQuoted q body => q :: body ++ [q]
  | ENested ps => o :: flat_map (render_epiece o c) ps ++ [c]
  end.
Definition render_pieces (o c : char) (ps : list epiece) : str := flat_map (render_epiece o c) ps.
Definition render_expr (ps : list epiece) : str := render_pieces c_lbrace c_rbrace ps.

(* a plain character between brackets: no quote, none of the two brackets, no backslash
   (`>`, `<`, `/`, white space, other brackets ... allowed) *)
Definition echar_ok (o c x : char) : bool :=
  negb (is_quote x) && negb (x =? o)%N && negb (x =? c)%N && negb (x =? html_escape_char)%N.
Fixpoint epiece_ok (o c : char) (e : epiece) : bool :=
  match e with
  | EChar x => echar_ok o c x
  | EQuoted q body => quoted_ok q body
  | ENested ps => forallb (epiece_ok o c) ps
  end.

Inductive aval :=
| VNone                              (* `name` *)
| VQuoted (q : char) (body : str)    (* `name="body"`, `name='body'`; body free of q and `\`, may contain `>` `<` `/` *)
| VUnquoted (body : str)             (* `name=body` *)
| VExpr (ps : list epiece).          (* `name={...}` *)

(* the value as written, with its quotes / braces *)
Definition value_text (v : aval) : option str :=
  match v with
  | VNone => None
  | VQuoted q body => Some (q :: body ++ [q])
  | VUnquoted body => Some body
  | VExpr ps => Some (c_lbrace :: render_expr ps ++ [c_rbrace])
  end.

(* unquoted value: not empty, no quote / white space / `>` / `/` anywhere, not starting with a bracket *)
Definition unquoted_ok (b : str) : bool :=
  match b with c :: _ => negb (opener c) && forallb is_unquoted b | [] => false end.

Definition aval_ok (v : aval) : bool :=
  match v with
  | VNone => true
  | VQuoted q body => quoted_ok q body
  | VUnquoted body => unquoted_ok body
  | VExpr ps => forallb (epiece_ok c_lbrace c_rbrace) ps
  end.

(* ---- attribute names: XML names, Angular directives, Angular / React bracketed names *)
Inductive aname :=
| NIdent (n : str)                          (* class, data-x, v-on:click, xml:lang *)
| NDirective (d : char) (n : str)           (* *ngIf, #ref *)
| NBracket (o : char) (ps : list epiece).   (* [prop], (click), [(ngModel)], {...spread} *)

Definition closer (o : char) : char :=
  if (o =? c_lparen)%N then c_rparen else if (o =? c_lbrack)%N then c_rbrack else c_rbrace.
Definition render_aname (a : aname) : str :=
  match a with
  | NIdent n => n
  | NDirective d n => d :: n
  | NBracket o ps => o :: render_pieces o (closer o) ps ++ [closer o]
  end.
Definition aname_ok (a : aname) : bool :=
  match a with
  | NIdent n => name_ok n
  | NDirective d n => ((d =? c_star)%N || (d =? c_hash)%N) && match n with [] => true | _ :: _ => name_ok n end
  | NBracket o ps =>
      ((o =? c_lparen)%N || (o =? c_lbrack)%N || (o =? c_lbrace)%N) && forallb (epiece_ok o (closer o)) ps
  end.

(* ---- attributes: white space, name, optional `=value` *)
Record dattr := mkDAttr { da_ws : str; da_name : aname; da_val : aval }.

Definition value_part (v : aval) : str := match value_text v with Some t => c_eq :: t | None => [] end.
Definition render_attr (a : dattr) : str := da_ws a ++ render_aname (da_name a) ++ value_part (da_val a).
Definition render_attrs (l : list dattr) : str := flat_map render_attr l.

Definition ws_ok (w : str) : bool := forallb is_space w.
Definition dattr_ok (a : dattr) : bool :=
  match da_ws a with [] => false | _ :: _ => true end && ws_ok (da_ws a) && aname_ok (da_name a) && aval_ok (da_val a).

(* the attribute tokens of a rendered attribute list whose first character has offset [p]:
   exact name and value ranges, value text as written *)
Fixpoint attr_tokens (p : N) (l : list dattr) : list attr :=
  match l with
  | [] => []
  | a :: rest =>
      let ns := (p + N.of_nat (length (da_ws a)))%N in
      let ne := (ns + N.of_nat (length (render_aname (da_name a))))%N in
      mkAttr (render_aname (da_name a)) ns ne
             (match value_text (da_val a) with
              | Some t => Some (t, (ne + 1)%N, (ne + 1 + N.of_nat (length t))%N)
              | None => None
              end)
      :: attr_tokens (p + N.of_nat (length (render_attr a)))%N rest
  end.

(* ================================================================== expression values *)
Section ExprInd.
  Variable P : epiece -> Prop.
  Variable Q : list epiece -> Prop.
  Hypothesis HC : forall c, P (EChar c).
  Hypothesis HQu : forall q b, P (EQuoted q b).
  Hypothesis HN : forall ps, Q ps -> P (ENested ps).
  Hypothesis HQ0 : Q [].
  Hypothesis HQ1 : forall e l, P e -> Q l -> Q (e :: l).
  Fixpoint epiece_ind2 (e : epiece) : P e :=
    match e with
    | EChar c => HC c
    | EQuoted q b => HQu q b
    | ENested ps =>
        HN ps ((fix go (l : list epiece) : Q l :=
                  match l with [] => HQ0 | x :: r => HQ1 x r (epiece_ind2 x) (go r) end) ps)
    end.
  Definition epieces_ind2 : forall l, Q l :=
    fix go (l : list epiece) : Q l :=
      match l with [] => HQ0 | x :: r => HQ1 x r (epiece_ind2 x) (go r) end.
End ExprInd.

Section Pieces.
  Variables o c : char.
  Hypothesis Hco : (c =? o)%N = false.
  Hypothesis Hqo : is_quote o = false.
  Hypothesis Hqc : is_quote c = false.

  Definition pb_piece_stmt (e : epiece) : Prop :=
    forall d T off, epiece_ok o c e = true ->
      pair_body o c 0 d (render_epiece o c e ++ T) off =
      pair_body o c 0 d T (off + length (render_epiece o c e)).
  Definition pb_pieces_stmt (ps : list epiece) : Prop :=
    forall d T off, forallb (epiece_ok o c) ps = true ->
      pair_body o c 0 d (render_pieces o c ps ++ T) off =
      pair_body o c 0 d T (off + length (render_pieces o c ps)).

  Lemma pair_body_pieces : (forall e, pb_piece_stmt e) /\ (forall ps, pb_pieces_stmt ps).
  Proof.
    assert (HC : forall x, pb_piece_stmt (EChar x)).
    { intros x d T off H. cbn [epiece_ok] in H. unfold echar_ok in H.
      repeat (apply andb_true_iff in H; destruct H as [H ?]).
      repeat match goal with X : negb _ = true |- _ => apply negb_true_iff in X end.
      cbn [render_epiece app length pair_body].
      rewrite eat_quoted_not_quote by assumption.
      repeat match goal with X : (_ =? _)%N = false |- _ => rewrite X end.
      f_equal. lia. }
    assert (HQu : forall q b, pb_piece_stmt (EQuoted q b)).
    { intros q b d T off H. cbn [epiece_ok] in H.
      cbn [render_epiece]. rewrite <- app_comm_cons, <- app_assoc. cbn [app].
      cbn [pair_body]. rewrite (eat_quoted_plain q b T H).
      rewrite pair_body_skip by (rewrite app_length; cbn [length]; lia).
      replace (Init.Nat.pred (length b + 2)) with (length (b ++ [q])) by (rewrite app_length; cbn [length]; lia).
      change (b ++ q :: T) with (b ++ [q] ++ T). rewrite app_assoc.
      rewrite skipn_app_exact by reflexivity. f_equal. cbn [length]. lia. }
    assert (HN : forall ps, pb_pieces_stmt ps -> pb_piece_stmt (ENested ps)).
    { intros ps IH d T off H. cbn [epiece_ok] in H.
      cbn [render_epiece]. fold (render_pieces o c ps). rewrite <- app_comm_cons, <- app_assoc. cbn [app].
      cbn [pair_body]. rewrite eat_quoted_not_quote by exact Hqo. rewrite N.eqb_refl.
      rewrite (IH (S d) (c :: T) (S off) H).
      cbn [pair_body]. rewrite eat_quoted_not_quote by exact Hqc.
      rewrite Hco. rewrite N.eqb_refl.
      f_equal. cbn [length]. rewrite app_length. cbn [length]. lia. }
    assert (HQ0 : pb_pieces_stmt []).
    { intros d T off _. cbn [render_pieces flat_map app length]. f_equal. lia. }
    assert (HQ1 : forall e l, pb_piece_stmt e -> pb_pieces_stmt l -> pb_pieces_stmt (e :: l)).
    { intros e l He Hl d T off H. cbn [forallb] in H. apply andb_true_iff in H. destruct H as [H1 H2].
      unfold render_pieces. cbn [flat_map]. fold (render_pieces o c l). rewrite <- app_assoc.
      rewrite (He d _ off H1). rewrite (Hl d T _ H2). f_equal. rewrite app_length. lia. }
    split.
    - exact (epiece_ind2 _ _ HC HQu HN HQ0 HQ1).
    - exact (epieces_ind2 _ _ HC HQu HN HQ0 HQ1).
  Qed.

  Lemma eat_pair_pieces ps T :
    forallb (epiece_ok o c) ps = true ->
    eat_pair o c (o :: render_pieces o c ps ++ c :: T) = Some (length (render_pieces o c ps) + 2).
  Proof.
    intros H. cbn [eat_pair]. rewrite N.eqb_refl.
    destruct pair_body_pieces as [_ G]. rewrite (G ps 0 (c :: T) 1 H).
    cbn [pair_body]. rewrite eat_quoted_not_quote by exact Hqc.
    rewrite Hco. rewrite N.eqb_refl. f_equal. lia.
  Qed.
End Pieces.

Lemma eat_pair_expr ps T :
  forallb (epiece_ok c_lbrace c_rbrace) ps = true ->
  eat_pair c_lbrace c_rbrace (c_lbrace :: render_expr ps ++ c_rbrace :: T) = Some (length (render_expr ps) + 2).
Proof. apply eat_pair_pieces; reflexivity. Qed.

(* ================================================================== one attribute *)
(* what follows an attribute (or the attribute list): nothing, white space, `>` or `/` *)
Definition attr_stop (T : str) : Prop := match T with [] => True | c :: _ => sep_char c end.

Lemma attr_stop_name T : attr_stop T -> stops name_char T.
Proof. destruct T as [|c T]; [exact (fun _ => I)|]. cbn. apply sep_not_name. Qed.
Lemma attr_stop_unquoted T : attr_stop T -> stops is_unquoted T.
Proof. destruct T as [|c T]; [exact (fun _ => I)|]. cbn. apply sep_not_unquoted. Qed.
Lemma attr_stop_peek_eq T : attr_stop T -> peek_is c_eq T = false.
Proof. destruct T as [|c T]; [reflexivity|]. cbn [attr_stop peek_is]. apply sep_not_eq. Qed.

Lemma value_text_length v t : value_text v = Some t -> length (value_part v) = S (length t).
Proof. unfold value_part. intros ->. reflexivity. Qed.

(* attribute_value consumes exactly the value as written *)
Lemma attribute_value_text v t T :
  aval_ok v = true -> value_text v = Some t -> attr_stop T ->
  attribute_value (t ++ T) = Some (length t).
Proof.
  intros Hok Ht HT. unfold attribute_value.
  destruct v as [|q body|body|ps]; cbn [value_text] in Ht; inversion Ht; subst t; clear Ht; cbn [aval_ok] in Hok.
  - (* quoted *)
    rewrite <- app_comm_cons, <- app_assoc. cbn [app].
    rewrite (eat_quoted_plain q body T Hok). cbn [orelse length]. rewrite app_length. cbn [length]. f_equal. lia.
  - (* unquoted *)
    destruct body as [|c body]; [discriminate|]. cbn [unquoted_ok] in Hok.
    apply andb_true_iff in Hok. destruct Hok as [Hop Hall]. apply negb_true_iff in Hop.
    assert (Hq : is_quote c = false).
    { cbn [forallb] in Hall. apply andb_true_iff in Hall. destruct Hall as [Hc _].
      unfold is_unquoted in Hc. destruct (is_quote c); [discriminate|reflexivity]. }
    cbn [app]. rewrite eat_quoted_not_quote by exact Hq. cbn [orelse].
    rewrite consume_paired_not_opener by exact Hop. cbn [orelse].
    unfold unquoted. change (c :: body ++ T) with ((c :: body) ++ T).
    rewrite span_app_stop by (try assumption; apply attr_stop_unquoted; exact HT). reflexivity.
  - (* expression *)
    rewrite <- app_comm_cons, <- app_assoc. cbn [app].
    rewrite eat_quoted_not_quote by reflexivity. cbn [orelse].
    unfold consume_paired. rewrite !eat_pair_other by reflexivity. cbn [orelse].
    rewrite (eat_pair_expr ps T Hok). cbn [orelse length]. rewrite app_length. cbn [length]. f_equal. lia.
Qed.

(* attribute_name consumes exactly the name *)
Lemma attribute_name_ident n T :
  name_ok n = true -> stops name_char T -> attribute_name (n ++ T) = Some (length n).
Proof.
  intros Hn HT. pose proof (ident_name n T Hn HT) as Hid.
  destruct n as [|c r]; [discriminate|]. cbn [name_ok] in Hn. apply andb_true_iff in Hn. destruct Hn as [Hc _].
  cbn [app] in *. unfold attribute_name.
  destruct (name_start_plain c Hc) as (-> & -> & _). cbn [orb].
  rewrite consume_paired_not_opener by (apply name_start_not_opener; exact Hc). cbn [orelse]. exact Hid.
Qed.

(* the bracket pairs of attribute names *)
Lemma bracket_cases o : ((o =? c_lparen)%N || (o =? c_lbrack)%N || (o =? c_lbrace)%N) = true ->
  o = c_lparen \/ o = c_lbrack \/ o = c_lbrace.
Proof. intros H. chars. Qed.

Lemma name_char_false_start c : name_char c = false -> name_start_char c = false.
Proof. intros H. destruct (name_start_char c) eqn:E; [|reflexivity]. rewrite (name_start_is_name c E) in H. discriminate. Qed.

Lemma attribute_name_render a T :
  aname_ok a = true -> stops name_char T ->
  attribute_name (render_aname a ++ T) = Some (length (render_aname a)).
Proof.
  intros Ha HT. destruct a as [n|d n|o ps]; cbn [aname_ok render_aname] in *.
  - apply attribute_name_ident; assumption.
  - apply andb_true_iff in Ha. destruct Ha as [Hd Hn].
    cbn [app]. unfold attribute_name. rewrite Hd. cbn [length]. f_equal. f_equal.
    destruct n as [|x r].
    + cbn [app length]. destruct T as [|y T]; [reflexivity|]. cbn [stops] in HT.
      cbn [ident]. rewrite (name_char_false_start y HT). reflexivity.
    + rewrite (ident_name (x :: r) T Hn HT). reflexivity.
  - apply andb_true_iff in Ha. destruct Ha as [Ho Hps].
    rewrite <- app_comm_cons, <- app_assoc. cbn [app length]. rewrite app_length. cbn [length].
    apply bracket_cases in Ho. destruct Ho as [-> | [-> | ->]].
    + change (closer c_lparen) with c_rparen in *. unfold attribute_name.
      change ((c_lparen =? c_star)%N || (c_lparen =? c_hash)%N) with false. cbv iota.
      unfold consume_paired. rewrite eat_pair_other by reflexivity. cbn [orelse].
      rewrite (eat_pair_pieces c_lparen c_rparen eq_refl eq_refl eq_refl ps T Hps). cbn [orelse]. f_equal. lia.
    + change (closer c_lbrack) with c_rbrack in *. unfold attribute_name.
      change ((c_lbrack =? c_star)%N || (c_lbrack =? c_hash)%N) with false. cbv iota.
      unfold consume_paired. rewrite !eat_pair_other by reflexivity. cbn [orelse].
      rewrite (eat_pair_pieces c_lbrack c_rbrack eq_refl eq_refl eq_refl ps T Hps). cbn [orelse]. f_equal. lia.
    + change (closer c_lbrace) with c_rbrace in *. unfold attribute_name.
      change ((c_lbrace =? c_star)%N || (c_lbrace =? c_hash)%N) with false. cbv iota.
      unfold consume_paired. rewrite !eat_pair_other by reflexivity. cbn [orelse].
      rewrite (eat_pair_pieces c_lbrace c_rbrace eq_refl eq_refl eq_refl ps T Hps). cbn [orelse]. f_equal. lia.
Qed.

Lemma aname_stops_space a T : aname_ok a = true -> stops is_space (render_aname a ++ T).
Proof.
  intros Ha. destruct a as [n|d n|o ps]; cbn [aname_ok render_aname] in *.
  - destruct n as [|c r]; [discriminate|]. cbn [name_ok] in Ha. apply andb_true_iff in Ha. destruct Ha as [Hc _].
    cbn [app stops]. apply name_start_not_space. exact Hc.
  - apply andb_true_iff in Ha. destruct Ha as [Hd _]. cbn [app stops]. chars.
  - apply andb_true_iff in Ha. destruct Ha as [Ho _]. cbn [app stops]. chars.
Qed.

Definition araw_of (n : str) (v : aval) : araw :=
  match value_text v with
  | Some t => mkARaw (length n) (Some (length t)) (length n + 1 + length t)
  | None => mkARaw (length n) None (length n)
  end.

Lemma araw_of_used n v : ar_used (araw_of n v) = length (n ++ value_part v).
Proof.
  unfold araw_of, value_part. rewrite app_length.
  destruct (value_text v); cbn [ar_used length]; lia.
Qed.

Lemma attribute_at_render a v T :
  aname_ok a = true -> aval_ok v = true -> attr_stop T ->
  attribute_at (render_aname a ++ value_part v ++ T) = Some (araw_of (render_aname a) v).
Proof.
  intros Hn Hv HT. unfold attribute_at, araw_of, value_part.
  destruct (value_text v) as [t|] eqn:Et.
  - rewrite attribute_name_render; [|exact Hn|cbn [app stops]; exact eq_not_name].
    rewrite skipn_app_exact by reflexivity. cbn [app peek_is]. rewrite N.eqb_refl. cbn [tl].
    rewrite (attribute_value_text v t T Hv Et HT). reflexivity.
  - cbn [app]. rewrite attribute_name_render; [|exact Hn|apply attr_stop_name; exact HT].
    rewrite skipn_app_exact by reflexivity. rewrite attr_stop_peek_eq by exact HT. reflexivity.
Qed.

(* `>` or `/` does not start an attribute *)
Lemma attribute_at_terminator c T : is_terminator c = true -> attribute_at (c :: T) = None.
Proof. intros H. apply terminator_cases in H. destruct H as [-> | ->]; reflexivity. Qed.

(* ================================================================== skip_attributes *)
Lemma dattr_ok_parts a : dattr_ok a = true ->
  da_ws a <> [] /\ forallb is_space (da_ws a) = true /\ aname_ok (da_name a) = true /\ aval_ok (da_val a) = true.
Proof.
  unfold dattr_ok, ws_ok. intros H. repeat (apply andb_true_iff in H; destruct H as [H ?]).
  repeat split; try assumption. destruct (da_ws a); [discriminate|discriminate].
Qed.

Lemma name_ok_stops_space n T : name_ok n = true -> stops is_space (n ++ T).
Proof.
  destruct n as [|c r]; [discriminate|]. cbn [name_ok]. intros H. apply andb_true_iff in H. destruct H as [Hc _].
  cbn [app stops]. apply name_start_not_space. exact Hc.
Qed.

(* one round of the loop that finds an attribute after the white space [w] *)
Lemma skip_attributes_round w s1 a off :
  forallb is_space w = true -> stops is_space s1 -> attribute_at s1 = Some a ->
  ar_used a <= length s1 -> 1 <= length w + ar_used a ->
  skip_attributes 0 off (w ++ s1) = skip_attributes 0 (off + length w + ar_used a) (skipn (ar_used a) s1).
Proof.
  intros Hw Hs Ha Hu H1.
  destruct (w ++ s1) as [|x r] eqn:E.
  { apply app_eq_nil in E. destruct E as [-> ->]. discriminate Ha. }
  cbn [skip_attributes]. rewrite <- E.
  rewrite span_app_stop by assumption. rewrite skipn_app_exact by reflexivity. rewrite Ha.
  assert (Hlen : length w + length s1 = S (length r)).
  { rewrite <- app_length, E. reflexivity. }
  rewrite skip_attributes_skip by lia.
  replace (skipn (Init.Nat.pred (length w + ar_used a)) r) with (skipn (length w + ar_used a) (x :: r))
    by (destruct (length w + ar_used a); [lia|reflexivity]).
  rewrite <- E. rewrite <- skipn_skipn. rewrite skipn_app_exact by reflexivity. f_equal. lia.
Qed.

Lemma skip_attributes_attr a T off :
  dattr_ok a = true -> attr_stop T ->
  skip_attributes 0 off (render_attr a ++ T) = skip_attributes 0 (off + length (render_attr a)) T.
Proof.
  intros Ha HT. destruct (dattr_ok_parts a Ha) as (Hne & Hws & Hn & Hv).
  unfold render_attr. rewrite <- !app_assoc.
  rewrite (skip_attributes_round (da_ws a) _ (araw_of (render_aname (da_name a)) (da_val a)) off Hws).
  - rewrite araw_of_used. rewrite app_assoc. rewrite skipn_app_exact by reflexivity.
    f_equal. rewrite !app_length. lia.
  - apply aname_stops_space. exact Hn.
  - apply attribute_at_render; assumption.
  - rewrite araw_of_used. rewrite app_assoc. rewrite (app_length (_ ++ _)). lia.
  - destruct (da_ws a); [contradiction|cbn [length]; lia].
Qed.

(* the attribute list is followed by white space and `>` or `/` *)
Lemma attr_stop_tail l w c T :
  forallb dattr_ok l = true -> forallb is_space w = true -> is_terminator c = true ->
  attr_stop (render_attrs l ++ w ++ c :: T).
Proof.
  intros Hl Hw Hc. destruct l as [|a l].
  - cbn [render_attrs flat_map app]. destruct w as [|x w]; cbn [app attr_stop].
    + right. exact Hc.
    + cbn [forallb] in Hw. apply andb_true_iff in Hw. left. tauto.
  - cbn [forallb] in Hl. apply andb_true_iff in Hl. destruct Hl as [Ha _].
    destruct (dattr_ok_parts a Ha) as (Hne & Hws & _).
    unfold render_attrs. cbn [flat_map]. unfold render_attr at 1.
    destruct (da_ws a) as [|x ws]; [contradiction|]. cbn [app attr_stop].
    cbn [forallb] in Hws. apply andb_true_iff in Hws. left. tauto.
Qed.

Lemma skip_attributes_end w c T off :
  forallb is_space w = true -> is_terminator c = true ->
  skip_attributes 0 off (w ++ c :: T) = off + length w.
Proof.
  intros Hw Hc. destruct (w ++ c :: T) as [|x r] eqn:E.
  { destruct w; discriminate. }
  cbn [skip_attributes]. rewrite <- E.
  rewrite span_app_stop; [|exact Hw|cbn [stops]; apply terminator_not_space; exact Hc].
  rewrite skipn_app_exact by reflexivity. rewrite attribute_at_terminator by exact Hc. rewrite Hc. reflexivity.
Qed.

Theorem skip_attributes_render : forall l w c T off,
  forallb dattr_ok l = true -> forallb is_space w = true -> is_terminator c = true ->
  skip_attributes 0 off (render_attrs l ++ w ++ c :: T) = off + length (render_attrs l) + length w.
Proof.
  induction l as [|a l IH]; intros w c T off Hl Hw Hc.
  - cbn [render_attrs flat_map app length]. rewrite skip_attributes_end by assumption. lia.
  - pose proof Hl as Hl'. cbn [forallb] in Hl. apply andb_true_iff in Hl. destruct Hl as [Ha Hl].
    unfold render_attrs. cbn [flat_map]. fold (render_attrs l). rewrite <- app_assoc.
    rewrite skip_attributes_attr; [|exact Ha|apply attr_stop_tail; assumption].
    rewrite IH by assumption. rewrite app_length. lia.
Qed.

(* ================================================================== attributes() *)
Lemma attrs_go_round w s1 a pos :
  forallb is_space w = true -> stops is_space s1 -> attribute_at s1 = Some a ->
  ar_used a <= length s1 -> 1 <= length w + ar_used a ->
  attrs_go 0 pos (w ++ s1) =
  (let ns := (pos + N.of_nat (length w))%N in
   let ne := (ns + N.of_nat (ar_name a))%N in
   mkAttr (firstn (ar_name a) s1) ns ne
     (match ar_value a with
      | Some vl => Some (firstn vl (skipn (ar_name a + 1) s1), (ne + 1)%N, (ne + 1 + N.of_nat vl)%N)
      | None => None
      end))
  :: attrs_go 0 (pos + N.of_nat (length w + ar_used a))%N (skipn (ar_used a) s1).
Proof.
  intros Hw Hs Ha Hu H1.
  destruct (w ++ s1) as [|x r] eqn:E.
  { apply app_eq_nil in E. destruct E as [-> ->]. discriminate Ha. }
  cbn [attrs_go]. rewrite <- E.
  rewrite span_app_stop by assumption. rewrite skipn_app_exact by reflexivity. rewrite Ha.
  assert (Hlen : length w + length s1 = S (length r)).
  { rewrite <- app_length, E. reflexivity. }
  cbv zeta. f_equal.
  rewrite attrs_go_skip by lia.
  replace (skipn (Init.Nat.pred (length w + ar_used a)) r) with (skipn (length w + ar_used a) (x :: r))
    by (destruct (length w + ar_used a); [lia|reflexivity]).
  rewrite <- E. rewrite <- skipn_skipn. rewrite skipn_app_exact by reflexivity. f_equal. lia.
Qed.

(* trailing white space yields no token *)
Lemma attrs_go_overskip : forall s k pos, length s <= k -> attrs_go k pos s = [].
Proof.
  induction s as [|x r IH]; intros k pos H; [reflexivity|].
  cbn [length] in H. destruct k as [|k]; [lia|]. cbn [attrs_go]. apply IH. lia.
Qed.

Lemma attrs_go_spaces w pos : forallb is_space w = true -> attrs_go 0 pos w = [].
Proof.
  intros Hw. destruct w as [|x r] eqn:E; [reflexivity|]. rewrite <- E in Hw.
  cbn [attrs_go]. rewrite <- E. rewrite <- (app_nil_r w).
  rewrite span_app_stop by (try exact Hw; exact I). rewrite skipn_app_exact by reflexivity.
  cbn [attribute_at attribute_name]. apply attrs_go_overskip. subst w. cbn [length]. lia.
Qed.

Lemma attrs_go_attr a T pos :
  dattr_ok a = true -> attr_stop T ->
  attrs_go 0 pos (render_attr a ++ T) =
  attr_tokens pos [a] ++ attrs_go 0 (pos + N.of_nat (length (render_attr a)))%N T.
Proof.
  intros Ha HT. destruct (dattr_ok_parts a Ha) as (Hne & Hws & Hn & Hv).
  unfold render_attr. rewrite <- !app_assoc.
  rewrite (attrs_go_round (da_ws a) _ (araw_of (render_aname (da_name a)) (da_val a)) pos Hws).
  - cbv zeta. cbn [attr_tokens app]. f_equal.
    + unfold araw_of, value_part. destruct (value_text (da_val a)) as [t|] eqn:Et; cbn [ar_name ar_value].
      * rewrite firstn_app_exact by reflexivity.
        assert (E : firstn (length t) (skipn (length (render_aname (da_name a)) + 1) (render_aname (da_name a) ++ (c_eq :: t) ++ T)) = t).
        { change ((c_eq :: t) ++ T) with ([c_eq] ++ t ++ T). rewrite app_assoc.
          rewrite skipn_app_exact by (rewrite app_length; cbn [length]; lia).
          apply firstn_app_exact. reflexivity. }
        rewrite E. reflexivity.
      * rewrite firstn_app_exact by reflexivity. reflexivity.
    + rewrite araw_of_used. rewrite app_assoc. rewrite skipn_app_exact by reflexivity.
      f_equal. rewrite !app_length. lia.
  - apply aname_stops_space. exact Hn.
  - apply attribute_at_render; assumption.
  - rewrite araw_of_used. rewrite app_assoc. rewrite (app_length (_ ++ _)). lia.
  - destruct (da_ws a); [contradiction|cbn [length]; lia].
Qed.

Lemma attr_stop_tail_ws l w :
  forallb dattr_ok l = true -> forallb is_space w = true -> attr_stop (render_attrs l ++ w).
Proof.
  intros Hl Hw. destruct l as [|a l].
  - cbn [render_attrs flat_map app]. destruct w as [|x w]; cbn [attr_stop]; [exact I|].
    cbn [forallb] in Hw. apply andb_true_iff in Hw. left. tauto.
  - cbn [forallb] in Hl. apply andb_true_iff in Hl. destruct Hl as [Ha _].
    destruct (dattr_ok_parts a Ha) as (Hne & Hws & _).
    unfold render_attrs. cbn [flat_map]. unfold render_attr at 1.
    destruct (da_ws a) as [|x ws]; [contradiction|]. cbn [app attr_stop].
    cbn [forallb] in Hws. apply andb_true_iff in Hws. left. tauto.
Qed.

(* attributes() over a rendered attribute list (followed by white space): exactly the tokens
   of the list, with exact ranges *)
Theorem attrs_go_render : forall l w pos,
  forallb dattr_ok l = true -> forallb is_space w = true ->
  attrs_go 0 pos (render_attrs l ++ w) = attr_tokens pos l.
Proof.
  induction l as [|a l IH]; intros w pos Hl Hw.
  - cbn [render_attrs flat_map app attr_tokens]. apply attrs_go_spaces. exact Hw.
  - cbn [forallb] in Hl. apply andb_true_iff in Hl. destruct Hl as [Ha Hl].
    unfold render_attrs. cbn [flat_map]. fold (render_attrs l). rewrite <- app_assoc.
    rewrite attrs_go_attr; [|exact Ha|apply attr_stop_tail_ws; assumption].
    rewrite IH by assumption. reflexivity.
Qed.

Theorem attributes_render l w :
  forallb dattr_ok l = true -> forallb is_space w = true ->
  attributes (render_attrs l ++ w) None = attr_tokens 0 l.
Proof.
  intros Hl Hw. unfold attributes. cbn [skipn]. rewrite Nat.sub_0_r, firstn_all.
  apply attrs_go_render; assumption.
Qed.
