(* C16 (CSS half), scanner part: every event of CssScan.scan is well formed and the
   events are ordered.  Proof: invariant of the skip-counter loop. *)
From Coq Require Import ZArith List Bool Lia ZifyBool.
From Emmet Require Import lib.Base model.CssScan.
Import ListNotations.
Local Open Scope Z_scope.

(* ------------------------------------------------------------------ the event invariant *)
(* [ev_ok lo n e]: event [e] lies in [lo, n], its range is well formed, and its
   delimiter is consistent with it. *)
Definition ev_ok (lo n : Z) (e : event) : Prop :=
  lo <= estart e /\ estart e <= eend e /\ eend e <= n /\
  match ety e with
  | Selector => eend e <= edelim e + 1 /\ lo <= edelim e /\ edelim e < n
  | BlockEnd => estart e < eend e /\ edelim e = estart e
  | PropertyName | PropertyValue => edelim e = -1 \/ (eend e <= edelim e /\ edelim e < n)
  end.

(* the frontier after an event: nothing later starts before it *)
Definition ev_next (e : event) : Z :=
  match ety e with
  | Selector => edelim e + 1
  | BlockEnd => eend e
  | PropertyName | PropertyValue => if edelim e =? -1 then eend e else edelim e
  end.

Fixpoint events_ok (lo n : Z) (l : list event) : Prop :=
  match l with
  | [] => True
  | e :: r => ev_ok lo n e /\ events_ok (ev_next e) n r
  end.

(* same, also naming the frontier reached at the end *)
Fixpoint events_ok_to (lo n : Z) (l : list event) (lo' : Z) : Prop :=
  match l with
  | [] => lo' = lo
  | e :: r => ev_ok lo n e /\ events_ok_to (ev_next e) n r lo'
  end.

Lemma ev_next_ge lo n e : ev_ok lo n e -> lo <= ev_next e.
Proof.
  unfold ev_ok, ev_next. intros (H1 & H2 & H3 & H4).
  destruct (ety e); try lia.
  - destruct (edelim e =? -1) eqn:E; lia.
  - destruct (edelim e =? -1) eqn:E; lia.
Qed.

Lemma ev_ok_weaken lo lo0 n e : lo0 <= lo -> ev_ok lo n e -> ev_ok lo0 n e.
Proof.
  unfold ev_ok. intros Hl (H1 & H2 & H3 & H4). repeat split; try lia.
  destruct (ety e); try lia; try exact H4.
Qed.

Lemma events_ok_weaken l : forall lo lo0 n, lo0 <= lo -> events_ok lo n l -> events_ok lo0 n l.
Proof.
  destruct l as [|e r]; intros lo lo0 n Hl H; [exact I|].
  destruct H as [H1 H2]. split; [eapply ev_ok_weaken; eauto|exact H2].
Qed.

Lemma events_ok_app l1 : forall lo n lo1 l2,
  events_ok_to lo n l1 lo1 -> events_ok lo1 n l2 -> events_ok lo n (l1 ++ l2).
Proof.
  induction l1 as [|e r IH]; intros lo n lo1 l2 H1 H2; cbn [events_ok_to app] in *.
  - subst. exact H2.
  - destruct H1 as [Ha Hb]. split; [exact Ha|]. eapply IH; eauto.
Qed.

Lemma events_ok_to_ge l : forall lo n lo', events_ok_to lo n l lo' -> lo <= lo'.
Proof.
  induction l as [|e r IH]; intros lo n lo' H; cbn [events_ok_to] in H.
  - lia.
  - destruct H as [Ha Hb]. apply IH in Hb. apply ev_next_ge in Ha. lia.
Qed.

(* every event of an ordered list has a well-formed range inside [0, n] *)
Definition range_wf (n a b : Z) : Prop := 0 <= a /\ a <= b /\ b <= n.

Lemma events_ok_forall l : forall lo n, 0 <= lo -> events_ok lo n l ->
  Forall (fun e => range_wf n (estart e) (eend e) /\ -1 <= edelim e < Z.max n 1) l.
Proof.
  induction l as [|e r IH]; intros lo n Hlo H; [constructor|].
  destruct H as [Ha Hb]. constructor.
  - unfold ev_ok in Ha. destruct Ha as (H1 & H2 & H3 & H4). unfold range_wf.
    split; [lia|]. destruct (ety e); lia.
  - eapply IH; [|exact Hb]. apply ev_next_ge in Ha. lia.
Qed.

(* ------------------------------------------------------------------ consumed lengths *)
Lemma cspan_le p s : (cspan p s <= length s)%nat.
Proof. induction s as [|c r IH]; cbn [cspan length]; [lia|]. destruct (p c); lia. Qed.

Lemma comment_body_le s : (comment_body s <= length s)%nat.
Proof.
  induction s as [|c r IH]; cbn [comment_body length]; [lia|].
  destruct (c =? c_star)%N; [|lia].
  destruct r as [|c2 r']; [lia|]. destruct (c2 =? c_slash)%N; cbn [length] in *; lia.
Qed.

Lemma comment_len_le s : (comment_len s <= length s)%nat.
Proof.
  unfold comment_len. destruct s as [|c1 [|c2 r]]; cbn [length]; try lia.
  destruct ((c1 =? c_slash) && (c2 =? c_star))%N; [|lia].
  pose proof (comment_body_le r). lia.
Qed.

Lemma lit_body_le q : forall s, (lit_body q s <= length s)%nat.
Proof.
  fix IH 1. intros s. destruct s as [|c r]; cbn [lit_body length]; [lia|].
  destruct ((c =? q) || (c =? c_nl) || (c =? c_cr))%N; [lia|].
  destruct (c =? c_bslash)%N.
  - destruct r as [|c2 r']; cbn [length]; [lia|]. pose proof (IH r'). lia.
  - pose proof (IH r). lia.
Qed.

Lemma literal_len_le s : (literal_len s <= length s)%nat.
Proof.
  unfold literal_len. destruct s as [|c r]; cbn [length]; [lia|].
  destruct (is_quote c); [|lia]. pose proof (lit_body_le c r). lia.
Qed.

Lemma literal_len_pos c r : is_quote c = true -> (1 <= literal_len (c :: r))%nat.
Proof. intros H. unfold literal_len. rewrite H. lia. Qed.

(* ------------------------------------------------------------------ the state invariant *)
(* at a round boundary [p], with frontier [lo] of the events emitted so far *)
Record st_inv (lo p : Z) (st : sstate) : Prop := {
  inv_pending : st_pstart st = -1 \/
                (lo <= st_pstart st /\ st_pstart st <= st_pend st /\ st_pend st <= st_pdelim st /\ st_pdelim st < p);
  inv_token : (st_start st = -1 /\ st_end st = -1) \/
              (lo <= st_start st /\ st_start st <= st_end st /\ st_end st <= p /\
               (st_pstart st <> -1 -> st_pdelim st < st_start st));
  inv_sel : st_sel st = -1 \/
            (lo <= st_sel st /\ st_sel st < p /\
             (st_start st <> -1 -> st_sel st <= st_start st) /\
             (st_pstart st <> -1 -> st_sel st <= st_pstart st))
}.

Lemma st_inv_reset lo p st : st_inv lo p (st_reset st).
Proof. constructor; cbn; auto. Qed.

Lemma st_inv_step lo p p' st : p <= p' -> st_inv lo p st -> st_inv lo p' st.
Proof.
  intros Hp [H1 H2 H3]. constructor.
  - destruct H1 as [H1|H1]; [left; exact H1|right; lia].
  - destruct H2 as [H2|H2]; [left; exact H2|right; lia].
  - destruct H3 as [H3|H3]; [left; exact H3|right; lia].
Qed.

Lemma st0_inv : st_inv 0 0 st0.
Proof. constructor; cbn; auto. Qed.

(* ------------------------------------------------------------------ branches *)
Lemma else_branch_ok st pos c s lo k st' :
  0 <= lo -> lo <= pos -> st_inv lo pos st ->
  (c <= length s)%nat -> (c = O -> s <> []) ->
  else_branch st pos c s = (k, st') ->
  (1 <= k <= length s)%nat /\ st_inv lo (pos + Z.of_nat k) st'.
Proof.
  intros Hlo Hpos [H1 H2 H3] Hc Hs E. unfold else_branch in E.
  set (start := if st_start st =? -1 then pos else st_start st) in E.
  assert (Hn : exists nn ex, (1 <= nn <= length s)%nat /\
            k = nn /\ st' = mkSt start (pos + Z.of_nat nn) (st_pdelim st) (st_pstart st) (st_pend st) ex (st_sel st)).
  { destruct c as [|c'].
    - destruct s as [|ch r]; [exfalso; apply Hs; reflexivity|].
      destruct (ch =? c_lparen)%N.
      { inversion E; subst. exists 1%nat. eexists. split; [cbn [length]; lia|split; reflexivity]. }
      destruct (ch =? c_rparen)%N.
      { inversion E; subst. exists 1%nat. eexists. split; [cbn [length]; lia|split; reflexivity]. }
      destruct (is_quote ch) eqn:Q.
      + inversion E; subst. exists (literal_len (ch :: r)). eexists. split; [|split; reflexivity].
        split; [apply literal_len_pos; exact Q|apply literal_len_le].
      + inversion E; subst. exists 1%nat. eexists. split; [cbn [length]; lia|split; reflexivity].
    - inversion E; subst. exists (S c'). eexists. split; [|split; reflexivity]. lia. }
  destruct Hn as (nn & ex & Hnn & -> & ->). split; [exact Hnn|].
  constructor; cbn.
  - destruct H1 as [H1|H1]; [left; exact H1|right; lia].
  - right. unfold start. destruct (st_start st =? -1) eqn:Es.
    + repeat split; try lia.
    + destruct H2 as [H2|H2]; [lia|]. repeat split; try lia; try tauto.
  - destruct H3 as [H3|H3]; [left; exact H3|right].
    unfold start. destruct (st_start st =? -1) eqn:Es; repeat split; try lia; tauto.
Qed.

Lemma colon_branch_ok st pos lo :
  0 <= lo -> lo <= pos -> st_inv lo pos st -> st_inv lo (pos + 1) (colon_branch st pos).
Proof.
  intros Hlo Hpos [H1 H2 H3]. unfold colon_branch. constructor; cbn.
  - destruct (st_pstart st =? -1) eqn:Ep.
    + destruct H2 as [H2|H2]; [left; tauto|]. right.
      destruct (st_end st =? -1) eqn:Ee; lia.
    + right. destruct H1 as [H1|H1]; [lia|].
      destruct (st_end st =? -1) eqn:Ee; [lia|].
      destruct H2 as [H2|H2]; [lia|]. lia.
  - left. split; reflexivity.
  - destruct ((st_start st =? -1) && (st_pstart st =? -1) && (st_sel st =? -1)) eqn:Ec.
    + right. repeat split; try lia. intros Hp.
      destruct (st_pstart st =? -1) eqn:Ep; lia.
    + destruct H3 as [H3|H3]; [left; exact H3|right].
      repeat split; try lia. intros Hp.
      destruct (st_pstart st =? -1) eqn:Ep; [|lia].
      destruct H3 as (_ & _ & H3 & _). apply H3. lia.
Qed.

Lemma end_branch_ok st pos b lo n st' evs :
  0 <= lo -> lo <= pos -> pos < n -> st_inv lo pos st ->
  end_branch st pos b = (st', evs) ->
  exists lo', events_ok_to lo n evs lo' /\ lo' <= pos + 1 /\ st_inv lo' (pos + 1) st'.
Proof.
  intros Hlo Hpos Hn [H1 H2 H3] E. unfold end_branch in E. inversion E; subst st' evs; clear E.
  destruct (st_pstart st =? -1) eqn:Ep; cbn [negb].
  - destruct (st_start st =? -1) eqn:Es; cbn [negb].
    + (* nothing pending *)
      destruct b; cbn [app events_ok_to].
      * exists (pos + 1). split; [|split; [lia|apply st_inv_reset]].
        split; [|reflexivity]. unfold ev_ok; cbn. lia.
      * exists lo. split; [reflexivity|split; [lia|apply st_inv_reset]].
    + (* flush consumed token *)
      destruct H2 as [H2|H2]; [lia|].
      destruct b; cbn [app events_ok_to].
      * exists (pos + 1). split; [|split; [lia|apply st_inv_reset]].
        split; [unfold ev_ok; cbn; lia|].
        split; [|reflexivity]. unfold ev_ok, ev_next; cbn.
        replace (pos =? -1) with false by lia. lia.
      * exists pos. split; [|split; [lia|apply st_inv_reset]].
        split; [unfold ev_ok; cbn; lia|].
        unfold ev_next; cbn. replace (pos =? -1) with false by lia. reflexivity.
  - (* pending property *)
    destruct H1 as [H1|H1]; [lia|].
    assert (Hd : (st_pdelim st =? -1) = false) by lia.
    destruct (st_start st =? -1) eqn:Es.
    + destruct b; cbn [app events_ok_to].
      * exists (pos + 1). split; [|split; [lia|apply st_inv_reset]].
        split; [unfold ev_ok; cbn; lia|].
        unfold ev_next at 1; cbn [ety edelim]. rewrite Hd.
        split; [unfold ev_ok; cbn; lia|].
        unfold ev_next at 1; cbn [ety edelim eend]. replace (pos =? -1) with false by lia.
        split; [unfold ev_ok; cbn; lia|reflexivity].
      * exists pos. split; [|split; [lia|apply st_inv_reset]].
        split; [unfold ev_ok; cbn; lia|].
        unfold ev_next at 1; cbn [ety edelim]. rewrite Hd.
        split; [unfold ev_ok; cbn; lia|].
        unfold ev_next; cbn. replace (pos =? -1) with false by lia. reflexivity.
    + destruct H2 as [H2|H2]; [lia|].
      assert (st_pdelim st < st_start st) by (apply H2; lia).
      destruct b; cbn [app events_ok_to].
      * exists (pos + 1). split; [|split; [lia|apply st_inv_reset]].
        split; [unfold ev_ok; cbn; lia|].
        unfold ev_next at 1; cbn [ety edelim]. rewrite Hd.
        split; [unfold ev_ok; cbn; lia|].
        unfold ev_next at 1; cbn [ety edelim eend]. replace (pos =? -1) with false by lia.
        split; [unfold ev_ok; cbn; lia|reflexivity].
      * exists pos. split; [|split; [lia|apply st_inv_reset]].
        split; [unfold ev_ok; cbn; lia|].
        unfold ev_next at 1; cbn [ety edelim]. rewrite Hd.
        split; [unfold ev_ok; cbn; lia|].
        unfold ev_next; cbn. replace (pos =? -1) with false by lia. reflexivity.
Qed.

Lemma open_branch_ok st pos lo n st' evs :
  0 <= lo -> lo <= pos -> pos < n -> st_inv lo pos st ->
  open_branch st pos = (st', evs) ->
  exists lo', events_ok_to lo n evs lo' /\ lo' <= pos + 1 /\ st_inv lo' (pos + 1) st'.
Proof.
  intros Hlo Hpos Hn [H1 H2 H3] E. unfold open_branch in E.
  exists (pos + 1).
  destruct ((st_start st =? -1) && (st_pstart st =? -1)) eqn:E1;
  destruct (st_pstart st =? -1) eqn:Ep; cbn [negb] in E;
  destruct (st_sel st =? -1) eqn:Esel; cbn [negb] in E;
  try (destruct (st_end st =? -1) eqn:Ee);
  inversion E; subst st' evs; clear E;
  (split; [|split; [lia|apply st_inv_reset]]);
  cbn [events_ok_to]; (split; [|unfold ev_next; cbn; reflexivity]);
  unfold ev_ok; cbn;
  try (destruct H1 as [H1|H1]; [lia|]);
  try (destruct H2 as [H2|H2]; [try lia|]);
  try (destruct H3 as [H3|H3]; [try lia|]);
  try lia.
  all: try (destruct H3 as (Ha & Hb & Hc & Hd); try lia).
  all: try (assert (st_sel st <= st_start st) by (apply Hc; lia); lia).
  all: try (assert (st_sel st <= st_pstart st) by (apply Hd; lia); lia).
Qed.

(* ------------------------------------------------------------------ one round *)
Lemma scan_round_ok st pos s lo n k st' evs :
  s <> [] -> n = pos + Z.of_nat (length s) ->
  0 <= lo -> lo <= pos -> st_inv lo pos st ->
  scan_round st pos s = (k, st', evs) ->
  (1 <= k <= length s)%nat /\
  exists lo', events_ok_to lo n evs lo' /\ lo' <= pos + Z.of_nat k /\ st_inv lo' (pos + Z.of_nat k) st'.
Proof.
  intros Hs Hn Hlo Hpos Hinv E. unfold scan_round in E.
  pose proof (comment_len_le s) as Hcl.
  destruct (comment_len s) as [|kc] eqn:Ec.
  2:{ inversion E; subst. split; [lia|]. exists lo. split; [reflexivity|split; [lia|]].
      eapply st_inv_step; [|exact Hinv]. lia. }
  pose proof (cspan_le is_space s) as Hws.
  destruct (cspan is_space s) as [|kw] eqn:Ew.
  2:{ inversion E; subst. split; [lia|]. exists lo. split; [reflexivity|split; [lia|]].
      eapply st_inv_step; [|exact Hinv]. lia. }
  destruct s as [|c r]; [exfalso; apply Hs; reflexivity|].
  assert (Hlt : pos < n) by (cbn [length] in Hn; lia).
  assert (H1len : (1 <= 1 <= length (c :: r))%nat) by (cbn [length]; lia).
  destruct (c =? c_rbrace)%N.
  { destruct (end_branch st pos true) as [st1 evs1] eqn:Eb. inversion E; subst k st' evs.
    split; [exact H1len|]. eapply end_branch_ok in Eb; eauto. }
  destruct (c =? c_semi)%N.
  { destruct (end_branch st pos false) as [st1 evs1] eqn:Eb. inversion E; subst k st' evs.
    split; [exact H1len|]. eapply end_branch_ok in Eb; eauto. }
  destruct (c =? c_lbrace)%N.
  { destruct (open_branch st pos) as [st1 evs1] eqn:Eb. inversion E; subst k st' evs.
    split; [exact H1len|]. eapply open_branch_ok in Eb; eauto. }
  assert (Helse : forall cc kk st1, (cc <= length (c :: r))%nat ->
            else_branch st pos cc (c :: r) = (kk, st1) ->
            (1 <= kk <= length (c :: r))%nat /\
            exists lo', events_ok_to lo n [] lo' /\ lo' <= pos + Z.of_nat kk /\ st_inv lo' (pos + Z.of_nat kk) st1).
  { intros cc kk st1 Hcc Eb.
    assert (Hne : cc = O -> c :: r <> []) by (intros _; discriminate).
    destruct (else_branch_ok _ _ _ _ _ _ _ Hlo Hpos Hinv Hcc Hne Eb) as [Hk Hi]. split; [exact Hk|]. exists lo. split; [reflexivity|split; [lia|exact Hi]]. }
  destruct (c =? c_colon)%N.
  { destruct (truthyZ (st_expr st)).
    - destruct (else_branch st pos 1 (c :: r)) as [n1 st1] eqn:Eb. inversion E; subst k st' evs.
      eapply Helse; [|exact Eb]. cbn [length]; lia.
    - pose proof (cspan_le (N.eqb c_colon) r) as Hcc.
      destruct (cspan (N.eqb c_colon) r) as [|kk] eqn:Ek.
      + inversion E; subst k st' evs. split; [exact H1len|]. exists lo.
        split; [reflexivity|split; [lia|]]. apply colon_branch_ok; assumption.
      + destruct (else_branch st pos (2 + kk) (c :: r)) as [n1 st1] eqn:Eb. inversion E; subst k st' evs.
        eapply Helse; [|exact Eb]. cbn [length]; lia. }
  destruct (else_branch st pos 0 (c :: r)) as [n1 st1] eqn:Eb. inversion E; subst k st' evs.
  eapply Helse; [|exact Eb]. lia.
Qed.

(* ------------------------------------------------------------------ end of input *)
Lemma scan_eof_ok st lo n : 0 <= lo -> lo <= n -> st_inv lo n st -> events_ok lo n (scan_eof st).
Proof.
  intros Hlo Hn [H1 H2 H3]. unfold scan_eof.
  destruct (st_pstart st =? -1) eqn:Ep; cbn [negb app].
  - destruct (st_start st =? -1) eqn:Es; cbn [negb events_ok]; [exact I|].
    destruct H2 as [H2|H2]; [lia|]. split; [|exact I]. unfold ev_ok; cbn. lia.
  - destruct H1 as [H1|H1]; [lia|].
    assert (Hd : (st_pdelim st =? -1) = false) by lia.
    destruct (st_start st =? -1) eqn:Es; cbn [negb events_ok app].
    + split; [|exact I]. unfold ev_ok; cbn. lia.
    + destruct H2 as [H2|H2]; [lia|].
      assert (st_pdelim st < st_start st) by (apply H2; lia).
      split; [unfold ev_ok; cbn; lia|].
      unfold ev_next; cbn [ety edelim]. rewrite Hd.
      split; [|exact I]. unfold ev_ok; cbn. lia.
Qed.

(* ------------------------------------------------------------------ the loop *)
Lemma scan_go_ok : forall s skip st pos lo n,
  n = pos + Z.of_nat (length s) -> (skip <= length s)%nat ->
  0 <= lo -> lo <= pos + Z.of_nat skip -> st_inv lo (pos + Z.of_nat skip) st ->
  events_ok lo n (scan_go skip st pos s).
Proof.
  induction s as [|c r IH]; intros skip st pos lo n Hn Hskip Hlo Hpos Hinv.
  - cbn [length] in *. assert (skip = O) by lia. subst skip. cbn [scan_go].
    replace (pos + Z.of_nat 0) with n in * by lia. apply scan_eof_ok; auto.
  - cbn [scan_go]. destruct skip as [|k].
    + destruct (scan_round st pos (c :: r)) as [[nn st'] evs] eqn:E.
      replace (pos + Z.of_nat 0) with pos in * by lia.
      eapply scan_round_ok in E; eauto; [|discriminate].
      destruct E as (Hk & lo' & He & Hlo' & Hinv').
      eapply events_ok_app; [exact He|].
      pose proof (events_ok_to_ge _ _ _ _ He) as Hge.
      apply IH.
      * cbn [length] in Hn. lia.
      * cbn [length] in Hk. lia.
      * lia.
      * replace (pos + 1 + Z.of_nat (Nat.pred nn)) with (pos + Z.of_nat nn) by lia. exact Hlo'.
      * replace (pos + 1 + Z.of_nat (Nat.pred nn)) with (pos + Z.of_nat nn) by lia. exact Hinv'.
    + apply IH.
      * cbn [length] in Hn. lia.
      * cbn [length] in Hskip. lia.
      * exact Hlo.
      * replace (pos + 1 + Z.of_nat k) with (pos + Z.of_nat (S k)) by lia. exact Hpos.
      * replace (pos + 1 + Z.of_nat k) with (pos + Z.of_nat (S k)) by lia. exact Hinv.
Qed.

(* the events of [scan s] are ordered and lie inside [0, |s|] *)
Theorem scan_events_ok s : events_ok 0 (Z.of_nat (length s)) (scan s).
Proof.
  unfold scan. apply scan_go_ok; try lia. cbn. apply st0_inv.
Qed.

(* C16 (CSS, scanner): every reported range satisfies 0 <= start <= end <= |s| *)
Theorem css_scan_events_wf s :
  Forall (fun e => range_wf (Z.of_nat (length s)) (estart e) (eend e)
                   /\ -1 <= edelim e < Z.max (Z.of_nat (length s)) 1) (scan s).
Proof. eapply events_ok_forall; [|apply scan_events_ok]. lia. Qed.
