(* C04 -- wrap_plain for ALL abbreviation trees without `$#` and without an implicit repeater: converting
   them never looks at the text, so the whole text is inserted once into the deepest last element of
   exactly the tree the abbreviation yields without text. *)
From Coq Require Import ZArith List Bool Lia ZifyBool.
From Emmet Require Import lib.Base model.MarkupTokenizer model.MarkupParser model.MarkupConvert
     proofs.TextSpec proofs.TextConvert proofs.TextWrap.
Local Open Scope N_scope.

(* the same converter environment without text *)
Definition no_text (env : cenv) : cenv := mkCenv WNone (ce_vars env) (ce_href env).

Definition quiet_tok (t : token) : Prop := tk t <> TRepeaterPlaceholder.
Definition quiet_toks (l : list token) : Prop := Forall quiet_tok l.
Definition quiet_otoks (o : option (list token)) : Prop := match o with Some l => quiet_toks l | None => True end.
Definition quiet_attr (a : tattr) : Prop := quiet_otoks (ta_name a) /\ quiet_otoks (ta_value a).
Definition explicit (rp : option rep) : Prop := match rp with Some r => rimplicit r = false | None => True end.

(* no `$#` anywhere, no implicit repeater anywhere *)
Fixpoint quiet (n : tnode) : Prop :=
  match n with
  | TElem name attrs value rp _ els =>
      quiet_otoks name /\ quiet_otoks value
      /\ match attrs with Some l => Forall quiet_attr l | None => True end
      /\ explicit rp
      /\ (fix all (l : list tnode) : Prop := match l with [] => True | c :: r => quiet c /\ all r end) els
  | TGroup els rp =>
      explicit rp
      /\ (fix all (l : list tnode) : Prop := match l with [] => True | c :: r => quiet c /\ all r end) els
  end.
Fixpoint quiet_all (l : list tnode) : Prop := match l with [] => True | c :: r => quiet c /\ quiet_all r end.

Lemma quiet_all_eq l :
  (fix all (l : list tnode) : Prop := match l with [] => True | c :: r => quiet c /\ all r end) l = quiet_all l.
Proof. induction l; [reflexivity|]. cbn [quiet_all]. rewrite <- IHl. reflexivity. Qed.

(* [same r r0]: same outcome, and the state is passed through untouched *)
Definition thru {A} (st : cst) (r r0 : res (A * cst)) : Prop :=
  r = r0 /\ match r with Ok (_, st') => st' = st | _ => True end.

Lemma stringify_quiet env t st : quiet_tok t -> thru st (stringify env t st) (stringify (no_text env) t st).
Proof.
  intros H. unfold quiet_tok in H. unfold thru, stringify.
  destruct (tk t) as [v|v|s|op b|o|c v i|sz rv bs p| |name idx]; try (split; reflexivity).
  - destruct (op_char o); split; reflexivity.
  - congruence.
  - destruct idx; [destruct name; split; reflexivity|]. destruct name; split; reflexivity.
Qed.

Lemma stringify_name_quiet env : forall l st, quiet_toks l ->
  thru st (stringify_name env l st) (stringify_name (no_text env) l st).
Proof.
  induction l as [|t l IH]; intros st H; [split; reflexivity|].
  inversion H as [|x y Ht Hl]; subst.
  cbn [stringify_name]. destruct (stringify_quiet env t st Ht) as [E1 E2]. rewrite <- E1.
  destruct (stringify env t st) as [[s st1]| | |]; try (split; reflexivity). subst st1.
  destruct (IH st Hl) as [E3 E4]. rewrite <- E3.
  destruct (stringify_name env l st) as [[s' st2]| | |]; try (split; reflexivity). subst st2. split; reflexivity.
Qed.

Lemma stringify_value_quiet env : forall l acc st, quiet_toks l ->
  thru st (stringify_value_acc env l acc st) (stringify_value_acc (no_text env) l acc st).
Proof.
  induction l as [|t l IH]; intros acc st H; [split; reflexivity|].
  inversion H as [|x y Ht Hl]; subst.
  cbn [stringify_value_acc].
  assert (Hgen : thru st
            (match stringify env t st with
             | Ok (s, st1) => stringify_value_acc env l (Some (match acc with Some a => a ++ s | None => s end)) st1
             | ParseErr k p => ParseErr k p | Internal k => Internal k | OutOfFuel => OutOfFuel
             end)
            (match stringify (no_text env) t st with
             | Ok (s, st1) => stringify_value_acc (no_text env) l (Some (match acc with Some a => a ++ s | None => s end)) st1
             | ParseErr k p => ParseErr k p | Internal k => Internal k | OutOfFuel => OutOfFuel
             end)).
  { destruct (stringify_quiet env t st Ht) as [E1 E2]. rewrite <- E1.
    destruct (stringify env t st) as [[s st1]| | |]; try (split; reflexivity). subst st1. apply IH. exact Hl. }
  destruct (tk t) as [v|v|s|op b|o|c v i|sz rv bs p| |name idx]; try exact Hgen.
  destruct idx as [i|]; [|exact Hgen].
  destruct (IH None st Hl) as [E3 E4]. rewrite <- E3.
  destruct (stringify_value_acc env l None st) as [[l' st2]| | |]; try (split; reflexivity). subst st2. split; reflexivity.
Qed.

Lemma quiet_drop_last l : quiet_toks l -> quiet_toks (drop_last l).
Proof.
  unfold quiet_toks, drop_last. intros H. rewrite <- (firstn_skipn (length l - 1) l) in H.
  apply Forall_app in H. tauto.
Qed.

Lemma nonempty_quiet o : quiet_otoks o -> match nonempty o with Some l => quiet_toks l | None => True end.
Proof. destruct o as [[|t l]|]; cbn [nonempty quiet_otoks]; auto. Qed.

Lemma convert_attribute_quiet env a st : quiet_attr a ->
  thru st (convert_attribute env a st) (convert_attribute (no_text env) a st).
Proof.
  intros [Hn Hv]. unfold convert_attribute.
  apply nonempty_quiet in Hn. apply nonempty_quiet in Hv.
  (* the name *)
  assert (Hname : thru st
     (match nonempty (ta_name a) with
      | Some toks => match stringify_name env toks st with
                     | Ok (s, st') => Ok (Some s, st')
                     | ParseErr k p => ParseErr k p | Internal k => Internal k | OutOfFuel => OutOfFuel
                     end
      | None => Ok (None, st)
      end)
     (match nonempty (ta_name a) with
      | Some toks => match stringify_name (no_text env) toks st with
                     | Ok (s, st') => Ok (Some s, st')
                     | ParseErr k p => ParseErr k p | Internal k => Internal k | OutOfFuel => OutOfFuel
                     end
      | None => Ok (None, st)
      end)).
  { destruct (nonempty (ta_name a)) as [toks|]; [|split; reflexivity].
    destruct (stringify_name_quiet env toks st Hn) as [E1 E2]. rewrite <- E1.
    destruct (stringify_name env toks st) as [[s st1]| | |]; try (split; reflexivity). subst. split; reflexivity. }
  destruct Hname as [E1 E2]. rewrite <- E1.
  match goal with |- thru _ (bind ?X _) _ => destruct X as [[name0 st1]| | |] end; try (split; reflexivity).
  subst st1. cbn [bind].
  match goal with |- thru _ (match ?X with (_, _) => _ end) _ => destruct X as [[name boolean] implied] end.
  destruct (nonempty (ta_value a)) as [toks|]; [|split; reflexivity].
  match goal with |- thru _ (match ?X with (_, _) => _ end) _ => destruct X as [toks' vtype] eqn:E end.
  assert (Hq : quiet_toks toks').
  { destruct toks as [|t0 rest]; [inversion E; subst; constructor|].
    inversion Hv as [|x y Ht0 Hrest]; subst.
    destruct (tk t0) as [v|v|s|op b|o|c v i|sz rv bs p| |nm idx]; try (inversion E; subst; exact Hv).
    - inversion E; subst. destruct (last_opt rest); [|exact Hrest].
      destruct (is_quote_tok t None); [apply quiet_drop_last|]; exact Hrest.
    - destruct op; [|inversion E; subst; exact Hv].
      destruct b; try (inversion E; subst; exact Hv).
      inversion E; subst. destruct (last_opt rest); [|exact Hrest].
      destruct (is_bracket t (Some BExpr) (Some false)); [apply quiet_drop_last|]; exact Hrest. }
  destruct (stringify_value_quiet env toks' None st Hq) as [E3 E4].
  unfold stringify_value. rewrite <- E3.
  destruct (stringify_value_acc env toks' None st) as [[v st2]| | |]; try (split; reflexivity).
  subst st2. split; reflexivity.
Qed.

Lemma convert_attributes_quiet env : forall l st, Forall quiet_attr l ->
  thru st (convert_attributes env l st) (convert_attributes (no_text env) l st).
Proof.
  induction l as [|a l IH]; intros st H; [split; reflexivity|].
  inversion H as [|x y Ha Hl]; subst. cbn [convert_attributes].
  destruct (convert_attribute_quiet env a st Ha) as [E1 E2]. rewrite <- E1.
  destruct (convert_attribute env a st) as [[a' st1]| | |]; try (split; reflexivity). subst st1. cbn [bind].
  destruct (IH st Hl) as [E3 E4]. rewrite <- E3.
  destruct (convert_attributes env l st) as [[r' st2]| | |]; try (split; reflexivity). subst st2. split; reflexivity.
Qed.

(* same outcome with and without text, and "text inserted" is not touched *)
Definition indep {A} (st : cst) (r r0 : res (A * cst)) : Prop :=
  r = r0 /\ match r with Ok (_, st') => cs_text_inserted st' = cs_text_inserted st | _ => True end.

Lemma thru_indep {A} st (r r0 : res (A * cst)) : thru st r r0 -> indep st r r0.
Proof. intros [E H]. split; [exact E|]. destruct r as [[a st']| | |]; [subst; reflexivity|exact I|exact I|exact I]. Qed.

Lemma tnode_ind' (P : tnode -> Prop) :
  (forall a b c r s els, Forall P els -> P (TElem a b c r s els)) ->
  (forall els r, Forall P els -> P (TGroup els r)) ->
  forall n, P n.
Proof.
  intros H1 H2. fix IH 1. intros [a b c r s els|els r].
  - apply H1. induction els as [|x l IHl]; constructor; [apply IH|exact IHl].
  - apply H2. induction els as [|x l IHl]; constructor; [apply IH|exact IHl].
Qed.

Definition stmt_indep (env : cenv) (c : tnode) : Prop :=
  forall st, indep st (conv_stmt env c st) (conv_stmt (no_text env) c st).

Lemma conv_kids_indep env : forall els, Forall (stmt_indep env) els ->
  forall st, indep st (conv_kids env els st) (conv_kids (no_text env) els st).
Proof.
  induction els as [|c l IH]; intros HF st; [split; reflexivity|].
  inversion HF as [|x y Hc Hl]; subst. cbn [conv_kids].
  destruct (Hc st) as [E1 E2]. rewrite <- E1.
  destruct (conv_stmt env c st) as [[a s1]| | |]; try (split; reflexivity). cbn [bind].
  fold (conv_kids env). fold (conv_kids (no_text env)).
  destruct (IH Hl s1) as [E3 E4]. rewrite <- E3.
  destruct (conv_kids env l s1) as [[b s2]| | |]; try (split; reflexivity). cbn [bind].
  split; [reflexivity|]. congruence.
Qed.

Lemma once_of_indep env node :
  Forall (stmt_indep env) (elements_of node) ->
  match node with
  | TElem name attrs value _ _ _ =>
      quiet_otoks name /\ quiet_otoks value /\ match attrs with Some l => Forall quiet_attr l | None => True end
  | TGroup _ _ => True
  end ->
  forall cur st, indep st (once_of env node cur st) (once_of (no_text env) node cur st).
Proof.
  intros Hk Hq cur st. destruct node as [name attrs value rp sc els|els rp]; cbn [elements_of] in Hk.
  - destruct Hq as [Hn [Hv Ha]]. unfold once_of.
    apply nonempty_quiet in Hn. apply nonempty_quiet in Hv.
    (* name *)
    assert (H1 : thru st
       (match nonempty name with
        | Some toks => let* (s, s') := stringify_name env toks st in Ok (Some s, s')
        | None => Ok (None, st) end)
       (match nonempty name with
        | Some toks => let* (s, s') := stringify_name (no_text env) toks st in Ok (Some s, s')
        | None => Ok (None, st) end)).
    { destruct (nonempty name) as [toks|]; [|split; reflexivity].
      destruct (stringify_name_quiet env toks st Hn) as [E1 E2]. rewrite <- E1.
      destruct (stringify_name env toks st) as [[s st1]| | |]; try (split; reflexivity). subst. split; reflexivity. }
    destruct H1 as [E1 E2]. rewrite <- E1.
    match goal with |- indep _ (bind ?X _) _ => destruct X as [[nm st1]| | |] end; try (split; reflexivity).
    subst st1. cbn [bind].
    (* value *)
    assert (H2 : thru st
       (match nonempty value with
        | Some toks => let* (v, s') := stringify_value env toks st in Ok (Some v, s')
        | None => Ok (None, st) end)
       (match nonempty value with
        | Some toks => let* (v, s') := stringify_value (no_text env) toks st in Ok (Some v, s')
        | None => Ok (None, st) end)).
    { destruct (nonempty value) as [toks|]; [|split; reflexivity].
      destruct (stringify_value_quiet env toks None st Hv) as [E3 E4]. unfold stringify_value. rewrite <- E3.
      destruct (stringify_value_acc env toks None st) as [[v st1]| | |]; try (split; reflexivity). subst. split; reflexivity. }
    destruct H2 as [E3 E4]. rewrite <- E3.
    match goal with |- indep _ (bind ?X _) _ => destruct X as [[val st2]| | |] end; try (split; reflexivity).
    subst st2. cbn [bind].
    (* children *)
    destruct (conv_kids_indep env els Hk st) as [E5 E6]. rewrite <- E5.
    destruct (conv_kids env els st) as [[kids st3]| | |]; try (split; reflexivity). cbn [bind].
    (* attributes *)
    assert (H4 : thru st3
       (match nonempty attrs with
        | Some l => let* (l', s') := convert_attributes env l st3 in Ok (Some l', s')
        | None => Ok (None, st3) end)
       (match nonempty attrs with
        | Some l => let* (l', s') := convert_attributes (no_text env) l st3 in Ok (Some l', s')
        | None => Ok (None, st3) end)).
    { destruct attrs as [[|a0 l]|]; cbn [nonempty]; try (split; reflexivity).
      destruct (convert_attributes_quiet env (a0 :: l) st3 Ha) as [E7 E8]. rewrite <- E7.
      destruct (convert_attributes env (a0 :: l) st3) as [[l' st4]| | |]; try (split; reflexivity). subst. split; reflexivity. }
    destruct H4 as [E7 E8]. rewrite <- E7.
    match goal with |- indep _ (bind ?X _) _ => destruct X as [[ats st4]| | |] end; try (split; reflexivity).
    subst st4. cbn [bind].
    match goal with |- indep _ (if ?b then _ else _) _ => destruct b end; (split; [reflexivity|exact E6]).
  - unfold once_of.
    destruct (conv_kids_indep env els Hk st) as [E5 E6]. rewrite <- E5.
    destruct (conv_kids env els st) as [[items st1]| | |]; try (split; reflexivity). cbn [bind].
    split; [reflexivity|exact E6].
Qed.

Lemma rep_iter_indep env once once0 count :
  (forall cur st, indep st (once cur st) (once0 cur st)) ->
  forall k i acc st,
    indep st (rep_iter env once count false k i acc st) (rep_iter (no_text env) once0 count false k i acc st).
Proof.
  intros Ho. induction k as [|k IH]; intros i acc st; [split; reflexivity|].
  cbn [rep_iter]. destruct (i <? count)%N; [|split; reflexivity].
  destruct (Ho (Some (mkRep count i false)) (set_top_value i st)) as [E1 E2]. rewrite <- E1.
  destruct (once (Some (mkRep count i false)) (set_top_value i st)) as [[items st2]| | |]; try (split; reflexivity).
  cbn [bind andb].
  assert (Ht2 : cs_text_inserted st2 = cs_text_inserted st).
  { rewrite E2. unfold set_top_value. destruct (cs_repeaters st); reflexivity. }
  destruct (cs_guard (dec_guard st2) <=? 0)%Z.
  - split; [reflexivity|]. cbn [dec_guard cs_text_inserted]. exact Ht2.
  - destruct (IH (i + 1)%N (acc ++ items) (dec_guard st2)) as [E3 E4]. split; [exact E3|].
    destruct (rep_iter env once count false k (i + 1) (acc ++ items) (dec_guard st2)) as [[r st3]| | |]; try exact I.
    rewrite E4. cbn [dec_guard cs_text_inserted]. exact Ht2.
Qed.

Lemma rep_loop_indep env once once0 r0 st :
  rimplicit r0 = false ->
  (forall cur st, indep st (once cur st) (once0 cur st)) ->
  indep st (rep_loop env once r0 st) (rep_loop (no_text env) once0 r0 st).
Proof.
  intros Himp Ho. unfold rep_loop. rewrite Himp.
  set (count := if (rcount r0 =? 0)%N then 1%N else rcount r0).
  set (st0 := push_rep (mkRep count (rvalue r0) false) st).
  destruct (rep_iter_indep env once once0 count Ho
              (N.to_nat (N.min count (Z.to_N (Z.max (cs_guard st0) 1)))) 0%N [] st0) as [E1 E2].
  rewrite <- E1.
  destruct (rep_iter env once count false _ 0%N [] st0) as [[result st_end]| | |]; try (split; reflexivity).
  cbn [bind]. split; [reflexivity|]. cbn [pop_rep cs_text_inserted]. exact E2.
Qed.

(* converting a tree without `$#` and without implicit repeaters does not depend on the text and does not
   consume it *)
Theorem quiet_indep env : forall node, quiet node -> stmt_indep env node.
Proof.
  induction node as [name attrs value rp sc els IH|els rp IH] using tnode_ind'; intros Hq st.
  - cbn [quiet] in Hq. destruct Hq as [Hn [Hv [Ha [Hr Hels]]]]. rewrite quiet_all_eq in Hels.
    assert (Hk : Forall (stmt_indep env) els).
    { clear - IH Hels. induction els as [|c l IHl]; [constructor|].
      inversion IH as [|x y Hc Hl]; subst. destruct Hels as [Hqc Hql]. constructor; [apply Hc, Hqc|apply IHl; assumption]. }
    rewrite !conv_stmt_eq. cbn [node_rep].
    pose proof (once_of_indep env (TElem name attrs value rp sc els) Hk (conj Hn (conj Hv Ha))) as Ho.
    destruct rp as [r0|]; [|apply Ho].
    apply rep_loop_indep; [exact Hr|exact Ho].
  - cbn [quiet] in Hq. destruct Hq as [Hr Hels]. rewrite quiet_all_eq in Hels.
    assert (Hk : Forall (stmt_indep env) els).
    { clear - IH Hels. induction els as [|c l IHl]; [constructor|].
      inversion IH as [|x y Hc Hl]; subst. destruct Hels as [Hqc Hql]. constructor; [apply Hc, Hqc|apply IHl; assumption]. }
    rewrite !conv_stmt_eq. cbn [node_rep].
    pose proof (once_of_indep env (TGroup els rp) Hk I) as Ho.
    destruct rp as [r0|]; [|apply Ho].
    apply rep_loop_indep; [exact Hr|exact Ho].
Qed.

Lemma conv_list_indep env : forall root, quiet_all root ->
  forall st, indep st (conv_list env root st) (conv_list (no_text env) root st).
Proof.
  intros root Hq st. rewrite <- !conv_kids_eq. apply conv_kids_indep.
  induction root as [|c l IH]; [constructor|]. destruct Hq as [Hc Hl].
  constructor; [apply quiet_indep, Hc|apply IH, Hl].
Qed.

(* wrap_plain, full: for every abbreviation tree without `$#` and without an implicit repeater and every
   text (string or list of lines), the result is the tree obtained without text, with the whole text --
   joined and stripped as the code does it -- inserted once into its deepest last element
   ([insert_wrap]: insert_text, then the markup.href rule on an `a` element; see proofs/HrefProofs.v) *)
Theorem wrap_plain_full env mr root :
  ce_text env <> WNone -> quiet_all root ->
  convert env mr root =
    (let* children := convert (no_text env) mr root in
     Ok (on_last_deepest (fun n => insert_wrap env n (whole_text (ce_text env))) children)).
Proof.
  intros Ht Hq. unfold convert at 1 2.
  set (st0 := mkCst false (match mr with Some m => Z.of_N m | None => 1000000%Z end) [] false).
  destruct (conv_list_indep env root Hq st0) as [E1 E2]. rewrite <- E1.
  destruct (conv_list env root st0) as [[children st]| | |]; try reflexivity.
  cbn [bind no_text ce_text]. cbn [st0 cs_text_inserted] in E2. rewrite E2.
  destruct (ce_text env); [congruence|reflexivity|reflexivity].
Qed.
