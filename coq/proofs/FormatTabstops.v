(* C13: tabstops of trees without explicit fields are numbered 1, 2, 3, ... in document order,
   one per empty attribute value and one per empty leaf that is not self-closed. *)
From Coq Require Import ZArith List Bool Lia ZifyBool.
From Emmet Require Import lib.Base model.MarkupTokenizer model.MarkupParser model.MarkupConvert
     model.OutStream model.FormatHtml model.FormatIndent proofs.OutStreamProofs proofs.FormatSteps
     proofs.FormatReach proofs.FormatProofs proofs.FormatChunks.

(* ---------------------------------------------------------------- SPEC *)
(* a value without explicit fields *)
Definition plain_tokens (v : list vtok) : bool := forallb (fun t => negb (is_vfield t)) v.
Definition plain_value (v : option (list vtok)) : bool :=
  match v with Some l => plain_tokens l | None => true end.
Fixpoint no_fields (n : anode) : bool :=
  match n with
  | ANode _ v _ at_ ch _ =>
      plain_value v
      && forallb (fun a => plain_value (aa_value a)) (match at_ with Some l => l | None => [] end)
      && (fix go (l : list anode) : bool := match l with [] => true | x :: r => no_fields x && go r end) ch
  end.

(* an attribute that is written with an empty value (not a boolean attribute) *)
Definition attr_site (c : oconfig) (a : aattr) : nat :=
  if should_output_attribute a
     && match aa_name a with Some (_ :: _) => true | _ => false end
     && negb (truthy_l (aa_value a))
     && negb (is_boolean_attribute c a)
  then 1 else 0.
(* an element without content that is not self-closed *)
Definition leaf_site (n : anode) : nat :=
  if negb (truthy_l (an_value n)) && match an_children n with [] => true | _ => false end && negb (an_self n)
  then 1 else 0.
Definition attr_sites (c : oconfig) (n : anode) : nat :=
  fold_right (fun a k => attr_site c a + k) 0 (match an_attrs n with Some l => l | None => [] end).
(* (a node without name is a text node: it contributes the sites of its children) *)
Fixpoint sites (c : oconfig) (n : anode) : nat :=
  match n with
  | ANode nm v rp at_ ch sc =>
      let below := (fix go (l : list anode) : nat := match l with [] => 0 | x :: r => sites c x + go r end) ch in
      match nm with
      | Some (_ :: _) => attr_sites c (ANode nm v rp at_ ch sc) + (below + leaf_site (ANode nm v rp at_ ch sc))
      | _ => below
      end
  end.
Definition sites_list (c : oconfig) (l : list anode) : nat := fold_right (fun x k => sites c x + k) 0 l.

(* tabstops F, F+1, ..., F+k-1, all with an empty placeholder *)
Definition carets (F : N) (k : nat) : list (N * str) := map (fun j => ((F + N.of_nat j)%N, @nil char)) (seq 0 k).

(* ---------------------------------------------------------------- emission relation *)
Definition Emits (st st' : fstate) (k : nat) : Prop :=
  fields_of (fchunks st') = fields_of (fchunks st) ++ carets (fs_field st) k /\
  fs_field st' = (fs_field st + N.of_nat k)%N.

Lemma map_seq_shift {A} (f : nat -> A) a : forall b s, map f (seq (s + a) b) = map (fun j => f (j + a)) (seq s b).
Proof. induction b as [|b IH]; intros s; [reflexivity|]. cbn [seq map]. f_equal. apply (IH (S s)). Qed.

Lemma carets_app F a b : carets F (a + b) = carets F a ++ carets (F + N.of_nat a) b.
Proof.
  unfold carets. rewrite seq_app, map_app. f_equal.
  rewrite (map_seq_shift _ a b 0). apply map_ext. intros j. f_equal. lia.
Qed.

Lemma Emits_refl st : Emits st st 0.
Proof. unfold Emits, carets. cbn. rewrite app_nil_r. split; [reflexivity|lia]. Qed.

Lemma Emits_trans st1 st2 st3 a b : Emits st1 st2 a -> Emits st2 st3 b -> Emits st1 st3 (a + b).
Proof.
  intros [H1 F1] [H2 F2]. split.
  - rewrite H2, H1, F1, carets_app, <- app_assoc. reflexivity.
  - rewrite F2, F1. lia.
Qed.

Lemma Emits_0 st st' : fields_of (fchunks st') = fields_of (fchunks st) -> fs_field st' = fs_field st -> Emits st st' 0.
Proof. intros H1 H2. split; [rewrite H1; cbn; rewrite app_nil_r; reflexivity|rewrite H2; lia]. Qed.

Lemma Emits_push_str c s st : Emits st (push_str c s st) 0.
Proof. apply Emits_0; [|reflexivity]. rewrite ch_push_str, fields_app, fields_string, app_nil_r. reflexivity. Qed.

Lemma Emits_level d st : Emits st (map_out (fun o => os_add_level o d) st) 0.
Proof. apply Emits_0; reflexivity. Qed.
Lemma Emits_newline c ind st : Emits st (map_out (fun o => os_push_newline (oc_fmt c) o ind) st) 0.
Proof. apply Emits_0; [|reflexivity]. rewrite ch_map_newline, fields_app, fields_nl, app_nil_r. reflexivity. Qed.
Lemma Emits_level_newline c d st : Emits st (level_newline c d st) 0.
Proof. apply Emits_0; [|reflexivity]. rewrite ch_level_newline, fields_app, fields_nl, app_nil_r. reflexivity. Qed.
Lemma Emits_newline_int c (g : ostream -> Z) st :
  Emits st (map_out (fun o => os_push_newline_int (oc_fmt c) o (g o)) st) 0.
Proof.
  apply Emits_0; [|reflexivity]. unfold fchunks, map_out, os_push_newline_int. cbn [fs_out].
  rewrite ch_push_newline, fields_app, fields_nl, app_nil_r. reflexivity.
Qed.

Lemma plain_tok_fields v : plain_tokens v = true -> tok_fields v = [].
Proof.
  induction v as [|t v IH]; [reflexivity|]. cbn [plain_tokens forallb tok_fields flat_map]. intros H.
  apply andb_true_iff in H. destruct H as [Ht Hv]. destruct t; [|discriminate]. apply IH, Hv.
Qed.
Lemma plain_max_field v : plain_tokens v = true -> forall lg, max_field_from lg v = lg.
Proof.
  induction v as [|t v IH]; intros H lg; [reflexivity|]. cbn [plain_tokens forallb] in H.
  apply andb_true_iff in H. destruct H as [Ht Hv]. destruct t; [|discriminate]. cbn [max_field_from fold_left].
  apply (IH Hv).
Qed.

Lemma Emits_push_plain c v st : plain_tokens v = true -> Emits st (push_tokens c v st) 0.
Proof.
  intros Hp. destruct (push_tokens_spec c v st) as [H1 H2]. apply Emits_0.
  - rewrite H1, fields_app, fields_tokens, (plain_tok_fields v Hp). cbn. rewrite app_nil_r. reflexivity.
  - rewrite H2. unfold next_field. rewrite (plain_max_field v Hp). reflexivity.
Qed.

Lemma Emits_push_caret c st : Emits st (push_tokens c caret st) 1.
Proof.
  destruct (push_tokens_spec c caret st) as [H1 H2]. split.
  - rewrite H1, fields_app. cbn. rewrite N.add_0_r. reflexivity.
  - rewrite H2. cbn. lia.
Qed.

Lemma plain_firstn v n : plain_tokens v = true -> plain_tokens (firstn n v) = true.
Proof.
  revert n. induction v as [|t v IH]; intros [|n] H; try reflexivity. cbn [firstn plain_tokens forallb] in *.
  apply andb_true_iff in H. destruct H as [Ht Hv]. rewrite Ht. apply (IH n Hv).
Qed.

Lemma plain_no_field_ix v : plain_tokens v = true -> find_field_ix v = None.
Proof.
  unfold find_field_ix. generalize 0. induction v as [|t v IH]; intros n H; [reflexivity|].
  cbn [plain_tokens forallb] in H. apply andb_true_iff in H. destruct H as [Ht Hv].
  destruct t; [|discriminate]. apply (IH (S n) Hv).
Qed.

(* ---------------------------------------------------------------- blocks *)
Lemma Emits_fold {A} (f : fstate -> A -> fstate) (w : A -> nat) (l : list A) :
  (forall st a, In a l -> Emits st (f st a) (w a)) ->
  forall st, Emits st (fold_left f l st) (fold_right (fun a k => w a + k) 0 l).
Proof.
  induction l as [|a l IH]; intros Hf st; cbn [fold_left fold_right]; [apply Emits_refl|].
  eapply Emits_trans; [apply Hf; left; reflexivity|]. apply IH. intros st' a' Hin. apply Hf. right. exact Hin.
Qed.

Lemma attr_v1_plain c a nm0 :
  plain_value (aa_value a) = true ->
  plain_value (fst (fst (attr_v1 c a nm0))) = true /\
  truthy_l (fst (fst (attr_v1 c a nm0))) = truthy_l (aa_value a).
Proof.
  intros Hp. unfold attr_v1. destruct (attr_prefix c a nm0) as [[|p0 p]|]; try (split; [exact Hp|reflexivity]).
  destruct (aa_value a) as [[|[val|i nm'] [|t2 r]]|]; try (split; [exact Hp|reflexivity]).
Qed.

Lemma Emits_attr_write_plain c name v lq rq st :
  plain_value v = true -> Emits st (attr_write c name v lq rq st) 0.
Proof.
  intros Hp. unfold attr_write. destruct v as [[|v0 vr]|].
  - destruct (negb (str_eqb (oc_self_closing_style c) s_html));
      [replace 0 with (0 + 0) by reflexivity; eapply Emits_trans; apply Emits_push_str|apply Emits_push_str].
  - replace 0 with (0 + (0 + (0 + 0))) by reflexivity.
    eapply Emits_trans; [apply Emits_push_str|]. eapply Emits_trans; [apply Emits_push_str|].
    eapply Emits_trans; [apply Emits_push_plain; exact Hp|]. apply Emits_push_str.
  - destruct (negb (str_eqb (oc_self_closing_style c) s_html));
      [replace 0 with (0 + 0) by reflexivity; eapply Emits_trans; apply Emits_push_str|apply Emits_push_str].
Qed.

Lemma Emits_attr_write_caret c name lq rq st : Emits st (attr_write c name (Some caret) lq rq st) 1.
Proof.
  unfold attr_write, caret. replace 1 with (0 + (0 + (1 + 0))) by reflexivity.
  eapply Emits_trans; [apply Emits_push_str|]. eapply Emits_trans; [apply Emits_push_str|].
  eapply Emits_trans; [apply Emits_push_caret|]. apply Emits_push_str.
Qed.

Lemma Emits_push_attribute c a st :
  plain_value (aa_value a) = true ->
  Emits st (if should_output_attribute a then push_attribute c a st else st) (attr_site c a).
Proof.
  intros Hp. unfold attr_site. destruct (should_output_attribute a); [|apply Emits_refl]. cbn [andb].
  rewrite push_attribute_unfold. destruct (aa_name a) as [[|x nm]|]; try apply Emits_refl.
  cbn [andb]. cbv zeta.
  destruct (attr_v1_plain c a (x :: nm) Hp) as [Hp1 Ht1].
  destruct (attr_v1 c a (x :: nm)) as [[value1 lq] rq]. cbn [fst] in Hp1, Ht1. rewrite <- Ht1.
  unfold attr_value2.
  destruct (is_boolean_attribute c a) eqn:Hb; cbn [andb negb].
  - rewrite andb_false_r. destruct (truthy_l value1) eqn:Ht; cbn [negb].
    + apply Emits_attr_write_plain, Hp1.
    + destruct (negb (oc_compact_boolean c)); apply Emits_attr_write_plain; [reflexivity|exact Hp1].
  - rewrite andb_true_r. destruct (truthy_l value1) eqn:Ht; cbn [negb].
    + apply Emits_attr_write_plain, Hp1.
    + apply Emits_attr_write_caret.
Qed.

(* ---------------------------------------------------------------- element() block by block *)
Definition attrs_plain (n : anode) : bool :=
  forallb (fun a => plain_value (aa_value a)) (match an_attrs n with Some l => l | None => [] end).

Lemma Emits_comment_node c text n st : attrs_plain n = true -> Emits st (comment_node c text n st) 0.
Proof.
  intros Hp. unfold comment_node. destruct text; [apply Emits_refl|]. destruct (should_comment c n); [|apply Emits_refl].
  unfold comment_output.
  set (attrs := rev _).
  assert (Ha : forall k v, assoc_str k attrs = Some v -> plain_tokens v = true).
  { assert (Hall : Forall (fun kv => plain_tokens (snd kv) = true) attrs).
    { unfold attrs. apply Forall_rev. apply Forall_forall. intros [k v] Hin. apply in_flat_map in Hin.
      destruct Hin as [a [Hin Hkv]]. unfold attrs_plain in Hp. rewrite forallb_forall in Hp. specialize (Hp a Hin).
      destruct (aa_name a) as [[|x nm]|]; [destruct Hkv| |destruct Hkv].
      destruct (aa_value a) as [[|v0 vr]|]; [destruct Hkv| |destruct Hkv].
      destruct Hkv as [E|[]]. injection E as <- <-. exact Hp. }
    clear -Hall. induction attrs as [|[k' v'] l IH]; intros k v; cbn [assoc_str]; [discriminate|].
    inversion Hall; subst. destruct (str_eqb k k'); [intros E; injection E as <-; assumption|apply IH; assumption]. }
  clearbody attrs.
  assert (G : forall toks st0, Emits st0 (fold_left (fun st' t =>
               match t with
               | TStr s => push_str c s st'
               | TPh before after name =>
                   match assoc_str name attrs with
                   | Some v => push_str c after (push_tokens c v (push_str c before st'))
                   | None => st'
                   end
               end) toks st0) 0).
  { induction toks as [|t toks IH]; intros st0; cbn [fold_left]; [apply Emits_refl|].
    replace 0 with (0 + 0) by reflexivity. eapply Emits_trans; [|apply IH].
    destruct t as [s|b a nm]; [apply Emits_push_str|].
    destruct (assoc_str nm attrs) eqn:E; [|apply Emits_refl].
    replace 0 with (0 + (0 + 0)) by reflexivity.
    eapply Emits_trans; [apply Emits_push_str|]. eapply Emits_trans; [apply Emits_push_plain, (Ha _ _ E)|].
    apply Emits_push_str. }
  apply G.
Qed.

Lemma Emits_el_attrs c node st : attrs_plain node = true -> Emits st (el_attrs c node st) (attr_sites c node).
Proof.
  intros Hp. unfold el_attrs, attr_sites, attrs_plain in *. destruct (an_attrs node) as [[|a l]|]; try apply Emits_refl.
  apply (Emits_fold (fun s a0 => if should_output_attribute a0 then push_attribute c a0 s else s) (attr_site c)).
  intros st' a' Hin. apply Emits_push_attribute. rewrite forallb_forall in Hp. apply Hp, Hin.
Qed.

Lemma Emits_el_open c nm node st : attrs_plain node = true -> Emits st (el_open c nm node st) (attr_sites c node).
Proof.
  intros Hp. unfold el_open. replace (attr_sites c node) with (0 + (0 + attr_sites c node)) by reflexivity.
  eapply Emits_trans; [apply Emits_comment_node, Hp|]. eapply Emits_trans; [apply Emits_push_str|].
  apply Emits_el_attrs, Hp.
Qed.

Lemma el_snippet_plain c node next st : plain_value (an_value node) = true -> el_snippet c node next st = None.
Proof.
  intros Hp. unfold el_snippet. destruct (an_value node) as [[|v0 v]|]; try reflexivity.
  destruct (an_children node); [reflexivity|]. rewrite (plain_no_field_ix _ Hp). reflexivity.
Qed.

Lemma Emits_el_value c node st : plain_value (an_value node) = true -> Emits st (el_value c node st) 0.
Proof.
  intros Hp. unfold el_value. destruct (an_value node) as [[|v0 v]|]; try apply Emits_refl.
  destruct (existsb has_newline (v0 :: v) || starts_with_block_tag c (v0 :: v)).
  - replace 0 with (0 + (0 + 0)) by reflexivity.
    eapply Emits_trans; [apply Emits_level_newline|]. eapply Emits_trans; [apply Emits_push_plain, Hp|].
    destruct (an_children node); [apply Emits_level_newline|apply Emits_level].
  - apply Emits_push_plain, Hp.
Qed.

Definition leaf_caret (node : anode) : nat :=
  if negb (truthy_l (an_value node)) && match an_children node with [] => true | _ => false end then 1 else 0.

Lemma Emits_el_leaf c nm node st : Emits st (el_leaf c nm node st) (leaf_caret node).
Proof.
  unfold el_leaf, leaf_caret.
  destruct (negb (truthy_l (an_value node)) && match an_children node with [] => true | _ => false end); [|apply Emits_refl].
  destruct (oc_format_leaf c || mem_str nm (oc_format_force c)).
  - replace 1 with (0 + (1 + 0)) by reflexivity.
    eapply Emits_trans; [apply Emits_level_newline|]. eapply Emits_trans; [apply Emits_push_caret|].
    apply Emits_level_newline.
  - apply Emits_push_caret.
Qed.

Definition next_emits (next : fstate -> fstate) (k : nat) : Prop := forall st, Emits st (next st) k.

Lemma Emits_el_body c node next kc st :
  plain_value (an_value node) = true -> attrs_plain node = true -> next_emits next kc ->
  (an_children node = [] -> kc = 0) ->
  Emits st (el_body c node next st)
        (match an_name node with
         | Some (_ :: _) => attr_sites c node + (kc + leaf_site node)
         | _ => kc
         end).
Proof.
  intros Hv Ha Hn Hk0. unfold el_body.
  assert (Hun : Emits st (el_unnamed c node next st) kc).
  { unfold el_unnamed. rewrite (el_snippet_plain c node next st Hv).
    replace kc with (0 + kc) by reflexivity. eapply Emits_trans; [|apply Hn].
    destruct (an_value node) as [[|v0 v]|]; try apply Emits_refl. apply Emits_push_plain, Hv. }
  destruct (an_name node) as [[|x nm]|]; try exact Hun.
  unfold el_named, leaf_site.
  destruct (an_self node && match an_children node with [] => true | _ => false end && negb (truthy_l (an_value node))) eqn:Esc.
  - (* self-closed: no children, no leaf tabstop *)
    apply andb_true_iff in Esc. destruct Esc as [Esc Ev]. apply andb_true_iff in Esc. destruct Esc as [Es Ec].
    rewrite Es. rewrite andb_false_r.
    assert (kc = 0) as -> by (apply Hk0; destruct (an_children node); [reflexivity|discriminate]).
    replace (attr_sites c node + (0 + 0)) with (attr_sites c node + 0) by lia.
    eapply Emits_trans; [apply Emits_el_open, Ha|apply Emits_push_str].
  - unfold el_close, el_content. rewrite el_snippet_plain by exact Hv.
    assert (El : leaf_caret node = (if negb (truthy_l (an_value node)) && match an_children node with [] => true | _ => false end && negb (an_self node) then 1 else 0)).
    { unfold leaf_caret. destruct (negb (truthy_l (an_value node))) eqn:E1; [|reflexivity].
      destruct (an_children node) eqn:E2; [|reflexivity]. cbn [andb] in *.
      destruct (an_self node); [discriminate|reflexivity]. }
    rewrite <- El.
    replace (attr_sites c node + (kc + leaf_caret node)) with (attr_sites c node + (0 + ((0 + (kc + leaf_caret node)) + (0 + 0)))) by lia.
    eapply Emits_trans; [apply Emits_el_open, Ha|]. eapply Emits_trans; [apply Emits_push_str|].
    eapply Emits_trans.
    + eapply Emits_trans; [apply Emits_el_value, Hv|]. eapply Emits_trans; [apply Hn|apply Emits_el_leaf].
    + eapply Emits_trans; [apply Emits_push_str|apply Emits_comment_node, Ha].
Qed.

Lemma Emits_el_tail c fmt parent index items st : Emits st (el_tail c fmt parent index items st) 0.
Proof. unfold el_tail. destruct (tail_newline c fmt parent index items); [apply Emits_newline_int|apply Emits_refl]. Qed.

Lemma Emits_html_step c parent node index items next kc st :
  plain_value (an_value node) = true -> attrs_plain node = true -> next_emits next kc ->
  (an_children node = [] -> kc = 0) ->
  Emits st (html_element_step c parent node index items next st)
        (match an_name node with
         | Some (_ :: _) => attr_sites c node + (kc + leaf_site node)
         | _ => kc
         end).
Proof.
  intros Hv Ha Hn Hk0. unfold html_element_step.
  set (k := match an_name node with Some (_ :: _) => _ | _ => _ end).
  set (st1 := map_out (fun o => os_add_level o (get_indent c parent)) st).
  set (st2 := if should_format c parent node index items
              then map_out (fun o => os_push_newline (oc_fmt c) o (Some None)) st1 else st1).
  assert (E1 : Emits st st1 0) by apply Emits_level.
  assert (E2 : Emits st1 st2 0).
  { unfold st2. destruct (should_format c parent node index items); [apply Emits_newline|apply Emits_refl]. }
  assert (E3 : Emits st2 (el_body c node next st2) k) by (apply Emits_el_body; assumption).
  pose proof (Emits_el_tail c (should_format c parent node index items) parent index items (el_body c node next st2)) as E4.
  pose proof (Emits_level (- get_indent c parent) (el_tail c (should_format c parent node index items) parent index items (el_body c node next st2))) as E5.
  pose proof (Emits_trans _ _ _ _ _ E1 (Emits_trans _ _ _ _ _ E2 (Emits_trans _ _ _ _ _ E3 (Emits_trans _ _ _ _ _ E4 E5)))) as E.
  replace (0 + (0 + (k + (0 + 0)))) with k in E by lia. exact E.
Qed.

Lemma Emits_html_walk c parent items : forall l i st,
  Forall (fun n => forall parent index items st, Emits st (html_element c parent n index items st) (sites c n)) l ->
  Emits st (html_walk c parent items i l st) (sites_list c l).
Proof.
  induction l as [|x l IH]; intros i st HF; cbn [html_walk sites_list fold_right]; [apply Emits_refl|].
  inversion HF as [|y z Hx HF']; subst. eapply Emits_trans; [apply Hx|apply IH, HF'].
Qed.

Lemma no_fields_unfold nm v rp at_ ch sc :
  no_fields (ANode nm v rp at_ ch sc) = plain_value v && attrs_plain (ANode nm v rp at_ ch sc) && forallb no_fields ch.
Proof.
  cbn [no_fields]. unfold attrs_plain. cbn [an_attrs]. f_equal.
Qed.

Lemma sites_unfold c nm v rp at_ ch sc :
  sites c (ANode nm v rp at_ ch sc) =
  match nm with
  | Some (_ :: _) => attr_sites c (ANode nm v rp at_ ch sc) + (sites_list c ch + leaf_site (ANode nm v rp at_ ch sc))
  | _ => sites_list c ch
  end.
Proof.
  cbn [sites].
  assert (E : (fix go (l : list anode) : nat := match l with [] => 0 | x :: r => sites c x + go r end) ch = sites_list c ch).
  { induction ch as [|x r IH]; [reflexivity|]. cbn [sites_list fold_right]. rewrite IH. reflexivity. }
  rewrite E. reflexivity.
Qed.

Theorem Emits_html_element c : forall node, no_fields node = true ->
  forall parent index items st, Emits st (html_element c parent node index items st) (sites c node).
Proof.
  induction node as [nm v rp at_ ch sc IHch] using anode_ind'. intros Hnf parent index items st.
  rewrite no_fields_unfold in Hnf. apply andb_true_iff in Hnf. destruct Hnf as [Hnf Hch].
  apply andb_true_iff in Hnf. destruct Hnf as [Hv Ha].
  rewrite html_element_unfold, sites_unfold.
  apply (Emits_html_step c parent (ANode nm v rp at_ ch sc) index items _ (sites_list c ch) st Hv Ha).
  - intros st'. rewrite html_children_walk. cbn [an_children]. apply Emits_html_walk.
    rewrite forallb_forall in Hch. rewrite Forall_forall in *. intros n Hin. apply IHch; [exact Hin|apply Hch, Hin].
  - cbn [an_children]. intros ->. reflexivity.
Qed.

(* the whole HTML formatter: the field callbacks of a tree without explicit fields receive
   1, 2, ..., k in document order, each with an empty placeholder; k = number of sites *)
Theorem tabstops_in_order_lemma c children :
  forallb no_fields children = true ->
  fields_of (fchunks (html_format c children)) = carets 1 (sites_list c children).
Proof.
  intros Hnf. rewrite html_format_walk.
  destruct (Emits_html_walk c None children children 0 (mkFs os_empty 1)) as [H _].
  - rewrite forallb_forall in Hnf. apply Forall_forall. intros n Hin. apply Emits_html_element, Hnf, Hin.
  - exact H.
Qed.

(* ---------------------------------------------------------------- the field counter never decreases *)
Lemma fmono_refl st : fmono st st. Proof. unfold fmono. lia. Qed.
Lemma fmono_trans a b c : fmono a b -> fmono b c -> fmono a c. Proof. unfold fmono. lia. Qed.
Lemma fmono_same st st' : fs_field st' = fs_field st -> fmono st st'. Proof. unfold fmono. intros ->. lia. Qed.
Lemma fmono_tokens c v st : fmono st (push_tokens c v st). Proof. apply push_tokens_field_mono. Qed.

Ltac fm := repeat first [ apply fmono_refl | apply fmono_same; reflexivity | apply fmono_tokens
                        | apply fmono_comment_node | eapply fmono_trans; [|solve [fm]] ].

Lemma fmono_el_attrs c node st : fmono st (el_attrs c node st).
Proof.
  unfold el_attrs. destruct (an_attrs node) as [[|a l]|]; try apply fmono_refl.
  apply fmono_fold. intros st' x. destruct (should_output_attribute x); [apply fmono_push_attribute|apply fmono_refl].
Qed.

Lemma fmono_el_open c nm node st : fmono st (el_open c nm node st).
Proof.
  unfold el_open.
  apply (fmono_trans _ (comment_node c (oc_comment_before c) node st)); [apply fmono_comment_node|].
  apply (fmono_trans _ (push_str c (c_lt :: tag_name c nm) (comment_node c (oc_comment_before c) node st)));
    [apply fmono_same; reflexivity|apply fmono_el_attrs].
Qed.

Definition next_mono (next : fstate -> fstate) : Prop := forall st, fmono st (next st).

Lemma fmono_el_snippet c node next st st' : next_mono next -> el_snippet c node next st = Some st' -> fmono st st'.
Proof.
  intros Hn. unfold el_snippet.
  destruct (an_value node) as [[|v0 value]|]; try discriminate.
  destruct (an_children node) as [|c0 ch]; try discriminate.
  destruct (find_field_ix (v0 :: value)) as [ix|]; try discriminate.
  set (st1 := push_tokens c (firstn ix (v0 :: value)) st).
  assert (H2 : fmono st (next st1)) by (eapply fmono_trans; [apply fmono_tokens|apply Hn]).
  destruct (nth_error (v0 :: value) (S ix)) as [[s|i nm]|].
  - destruct (negb (Nat.eqb (os_line (fs_out (next st1))) (os_line (fs_out st1)))); intros E; injection E as <-.
    + eapply fmono_trans; [exact H2|]. eapply fmono_trans; [|apply fmono_tokens]. apply fmono_same. reflexivity.
    + eapply fmono_trans; [exact H2|apply fmono_tokens].
  - intros E; injection E as <-. eapply fmono_trans; [exact H2|apply fmono_tokens].
  - intros E; injection E as <-. eapply fmono_trans; [exact H2|apply fmono_tokens].
Qed.

Lemma fmono_el_value c node st : fmono st (el_value c node st).
Proof.
  unfold el_value. destruct (an_value node) as [[|v0 value]|]; try apply fmono_refl.
  destruct (existsb has_newline (v0 :: value) || starts_with_block_tag c (v0 :: value)).
  - destruct (an_children node); (eapply fmono_trans; [|apply fmono_same; reflexivity]);
      (eapply fmono_trans; [|apply fmono_tokens]); apply fmono_same; reflexivity.
  - apply fmono_tokens.
Qed.

Lemma fmono_el_leaf c nm node st : fmono st (el_leaf c nm node st).
Proof.
  unfold el_leaf. destruct (negb _ && _); [|apply fmono_refl].
  destruct (oc_format_leaf c || mem_str nm (oc_format_force c)).
  - eapply fmono_trans; [|apply fmono_same; reflexivity]. eapply fmono_trans; [|apply fmono_tokens].
    apply fmono_same. reflexivity.
  - apply fmono_tokens.
Qed.

Lemma fmono_el_body c node next st : next_mono next -> fmono st (el_body c node next st).
Proof.
  intros Hn. unfold el_body.
  assert (Hun : fmono st (el_unnamed c node next st)).
  { unfold el_unnamed. destruct (el_snippet c node next st) as [st'|] eqn:E.
    - eapply fmono_el_snippet; eassumption.
    - eapply fmono_trans; [|apply Hn].
      destruct (an_value node) as [[|v0 value]|]; try apply fmono_refl. apply fmono_tokens. }
  destruct (an_name node) as [[|x nm]|]; try exact Hun.
  unfold el_named.
  destruct (an_self node && _ && _).
  - eapply fmono_trans; [apply fmono_el_open|apply fmono_same; reflexivity].
  - unfold el_close.
    set (s1 := el_open c (x :: nm) node st). set (s2 := push_str c [c_gt] s1).
    set (s3 := el_content c (x :: nm) node next s2).
    assert (H1 : fmono st s1) by apply fmono_el_open.
    assert (H2 : fmono s1 s2) by (apply fmono_same; reflexivity).
    assert (H3 : fmono s2 s3).
    { unfold s3, el_content. destruct (el_snippet c node next s2) as [st'|] eqn:E.
      - eapply fmono_el_snippet; eassumption.
      - apply (fmono_trans _ (el_value c node s2)); [apply fmono_el_value|].
        apply (fmono_trans _ (next (el_value c node s2))); [apply Hn|apply fmono_el_leaf]. }
    apply (fmono_trans _ s3); [unfold fmono in *; lia|].
    apply (fmono_trans _ (push_str c ([c_lt; c_slash] ++ tag_name c (x :: nm) ++ [c_gt]) s3));
      [apply fmono_same; reflexivity|apply fmono_comment_node].
Qed.

Lemma fmono_html_step c parent node index items next st :
  next_mono next -> fmono st (html_element_step c parent node index items next st).
Proof.
  intros Hn. unfold html_element_step.
  set (st1 := map_out (fun o => os_add_level o (get_indent c parent)) st).
  set (st2 := if should_format c parent node index items
              then map_out (fun o => os_push_newline (oc_fmt c) o (Some None)) st1 else st1).
  assert (E2 : fs_field st2 = fs_field st) by (unfold st2; destruct (should_format c parent node index items); reflexivity).
  pose proof (fmono_el_body c node next st2 Hn) as E3.
  assert (E4 : fs_field (el_tail c (should_format c parent node index items) parent index items (el_body c node next st2))
               = fs_field (el_body c node next st2)).
  { unfold el_tail. destruct (tail_newline _ _ _ _ _); reflexivity. }
  unfold fmono in *. rewrite fld_map_out, E4. lia.
Qed.

Lemma fmono_html_walk c parent items : forall l i st,
  Forall (fun n => forall parent index items st, fmono st (html_element c parent n index items st)) l ->
  fmono st (html_walk c parent items i l st).
Proof.
  induction l as [|x l IH]; intros i st HF; cbn [html_walk]; [apply fmono_refl|].
  inversion HF as [|y z Hx HF']; subst. eapply fmono_trans; [apply Hx|apply IH, HF'].
Qed.

Theorem field_counter_monotone c : forall node parent index items st,
  (fs_field st <= fs_field (html_element c parent node index items st))%N.
Proof.
  induction node as [nm v rp at_ ch sc IHch] using anode_ind'. intros parent index items st.
  rewrite html_element_unfold. apply fmono_html_step.
  intros st'. rewrite html_children_walk. apply fmono_html_walk. exact IHch.
Qed.

(* ================================================================ indent formatter (haml / pug / slim) *)
(* SPEC: a secondary attribute (not class / id) that is written, has an empty value and is not boolean;
   an element without text and children that is not self-closed *)
Definition iattr_site (c : oconfig) (a : aattr) : nat :=
  if negb (truthy_l (aa_value a)) && negb (is_boolean_attribute c a) then 1 else 0.
Definition isecondary (n : anode) : list aattr :=
  filter should_output_attribute
         (filter (fun a => negb (is_primary a)) (match an_attrs n with Some l => l | None => [] end)).
Definition iattr_sites (c : oconfig) (n : anode) : nat :=
  fold_right (fun a k => iattr_site c a + k) 0 (isecondary n).
Fixpoint isites (c : oconfig) (n : anode) : nat :=
  match n with
  | ANode nm v rp at_ ch sc =>
      iattr_sites c (ANode nm v rp at_ ch sc) + leaf_site (ANode nm v rp at_ ch sc)
      + (fix go (l : list anode) : nat := match l with [] => 0 | x :: r => isites c x + go r end) ch
  end.
Definition isites_list (c : oconfig) (l : list anode) : nat := fold_right (fun x k => isites c x + k) 0 l.

Lemma Emits_push_raw s st : Emits st (push_raw s st) 0.
Proof.
  apply Emits_0; [|reflexivity]. unfold fchunks, push_raw, os_push. cbn [fs_out].
  rewrite ch_push_gen, fields_app. cbn. rewrite app_nil_r. reflexivity.
Qed.

Lemma Emits_primary c attrs st :
  forallb (fun a => plain_value (aa_value a)) attrs = true -> Emits st (push_primary_attributes c attrs st) 0.
Proof.
  intros Hp. unfold push_primary_attributes.
  assert (G : forall l st0, forallb (fun a => plain_value (aa_value a)) l = true ->
            Emits st0 (fold_left (fun st a =>
               match aa_value a with
               | None => st
               | Some v =>
                   if name_is a s_class then
                     push_tokens c (map (fun t => match t with VStr s => VStr (ws_to_dot false s) | _ => t end) v)
                                 (push_str c [c_dot] st)
                   else push_tokens c v (push_str c [c_hash] st)
               end) l st0) 0).
  { induction l as [|a l IH]; intros st0 Hl; cbn [fold_left]; [apply Emits_refl|].
    cbn [forallb] in Hl. apply andb_true_iff in Hl. destruct Hl as [Ha Hl].
    replace 0 with (0 + 0) by reflexivity. eapply Emits_trans; [|apply IH, Hl].
    destruct (aa_value a) as [v|]; [|apply Emits_refl]. cbn [plain_value] in Ha.
    destruct (name_is a s_class); replace 0 with (0 + 0) by reflexivity;
      (eapply Emits_trans; [apply Emits_push_str|]); apply Emits_push_plain; [|exact Ha].
    clear -Ha. induction v as [|t v IHv]; [reflexivity|]. cbn [plain_tokens forallb map] in *.
    apply andb_true_iff in Ha. destruct Ha as [Ht Hv]. destruct t; [|discriminate]. cbn. apply IHv, Hv. }
  apply G, Hp.
Qed.

Lemma Emits_secondary_go c o n : forall l i st,
  forallb (fun a => plain_value (aa_value a)) l = true ->
  Emits st ((fix go (i : nat) (l : list aattr) (st : fstate) : fstate :=
           match l with
           | [] => st
           | a :: r =>
               let st := push_str c (attr_name c (match aa_name a with Some x => x | None => [] end)) st in
               let st :=
                 if is_boolean_attribute c a && negb (truthy_l (aa_value a)) then
                   if negb (oc_compact_boolean c) && negb (match io_boolean_value o with [] => true | _ => false end)
                   then push_str c (c_eq :: io_boolean_value o) st
                   else st
                 else
                   let st := push_str c (c_eq :: attr_quote c a true) st in
                   let st := push_tokens c (match aa_value a with Some ((_ :: _) as v) => v | _ => caret end) st in
                   push_str c (attr_quote c a false) st in
               let st := if negb (Nat.eqb i (n - 1)) then push_str c (io_glue_attr o) st else st in
               go (S i) r st
           end) i l st) (fold_right (fun a k => iattr_site c a + k) 0 l).
Proof.
  induction l as [|a l IH]; intros i st Hl; [apply Emits_refl|].
  cbn [forallb] in Hl. apply andb_true_iff in Hl. destruct Hl as [Ha Hl]. cbn [fold_right].
  eapply Emits_trans; [|apply IH, Hl]. cbv zeta.
  set (st1 := push_str c _ st).
  assert (E1 : Emits st st1 0) by apply Emits_push_str.
  assert (E2 : forall s, Emits s (if negb (Nat.eqb i (n - 1)) then push_str c (io_glue_attr o) s else s) 0).
  { intros s. destruct (negb (Nat.eqb i (n - 1))); [apply Emits_push_str|apply Emits_refl]. }
  unfold iattr_site.
  destruct (is_boolean_attribute c a) eqn:Hb; destruct (truthy_l (aa_value a)) eqn:Ht; cbn [andb negb].
  - replace 0 with (0 + ((0 + (0 + 0)) + 0)) by reflexivity. eapply Emits_trans; [exact E1|]. eapply Emits_trans; [|apply E2].
    eapply Emits_trans; [apply Emits_push_str|]. eapply Emits_trans; [|apply Emits_push_str].
    destruct (aa_value a) as [[|v0 vr]|]; try discriminate. apply Emits_push_plain, Ha.
  - replace 0 with (0 + (0 + 0)) by reflexivity. eapply Emits_trans; [exact E1|]. eapply Emits_trans; [|apply E2].
    destruct (negb (oc_compact_boolean c) && _); [apply Emits_push_str|apply Emits_refl].
  - replace 0 with (0 + ((0 + (0 + 0)) + 0)) by reflexivity. eapply Emits_trans; [exact E1|]. eapply Emits_trans; [|apply E2].
    eapply Emits_trans; [apply Emits_push_str|]. eapply Emits_trans; [|apply Emits_push_str].
    destruct (aa_value a) as [[|v0 vr]|]; try discriminate. apply Emits_push_plain, Ha.
  - replace 1 with (0 + ((0 + (1 + 0)) + 0)) by reflexivity. eapply Emits_trans; [exact E1|]. eapply Emits_trans; [|apply E2].
    eapply Emits_trans; [apply Emits_push_str|]. eapply Emits_trans; [|apply Emits_push_str].
    destruct (aa_value a) as [[|v0 vr]|]; try discriminate; apply Emits_push_caret.
Qed.

Lemma Emits_secondary c o attrs st :
  forallb (fun a => plain_value (aa_value a)) attrs = true ->
  Emits st (push_secondary_attributes c o attrs st) (fold_right (fun a k => iattr_site c a + k) 0 attrs).
Proof.
  intros Hp. unfold push_secondary_attributes. generalize (length attrs) as n. intros n.
  destruct attrs as [|a0 attrs0]; [apply Emits_refl|].
  set (k := fold_right _ 0 (a0 :: attrs0)). replace k with (0 + (k + 0)) by lia.
  eapply Emits_trans; [apply Emits_push_str|]. eapply Emits_trans; [|apply Emits_push_str].
  apply (Emits_secondary_go c o n (a0 :: attrs0) 0), Hp.
Qed.

Lemma forallb_filter {A} (p q : A -> bool) l : forallb p l = true -> forallb p (filter q l) = true.
Proof.
  induction l as [|x l IH]; intros H; [reflexivity|]. cbn [forallb filter] in *. apply andb_true_iff in H.
  destruct H as [Hx Hl]. destruct (q x); [cbn [forallb]; rewrite Hx; apply IH, Hl|apply IH, Hl].
Qed.

Lemma Emits_ind_head c o node st : attrs_plain node = true -> Emits st (ind_head c o node st) (iattr_sites c node).
Proof.
  intros Hp. unfold ind_head, iattr_sites, isecondary, attrs_plain in *.
  set (attrs := match an_attrs node with Some l => l | None => [] end) in *.
  set (s1 := match an_name node with
             | Some ((_ :: _) as nm) =>
                 if negb (str_eqb nm s_div)
                    || negb (existsb (fun a => match aa_value a with Some _ => true | None => false end) (filter is_primary attrs))
                 then push_str c (io_before_name o ++ nm ++ io_after_name o) st else st
             | _ => st
             end).
  assert (E1 : Emits st s1 0).
  { unfold s1. destruct (an_name node) as [[|x nm]|]; try apply Emits_refl.
    destruct (negb (str_eqb (x :: nm) s_div) || _); [apply Emits_push_str|apply Emits_refl]. }
  pose proof (Emits_primary c (filter is_primary attrs) s1 (forallb_filter _ _ _ Hp)) as E2.
  pose proof (Emits_secondary c o (filter should_output_attribute (filter (fun a => negb (is_primary a)) attrs))
                (push_primary_attributes c (filter is_primary attrs) s1)
                (forallb_filter _ _ _ (forallb_filter _ _ _ Hp))) as E3.
  exact (Emits_trans _ _ _ _ _ E1 (Emits_trans _ _ _ _ _ E2 E3)).
Qed.

(* lines of a value without fields have no fields *)
Lemma split_plain_aux : forall (ls : list str) (res : list (list vtok)) (ln : list vtok),
  Forall (fun l => plain_tokens l = true) res -> plain_tokens ln = true ->
  let '(r, l) := fold_left (fun '(res, ln) l => (res ++ [ln], [VStr l])) ls (res, ln) in
  Forall (fun l => plain_tokens l = true) r /\ plain_tokens l = true.
Proof.
  induction ls as [|l ls IH]; intros res ln Hr Hl; cbn [fold_left]; [split; assumption|].
  apply IH; [|reflexivity]. apply Forall_app. split; [exact Hr|constructor; [exact Hl|constructor]].
Qed.

Lemma plain_app a b : plain_tokens (a ++ b) = plain_tokens a && plain_tokens b.
Proof. unfold plain_tokens. apply forallb_app. Qed.

Lemma split_by_lines_plain v : plain_tokens v = true -> Forall (fun l => plain_tokens l = true) (split_by_lines v).
Proof.
  intros Hp. unfold split_by_lines.
  assert (G : forall toks res ln, plain_tokens toks = true ->
            Forall (fun l => plain_tokens l = true) res -> plain_tokens ln = true ->
            let '(r, l) := fold_left (fun '(result, line) t =>
                 match t with
                 | VStr s =>
                     match split_crlf s with
                     | [] => (result, line ++ [VStr []])
                     | l0 :: ls =>
                         fold_left (fun '(res, ln) l => (res ++ [ln], [VStr l])) ls (result, line ++ [VStr l0])
                     end
                 | VField _ _ => (result, line ++ [t])
                 end) toks (res, ln) in
            Forall (fun l => plain_tokens l = true) r /\ plain_tokens l = true).
  { induction toks as [|t toks IH]; intros res ln Ht Hr Hl; cbn [fold_left]; [split; assumption|].
    cbn [plain_tokens forallb] in Ht. apply andb_true_iff in Ht. destruct Ht as [Ht Hts]. destruct t as [s|i nm]; [|discriminate].
    destruct (split_crlf s) as [|l0 ls].
    - apply IH; [exact Hts|exact Hr|]. rewrite plain_app, Hl. reflexivity.
    - pose proof (split_plain_aux ls res (ln ++ [VStr l0]) Hr) as Hs.
      destruct (fold_left _ ls (res, ln ++ [VStr l0])) as [r' l'].
      destruct Hs as [Hr' Hl']; [rewrite plain_app, Hl; reflexivity|]. apply IH; assumption. }
  specialize (G v [] [] Hp (Forall_nil _) eq_refl).
  destruct (fold_left _ v ([], [])) as [result line]. destruct G as [G1 G2].
  destruct line; [exact G1|]. apply Forall_app. split; [exact G1|constructor; [exact G2|constructor]].
Qed.

Definition ileaf_caret (node : anode) : nat :=
  if negb (truthy_l (an_value node)) && match an_children node with [] => true | _ => false end then 1 else 0.

Lemma Emits_push_value c o node st :
  plain_value (an_value node) = true -> Emits st (push_value c o node st) (ileaf_caret node).
Proof.
  intros Hp. unfold push_value, ileaf_caret.
  destruct (an_value node) as [[|v0 v]|] eqn:Ev; cbn [truthy_l negb andb].
  - (* Some []: falsy *)
    destruct (an_children node) as [|c0 ch]; cbn [negb andb]; [|apply Emits_refl].
    change (split_by_lines caret) with [[VField 0 []]].
    destruct (truthy_s (an_name node) || truthy_l (an_attrs node)).
    + replace 1 with (0 + 1) by reflexivity. eapply Emits_trans; [apply Emits_push_raw|apply Emits_push_caret].
    + apply Emits_push_caret.
  - (* a value without fields: no tabstop *)
    cbn [plain_value] in Hp. pose proof (split_by_lines_plain (v0 :: v) Hp) as Hl.
    destruct (split_by_lines (v0 :: v)) as [|l0 [|l1 ls]].
    + replace 0 with (0 + (0 + 0)) by reflexivity.
      eapply Emits_trans; [apply Emits_level|]. cbn [fold_left]. apply Emits_level.
    + destruct (truthy_s (an_name node) || truthy_l (an_attrs node)).
      * replace 0 with (0 + 0) by reflexivity. eapply Emits_trans; [apply Emits_push_raw|apply Emits_push_plain, Hp].
      * apply Emits_push_plain, Hp.
    + set (w := fold_left Nat.max (map value_length (l0 :: l1 :: ls)) O).
      assert (G : forall lines st0 nf, Forall (fun l => plain_tokens l = true) lines ->
                nf = fs_field st0 ->
                Emits st0 (fst (fold_left (pv_line c o w (fs_field st0)) lines (st0, nf))) 0 /\
                snd (fold_left (pv_line c o w (fs_field st0)) lines (st0, nf)) = fs_field st0).
      { induction lines as [|ln lines IH]; intros st0 nf Hl' Hnf; cbn [fold_left]; [split; [apply Emits_refl|exact Hnf]|].
        inversion Hl' as [|x y Hx Hy]; subst.
        set (stb := match io_before_text o with
                    | [] => map_out (fun os => os_push_newline (oc_fmt c) os (Some None)) st0
                    | b => push_raw b (map_out (fun os => os_push_newline (oc_fmt c) os (Some None)) st0)
                    end).
        assert (Eb : Emits st0 stb 0).
        { unfold stb. destruct (io_before_text o); [apply Emits_newline|].
          replace 0 with (0 + 0) by reflexivity. eapply Emits_trans; [apply Emits_newline|apply Emits_push_raw]. }
        assert (Fb : fs_field stb = fs_field st0) by (destruct Eb as [_ Eb]; rewrite Eb; cbn; lia).
        assert (Em : mkFs (fs_out stb) (fs_field st0) = stb) by (rewrite <- Fb; destruct stb; reflexivity).
        set (stt := push_tokens c ln stb).
        assert (Et : Emits st0 stt 0).
        { replace 0 with (0 + 0) by reflexivity. eapply Emits_trans; [exact Eb|apply Emits_push_plain, Hx]. }
        set (sta := match io_after_text o with
                    | [] => stt
                    | a => push_raw a (push_raw (repeat_str [c_space] (w - value_length ln)) stt)
                    end).
        assert (Ea : Emits st0 sta 0).
        { unfold sta. destruct (io_after_text o); [exact Et|].
          replace 0 with (0 + (0 + 0)) by reflexivity. eapply Emits_trans; [exact Et|].
          eapply Emits_trans; apply Emits_push_raw. }
        assert (Ft : fs_field stt = fs_field st0) by (destruct Et as [_ Et]; rewrite Et; cbn; lia).
        assert (Fa : fs_field sta = fs_field st0) by (destruct Ea as [_ Ea]; rewrite Ea; cbn; lia).
        assert (Ep : pv_line c o w (fs_field st0) (st0, fs_field st0) ln = (sta, fs_field st0)).
        { unfold pv_line. cbv zeta. fold stb. rewrite Em. fold stt. rewrite Ft, N.max_id. reflexivity. }
        rewrite Ep. rewrite <- Fa. destruct (IH sta (fs_field sta) Hy eq_refl) as [I1 I2]. split.
        - replace 0 with (0 + 0) by reflexivity. eapply Emits_trans; [exact Ea|exact I1].
        - exact I2. }
      pose proof (Emits_level 1 st) as E1.
      set (st1 := map_out (fun os => os_add_level os 1) st) in *.
      change (fs_field st1) with (fs_field st1) in G.
      destruct (G (l0 :: l1 :: ls) st1 (fs_field st1) Hl eq_refl) as [E2 E2'].
      destruct (fold_left (pv_line c o w (fs_field st1)) (l0 :: l1 :: ls) (st1, fs_field st1)) as [stf nff].
      cbn [fst snd] in E2, E2'. subst nff.
      assert (Ef : mkFs (fs_out stf) (fs_field st1) = stf).
      { destruct E2 as [_ E2]. destruct stf as [so sf]. cbn [fs_out fs_field] in *. f_equal. rewrite E2. cbn. lia. }
      rewrite Ef.
      pose proof (Emits_level (-1) stf) as E3.
      exact (Emits_trans _ _ _ _ _ E1 (Emits_trans _ _ _ _ _ E2 E3)).
  - (* None *)
    destruct (an_children node) as [|c0 ch]; cbn [negb andb]; [|apply Emits_refl].
    change (split_by_lines caret) with [[VField 0 []]].
    destruct (truthy_s (an_name node) || truthy_l (an_attrs node)).
    + replace 1 with (0 + 1) by reflexivity. eapply Emits_trans; [apply Emits_push_raw|apply Emits_push_caret].
    + apply Emits_push_caret.
Qed.

Lemma Emits_indent_step c o parent node index next kc st :
  plain_value (an_value node) = true -> attrs_plain node = true -> next_emits next kc ->
  (an_children node = [] -> kc = 0) ->
  Emits st (indent_element_step c o parent node index next st) (iattr_sites c node + leaf_site node + kc).
Proof.
  intros Hv Ha Hn Hk0. unfold indent_element_step.
  set (lv := match parent with Some _ => 1%Z | None => 0%Z end).
  set (st1 := map_out (fun os => os_add_level os lv) st).
  set (fmt := negb _ && negb (is_snippet node)).
  set (st2 := if fmt then map_out (fun os => os_push_newline (oc_fmt c) os (Some None)) st1 else st1).
  assert (E1 : Emits st st1 0) by apply Emits_level.
  assert (E2 : Emits st1 st2 0) by (unfold st2; destruct fmt; [apply Emits_newline|apply Emits_refl]).
  pose proof (Emits_ind_head c o node st2 Ha) as E3.
  set (st3 := ind_head c o node st2) in *.
  assert (E4 : Emits st3 (if an_self node && negb (truthy_l (an_value node)) && match an_children node with [] => true | _ => false end
                          then match io_self_close o with [] => st3 | sc => push_str c sc st3 end
                          else next (push_value c o node st3)) (leaf_site node + kc)).
  { unfold leaf_site.
    destruct (an_self node && negb (truthy_l (an_value node)) && match an_children node with [] => true | _ => false end) eqn:Esc.
    - apply andb_true_iff in Esc. destruct Esc as [Esc Ec]. apply andb_true_iff in Esc. destruct Esc as [Es Ev].
      rewrite Es. rewrite andb_false_r.
      assert (kc = 0) as -> by (apply Hk0; destruct (an_children node); [reflexivity|discriminate]).
      destruct (io_self_close o); [apply Emits_refl|apply Emits_push_str].
    - assert (El : ileaf_caret node = (if negb (truthy_l (an_value node)) && match an_children node with [] => true | _ => false end && negb (an_self node) then 1 else 0)).
      { unfold ileaf_caret. destruct (negb (truthy_l (an_value node))) eqn:E1'; [|reflexivity].
        destruct (an_children node) eqn:E2'; [|reflexivity]. cbn [andb] in *.
        destruct (an_self node); [discriminate|reflexivity]. }
      rewrite <- El. eapply Emits_trans; [apply Emits_push_value, Hv|apply Hn]. }
  match type of E4 with Emits _ ?mid _ => pose proof (Emits_level (- lv) mid) as E5 end.
  pose proof (Emits_trans _ _ _ _ _ E1 (Emits_trans _ _ _ _ _ E2 (Emits_trans _ _ _ _ _ E3 (Emits_trans _ _ _ _ _ E4 E5)))) as E.
  replace (0 + (0 + (iattr_sites c node + (leaf_site node + kc + 0)))) with (iattr_sites c node + leaf_site node + kc) in E by lia.
  exact E.
Qed.

Lemma Emits_indent_walk c o parent : forall l i st,
  Forall (fun n => forall parent index st, Emits st (indent_element c o parent n index st) (isites c n)) l ->
  Emits st (indent_walk c o parent i l st) (isites_list c l).
Proof.
  induction l as [|x l IH]; intros i st HF; cbn [indent_walk isites_list fold_right]; [apply Emits_refl|].
  inversion HF as [|y z Hx HF']; subst. eapply Emits_trans; [apply Hx|apply IH, HF'].
Qed.

Lemma isites_unfold c nm v rp at_ ch sc :
  isites c (ANode nm v rp at_ ch sc) =
  iattr_sites c (ANode nm v rp at_ ch sc) + leaf_site (ANode nm v rp at_ ch sc) + isites_list c ch.
Proof.
  cbn [isites].
  assert (E : (fix go (l : list anode) : nat := match l with [] => 0 | x :: r => isites c x + go r end) ch = isites_list c ch).
  { induction ch as [|x r IH]; [reflexivity|]. cbn [isites_list fold_right]. rewrite IH. reflexivity. }
  rewrite E. reflexivity.
Qed.

Theorem Emits_indent_element c o : forall node, no_fields node = true ->
  forall parent index st, Emits st (indent_element c o parent node index st) (isites c node).
Proof.
  induction node as [nm v rp at_ ch sc IHch] using anode_ind'. intros Hnf parent index st.
  rewrite no_fields_unfold in Hnf. apply andb_true_iff in Hnf. destruct Hnf as [Hnf Hch].
  apply andb_true_iff in Hnf. destruct Hnf as [Hv Ha].
  rewrite indent_element_unfold, isites_unfold.
  apply (Emits_indent_step c o parent (ANode nm v rp at_ ch sc) index _ (isites_list c ch) st Hv Ha).
  - intros st'. rewrite indent_children_walk. cbn [an_children]. apply Emits_indent_walk.
    rewrite forallb_forall in Hch. rewrite Forall_forall in *. intros n Hin. apply IHch; [exact Hin|apply Hch, Hin].
  - cbn [an_children]. intros ->. reflexivity.
Qed.

Theorem indent_tabstops_in_order_lemma c o children :
  forallb no_fields children = true ->
  fields_of (fchunks (indent_format c o children)) = carets 1 (isites_list c children).
Proof.
  intros Hnf. rewrite indent_format_walk.
  destruct (Emits_indent_walk c o None children 0 (mkFs os_empty 1)) as [H _].
  - rewrite forallb_forall in Hnf. apply Forall_forall. intros n Hin. apply Emits_indent_element, Hnf, Hin.
  - exact H.
Qed.
