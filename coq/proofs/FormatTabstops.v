(* C13: tabstops of trees without explicit fields are numbered 1, 2, 3, ... in document order,
   one per empty attribute value and one per empty leaf that is not self-closed. *)
From Coq Require Import ZArith List Bool Lia ZifyBool.
From Emmet Require Import lib.Base model.MarkupTokenizer model.MarkupParser model.MarkupConvert
     model.OutStream model.FormatHtml model.FormatIndent proofs.OutStreamProofs proofs.FormatSteps
     proofs.FormatReach proofs.FormatProofs proofs.FormatChunks.

(* ---------------------------------------------------------------- SPEC *)
(* a value without explicit fields *)
Definition plain_tokens (v : list vtok) : bool := forallb (fun t => negb (is_vfield t)) v.
Definition plain_value (v : option (list vtok)) : bool :=
  match v with Some l => plain_tokens l | None => true end.
Fixpoint no_fields (n : anode) : bool :=
  match n with
  | ANode _ v _ at_ ch _ =>
      plain_value v
      && forallb (fun a => plain_value (aa_value a)) (match at_ with Some l => l | None => [] end)
      && (fix go (l : list anode) : bool := match l with [] => true | x :: r => no_fields x && go r end) ch
  end.

(* an attribute that is written with an empty value (not a boolean attribute) *)
Definition attr_site (c : oconfig) (a : aattr) : nat :=
  if should_output_attribute a
     && match aa_name a with Some (_ :: _) => true | _ => false end
     && negb (truthy_l (aa_value a))
     && negb (is_boolean_attribute c a)
  then 1 else 0.
(* an element without content that is not self-closed *)
Definition leaf_site (n : anode) : nat :=
  if negb (truthy_l (an_value n)) && match an_children n with [] => true | _ => false end && negb (an_self n)
  then 1 else 0.
Definition attr_sites (c : oconfig) (n : anode) : nat :=
  fold_right (fun a k => attr_site c a + k) 0 (match an_attrs n with Some l => l | None => [] end).
(* (a node without name is a text node: its children are written only if it has text) *)
Fixpoint sites (c : oconfig) (n : anode) : nat :=
  match n with
  | ANode nm v rp at_ ch sc =>
      let below := (fix go (l : list anode) : nat := match l with [] => 0 | x :: r => sites c x + go r end) ch in
      match nm with
      | Some (_ :: _) => attr_sites c (ANode nm v rp at_ ch sc) + (below + leaf_site (ANode nm v rp at_ ch sc))
      | _ => if truthy_l v then below else 0
      end
  end.
Definition sites_list (c : oconfig) (l : list anode) : nat := fold_right (fun x k => sites c x + k) 0 l.

(* tabstops F, F+1, ..., F+k-1, all with an empty placeholder *)
Definition carets (F : N) (k : nat) : list (N * str) := map (fun j => ((F + N.of_nat j)%N, @nil char)) (seq 0 k).

(* ---------------------------------------------------------------- emission relation *)
Definition Emits (st st' : fstate) (k : nat) : Prop :=
  fields_of (fchunks st') = fields_of (fchunks st) ++ carets (fs_field st) k /\
  fs_field st' = (fs_field st + N.of_nat k)%N.

Lemma map_seq_shift {A} (f : nat -> A) a : forall b s, map f (seq (s + a) b) = map (fun j => f (j + a)) (seq s b).
Proof. induction b as [|b IH]; intros s; [reflexivity|]. cbn [seq map]. f_equal. apply (IH (S s)). Qed.

Lemma carets_app F a b : carets F (a + b) = carets F a ++ carets (F + N.of_nat a) b.
Proof.
  unfold carets. rewrite seq_app, map_app. f_equal.
  rewrite (map_seq_shift _ a b 0). apply map_ext. intros j. f_equal. lia.
Qed.

Lemma Emits_refl st : Emits st st 0.
Proof. unfold Emits, carets. cbn. rewrite app_nil_r. split; [reflexivity|lia]. Qed.

Lemma Emits_trans st1 st2 st3 a b : Emits st1 st2 a -> Emits st2 st3 b -> Emits st1 st3 (a + b).
Proof.
  intros [H1 F1] [H2 F2]. split.
  - rewrite H2, H1, F1, carets_app, <- app_assoc. reflexivity.
  - rewrite F2, F1. lia.
Qed.

Lemma Emits_0 st st' : fields_of (fchunks st') = fields_of (fchunks st) -> fs_field st' = fs_field st -> Emits st st' 0.
Proof. intros H1 H2. split; [rewrite H1; cbn; rewrite app_nil_r; reflexivity|rewrite H2; lia]. Qed.

Lemma Emits_push_str c s st : Emits st (push_str c s st) 0.
Proof. apply Emits_0; [|reflexivity]. rewrite ch_push_str, fields_app, fields_string, app_nil_r. reflexivity. Qed.

Lemma Emits_level d st : Emits st (map_out (fun o => os_add_level o d) st) 0.
Proof. apply Emits_0; reflexivity. Qed.
Lemma Emits_newline c ind st : Emits st (map_out (fun o => os_push_newline (oc_fmt c) o ind) st) 0.
Proof. apply Emits_0; [|reflexivity]. rewrite ch_map_newline, fields_app, fields_nl, app_nil_r. reflexivity. Qed.
Lemma Emits_level_newline c d st : Emits st (level_newline c d st) 0.
Proof. apply Emits_0; [|reflexivity]. rewrite ch_level_newline, fields_app, fields_nl, app_nil_r. reflexivity. Qed.
Lemma Emits_newline_int c (g : ostream -> Z) st :
  Emits st (map_out (fun o => os_push_newline_int (oc_fmt c) o (g o)) st) 0.
Proof.
  apply Emits_0; [|reflexivity]. unfold fchunks, map_out, os_push_newline_int. cbn [fs_out].
  rewrite ch_push_newline, fields_app, fields_nl, app_nil_r. reflexivity.
Qed.

Lemma plain_tok_fields v : plain_tokens v = true -> tok_fields v = [].
Proof.
  induction v as [|t v IH]; [reflexivity|]. cbn [plain_tokens forallb tok_fields flat_map]. intros H.
  apply andb_true_iff in H. destruct H as [Ht Hv]. destruct t; [|discriminate]. apply IH, Hv.
Qed.
Lemma plain_max_field v : plain_tokens v = true -> forall lg, max_field_from lg v = lg.
Proof.
  induction v as [|t v IH]; intros H lg; [reflexivity|]. cbn [plain_tokens forallb] in H.
  apply andb_true_iff in H. destruct H as [Ht Hv]. destruct t; [|discriminate]. cbn [max_field_from fold_left].
  apply (IH Hv).
Qed.

Lemma Emits_push_plain c v st : plain_tokens v = true -> Emits st (push_tokens c v st) 0.
Proof.
  intros Hp. destruct (push_tokens_spec c v st) as [H1 H2]. apply Emits_0.
  - rewrite H1, fields_app, fields_tokens, (plain_tok_fields v Hp). cbn. rewrite app_nil_r. reflexivity.
  - rewrite H2. unfold next_field. rewrite (plain_max_field v Hp). reflexivity.
Qed.

Lemma Emits_push_caret c st : Emits st (push_tokens c caret st) 1.
Proof.
  destruct (push_tokens_spec c caret st) as [H1 H2]. split.
  - rewrite H1, fields_app. cbn. rewrite N.add_0_r. reflexivity.
  - rewrite H2. cbn. lia.
Qed.

Lemma plain_firstn v n : plain_tokens v = true -> plain_tokens (firstn n v) = true.
Proof.
  revert n. induction v as [|t v IH]; intros [|n] H; try reflexivity. cbn [firstn plain_tokens forallb] in *.
  apply andb_true_iff in H. destruct H as [Ht Hv]. rewrite Ht. apply (IH n Hv).
Qed.

Lemma plain_no_field_ix v : plain_tokens v = true -> find_field_ix v = None.
Proof.
  unfold find_field_ix. generalize 0. induction v as [|t v IH]; intros n H; [reflexivity|].
  cbn [plain_tokens forallb] in H. apply andb_true_iff in H. destruct H as [Ht Hv].
  destruct t; [|discriminate]. apply (IH (S n) Hv).
Qed.

(* ---------------------------------------------------------------- blocks *)
Lemma Emits_fold {A} (f : fstate -> A -> fstate) (w : A -> nat) (l : list A) :
  (forall st a, In a l -> Emits st (f st a) (w a)) ->
  forall st, Emits st (fold_left f l st) (fold_right (fun a k => w a + k) 0 l).
Proof.
  induction l as [|a l IH]; intros Hf st; cbn [fold_left fold_right]; [apply Emits_refl|].
  eapply Emits_trans; [apply Hf; left; reflexivity|]. apply IH. intros st' a' Hin. apply Hf. right. exact Hin.
Qed.

Lemma attr_v1_plain c a nm0 :
  plain_value (aa_value a) = true ->
  plain_value (fst (fst (attr_v1 c a nm0))) = true /\
  truthy_l (fst (fst (attr_v1 c a nm0))) = truthy_l (aa_value a).
Proof.
  intros Hp. unfold attr_v1. destruct (attr_prefix c a nm0) as [[|p0 p]|]; try (split; [exact Hp|reflexivity]).
  destruct (aa_value a) as [[|[val|i nm'] [|t2 r]]|]; try (split; [exact Hp|reflexivity]).
Qed.

Lemma Emits_attr_write_plain c name v lq rq st :
  plain_value v = true -> Emits st (attr_write c name v lq rq st) 0.
Proof.
  intros Hp. unfold attr_write. destruct v as [[|v0 vr]|].
  - destruct (negb (str_eqb (oc_self_closing_style c) s_html));
      [replace 0 with (0 + 0) by reflexivity; eapply Emits_trans; apply Emits_push_str|apply Emits_push_str].
  - replace 0 with (0 + (0 + (0 + 0))) by reflexivity.
    eapply Emits_trans; [apply Emits_push_str|]. eapply Emits_trans; [apply Emits_push_str|].
    eapply Emits_trans; [apply Emits_push_plain; exact Hp|]. apply Emits_push_str.
  - destruct (negb (str_eqb (oc_self_closing_style c) s_html));
      [replace 0 with (0 + 0) by reflexivity; eapply Emits_trans; apply Emits_push_str|apply Emits_push_str].
Qed.

Lemma Emits_attr_write_caret c name lq rq st : Emits st (attr_write c name (Some caret) lq rq st) 1.
Proof.
  unfold attr_write, caret. replace 1 with (0 + (0 + (1 + 0))) by reflexivity.
  eapply Emits_trans; [apply Emits_push_str|]. eapply Emits_trans; [apply Emits_push_str|].
  eapply Emits_trans; [apply Emits_push_caret|]. apply Emits_push_str.
Qed.

Lemma Emits_push_attribute c a st :
  plain_value (aa_value a) = true ->
  Emits st (if should_output_attribute a then push_attribute c a st else st) (attr_site c a).
Proof.
  intros Hp. unfold attr_site. destruct (should_output_attribute a); [|apply Emits_refl]. cbn [andb].
  rewrite push_attribute_unfold. destruct (aa_name a) as [[|x nm]|]; try apply Emits_refl.
  cbn [andb]. cbv zeta.
  destruct (attr_v1_plain c a (x :: nm) Hp) as [Hp1 Ht1].
  destruct (attr_v1 c a (x :: nm)) as [[value1 lq] rq]. cbn [fst] in Hp1, Ht1. rewrite <- Ht1.
  unfold attr_value2.
  destruct (is_boolean_attribute c a) eqn:Hb; cbn [andb negb].
  - rewrite andb_false_r. destruct (truthy_l value1) eqn:Ht; cbn [negb].
    + apply Emits_attr_write_plain, Hp1.
    + destruct (negb (oc_compact_boolean c)); apply Emits_attr_write_plain; [reflexivity|exact Hp1].
  - rewrite andb_true_r. destruct (truthy_l value1) eqn:Ht; cbn [negb].
    + apply Emits_attr_write_plain, Hp1.
    + apply Emits_attr_write_caret.
Qed.

(* ---------------------------------------------------------------- element() block by block *)
Definition attrs_plain (n : anode) : bool :=
  forallb (fun a => plain_value (aa_value a)) (match an_attrs n with Some l => l | None => [] end).

Lemma Emits_comment_node c text n st : attrs_plain n = true -> Emits st (comment_node c text n st) 0.
Proof.
  intros Hp. unfold comment_node. destruct text; [apply Emits_refl|]. destruct (should_comment c n); [|apply Emits_refl].
  unfold comment_output.
  set (attrs := rev _).
  assert (Ha : forall k v, assoc_str k attrs = Some v -> plain_tokens v = true).
  { assert (Hall : Forall (fun kv => plain_tokens (snd kv) = true) attrs).
    { unfold attrs. apply Forall_rev. apply Forall_forall. intros [k v] Hin. apply in_flat_map in Hin.
      destruct Hin as [a [Hin Hkv]]. unfold attrs_plain in Hp. rewrite forallb_forall in Hp. specialize (Hp a Hin).
      destruct (aa_name a) as [[|x nm]|]; [destruct Hkv| |destruct Hkv].
      destruct (aa_value a) as [[|v0 vr]|]; [destruct Hkv| |destruct Hkv].
      destruct Hkv as [E|[]]. injection E as <- <-. exact Hp. }
    clear -Hall. induction attrs as [|[k' v'] l IH]; intros k v; cbn [assoc_str]; [discriminate|].
    inversion Hall; subst. destruct (str_eqb k k'); [intros E; injection E as <-; assumption|apply IH; assumption]. }
  clearbody attrs.
  assert (G : forall toks st0, Emits st0 (fold_left (fun st' t =>
               match t with
               | TStr s => push_str c s st'
               | TPh before after name =>
                   match assoc_str name attrs with
                   | Some v => push_str c after (push_tokens c v (push_str c before st'))
                   | None => st'
                   end
               end) toks st0) 0).
  { induction toks as [|t toks IH]; intros st0; cbn [fold_left]; [apply Emits_refl|].
    replace 0 with (0 + 0) by reflexivity. eapply Emits_trans; [|apply IH].
    destruct t as [s|b a nm]; [apply Emits_push_str|].
    destruct (assoc_str nm attrs) eqn:E; [|apply Emits_refl].
    replace 0 with (0 + (0 + 0)) by reflexivity.
    eapply Emits_trans; [apply Emits_push_str|]. eapply Emits_trans; [apply Emits_push_plain, (Ha _ _ E)|].
    apply Emits_push_str. }
  apply G.
Qed.

Lemma Emits_el_attrs c node st : attrs_plain node = true -> Emits st (el_attrs c node st) (attr_sites c node).
Proof.
  intros Hp. unfold el_attrs, attr_sites, attrs_plain in *. destruct (an_attrs node) as [[|a l]|]; try apply Emits_refl.
  apply (Emits_fold (fun s a0 => if should_output_attribute a0 then push_attribute c a0 s else s) (attr_site c)).
  intros st' a' Hin. apply Emits_push_attribute. rewrite forallb_forall in Hp. apply Hp, Hin.
Qed.

Lemma Emits_el_open c nm node st : attrs_plain node = true -> Emits st (el_open c nm node st) (attr_sites c node).
Proof.
  intros Hp. unfold el_open. replace (attr_sites c node) with (0 + (0 + attr_sites c node)) by reflexivity.
  eapply Emits_trans; [apply Emits_comment_node, Hp|]. eapply Emits_trans; [apply Emits_push_str|].
  apply Emits_el_attrs, Hp.
Qed.

Lemma el_snippet_plain c node next st : plain_value (an_value node) = true -> el_snippet c node next st = None.
Proof.
  intros Hp. unfold el_snippet. destruct (an_value node) as [[|v0 v]|]; try reflexivity.
  destruct (an_children node); [reflexivity|]. rewrite (plain_no_field_ix _ Hp). reflexivity.
Qed.

Lemma Emits_el_value c node st : plain_value (an_value node) = true -> Emits st (el_value c node st) 0.
Proof.
  intros Hp. unfold el_value. destruct (an_value node) as [[|v0 v]|]; try apply Emits_refl.
  destruct (existsb has_newline (v0 :: v) || starts_with_block_tag c (v0 :: v)).
  - replace 0 with (0 + (0 + 0)) by reflexivity.
    eapply Emits_trans; [apply Emits_level_newline|]. eapply Emits_trans; [apply Emits_push_plain, Hp|].
    destruct (an_children node); [apply Emits_level_newline|apply Emits_level].
  - apply Emits_push_plain, Hp.
Qed.

Definition leaf_caret (node : anode) : nat :=
  if negb (truthy_l (an_value node)) && match an_children node with [] => true | _ => false end then 1 else 0.

Lemma Emits_el_leaf c nm node st : Emits st (el_leaf c nm node st) (leaf_caret node).
Proof.
  unfold el_leaf, leaf_caret.
  destruct (negb (truthy_l (an_value node)) && match an_children node with [] => true | _ => false end); [|apply Emits_refl].
  destruct (oc_format_leaf c || mem_str nm (oc_format_force c)).
  - replace 1 with (0 + (1 + 0)) by reflexivity.
    eapply Emits_trans; [apply Emits_level_newline|]. eapply Emits_trans; [apply Emits_push_caret|].
    apply Emits_level_newline.
  - apply Emits_push_caret.
Qed.

Definition next_emits (next : fstate -> fstate) (k : nat) : Prop := forall st, Emits st (next st) k.

Lemma Emits_el_body c node next kc st :
  plain_value (an_value node) = true -> attrs_plain node = true -> next_emits next kc ->
  (an_children node = [] -> kc = 0) ->
  Emits st (el_body c node next st)
        (match an_name node with
         | Some (_ :: _) => attr_sites c node + (kc + leaf_site node)
         | _ => if truthy_l (an_value node) then kc else 0
         end).
Proof.
  intros Hv Ha Hn Hk0. unfold el_body.
  assert (Hun : Emits st (el_unnamed c node next st) (if truthy_l (an_value node) then kc else 0)).
  { unfold el_unnamed. rewrite (el_snippet_plain c node next st Hv).
    destruct (an_value node) as [[|v0 v]|]; try apply Emits_refl. cbn [truthy_l].
    replace kc with (0 + kc) by reflexivity. eapply Emits_trans; [apply Emits_push_plain, Hv|apply Hn]. }
  destruct (an_name node) as [[|x nm]|]; try exact Hun.
  unfold el_named, leaf_site.
  destruct (an_self node && match an_children node with [] => true | _ => false end && negb (truthy_l (an_value node))) eqn:Esc.
  - (* self-closed: no children, no leaf tabstop *)
    apply andb_true_iff in Esc. destruct Esc as [Esc Ev]. apply andb_true_iff in Esc. destruct Esc as [Es Ec].
    rewrite Es. rewrite andb_false_r.
    assert (kc = 0) as -> by (apply Hk0; destruct (an_children node); [reflexivity|discriminate]).
    replace (attr_sites c node + (0 + 0)) with (attr_sites c node + 0) by lia.
    eapply Emits_trans; [apply Emits_el_open, Ha|apply Emits_push_str].
  - unfold el_close, el_content. rewrite el_snippet_plain by exact Hv.
    assert (El : leaf_caret node = (if negb (truthy_l (an_value node)) && match an_children node with [] => true | _ => false end && negb (an_self node) then 1 else 0)).
    { unfold leaf_caret. destruct (negb (truthy_l (an_value node))) eqn:E1; [|reflexivity].
      destruct (an_children node) eqn:E2; [|reflexivity]. cbn [andb] in *.
      destruct (an_self node); [discriminate|reflexivity]. }
    rewrite <- El.
    replace (attr_sites c node + (kc + leaf_caret node)) with (attr_sites c node + (0 + ((0 + (kc + leaf_caret node)) + (0 + 0)))) by lia.
    eapply Emits_trans; [apply Emits_el_open, Ha|]. eapply Emits_trans; [apply Emits_push_str|].
    eapply Emits_trans.
    + eapply Emits_trans; [apply Emits_el_value, Hv|]. eapply Emits_trans; [apply Hn|apply Emits_el_leaf].
    + eapply Emits_trans; [apply Emits_push_str|apply Emits_comment_node, Ha].
Qed.

Lemma Emits_el_tail c fmt parent index items st : Emits st (el_tail c fmt parent index items st) 0.
Proof. unfold el_tail. destruct (tail_newline c fmt parent index items); [apply Emits_newline_int|apply Emits_refl]. Qed.

Lemma Emits_html_step c parent node index items next kc st :
  plain_value (an_value node) = true -> attrs_plain node = true -> next_emits next kc ->
  (an_children node = [] -> kc = 0) ->
  Emits st (html_element_step c parent node index items next st)
        (match an_name node with
         | Some (_ :: _) => attr_sites c node + (kc + leaf_site node)
         | _ => if truthy_l (an_value node) then kc else 0
         end).
Proof.
  intros Hv Ha Hn Hk0. unfold html_element_step.
  set (k := match an_name node with Some (_ :: _) => _ | _ => _ end).
  set (st1 := map_out (fun o => os_add_level o (get_indent c parent)) st).
  set (st2 := if should_format c parent node index items
              then map_out (fun o => os_push_newline (oc_fmt c) o (Some None)) st1 else st1).
  assert (E1 : Emits st st1 0) by apply Emits_level.
  assert (E2 : Emits st1 st2 0).
  { unfold st2. destruct (should_format c parent node index items); [apply Emits_newline|apply Emits_refl]. }
  assert (E3 : Emits st2 (el_body c node next st2) k) by (apply Emits_el_body; assumption).
  pose proof (Emits_el_tail c (should_format c parent node index items) parent index items (el_body c node next st2)) as E4.
  pose proof (Emits_level (- get_indent c parent) (el_tail c (should_format c parent node index items) parent index items (el_body c node next st2))) as E5.
  pose proof (Emits_trans _ _ _ _ _ E1 (Emits_trans _ _ _ _ _ E2 (Emits_trans _ _ _ _ _ E3 (Emits_trans _ _ _ _ _ E4 E5)))) as E.
  replace (0 + (0 + (k + (0 + 0)))) with k in E by lia. exact E.
Qed.

Lemma Emits_html_walk c parent items : forall l i st,
  Forall (fun n => forall parent index items st, Emits st (html_element c parent n index items st) (sites c n)) l ->
  Emits st (html_walk c parent items i l st) (sites_list c l).
Proof.
  induction l as [|x l IH]; intros i st HF; cbn [html_walk sites_list fold_right]; [apply Emits_refl|].
  inversion HF as [|y z Hx HF']; subst. eapply Emits_trans; [apply Hx|apply IH, HF'].
Qed.

Lemma no_fields_unfold nm v rp at_ ch sc :
  no_fields (ANode nm v rp at_ ch sc) = plain_value v && attrs_plain (ANode nm v rp at_ ch sc) && forallb no_fields ch.
Proof.
  cbn [no_fields]. unfold attrs_plain. cbn [an_attrs]. f_equal.
Qed.

Lemma sites_unfold c nm v rp at_ ch sc :
  sites c (ANode nm v rp at_ ch sc) =
  match nm with
  | Some (_ :: _) => attr_sites c (ANode nm v rp at_ ch sc) + (sites_list c ch + leaf_site (ANode nm v rp at_ ch sc))
  | _ => if truthy_l v then sites_list c ch else 0
  end.
Proof.
  cbn [sites].
  assert (E : (fix go (l : list anode) : nat := match l with [] => 0 | x :: r => sites c x + go r end) ch = sites_list c ch).
  { induction ch as [|x r IH]; [reflexivity|]. cbn [sites_list fold_right]. rewrite IH. reflexivity. }
  rewrite E. reflexivity.
Qed.

Theorem Emits_html_element c : forall node, no_fields node = true ->
  forall parent index items st, Emits st (html_element c parent node index items st) (sites c node).
Proof.
  induction node as [nm v rp at_ ch sc IHch] using anode_ind'. intros Hnf parent index items st.
  rewrite no_fields_unfold in Hnf. apply andb_true_iff in Hnf. destruct Hnf as [Hnf Hch].
  apply andb_true_iff in Hnf. destruct Hnf as [Hv Ha].
  rewrite html_element_unfold, sites_unfold.
  apply (Emits_html_step c parent (ANode nm v rp at_ ch sc) index items _ (sites_list c ch) st Hv Ha).
  - intros st'. rewrite html_children_walk. cbn [an_children]. apply Emits_html_walk.
    rewrite forallb_forall in Hch. rewrite Forall_forall in *. intros n Hin. apply IHch; [exact Hin|apply Hch, Hin].
  - cbn [an_children]. intros ->. reflexivity.
Qed.

(* the whole HTML formatter: the field callbacks of a tree without explicit fields receive
   1, 2, ..., k in document order, each with an empty placeholder; k = number of sites *)
Theorem tabstops_in_order_lemma c children :
  forallb no_fields children = true ->
  fields_of (fchunks (html_format c children)) = carets 1 (sites_list c children).
Proof.
  intros Hnf. rewrite html_format_walk.
  destruct (Emits_html_walk c None children children 0 (mkFs os_empty 1)) as [H _].
  - rewrite forallb_forall in Hnf. apply Forall_forall. intros n Hin. apply Emits_html_element, Hnf, Hin.
  - exact H.
Qed.

(* ---------------------------------------------------------------- the field counter never decreases *)
Lemma fmono_refl st : fmono st st. Proof. unfold fmono. lia. Qed.
Lemma fmono_trans a b c : fmono a b -> fmono b c -> fmono a c. Proof. unfold fmono. lia. Qed.
Lemma fmono_same st st' : fs_field st' = fs_field st -> fmono st st'. Proof. unfold fmono. intros ->. lia. Qed.
Lemma fmono_tokens c v st : fmono st (push_tokens c v st). Proof. apply push_tokens_field_mono. Qed.

Ltac fm := repeat first [ apply fmono_refl | apply fmono_same; reflexivity | apply fmono_tokens
                        | apply fmono_comment_node | eapply fmono_trans; [|solve [fm]] ].

Lemma fmono_el_attrs c node st : fmono st (el_attrs c node st).
Proof.
  unfold el_attrs. destruct (an_attrs node) as [[|a l]|]; try apply fmono_refl.
  apply fmono_fold. intros st' x. destruct (should_output_attribute x); [apply fmono_push_attribute|apply fmono_refl].
Qed.

Lemma fmono_el_open c nm node st : fmono st (el_open c nm node st).
Proof.
  unfold el_open.
  apply (fmono_trans _ (comment_node c (oc_comment_before c) node st)); [apply fmono_comment_node|].
  apply (fmono_trans _ (push_str c (c_lt :: tag_name c nm) (comment_node c (oc_comment_before c) node st)));
    [apply fmono_same; reflexivity|apply fmono_el_attrs].
Qed.

Definition next_mono (next : fstate -> fstate) : Prop := forall st, fmono st (next st).

Lemma fmono_el_snippet c node next st st' : next_mono next -> el_snippet c node next st = Some st' -> fmono st st'.
Proof.
  intros Hn. unfold el_snippet.
  destruct (an_value node) as [[|v0 value]|]; try discriminate.
  destruct (an_children node) as [|c0 ch]; try discriminate.
  destruct (find_field_ix (v0 :: value)) as [ix|]; try discriminate.
  set (st1 := push_tokens c (firstn ix (v0 :: value)) st).
  assert (H2 : fmono st (next st1)) by (eapply fmono_trans; [apply fmono_tokens|apply Hn]).
  destruct (nth_error (v0 :: value) (S ix)) as [[s|i nm]|].
  - destruct (negb (Nat.eqb (os_line (fs_out (next st1))) (os_line (fs_out st1)))); intros E; injection E as <-.
    + eapply fmono_trans; [exact H2|]. eapply fmono_trans; [|apply fmono_tokens]. apply fmono_same. reflexivity.
    + eapply fmono_trans; [exact H2|apply fmono_tokens].
  - intros E; injection E as <-. eapply fmono_trans; [exact H2|apply fmono_tokens].
  - intros E; injection E as <-. eapply fmono_trans; [exact H2|apply fmono_tokens].
Qed.

Lemma fmono_el_value c node st : fmono st (el_value c node st).
Proof.
  unfold el_value. destruct (an_value node) as [[|v0 value]|]; try apply fmono_refl.
  destruct (existsb has_newline (v0 :: value) || starts_with_block_tag c (v0 :: value)).
  - destruct (an_children node); (eapply fmono_trans; [|apply fmono_same; reflexivity]);
      (eapply fmono_trans; [|apply fmono_tokens]); apply fmono_same; reflexivity.
  - apply fmono_tokens.
Qed.

Lemma fmono_el_leaf c nm node st : fmono st (el_leaf c nm node st).
Proof.
  unfold el_leaf. destruct (negb _ && _); [|apply fmono_refl].
  destruct (oc_format_leaf c || mem_str nm (oc_format_force c)).
  - eapply fmono_trans; [|apply fmono_same; reflexivity]. eapply fmono_trans; [|apply fmono_tokens].
    apply fmono_same. reflexivity.
  - apply fmono_tokens.
Qed.

Lemma fmono_el_body c node next st : next_mono next -> fmono st (el_body c node next st).
Proof.
  intros Hn. unfold el_body.
  assert (Hun : fmono st (el_unnamed c node next st)).
  { unfold el_unnamed. destruct (el_snippet c node next st) as [st'|] eqn:E.
    - eapply fmono_el_snippet; eassumption.
    - destruct (an_value node) as [[|v0 value]|]; try apply fmono_refl.
      eapply fmono_trans; [apply fmono_tokens|apply Hn]. }
  destruct (an_name node) as [[|x nm]|]; try exact Hun.
  unfold el_named.
  destruct (an_self node && _ && _).
  - eapply fmono_trans; [apply fmono_el_open|apply fmono_same; reflexivity].
  - unfold el_close.
    set (s1 := el_open c (x :: nm) node st). set (s2 := push_str c [c_gt] s1).
    set (s3 := el_content c (x :: nm) node next s2).
    assert (H1 : fmono st s1) by apply fmono_el_open.
    assert (H2 : fmono s1 s2) by (apply fmono_same; reflexivity).
    assert (H3 : fmono s2 s3).
    { unfold s3, el_content. destruct (el_snippet c node next s2) as [st'|] eqn:E.
      - eapply fmono_el_snippet; eassumption.
      - apply (fmono_trans _ (el_value c node s2)); [apply fmono_el_value|].
        apply (fmono_trans _ (next (el_value c node s2))); [apply Hn|apply fmono_el_leaf]. }
    apply (fmono_trans _ s3); [unfold fmono in *; lia|].
    apply (fmono_trans _ (push_str c ([c_lt; c_slash] ++ tag_name c (x :: nm) ++ [c_gt]) s3));
      [apply fmono_same; reflexivity|apply fmono_comment_node].
Qed.

Lemma fmono_html_step c parent node index items next st :
  next_mono next -> fmono st (html_element_step c parent node index items next st).
Proof.
  intros Hn. unfold html_element_step.
  set (st1 := map_out (fun o => os_add_level o (get_indent c parent)) st).
  set (st2 := if should_format c parent node index items
              then map_out (fun o => os_push_newline (oc_fmt c) o (Some None)) st1 else st1).
  assert (E2 : fs_field st2 = fs_field st) by (unfold st2; destruct (should_format c parent node index items); reflexivity).
  pose proof (fmono_el_body c node next st2 Hn) as E3.
  assert (E4 : fs_field (el_tail c (should_format c parent node index items) parent index items (el_body c node next st2))
               = fs_field (el_body c node next st2)).
  { unfold el_tail. destruct (tail_newline _ _ _ _ _); reflexivity. }
  unfold fmono in *. rewrite fld_map_out, E4. lia.
Qed.

Lemma fmono_html_walk c parent items : forall l i st,
  Forall (fun n => forall parent index items st, fmono st (html_element c parent n index items st)) l ->
  fmono st (html_walk c parent items i l st).
Proof.
  induction l as [|x l IH]; intros i st HF; cbn [html_walk]; [apply fmono_refl|].
  inversion HF as [|y z Hx HF']; subst. eapply fmono_trans; [apply Hx|apply IH, HF'].
Qed.

Theorem field_counter_monotone c : forall node parent index items st,
  (fs_field st <= fs_field (html_element c parent node index items st))%N.
Proof.
  induction node as [nm v rp at_ ch sc IHch] using anode_ind'. intros parent index items st.
  rewrite html_element_unfold. apply fmono_html_step.
  intros st'. rewrite html_children_walk. apply fmono_html_walk. exact IHch.
Qed.
