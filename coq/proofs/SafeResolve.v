(* C07, snippet-resolution stage: `walk_resolve` with the fuel supplied by markup_parse
   (S (number of snippets)) never runs out of fuel and never fails, for ALL trees and ALL
   configurations whose snippet values are well-formed abbreviations ([wf_cfg]: every value
   tokenizes, parses and yields a tree with stringifiable tokens -- decidable, and swept
   COMPLETELY over the regenerated built-in tables below).
   The transformation pass (implicit tag, attribute merge, lorem header, xsl, label, BEM) returns `res`
   since the BEM addon is modelled (its two raise sites are explicit Internal results); it is proved
   total in proofs/BemProofs.v (transform_forest_ok); the lorem draws in proofs/LoremFill.v. *)
From Coq Require Import List Bool Lia Arith ZArith.
From Emmet Require Import lib.Base model.MarkupTokenizer model.MarkupParser model.MarkupConvert model.MarkupResolve
     gen.GenMarkupSnippets proofs.SafeConvert.
Import ListNotations.

(* ---------------------------------------------------------------- strings *)
Lemma str_eqb_true : forall a b, str_eqb a b = true -> a = b.
Proof.
  induction a as [|x a IH]; intros [|y b] H; simpl in H; try discriminate; auto.
  apply andb_true_iff in H. destruct H as [H1 H2]. apply N.eqb_eq in H1. subst. f_equal. auto.
Qed.
Lemma str_eqb_refl : forall a, str_eqb a a = true.
Proof. induction a; simpl; auto. rewrite N.eqb_refl. auto. Qed.

Lemma mem_str_false : forall s l, mem_str s l = false -> ~ In s l.
Proof.
  intros s l H Hin. unfold mem_str in H.
  assert (existsb (str_eqb s) l = true); [|congruence].
  apply existsb_exists. exists s. split; auto. apply str_eqb_refl.
Qed.

Lemma assoc_str_in : forall (k : str) (l : list (str * str)) v, assoc_str k l = Some v -> exists k', In (k', v) l.
Proof.
  intros k. induction l as [|[k' v'] l IH]; intros v H; simpl in H. discriminate.
  destruct (str_eqb k k').
  - inversion H; subst. exists k'. left. reflexivity.
  - destruct (IH v H) as [k2 Hk]. exists k2. right. exact Hk.
Qed.

(* ---------------------------------------------------------------- well-formed abbreviations / tables *)
(* [s] tokenizes, parses, and no Repeater/unknown-operator token ends up inside a name or value *)
Definition abbr_good (jsx : bool) (s : str) : bool :=
  match tokenize s with
  | TErr _ => false
  | TOk toks => match parse jsx toks with
                | PErr _ => false
                | POk root => forallb tnode_ok root
                end
  end.

Definition table_good (t : list (str * str)) : bool := forallb (fun kv => abbr_good false (snd kv)) t.
Definition wf_cfg (cfg : mconfig) : Prop := table_good (mc_snippets cfg) = true.

Lemma parse_abbr_good : forall jsx env mr s, abbr_good jsx s = true -> exists r, parse_abbr jsx env mr s = Ok r.
Proof.
  intros jsx env mr s H. unfold abbr_good, parse_abbr in *.
  destruct (tokenize s) as [toks|p]; [|discriminate].
  destruct (parse jsx toks) as [root|p]; [|discriminate].
  apply convert_safe. exact H.
Qed.

Lemma table_good_in : forall t k v, table_good t = true -> In (k, v) t -> abbr_good false v = true.
Proof.
  intros t k v H Hin. unfold table_good in H. rewrite forallb_forall in H. apply (H (k, v) Hin).
Qed.

Lemma table_good_app : forall a b, table_good a = true -> table_good b = true -> table_good (a ++ b) = true.
Proof. intros a b Ha Hb. unfold table_good in *. rewrite forallb_app, Ha, Hb. reflexivity. Qed.

(* COMPLETE sweep over the built-in tables regenerated from emmet/snippets on every run *)
Lemma markup_snippets_good : table_good markup_snippets = true.
Proof. vm_compute. reflexivity. Qed.
Lemma xsl_snippets_good : table_good xsl_snippets = true.
Proof. vm_compute. reflexivity. Qed.
Lemma pug_snippets_good : table_good pug_snippets = true.
Proof. vm_compute. reflexivity. Qed.

(* ---------------------------------------------------------------- walk_resolve, unfolded *)
Lemma anode_ind' (P : anode -> Prop) :
  (forall nm v rp at_ ch sc, Forall P ch -> P (ANode nm v rp at_ ch sc)) -> forall n, P n.
Proof.
  intros H. fix IH 1. intros [nm v rp at_ ch sc].
  apply H. revert ch. fix IHl 1. intros [|x l]; constructor; [apply IH|apply IHl].
Qed.

Section Walk.
  Variable cfg : mconfig.
  Variable stack : list str.
  Variable rec : list str -> list anode -> res (list anode).      (* walk_resolve f cfg *)

  Definition snippet_of (nm : option str) : option str :=
    match nm with
    | Some ((_ :: _) as name) =>
        match assoc_str name (mc_snippets cfg) with
        | Some ((_ :: _) as s) => if mem_str s stack then None else Some s
        | _ => None
        end
    | _ => None
    end.

  Fixpoint walk_node' (n : anode) : res (list anode) :=
    match n with
    | ANode nm v rp at_ ch sc =>
        let walk_kids :=
          (fix walk_kids (k : list anode) : res (list anode) :=
             match k with
             | [] => Ok []
             | c :: k' => let* a := walk_node' c in let* b := walk_kids k' in Ok (a ++ b)
             end) in
        match snippet_of nm with
        | None => let* kids := walk_kids ch in Ok [ANode nm v rp at_ kids sc]
        | Some s =>
            let* parsed := parse_abbr false (snippet_env cfg) (mc_max_repeat_snip cfg) s in
            let* resolved := rec (s :: stack) parsed in
            let tops := map (merge_into (mc_reverse_attrs cfg) n) resolved in
            match tops with
            | [] => Ok []
            | _ => let* kids := walk_kids ch in Ok (attach_deepest tops kids)
            end
        end
    end.

  Fixpoint walk_list' (l : list anode) : res (list anode) :=
    match l with
    | [] => Ok []
    | child :: rest =>
        let* here := walk_node' child in
        let* others := walk_list' rest in
        Ok (here ++ others)
    end.
End Walk.

Lemma walk_resolve_eq : forall f cfg stack l,
  walk_resolve (S f) cfg stack l = walk_list' cfg stack (walk_resolve f cfg) l.
Proof. reflexivity. Qed.

Definition is_ok {A} (r : res A) : Prop := exists a, r = Ok a.

Section WalkOk.
  Variable cfg : mconfig.
  Variable stack : list str.
  Variable rec : list str -> list anode -> res (list anode).
  Hypothesis Hwf : wf_cfg cfg.
  Hypothesis Hrec : forall s parsed,
    ~ In s stack -> In s (map snd (mc_snippets cfg)) -> is_ok (rec (s :: stack) parsed).

  Lemma snippet_of_some : forall nm s, snippet_of cfg stack nm = Some s ->
    ~ In s stack /\ In s (map snd (mc_snippets cfg)) /\ abbr_good false s = true.
  Proof.
    intros nm s H. unfold snippet_of in H.
    destruct nm as [[|c name]|]; try discriminate.
    destruct (assoc_str (c :: name) (mc_snippets cfg)) as [[|c2 s2]|] eqn:A; try discriminate.
    destruct (mem_str (c2 :: s2) stack) eqn:M; try discriminate.
    inversion H; subst. apply mem_str_false in M. split; [exact M|].
    apply assoc_str_in in A. destruct A as [k Hk]. split.
    - apply in_map_iff. exists (k, c2 :: s2). split; auto.
    - eapply table_good_in; [exact Hwf|exact Hk].
  Qed.

  Lemma walk_node_ok : forall n, is_ok (walk_node' cfg stack rec n).
  Proof.
    apply anode_ind'. intros nm v rp at_ ch sc HF.
    cbn [walk_node'].
    set (walk_kids := fix walk_kids (k : list anode) : res (list anode) :=
             match k with
             | [] => Ok []
             | c :: k' => let* a := walk_node' cfg stack rec c in let* b := walk_kids k' in Ok (a ++ b)
             end).
    assert (HK : is_ok (walk_kids ch)).
    { clear -HF. induction ch as [|c k IH]; [eexists; reflexivity|].
      inversion HF as [|? ? Hc Hk]; subst. cbn [walk_kids].
      destruct Hc as [a Ea]. rewrite Ea. cbn [bind].
      destruct (IH Hk) as [b Eb]. fold walk_kids in Eb. rewrite Eb. cbn [bind]. eexists; reflexivity. }
    destruct HK as [kids EK].
    destruct (snippet_of cfg stack nm) as [s|] eqn:SN.
    - apply snippet_of_some in SN. destruct SN as [H1 [H2 H3]].
      destruct (parse_abbr_good false (snippet_env cfg) (mc_max_repeat_snip cfg) s H3) as [parsed EP].
      rewrite EP. cbn [bind].
      destruct (Hrec s parsed H1 H2) as [resolved ER]. rewrite ER. cbn [bind]. cbv zeta.
      destruct (map (merge_into (mc_reverse_attrs cfg) (ANode nm v rp at_ ch sc)) resolved).
      + eexists; reflexivity.
      + rewrite EK. cbn [bind]. eexists; reflexivity.
    - rewrite EK. cbn [bind]. eexists; reflexivity.
  Qed.

  Lemma walk_list_ok : forall l, is_ok (walk_list' cfg stack rec l).
  Proof.
    induction l as [|c r IH]; [eexists; reflexivity|].
    cbn [walk_list']. destruct (walk_node_ok c) as [a Ea]. rewrite Ea. cbn [bind].
    destruct IH as [b Eb]. rewrite Eb. cbn [bind]. eexists; reflexivity.
  Qed.
End WalkOk.

(* the fuel argument: the stack holds distinct snippet values of the table, so its length is at
   most the number of snippets; fuel + |stack| > |snippets| is preserved by every recursive call *)
Theorem walk_resolve_ok : forall cfg, wf_cfg cfg ->
  forall fuel stack l,
    NoDup stack -> incl stack (map snd (mc_snippets cfg)) ->
    length (mc_snippets cfg) < fuel + length stack ->
    is_ok (walk_resolve fuel cfg stack l).
Proof.
  intros cfg Hwf. induction fuel as [|f IH]; intros stack l Hnd Hincl Hlen.
  - exfalso. pose proof (NoDup_incl_length Hnd Hincl) as H. rewrite map_length in H. lia.
  - rewrite walk_resolve_eq. apply walk_list_ok; [exact Hwf|].
    intros s parsed Hnin Hin. apply IH.
    + constructor; assumption.
    + intros x [->|Hx]; auto.
    + simpl. lia.
Qed.

(* resolve_safe: the call made by markup_parse *)
Theorem resolve_safe : forall cfg tree, wf_cfg cfg ->
  exists r, walk_resolve (S (length (mc_snippets cfg))) cfg [] tree = Ok r.
Proof.
  intros cfg tree Hwf. apply walk_resolve_ok; auto.
  - constructor.
  - intros x [].
  - simpl. lia.
Qed.

(* the fuel is really needed up to the table size: a chain of k snippets nests k deep (non-vacuity of the bound) *)
Example resolve_chain_nonvacuous :
  let cfg := mkMConfig [] [([97], [98]); ([98], [99]); ([99], [100])]%N [] WNone None None false None [] false false
                       false [] [] None in
  wf_cfg cfg /\
  walk_resolve 4 cfg [] [ANode (Some [97]%N) None None None [] false] = Ok [ANode (Some [100]%N) None None None [] false] /\
  walk_resolve 3 cfg [] [ANode (Some [97]%N) None None None [] false] = OutOfFuel.
Proof. repeat split; vm_compute; reflexivity. Qed.
