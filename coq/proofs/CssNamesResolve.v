(* C13, stylesheet: no FunctionCall name in the output of stylesheet.parse (snippet table conversion,
   abbreviation parser, resolver) contains a line feed -- for every abbreviation, every snippet table, every
   configuration.  Function names are Literal token values of the abbreviation or of a snippet definition (both
   come from the tokenizer) or the fixed "linear-gradient".
   (Step 3 of: the raw pushes of the stylesheet formatter are free of line feeds for every abbreviation.) *)
From Coq Require Import ZArith List Bool Lia ZifyBool String.
From Emmet Require Import lib.Base lib.StyleLib model.CssTokenizer model.CssParser model.Score model.Color
     model.CssSnippets model.CssResolve model.MarkupConvert model.OutStream model.CssFormatStream model.CssExpandStream
     proofs.OutStreamProofs proofs.CssFormatStream proofs.CssFormatFields proofs.CssWrapFields
     proofs.CssNamesParser proofs.CssNamesTokenizer.
Import ListNotations.

Definition kw_ok (d : kwdict) : Prop := Forall (fun kv => G (snd kv)) d.
Definition sn_ok (s : snippet) : Prop :=
  match s with
  | SnRaw _ _ => True
  | SnProp _ _ value kws deps => Forall Gvs value /\ kw_ok kws /\ Forall kw_ok deps
  end.

(* ---------------------------------------------------------------- snippet table *)
Lemma dict_set_ok k v d : kw_ok d -> G v -> kw_ok (dict_set k v d).
Proof.
  intros Hd Hv. induction Hd as [|[k' v'] l H Hl IH]; cbn [dict_set]; [constructor; [exact Hv|constructor]|].
  destruct (str_eqb k k'); constructor; assumption.
Qed.
Lemma assoc_str_ok k d v : kw_ok d -> assoc_str k d = Some v -> G v.
Proof.
  intros Hd. induction Hd as [|[k' v'] l H _ IH]; cbn [assoc_str]; [discriminate|].
  destruct (str_eqb k k'); [intros E; injection E as <-; exact H|exact IH].
Qed.

Lemma collect_keyword_ok dest v : kw_ok dest -> G v -> kw_ok (collect_keyword dest v).
Proof.
  intros Hd Hv. unfold collect_keyword. destruct v as [[]|]; try exact Hd; try (apply dict_set_ok; assumption).
  destruct (strip name); [exact Hd|]. apply dict_set_ok; [exact Hd|reflexivity].
Qed.
Lemma collect_keywords_ok dest vs : kw_ok dest -> Gv vs -> kw_ok (collect_keywords dest vs).
Proof.
  unfold collect_keywords. intros Hd Hv. revert dest Hd. induction Hv as [|v r H _ IH]; intros dest Hd; cbn [fold_left]; [exact Hd|].
  apply IH, collect_keyword_ok; assumption.
Qed.

Lemma map_res_ok {A B} (f : A -> res B) (P : B -> Prop) :
  (forall x y, f x = Ok y -> P y) -> forall l ys, map_res f l = Ok ys -> Forall P ys.
Proof.
  intros Hf. induction l as [|x r IH]; intros ys H; cbn [map_res] in H.
  - injection H as <-. constructor.
  - destruct (f x) as [y| | |] eqn:E; cbn [bind] in H; try discriminate.
    destruct (map_res f r) as [ys'| | |]; cbn [bind] in H; try discriminate.
    injection H as <-. constructor; [eapply Hf; exact E|apply IH; reflexivity].
Qed.
Lemma map_res_ok_in {A B} (f : A -> res B) (Q : A -> Prop) (P : B -> Prop) :
  (forall x y, Q x -> f x = Ok y -> P y) -> forall l ys, Forall Q l -> map_res f l = Ok ys -> Forall P ys.
Proof.
  intros Hf. induction l as [|x r IH]; intros ys HQ H; cbn [map_res] in H.
  - injection H as <-. constructor.
  - inversion HQ; subst.
    destruct (f x) as [y| | |] eqn:E; cbn [bind] in H; try discriminate.
    destruct (map_res f r) as [ys'| | |]; cbn [bind] in H; try discriminate.
    injection H as <-. constructor; [eapply Hf; eassumption|apply IH; [assumption|reflexivity]].
Qed.

Lemma parse_value_ok value l : parse_value value = Ok l -> Gvs l.
Proof.
  unfold parse_value. destruct (css_parse true (strip value)) as [props| | |] eqn:E; cbn [bind]; try discriminate.
  pose proof (css_parse_names_ok _ _ _ E) as H. destruct props as [|p r]; intros E'; injection E' as <-; [constructor|].
  inversion H; assumption.
Qed.

Lemma fold_collect_ok parsed : Forall Gvs parsed -> forall d, kw_ok d ->
  kw_ok (fold_left (fun d item => fold_left collect_keywords item d) parsed d).
Proof.
  induction 1 as [|item r Hi _ IH]; intros d Hd; cbn [fold_left]; [exact Hd|]. apply IH.
  clear IH. revert d Hd. induction Hi as [|vs r' Hv _ IH']; intros d Hd; cbn [fold_left]; [exact Hd|].
  apply IH', collect_keywords_ok; assumption.
Qed.

Lemma create_snippet_ok key value s : create_snippet key value = Ok s -> sn_ok s.
Proof.
  unfold create_snippet. destruct (re_property_match value) as [[prop g2]|]; [|intros E; injection E as <-; exact I].
  destruct (match g2 with Some g => map_res parse_value (split_on c_pipe g []) | None => Ok [] end) as [parsed| | |] eqn:E;
    cbn [bind]; try discriminate.
  intros E'. injection E' as <-. cbn [sn_ok].
  assert (Hp : Forall Gvs parsed).
  { destruct g2 as [g|]; [|injection E as <-; constructor]. eapply map_res_ok; [|exact E]. intros x y. apply parse_value_ok. }
  split; [exact Hp|]. split; [|constructor].
  apply fold_collect_ok; [exact Hp|constructor].
Qed.

Lemma insert_by_Forall {A} (key : A -> str) (P : A -> Prop) x l : P x -> Forall P l -> Forall P (insert_by key x l).
Proof.
  intros Hx Hl. induction Hl as [|y r Hy Hr IH]; cbn [insert_by]; [constructor; [exact Hx|constructor]|].
  destruct (str_ltb (key y) (key x)); constructor; try assumption. constructor; assumption.
Qed.
Lemma sort_by_Forall {A} (key : A -> str) (P : A -> Prop) l : Forall P l -> Forall P (sort_by key l).
Proof.
  unfold sort_by. induction 1 as [|x r Hx _ IH]; cbn [fold_right]; [constructor|]. apply insert_by_Forall; assumption.
Qed.

Lemma find_In {A} (f : A -> bool) l x : find f l = Some x -> In x l.
Proof. intros H. apply find_some in H. apply H. Qed.

Lemma keywords_of_key_ok l key : Forall sn_ok l -> kw_ok (keywords_of_key l key).
Proof.
  intros Hl. unfold keywords_of_key. destruct (find (fun s => str_eqb (sn_key s) key) l) as [[|k p v kw d]|] eqn:E; try constructor.
  apply find_In in E. rewrite Forall_forall in Hl. apply Hl in E. cbn [sn_ok] in E. apply E.
Qed.

Lemma nest_ok l : Forall sn_ok l -> Forall sn_ok (nest l).
Proof.
  intros Hl. unfold nest. pose proof (sort_by_Forall sn_key sn_ok l Hl) as Hs.
  set (sorted := sort_by sn_key l) in *. set (pairs := nest_pairs sorted []).
  rewrite Forall_forall. intros s Hin. apply in_map_iff in Hin. destruct Hin as [s0 [<- Hin0]].
  rewrite Forall_forall in Hs. pose proof (Hs s0 Hin0) as H0. destruct s0 as [|key prop value kw deps]; [exact I|].
  cbn [sn_ok] in *. destruct H0 as [Hv [Hk _]]. split; [exact Hv|]. split; [exact Hk|].
  rewrite Forall_forall. intros d Hd. apply in_map_iff in Hd. destruct Hd as [pc [<- _]].
  apply keywords_of_key_ok. rewrite Forall_forall. exact Hs.
Qed.

Theorem convert_snippets_ok raw sn : convert_snippets raw = Ok sn -> Forall sn_ok sn.
Proof.
  unfold convert_snippets.
  destruct (map_res (fun kv => create_snippet (fst kv) (snd kv)) raw) as [created| | |] eqn:E; cbn [bind]; try discriminate.
  intros E'. injection E' as <-. apply nest_ok. eapply map_res_ok; [|exact E]. intros x y. apply create_snippet_ok.
Qed.

(* ---------------------------------------------------------------- resolver *)
Lemma fbm_loop_In {A} (key : A -> str) abbr partial : forall items max_score matched m sc d,
  fbm_loop key abbr partial items max_score matched = (m, sc, d) ->
  forall x, m = Some x -> In x items \/ matched = Some x.
Proof.
  induction items as [|item rest IH]; intros max_score matched m sc d H x Hx; cbn [fbm_loop] in H.
  - injection H as <- _ _. right. exact Hx.
  - destruct (f_eqb (calculate_score abbr (key item) partial) f_one && str_eqb (lower abbr) (lower (key item))).
    + injection H as <- _ _. injection Hx as <-. left. left. reflexivity.
    + destruct (negb (f_is_zero (calculate_score abbr (key item) partial)) && f_leb max_score (calculate_score abbr (key item) partial)).
      * destruct (IH _ _ _ _ _ H x Hx) as [Hin|E]; [left; right; exact Hin|]. injection E as <-. left. left. reflexivity.
      * destruct (IH _ _ _ _ _ H x Hx) as [Hin|E]; [left; right; exact Hin|right; exact E].
Qed.
Lemma find_best_match_In {A} (key : A -> str) abbr items ms partial x :
  find_best_match key abbr items ms partial = Some x -> In x items.
Proof.
  unfold find_best_match. destruct (fbm_loop key abbr partial items f_zero None) as [[m sc] d] eqn:E.
  intros H. assert (Hm : m = Some x).
  { destruct d; [exact H|]. destruct (f_leb ms sc); [exact H|discriminate]. }
  destruct (fbm_loop_In key abbr partial items f_zero None m sc d E x Hm) as [Hin|Hn]; [exact Hin|discriminate].
Qed.

Lemma find_in_dict_ok kw d ms v : kw_ok d -> find_in_dict kw d ms = Some v -> G v.
Proof.
  intros Hd. unfold find_in_dict. destruct (find_best_match (fun k => k) kw (map fst d) ms false) as [ref|]; [|discriminate].
  destruct ref; [discriminate|]. apply assoc_str_ok, Hd.
Qed.
Lemma find_in_deps_ok kw deps ms v : Forall kw_ok deps -> find_in_deps kw deps ms = Some v -> G v.
Proof.
  induction 1 as [|d r Hd _ IH]; cbn [find_in_deps]; [discriminate|].
  destruct (find_in_dict kw d ms) as [v'|] eqn:E; [intros E'; injection E' as <-; eapply find_in_dict_ok; eassumption|exact IH].
Qed.
Definition snopt_ok (sn : option (kwdict * list kwdict)) : Prop :=
  match sn with Some (kws, deps) => kw_ok kws /\ Forall kw_ok deps | None => True end.
Lemma resolve_keyword_ok kw cfg sn ms v : snopt_ok sn -> resolve_keyword kw cfg sn ms = Some v -> G v.
Proof.
  intros Hs. unfold resolve_keyword.
  set (fs := match sn with Some (kws, deps) => _ | None => None end).
  assert (Hfs : forall v', fs = Some v' -> G v').
  { unfold fs. destruct sn as [[kws deps]|]; [|discriminate]. destruct Hs as [Hk Hd]. intros v'.
    destruct (find_in_dict kw kws ms) as [v0|] eqn:E; [intros E'; injection E' as <-; eapply find_in_dict_ok; eassumption|].
    apply find_in_deps_ok, Hd. }
  destruct fs as [v0|]; [intros E; injection E as <-; apply Hfs; reflexivity|].
  destruct (find_best_match (fun k => k) kw (c_keywords cfg) ms false) as [ref|]; [|discriminate].
  destruct ref; [discriminate|]. intros E; injection E as <-. reflexivity.
Qed.

Lemma Forall_skipn' {A} (P : A -> Prop) n l : Forall P l -> Forall P (skipn n l).
Proof. revert l. induction n as [|n IH]; intros l H; [exact H|]. destruct l; [constructor|]. inversion H; subst. cbn [skipn]. apply IH. assumption. Qed.

Lemma resolve_value_token_ok cfg sn ms t : snopt_ok sn -> G t -> G (resolve_value_token cfg sn ms t).
Proof.
  intros Hs Ht. unfold resolve_value_token. destruct t as [[]|name args]; try exact Ht.
  - destruct (resolve_keyword v cfg sn ms) as [k|] eqn:E; [eapply resolve_keyword_ok; eassumption|exact Ht].
  - destruct (resolve_keyword name cfg sn ms) as [[|mname margs]|] eqn:E; try exact Ht.
    pose proof (resolve_keyword_ok _ _ _ _ _ Hs E) as Hm. apply G_func in Hm. destruct Hm as [Hn Hma].
    apply G_func in Ht. destruct Ht as [_ Ha]. apply G_func. split; [exact Hn|].
    apply Forall_app. split; [exact Ha|apply Forall_skipn', Hma].
Qed.
Lemma resolve_value_keywords_ok cfg sn ms value : snopt_ok sn -> Gvs value -> Gvs (resolve_value_keywords cfg sn ms value).
Proof.
  intros Hs Hv. unfold resolve_value_keywords. apply Forall_map. eapply Forall_impl; [|exact Hv].
  intros vs Hvs. apply Forall_map. eapply Forall_impl; [|exact Hvs]. intros t. apply resolve_value_token_ok, Hs.
Qed.

(* wrap_with_field keeps the function names of the value it wraps (a FunctionCall stays a FunctionCall with the
   same name; every other token becomes a Field or is kept) *)
Definition wv_ok (cfg : sconfig) (v : cval) : Prop := G v -> forall idx, G (fst (wrap_val cfg v idx)).
Lemma wrap_list_G_gen cfg vs : Forall (wv_ok cfg) vs -> Gv vs -> forall idx, Gv (fst (wrap_list cfg vs idx)).
Proof.
  induction 1 as [|x xs Hx _ IH]; intros Hg idx; cbn [wrap_list]; [constructor|].
  inversion Hg as [|? ? G1 G2]; subst.
  specialize (Hx G1 idx). destruct (wrap_val cfg x idx) as [o1 i1].
  specialize (IH G2 i1). destruct (wrap_list cfg xs i1) as [o2 i2]. cbn [fst] in *. constructor; assumption.
Qed.
Lemma wrap_args_G_gen cfg args : Forall (Forall (wv_ok cfg)) args -> Gvs args -> forall idx, Gvs (fst (wrap_args cfg args idx)).
Proof.
  induction 1 as [|a r Ha _ IH]; intros Hg idx; cbn [wrap_args]; [constructor|].
  inversion Hg as [|? ? G1 G2]; subst.
  pose proof (wrap_list_G_gen cfg a Ha G1 idx) as H1. destruct (wrap_list cfg a idx) as [o1 i1].
  specialize (IH G2 i1). destruct (wrap_args cfg r i1) as [o2 i2]. cbn [fst] in *. constructor; assumption.
Qed.
Lemma wrap_val_G cfg v : wv_ok cfg v.
Proof.
  induction v as [k st en|name args IH] using cval_ind2; unfold wv_ok; intros Hg idx.
  - destruct k; cbn [wrap_val fst]; apply G_tok.
  - rewrite wrap_val_func. apply G_func in Hg. destruct Hg as [Hn Ha].
    pose proof (wrap_args_G_gen cfg args IH Ha idx) as H.
    destruct (wrap_args cfg args idx) as [args' idx']. cbn [fst] in *. apply G_func. split; assumption.
Qed.
Lemma wrap_list_G cfg vs : Gv vs -> forall idx, Gv (fst (wrap_list cfg vs idx)).
Proof. apply wrap_list_G_gen, Forall_all. intros v. apply wrap_val_G. Qed.
Lemma wrap_with_field_G cfg node : Gv node -> Gv (wrap_with_field cfg node).
Proof. intros H. apply wrap_list_G, H. Qed.

Lemma fill_fields_ok segs : forall input, Gv input -> Gv (fill_fields segs input).
Proof.
  induction segs as [|[s|idx ph] r IH]; intros input Hi; cbn [fill_fields]; [constructor| |].
  - constructor; [reflexivity|apply IH, Hi].
  - destruct input as [|v input']; [constructor; [reflexivity|apply IH; constructor]|].
    inversion Hi; subst. constructor; [assumption|apply IH; assumption].
Qed.
Lemma resolve_as_snippet_ok node value p : Gp node -> resolve_as_snippet node value = Ok p -> Gp p.
Proof.
  intros Hn. unfold resolve_as_snippet. destruct (split_fields value O []) as [segs| | |]; cbn [bind]; try discriminate.
  intros E. injection E as <-. unfold Gp. cbn [pvalue]. constructor; [|constructor]. apply fill_fields_ok.
  unfold Gp in Hn. destruct (pvalue node) as [|v r]; [constructor|inversion Hn; assumption].
Qed.

Lemma resolve_as_property_ok cfg node abbr key prop value kws deps :
  Gp node -> Forall Gvs value -> kw_ok kws -> Forall kw_ok deps ->
  Gp (resolve_as_property cfg node abbr key prop value kws deps).
Proof.
  intros Hn Hv Hk Hd. unfold resolve_as_property.
  assert (Hs : snopt_ok (Some (kws, deps))) by (split; assumption).
  assert (Hfin : forall v, Gvs v ->
            Gp (match v with
                | _ :: _ => mkProp (Some prop) (resolve_value_keywords cfg (Some (kws, deps)) f_zero v) (pimportant node) true
                | [] => match value with
                        | default_value :: others =>
                            match others with
                            | [] => mkProp (Some prop) default_value (pimportant node) true
                            | _ => if existsb has_field default_value then mkProp (Some prop) default_value (pimportant node) true
                                   else mkProp (Some prop) (map (wrap_with_field cfg) default_value) (pimportant node) true
                            end
                        | [] => mkProp (Some prop) [] (pimportant node) true
                        end
                end)).
  { intros v Hgv. destruct v as [|v0 vr].
    - destruct value as [|dv others]; [constructor|]. inversion Hv; subst.
      destruct others; [assumption|]. destruct (existsb has_field dv); [assumption|].
      unfold Gp. cbn [pvalue]. apply Forall_map. eapply Forall_impl; [|eassumption]. intros a. apply wrap_with_field_G.
    - unfold Gp. cbn [pvalue]. apply resolve_value_keywords_ok; assumption. }
  cbv zeta. destruct (get_unmatched_part abbr key 0) as [|c0 iv].
  - exact (Hfin (pvalue node) Hn).
  - destruct (pvalue node) as [|v0 vr] eqn:Ev.
    + destruct (resolve_keyword (c0 :: iv) cfg (Some (kws, deps)) f_zero) as [kw|] eqn:Ek; [|constructor].
      refine (Hfin [[kw]] _). constructor; [|constructor]. constructor; [|constructor]. eapply resolve_keyword_ok; eassumption.
    + unfold Gp in *. cbn [pvalue]. rewrite Ev in Hn. exact Hn.
Qed.

Lemma resolve_gradient_ok cfg node p : Gp node -> resolve_gradient cfg node = Some p -> Gp p.
Proof.
  intros Hn. unfold resolve_gradient. destruct (in_section_scope cfg); [discriminate|].
  set (gf := match pvalue node with [[VFunc name args]] => if str_eqb name gradient_name then Some args else None | _ => None end).
  assert (Hgf : forall args, gf = Some args -> Gvs args).
  { unfold gf. intros args. unfold Gp in Hn. destruct (pvalue node) as [|[|[|name a] []] []]; try discriminate.
    destruct (str_eqb name gradient_name); [|discriminate]. intros E. injection E as <-.
    inversion Hn as [|? ? H1 _]; subst. inversion H1 as [|? ? H2 _]; subst. apply G_func in H2. apply H2. }
  assert (Hres : forall nm, Gp (mkProp nm [[VFunc (lit "linear-gradient")
                               match gf with Some args => args | None => [[synth (CField [] (Some 0%N))]] end]] (pimportant node) true)).
  { intros nm. unfold Gp. cbn [pvalue]. constructor; [|constructor]. constructor; [|constructor].
    apply G_func. split; [reflexivity|]. destruct gf as [args|]; [apply Hgf; reflexivity|repeat constructor]. }
  destruct gf as [args|]; [|destruct (match pname node with Some n => str_eqb n gradient_name | None => false end); [|discriminate]];
    intros E; injection E as <-; apply Hres.
Qed.

Lemma resolve_numeric_value_ok cfg node : Gp node -> Gp (resolve_numeric_value cfg node).
Proof.
  unfold Gp, resolve_numeric_value. cbn [pvalue]. intros H. apply Forall_map. eapply Forall_impl; [|exact H].
  intros vs Hvs. apply Forall_map. eapply Forall_impl; [|exact Hvs]. intros t Ht.
  unfold resolve_numeric_token. destruct t as [[]|]; try exact Ht. destruct unit; [|reflexivity].
  destruct (negb (dec_is_zero value) && negb _); reflexivity.
Qed.

Lemma resolve_node_ok cfg snippets node p : Forall sn_ok snippets -> Gp node -> resolve_node cfg snippets node = Ok p -> Gp p.
Proof.
  intros Hsn Hn. unfold resolve_node.
  match goal with |- bind ?r _ = _ -> _ => destruct r as [resolved| | |] eqn:E end; cbn [bind]; try discriminate.
  assert (Hr : Gp resolved).
  { destruct (resolve_gradient cfg node) as [n|] eqn:Eg; [injection E as <-; eapply resolve_gradient_ok; eassumption|].
    destruct (is_value_scope cfg).
    - injection E as <-. unfold Gp. cbn [pvalue]. apply resolve_value_keywords_ok; [|exact Hn].
      destruct (find _ snippets) as [[|k pr v kws deps]|] eqn:Ef; try exact I.
      apply find_In in Ef. rewrite Forall_forall in Hsn. apply Hsn in Ef. cbn [sn_ok] in Ef. split; apply Ef.
    - destruct (pname node) as [name|]; [|injection E as <-; exact Hn].
      destruct (find_best_match sn_key name snippets (c_min_score cfg) true) as [[key value|key prop value kws deps]|] eqn:Ef.
      + eapply resolve_as_snippet_ok; [|exact E]. exact Hn.
      + injection E as <-. apply find_best_match_In in Ef. rewrite Forall_forall in Hsn. apply Hsn in Ef. cbn [sn_ok] in Ef.
        destruct Ef as [H1 [H2 H3]]. apply resolve_as_property_ok; assumption.
      + injection E as <-. exact Hn. }
  destruct (pname resolved); [|destruct (c_context cfg)]; intros E'; injection E' as <-; try exact Hr; apply resolve_numeric_value_ok, Hr.
Qed.

Lemma get_snippets_for_scope_ok snippets cfg : Forall sn_ok snippets -> Forall sn_ok (get_snippets_for_scope snippets cfg).
Proof.
  intros H. unfold get_snippets_for_scope. destruct (c_context cfg) as [name|]; [|exact H].
  assert (Hf : forall f, Forall sn_ok (filter f snippets)).
  { intros f. rewrite Forall_forall in *. intros x Hx. apply filter_In in Hx. apply H, Hx. }
  destruct (str_eqb name scope_section); [apply Hf|]. destruct (str_eqb name scope_property); [apply Hf|exact H].
Qed.

(* stylesheet.parse(abbr, config): every abbreviation, every snippet table, every configuration *)
Theorem parse_with_names_ok cfg raw sn abbr nodes :
  convert_snippets raw = Ok sn -> parse_with cfg sn abbr = Ok nodes -> Forall Gp nodes.
Proof.
  intros Hc. unfold parse_with. destruct (css_parse (is_value_scope cfg) abbr) as [ns| | |] eqn:E; cbn [bind]; try discriminate.
  apply (map_res_ok_in _ Gp Gp); [|eapply css_parse_names_ok; exact E].
  intros x y Hx. apply resolve_node_ok; [|exact Hx]. apply get_snippets_for_scope_ok. eapply convert_snippets_ok; exact Hc.
Qed.

(* hence css_raw_ok holds for the resolved properties of EVERY abbreviation as soon as stylesheet.after has no
   line feed *)
Theorem parse_with_raw_ok cfg sn abbr nodes :
  convert_snippets (c_snippets cfg) = Ok sn -> parse_with cfg sn abbr = Ok nodes ->
  lf_count (c_after cfg) = 0 -> css_raw_ok (fmt_of cfg) nodes.
Proof.
  intros Hc Hp Ha. split; [exact Ha|]. apply Gps_raw_ok. eapply parse_with_names_ok; eassumption.
Qed.
