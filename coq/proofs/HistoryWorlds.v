(* C08 -- the stylesheet world of run/HistoryStyle.v satisfies the hypothesis of the C08 theorems, and the
   history state machine over it computes exactly the cache-less stylesheet pipeline model.
   (Print Assumptions lists the kernel's PrimFloat/Uint63 primitives used by the scorer: not axioms of ours;
   for that reason this corollary is kept out of props/C08.v.) *)
From Coq Require Import PrimFloat List Bool.
From Emmet Require Import lib.Base lib.StyleLib gen.GenCssSnippets model.CssSnippets model.CssResolve
     model.CssFormat run.StyleShow model.History proofs.HistoryProofs proofs.ConfigProofs run.HistoryStyle.


Lemma snips_eqb_spec : forall a b, snips_eqb a b = true <-> a = b.
Proof.
  induction a as [|[k1 v1] a IH]; destruct b as [|[k2 v2] b]; cbn [snips_eqb]; split; intro H;
    try reflexivity; try discriminate.
  - apply andb_prop in H. destruct H as [H H3]. apply andb_prop in H. destruct H as [H1 H2].
    apply str_eqb_eq in H1. apply str_eqb_eq in H2. apply IH in H3. now subst.
  - inversion H; subst. rewrite !str_eqb_refl. cbn. now apply IH.
Qed.

Lemma convert_fast_eq : forall sn, convert_fast sn = convert_snippets sn.
Proof.
  intro sn. unfold convert_fast. destruct (snips_eqb sn css_snippets) eqn:E; [|reflexivity].
  apply snips_eqb_spec in E. subst. symmetry. apply builtin_converted_eq.
Qed.

Definition of_res (r : res str) : outcome css_world :=
  match r with
  | Ok s => Returned css_world s
  | ParseErr k p => Raised css_world (ParseErr k p)
  | Internal k => Raised css_world (Internal k)
  | OutOfFuel => Raised css_world OutOfFuel
  end.

(* Through any cache dict, after any history of stylesheet (and other) calls, a stylesheet call
   returns what the cache-less pipeline model [expand_css] (the subject of C05/C06) returns. *)
Theorem css_history_is_expand_css :
  forall texts (h : list (call css_world)) cache (cfg : sconfig) (abbr : str),
    outcome_in css_world (run css_world h (fresh css_world texts)) (CCss css_world cache (c_snippets cfg) (cfg, abbr))
    = of_res (expand_css cfg abbr).
Proof.
  intros. rewrite (history_independent css_world snips_eqb_spec).
  rewrite (outcome_pure css_world snips_eqb_spec) by apply fresh_inv.
  cbn [pure_outcome]. unfold css_pure, expand_css. cbn [css_world w_convert w_css_expand fst snd].
  rewrite convert_fast_eq. destruct (convert_snippets (c_snippets cfg)); cbn; try reflexivity.
  destruct (expand_with cfg a abbr); reflexivity.
Qed.
Print Assumptions css_history_is_expand_css.
