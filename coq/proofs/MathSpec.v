(* SPEC of C19: what "the arithmetic value of a math expression" and "a well-formed
   extract range" mean.  Definitions only, no scanner, no operator stack.

     tokens      Lex s ts       the string s spells the token list ts
     grammar     Parses L ts e  ts derives the tree e at precedence level L (0 = whole expression)
     value       eval e         exact rational arithmetic, None = division by zero
     coverage    covered e      no unparenthesised chain mixes '\' with '*' or '/'

   The number carried by a literal is its exact decimal value (Math.dec = mantissa, scale);
   Python's floats and their rounding are outside this spec. *)
From Coq Require Import QArith Qcanon Qround.
From Emmet Require Import lib.Base model.Math.

Inductive op2 := Add | Sub | Mul | Div | IDiv.

Inductive expr :=
| Num (d : dec)                   (* number literal *)
| Pos (e : expr)                  (* + e *)
| Neg (e : expr)                  (* - e *)
| Bin (o : op2) (l r : expr)      (* l o r *)
| Paren (e : expr).               (* ( e ) *)

(* ------------------------------------------------------------------ value *)
Definition value_of_dec (d : dec) : Qc := Qc_of_dec d.    (* mantissa / 10^scale *)

Definition Qc_floor (q : Qc) : Qc := Q2Qc (inject_Z (Qfloor q)).

Definition apply_op (o : op2) (a b : Qc) : option Qc :=
  match o with
  | Add => Some (a + b)%Qc
  | Sub => Some (a - b)%Qc
  | Mul => Some (a * b)%Qc
  | Div => if Qc_eq_dec b 0%Qc then None else Some (a / b)%Qc
  | IDiv => if Qc_eq_dec b 0%Qc then None else Some (Qc_floor (a / b)%Qc)
  end.

Fixpoint eval (e : expr) : option Qc :=
  match e with
  | Num d => Some (value_of_dec d)
  | Pos e => eval e
  | Paren e => eval e
  | Neg e => match eval e with Some a => Some (- a)%Qc | None => None end
  | Bin o l r =>
      match eval l, eval r with
      | Some a, Some b => apply_op o a b
      | _, _ => None
      end
  end.

(* ------------------------------------------------------------------ tokens *)
Inductive tok := TNum (d : dec) | TOp (o : op2) | TLP | TRP.

Definition op_char (o : op2) : char :=
  match o with Add => c_plus | Sub => c_dash | Mul => c_star | Div => c_slash | IDiv => c_bslash end.

(* value of a run of decimal characters (any Unicode decimal digit) *)
Definition digit_of (c : char) : N := match digit_value c with Some v => v | None => 0%N end.
Definition digits_value (ds : str) : N := fold_left (fun a c => (a * 10 + digit_of c)%N) ds 0%N.
Definition all_digits (ds : str) : Prop := ds <> [] /\ Forall (fun c => is_number c = true) ds.

(* number literals: 12   12.5   .5 *)
Inductive NumLit : str -> dec -> Prop :=
| NL_int ds : all_digits ds -> NumLit ds (digits_value ds, O)
| NL_frac ds fs : all_digits ds -> all_digits fs ->
    NumLit (ds ++ c_dot :: fs) (digits_value (ds ++ fs), length fs)
| NL_short fs : all_digits fs -> NumLit (c_dot :: fs) (digits_value fs, length fs).

Inductive Spell : tok -> str -> Prop :=
| Sp_num lit d : NumLit lit d -> Spell (TNum d) lit
| Sp_op o : Spell (TOp o) [op_char o]
| Sp_lp : Spell TLP [c_lparen]
| Sp_rp : Spell TRP [c_rparen].

(* a number literal is not followed by a character that could continue it *)
Definition Sep (t : tok) (rest : str) : Prop :=
  match t, rest with
  | TNum _, c :: _ => is_number c = false /\ c <> c_dot
  | _, _ => True
  end.

(* white space (space, tab, no-break space) may precede every token *)
Inductive Lex : str -> list tok -> Prop :=
| Lex_nil : Lex [] []
| Lex_tok ws lit t rest ts :
    Forall (fun c => is_white_space c = true) ws -> Spell t lit -> Sep t rest -> Lex rest ts ->
    Lex (ws ++ lit ++ rest) (t :: ts).

(* ------------------------------------------------------------------ grammar *)
Definition is_add (o : op2) : bool := match o with Add | Sub => true | _ => false end.
Definition is_mul (o : op2) : bool := negb (is_add o).

(*   E0 -> E0 [+ -] E1 | E1        E1 -> E1 [* / \] E2 | E2
     E2 -> + E2 | - E2 | number | ( E0 )                                  *)
Inductive Parses : nat -> list tok -> expr -> Prop :=
| P_num d : Parses 2 [TNum d] (Num d)
| P_paren ts e : Parses 0 ts e -> Parses 2 (TLP :: ts ++ [TRP]) (Paren e)
| P_pos ts e : Parses 2 ts e -> Parses 2 (TOp Add :: ts) (Pos e)
| P_neg ts e : Parses 2 ts e -> Parses 2 (TOp Sub :: ts) (Neg e)
| P_mul o tl tr l r : is_mul o = true -> Parses 1 tl l -> Parses 2 tr r ->
    Parses 1 (tl ++ TOp o :: tr) (Bin o l r)
| P_up1 ts e : Parses 2 ts e -> Parses 1 ts e
| P_add o tl tr l r : is_add o = true -> Parses 0 tl l -> Parses 1 tr r ->
    Parses 0 (tl ++ TOp o :: tr) (Bin o l r)
| P_up0 ts e : Parses 1 ts e -> Parses 0 ts e.

(* the string s is a well-formed expression denoting the tree e *)
Definition WellFormed (s : str) (e : expr) : Prop := exists ts, Lex s ts /\ Parses 0 ts e.

(* the grouping of a chain that mixes '\' with '*' or '/' is not documented: such
   expressions are outside the value clause *)
Definition compatible (o o' : op2) : bool :=
  match o, o' with
  | IDiv, IDiv => true
  | IDiv, _ | _, IDiv => false
  | _, _ => true
  end.
Fixpoint covered (e : expr) : Prop :=
  match e with
  | Num _ => True
  | Pos e | Neg e | Paren e => covered e
  | Bin o l r =>
      covered l /\ covered r /\
      match l with
      | Bin o' _ _ => is_mul o = true -> is_mul o' = true -> compatible o o' = true
      | _ => True
      end
  end.

(* ------------------------------------------------------------------ extract *)
(* characters an extracted range may contain *)
Definition math_char (c : char) : bool :=
  is_number c || (c =? c_dot)%N || is_operator c || (c =? c_lparen)%N || (c =? c_rparen)%N || is_space c.

(* parentheses balance: reading left to right from depth d never closes below 0 and ends at 0 *)
Fixpoint balanced_from (d : nat) (s : str) : Prop :=
  match s with
  | [] => d = O
  | c :: s' =>
      if (c =? c_lparen)%N then balanced_from (S d) s'
      else if (c =? c_rparen)%N then match d with O => False | S d' => balanced_from d' s' end
      else balanced_from d s'
  end.
Definition balanced (s : str) : Prop := balanced_from 0 s.

(* the look-ahead adjusted position: with lookAhead, a ')' at pos is taken together with the
   run of ')' (and white space, when allowed) that follows it *)
Definition la_char (whitespace : bool) (c : char) : bool :=
  (c =? c_rparen)%N || (whitespace && is_space c).
Fixpoint run_length (p : char -> bool) (s : str) : nat :=
  match s with c :: r => if p c then S (run_length p r) else O | [] => O end.
Definition lookahead_end (text : str) (pos : Z) (look_ahead whitespace : bool) : Z :=
  if (look_ahead && (0 <=? pos)%Z && (pos <? Z.of_nat (length text))%Z
      && match nth_error text (Z.to_nat pos) with Some c => (c =? c_rparen)%N | None => false end)%bool
  then (pos + 1 + Z.of_nat (run_length (la_char whitespace) (skipn (Z.to_nat (pos + 1)) text)))%Z
  else pos.
