(* C16 (CSS half), matcher part: for every ordered event list (in particular the
   scanner's), match / balanced_outward / balanced_inward report only well-formed
   ranges inside [0, |s|] and never fail with an internal error. *)
From Coq Require Import ZArith List Bool Lia ZifyBool.
From Emmet Require Import lib.Base model.CssScan model.CssMatch proofs.CssScanProofs.
Import ListNotations.
Local Open Scope Z_scope.

Definition rwf (n : Z) (r : range) : Prop := range_wf n (fst r) (snd r).

(* ------------------------------------------------------------------ inner_range *)
Lemma py_index_ok s i : 0 <= i < Z.of_nat (length s) -> exists c, py_index s i = Ok c.
Proof.
  intros H. unfold py_index.
  replace (i <? 0) with false by lia.
  replace ((i <? 0) || (Z.of_nat (length s) <=? i)) with false by lia.
  destruct (nth_error s (Z.to_nat i)) eqn:E; [eauto|].
  apply nth_error_None in E. lia.
Qed.

Lemma trim_left_ok : forall fuel s a b,
  0 <= a -> b <= Z.of_nat (length s) -> (Z.to_nat (b - a) <= fuel)%nat ->
  exists a', trim_left fuel s a b = Ok a' /\ a <= a' /\ a' <= Z.max a b.
Proof.
  induction fuel as [|f IH]; intros s a b Ha Hb Hf; cbn [trim_left].
  - destruct (a <? b) eqn:E; [lia|]. exists a. split; [reflexivity|lia].
  - destruct (a <? b) eqn:E; [|exists a; split; [reflexivity|lia]].
    destruct (py_index_ok s a) as [c Hc]; [lia|]. rewrite Hc. cbn [bind].
    destruct (is_space c); [|exists a; split; [reflexivity|lia]].
    destruct (IH s (a + 1) b) as (a' & H1 & H2 & H3); try lia.
    exists a'. split; [exact H1|lia].
Qed.

Lemma trim_right_ok : forall fuel s a b,
  0 <= a -> b <= Z.of_nat (length s) -> (Z.to_nat (b - a) <= fuel)%nat ->
  exists b', trim_right fuel s a b = Ok b' /\ b' <= b /\ Z.min a b <= b'.
Proof.
  induction fuel as [|f IH]; intros s a b Ha Hb Hf; cbn [trim_right].
  - destruct (negb (b =? 0) && (a <? b)) eqn:E; [lia|]. exists b. split; [reflexivity|lia].
  - destruct (negb (b =? 0) && (a <? b)) eqn:E; [|exists b; split; [reflexivity|lia]].
    destruct (py_index_ok s (b - 1)) as [c Hc]; [lia|]. rewrite Hc. cbn [bind].
    destruct (is_space c); [|exists b; split; [reflexivity|lia]].
    destruct (IH s a (b - 1)) as (b' & H1 & H2 & H3); try lia.
    exists b'. split; [exact H1|lia].
Qed.

Lemma inner_range_ok s a b :
  0 <= a -> b <= Z.of_nat (length s) ->
  exists o, inner_range s a b = Ok o /\
            match o with Some r => a <= fst r /\ fst r < snd r /\ snd r <= b | None => True end.
Proof.
  intros Ha Hb. unfold inner_range.
  destruct (trim_left_ok (Z.to_nat (b - a)) s a b) as (a' & H1 & H2 & H3); try lia.
  rewrite H1. cbn [bind].
  destruct (trim_right_ok (Z.to_nat (b - a)) s a' b) as (b' & H4 & H5 & H6); try lia.
  rewrite H4. cbn [bind].
  destruct (a' <? b') eqn:E; eexists; (split; [reflexivity|]); cbn; lia.
Qed.

(* ------------------------------------------------------------------ push *)
Lemma push_wf n acc r : Forall (rwf n) acc -> rwf n r -> Forall (rwf n) (push acc r).
Proof.
  intros Ha Hr. unfold push.
  destruct (_ && _); [constructor; assumption|assumption].
Qed.

Lemma push_opt_wf n acc o :
  Forall (rwf n) acc -> match o with Some r => rwf n r | None => True end -> Forall (rwf n) (push_opt acc o).
Proof. intros Ha Ho. destruct o; cbn [push_opt]; [apply push_wf; assumption|assumption]. Qed.

(* ------------------------------------------------------------------ match *)
Definition sel_ok (lo : Z) (p : rng3) : Prop :=
  0 <= r_start p /\ r_start p <= r_delim p + 1 /\ r_delim p + 1 <= lo.
Definition pend_ok (lo : Z) (p : option rng3) : Prop :=
  match p with None => True | Some p => 0 <= r_start p /\ r_start p <= lo end.

Lemma sel_ok_weaken lo lo' st : lo <= lo' -> Forall (sel_ok lo) st -> Forall (sel_ok lo') st.
Proof. intros H. apply Forall_impl. unfold sel_ok. intros; lia. Qed.

Lemma decl_end_bounds lo n e :
  ev_ok lo n e -> (ety e = PropertyValue \/ ety e = PropertyName) ->
  eend e <= decl_end (edelim e) (eend e) /\ decl_end (edelim e) (eend e) <= n
  /\ ev_next e <= decl_end (edelim e) (eend e).
Proof.
  unfold ev_ok, decl_end, ev_next. intros (H1 & H2 & H3 & H4) Ht.
  destruct Ht as [Ht|Ht]; rewrite Ht in *; destruct (edelim e =? -1) eqn:E; lia.
Qed.

Lemma match_go_wf : forall evs lo n pos stack pending m,
  0 <= lo -> events_ok lo n evs -> Forall (sel_ok lo) stack -> pend_ok lo pending ->
  match_go pos stack pending evs = Some m ->
  range_wf n (mr_start m) (mr_end m) /\ range_wf n (mr_bstart m) (mr_bend m).
Proof.
  induction evs as [|e r IH]; intros lo n pos stack pending m Hlo Hev Hst Hp Hm; cbn [match_go] in Hm;
    [discriminate|].
  destruct Hev as [He Hr].
  pose proof (ev_next_ge _ _ _ He) as Hge.
  pose proof He as He'. unfold ev_ok in He'. destruct He' as (E1 & E2 & E3 & E4).
  destruct (ety e) eqn:Et.
  - (* Selector *)
    eapply IH; [| exact Hr | | | exact Hm]; [lia| |exact I].
    constructor.
    + unfold sel_ok, r_start, r_delim, ev_next; cbn. rewrite Et. lia.
    + eapply sel_ok_weaken; [|exact Hst]. exact Hge.
  - (* PropertyName *)
    eapply IH; [| exact Hr | | | exact Hm]; [lia| |].
    + eapply sel_ok_weaken; [|exact Hst]. exact Hge.
    + unfold pend_ok, r_start; cbn. unfold ev_next in *. rewrite Et in *.
      destruct (edelim e =? -1); lia.
  - (* PropertyValue *)
    destruct (decl_end_bounds _ _ _ He (or_introl Et)) as (D1 & D2 & D3).
    assert (Hrec : match_go pos stack None r = Some m ->
                   range_wf n (mr_start m) (mr_end m) /\ range_wf n (mr_bstart m) (mr_bend m)).
    { intros Hm'. eapply IH; [| exact Hr | | | exact Hm']; [lia| |exact I].
      eapply sel_ok_weaken; [|exact Hst]. exact Hge. }
    destruct pending as [p|]; [|auto].
    destruct ((r_start p <? pos) && (pos <? decl_end (edelim e) (eend e))); [|auto].
    inversion Hm; subst m; cbn. unfold pend_ok in Hp. unfold range_wf. lia.
  - (* BlockEnd *)
    destruct stack as [|p st].
    + eapply IH; [| exact Hr | | | exact Hm]; [lia|constructor|exact I].
    + inversion Hst as [|? ? Hp0 Hst']; subst.
      destruct ((r_start p <? pos) && (pos <? eend e)).
      * inversion Hm; subst m; cbn. unfold sel_ok in Hp0. unfold range_wf. lia.
      * eapply IH; [| exact Hr | | | exact Hm]; [lia| |exact I].
        eapply sel_ok_weaken; [|exact Hst']. exact Hge.
Qed.

Theorem match_events_wf evs n pos m :
  events_ok 0 n evs -> match_events evs pos = Some m ->
  range_wf n (mr_start m) (mr_end m) /\ range_wf n (mr_bstart m) (mr_bend m).
Proof.
  intros He Hm. eapply match_go_wf; [|exact He| | |exact Hm]; [lia|constructor|exact I].
Qed.

(* ------------------------------------------------------------------ balanced_outward *)
Lemma outward_go_wf : forall evs s lo pos stack prop acc,
  0 <= lo -> events_ok lo (Z.of_nat (length s)) evs ->
  Forall (sel_ok lo) stack -> pend_ok lo prop -> Forall (rwf (Z.of_nat (length s))) acc ->
  exists l, outward_go s pos stack prop acc evs = Ok l /\ Forall (rwf (Z.of_nat (length s))) l.
Proof.
  induction evs as [|e r IH]; intros s lo pos stack prop acc Hlo Hev Hst Hp Hacc; cbn [outward_go].
  { eexists. split; [reflexivity|]. apply Forall_rev. exact Hacc. }
  set (n := Z.of_nat (length s)) in *.
  destruct Hev as [He Hr].
  pose proof (ev_next_ge _ _ _ He) as Hge.
  pose proof He as He'. unfold ev_ok in He'. destruct He' as (E1 & E2 & E3 & E4).
  destruct (ety e) eqn:Et.
  - (* Selector *)
    eapply IH; [| exact Hr | | exact I | exact Hacc]; [lia|].
    constructor.
    + unfold sel_ok, r_start, r_delim, ev_next; cbn. rewrite Et. lia.
    + eapply sel_ok_weaken; [|exact Hst]. exact Hge.
  - (* PropertyName *)
    eapply IH; [| exact Hr | | | exact Hacc]; [lia| |].
    + eapply sel_ok_weaken; [|exact Hst]. exact Hge.
    + unfold pend_ok, r_start; cbn. unfold ev_next in *. rewrite Et in *.
      destruct (edelim e =? -1); lia.
  - (* PropertyValue *)
    destruct (decl_end_bounds _ _ _ He (or_introl Et)) as (D1 & D2 & D3).
    eapply IH; [| exact Hr | | exact I | ]; [lia| |].
    + eapply sel_ok_weaken; [|exact Hst]. exact Hge.
    + destruct prop as [p|]; [|exact Hacc].
      destruct ((r_start p <? pos) && (pos <? decl_end (edelim e) (eend e))); [|exact Hacc].
      unfold pend_ok in Hp.
      apply push_wf; [apply push_wf; [exact Hacc|]|]; unfold rwf, range_wf; cbn; lia.
  - (* BlockEnd *)
    assert (Hcont : forall st acc', Forall (sel_ok lo) st -> Forall (rwf n) acc' ->
              exists l, match st, acc' with
                        | [], _ :: _ => Ok (rev acc')
                        | _, _ => outward_go s pos st None acc' r
                        end = Ok l /\ Forall (rwf n) l).
    { intros st acc' Hst' Hacc'.
      assert (Hgo : exists l, outward_go s pos st None acc' r = Ok l /\ Forall (rwf n) l).
      { eapply IH; [| exact Hr | | exact I | exact Hacc']; [lia|].
        eapply sel_ok_weaken; [|exact Hst']. exact Hge. }
      destruct st; [|exact Hgo]. destruct acc'; [exact Hgo|].
      eexists. split; [reflexivity|]. apply Forall_rev. exact Hacc'. }
    destruct stack as [|p st].
    + cbn [bind]. apply (Hcont [] acc); [constructor|exact Hacc].
    + inversion Hst as [|? ? Hp0 Hst']; subst.
      destruct ((r_start p <? pos) && (pos <? eend e)).
      * unfold sel_ok in Hp0.
        destruct (inner_range_ok s (r_delim p + 1) (estart e)) as (o & Ho & Hob); [lia|fold n; lia|].
        rewrite Ho. cbn [bind].
        apply (Hcont st (push (push_opt acc o) (r_start p, eend e))); [exact Hst'|].
        apply push_wf.
        -- apply push_opt_wf; [exact Hacc|]. destruct o as [q|]; [|exact I].
           unfold rwf, range_wf. lia.
        -- unfold rwf, range_wf; cbn. lia.
      * cbn [bind]. apply (Hcont st acc); [exact Hst'|exact Hacc].
Qed.

Theorem outward_events_wf s evs pos :
  events_ok 0 (Z.of_nat (length s)) evs ->
  exists l, outward_events s evs pos = Ok l /\ Forall (rwf (Z.of_nat (length s))) l.
Proof.
  intros He. unfold outward_events. eapply outward_go_wf; [|exact He| | |]; [lia|constructor|exact I|constructor].
Qed.

(* ------------------------------------------------------------------ balanced_inward *)
(* a stored range and its chain of first children *)
Fixpoint ir_ok (n : Z) (r : irange) : Prop :=
  match r with
  | IR a b d c => 0 <= a /\ a <= b /\ b <= n /\ -1 <= d /\
                  match c with None => True | Some c' => ir_ok n c' end
  end.
(* an open selector on the stack: its end is not known yet *)
Definition open_ok (lo n : Z) (r : irange) : Prop :=
  match r with
  | IR a _ d c => 0 <= a /\ a <= d + 1 /\ d + 1 <= lo /\
                  match c with None => True | Some c' => ir_ok n c' end
  end.

Lemma open_ok_weaken lo lo' n st : lo <= lo' -> Forall (open_ok lo n) st -> Forall (open_ok lo' n) st.
Proof.
  intros H. apply Forall_impl. intros [a b d c]. unfold open_ok.
  intros (H1 & H2 & H3 & H4). repeat split; try lia. exact H4.
Qed.

Lemma inward_chain_wf : forall c s acc,
  ir_ok (Z.of_nat (length s)) c -> Forall (rwf (Z.of_nat (length s))) acc ->
  exists l, inward_chain s c acc = Ok l /\ Forall (rwf (Z.of_nat (length s))) l.
Proof.
  fix IH 1. intros c s acc Hc Hacc. destruct c as [a b d c']. cbn [inward_chain].
  cbn [ir_ok] in Hc. destruct Hc as (H1 & H2 & H3 & H4 & H5).
  destruct (inner_range_ok s (d + 1) (b - 1)) as (o & Ho & Hob); [lia|lia|].
  rewrite Ho. cbn [bind].
  assert (Hacc' : Forall (rwf (Z.of_nat (length s))) (push_opt (push acc (a, b)) o)).
  { apply push_opt_wf.
    - apply push_wf; [exact Hacc|]. unfold rwf, range_wf; cbn. lia.
    - destruct o as [q|]; [|exact I]. unfold rwf, range_wf. lia. }
  destruct c' as [c'|].
  - apply IH; assumption.
  - eexists. split; [reflexivity|exact Hacc'].
Qed.

Lemma inward_go_wf : forall evs s lo pos stack pending,
  0 <= lo -> events_ok lo (Z.of_nat (length s)) evs ->
  Forall (open_ok lo (Z.of_nat (length s))) stack -> pend_ok lo pending ->
  exists l, inward_go s pos stack pending evs = Ok l /\ Forall (rwf (Z.of_nat (length s))) l.
Proof.
  induction evs as [|e r IH]; intros s lo pos stack pending Hlo Hev Hst Hp; cbn [inward_go].
  { eexists. split; [reflexivity|constructor]. }
  set (n := Z.of_nat (length s)) in *.
  destruct Hev as [He Hr].
  pose proof (ev_next_ge _ _ _ He) as Hge.
  pose proof He as He'. unfold ev_ok in He'. destruct He' as (E1 & E2 & E3 & E4).
  destruct (ety e) eqn:Et.
  - (* Selector *)
    eapply IH; [| exact Hr | | exact I]; [lia|].
    constructor.
    + unfold open_ok, ev_next. rewrite Et. lia.
    + eapply open_ok_weaken; [|exact Hst]. exact Hge.
  - (* PropertyName *)
    eapply IH; [| exact Hr | | ]; [lia| |].
    + eapply open_ok_weaken; [exact Hge|].
      unfold push_child. destruct stack as [|[pa pb pd [pc|]] st]; try exact Hst.
      inversion Hst as [|? ? Hp0 Hst']; subst. constructor; [|exact Hst'].
      unfold open_ok in *. cbn [ir_ok]. lia.
    + unfold pend_ok, r_start; cbn. unfold ev_next in *. rewrite Et in *.
      destruct (edelim e =? -1); lia.
  - (* PropertyValue *)
    destruct (decl_end_bounds _ _ _ He (or_introl Et)) as (D1 & D2 & D3).
    destruct pending as [p|].
    2:{ eapply IH; [| exact Hr | | exact I]; [lia|]. eapply open_ok_weaken; [|exact Hst]. exact Hge. }
    unfold pend_ok in Hp.
    destruct ((r_start p <=? pos) && (pos <=? eend e)).
    + eexists. split; [reflexivity|]. apply Forall_rev.
      apply push_wf; [apply push_wf; [constructor|]|]; unfold rwf, range_wf; cbn; lia.
    + eapply IH; [| exact Hr | | exact I]; [lia|].
      eapply open_ok_weaken; [exact Hge|].
      destruct stack as [|[pa pb pd [[ca cb cd cc]|]] st]; try exact Hst.
      destruct (ca =? r_start p) eqn:Eca; [|exact Hst].
      inversion Hst as [|? ? Hp0 Hst']; subst. constructor; [|exact Hst'].
      unfold open_ok in *. cbn [ir_ok] in *.
      destruct Hp0 as (Q1 & Q2 & Q3 & Q4 & Q5 & Q6 & Q7 & Q8).
      repeat split; try lia. exact Q8.
  - (* BlockEnd *)
    destruct stack as [|[a b d fc] st].
    + eapply IH; [| exact Hr | | exact I]; [lia|constructor].
    + inversion Hst as [|? ? Hp0 Hst']; subst. unfold open_ok in Hp0.
      destruct Hp0 as (P1 & P2 & P3 & P4).
      destruct ((a <=? pos) && (pos <=? eend e)).
      * destruct (inner_range_ok s (d + 1) (estart e)) as (o & Ho & Hob); [lia|fold n; lia|].
        rewrite Ho. cbn [bind].
        assert (Hacc : Forall (rwf n) (push_opt (push [] (a, eend e)) o)).
        { apply push_opt_wf.
          - apply push_wf; [constructor|]. unfold rwf, range_wf; cbn. lia.
          - destruct o as [q|]; [|exact I]. unfold rwf, range_wf. lia. }
        destruct fc as [c|]; cbn [inward_chain_opt].
        -- destruct (inward_chain_wf c s _ P4 Hacc) as (l & Hl & Hlw).
           fold n in Hl. rewrite Hl. cbn [bind]. eexists. split; [reflexivity|].
           apply Forall_rev. exact Hlw.
        -- cbn [bind]. eexists. split; [reflexivity|]. apply Forall_rev. exact Hacc.
      * assert (Hdef : exists l, inward_go s pos st None r = Ok l /\ Forall (rwf n) l).
        { eapply IH; [| exact Hr | | exact I]; [lia|]. eapply open_ok_weaken; [|exact Hst']. exact Hge. }
        destruct st as [|[pa pb pd [pc|]] st']; try exact Hdef.
        eapply IH; [| exact Hr | | exact I]; [lia|].
        inversion Hst' as [|? ? Hq0 Hst'']; subst.
        eapply open_ok_weaken; [exact Hge|].
        constructor; [|exact Hst''].
        unfold open_ok in *. cbn [ir_ok]. repeat split; try lia. exact P4.
Qed.

Theorem inward_events_wf s evs pos :
  events_ok 0 (Z.of_nat (length s)) evs ->
  exists l, inward_events s evs pos = Ok l /\ Forall (rwf (Z.of_nat (length s))) l.
Proof.
  intros He. unfold inward_events. eapply inward_go_wf; [|exact He| |]; [lia|constructor|exact I].
Qed.

(* ------------------------------------------------------------------ on the scanner's events *)
Theorem css_match_wf s pos m :
  css_match s pos = Some m ->
  range_wf (Z.of_nat (length s)) (mr_start m) (mr_end m) /\
  range_wf (Z.of_nat (length s)) (mr_bstart m) (mr_bend m).
Proof. apply match_events_wf. apply scan_events_ok. Qed.

Theorem balanced_outward_wf s pos :
  exists l, balanced_outward s pos = Ok l /\ Forall (rwf (Z.of_nat (length s))) l.
Proof. apply outward_events_wf. apply scan_events_ok. Qed.

Theorem balanced_inward_wf s pos :
  exists l, balanced_inward s pos = Ok l /\ Forall (rwf (Z.of_nat (length s))) l.
Proof. apply inward_events_wf. apply scan_events_ok. Qed.
