(* C06 user value snippets, source level, part 3: the parser (value mode) on the tokens of a written value.
   THEOREM value_parse: for every token list whose kinds are [kinds_list v] (whatever its positions) the parser
   returns ONE property without name holding ONE value [pv] whose tokens are those of v: [map unpos pv = map cv_tok v]
   ([unpos] forgets token positions).  Nested calls to any depth; the fuel of the model is shown sufficient through
   monotonicity (a result other than OutOfFuel does not change with more fuel) and StyleSafeProofs.p_value_fuel. *)
From Coq Require Import ZArith List Bool Lia ZifyBool String.
From Emmet Require Import lib.Base lib.StyleLib gen.GenChars model.CssTokenizer model.CssParser
     proofs.CssTokenizerProofs proofs.StyleTokProofs proofs.StyleSafeProofs
     proofs.CssValuePrint proofs.CssValueLex proofs.CssValueSource.
Import ListNotations.
Local Open Scope nat_scope.

(* ================================================================== SPEC: the parsed value, positions forgotten *)
Fixpoint unpos (v : cval) : cval :=
  match v with
  | VTok k _ _ => VTok k None None
  | VFunc name args => VFunc name (map (map unpos) args)
  end.
Fixpoint cv_tok (t : stok) : cval :=
  match t with
  | SCall name args => VFunc name (map (map cv_tok) args)
  | _ => VTok (head_kind t) None None
  end.

(* ================================================================== fuel: monotone *)
Lemma fuel_mono : forall f,
  (forall in_arg ts acc, p_value f in_arg ts acc <> OutOfFuel -> p_value (S f) in_arg ts acc = p_value f in_arg ts acc) /\
  (forall ts acc, p_args f ts acc <> OutOfFuel -> p_args (S f) ts acc = p_args f ts acc).
Proof.
  induction f as [|f [IHv IHa]]; [split; intros; cbn in *; congruence|].
  split.
  - intros in_arg ts acc H. remember (S f) as f1 eqn:Ef1.
    rewrite Ef1 in H |- * at 2. cbn [p_value] in H |- *. 
    change (p_value (S f1) in_arg ts acc) with
      (match ts with
       | [] => Ok (rev acc, [])
       | t :: ts' =>
           if k_is_value (ck t) then
             match ck t, ts' with
             | CLiteral name, b :: ts'' =>
                 if k_is_open_bracket (ck b) then
                   let* (args, rest) := p_args f1 ts'' [] in
                   p_value f1 in_arg rest (VFunc name args :: acc)
                 else p_value f1 in_arg ts' (tokv t :: acc)
             | _, _ => p_value f1 in_arg ts' (tokv t :: acc)
             end
           else if k_is_value_delimiter (ck t) || (in_arg && k_is_white_space (ck t))
           then p_value f1 in_arg ts' acc
           else Ok (rev acc, ts)
       end).
    subst f1.
    destruct ts as [|t ts']; [reflexivity|].
    destruct (k_is_value (ck t)).
    + destruct (ck t) eqn:Ek; try (apply IHv; exact H).
      destruct ts' as [|b ts'']; [apply IHv; exact H|].
      destruct (k_is_open_bracket (ck b)); [|apply IHv; exact H].
      destruct (p_args f ts'' []) as [[args rest]| | |] eqn:Ea; cbn [bind] in H |- *.
      * rewrite (IHa ts'' []) by (rewrite Ea; discriminate). rewrite Ea. cbn [bind]. apply IHv. exact H.
      * rewrite (IHa ts'' []) by (rewrite Ea; discriminate). rewrite Ea. reflexivity.
      * rewrite (IHa ts'' []) by (rewrite Ea; discriminate). rewrite Ea. reflexivity.
      * contradiction.
    + destruct (k_is_value_delimiter (ck t) || (in_arg && k_is_white_space (ck t))); [apply IHv; exact H|reflexivity].
  - intros ts acc H. remember (S f) as f1 eqn:Ef1.
    rewrite Ef1 in H |- * at 2. cbn [p_args] in H |- *.
    change (p_args (S f1) ts acc) with
      (match ts with
       | [] => Ok (rev acc, [])
       | t :: ts' =>
           if k_is_close_bracket (ck t) then Ok (rev acc, ts')
           else
             let* (v, rest) := p_value f1 true ts [] in
             match v with
             | _ :: _ => p_args f1 rest (v :: acc)
             | [] =>
                 match rest with
                 | t2 :: rest' =>
                     if k_is_white_space (ck t2) || k_is_argument_delimiter (ck t2)
                     then p_args f1 rest' acc
                     else tok_error rest
                 | [] => tok_error rest
                 end
             end
       end).
    subst f1.
    destruct ts as [|t ts']; [reflexivity|].
    destruct (k_is_close_bracket (ck t)); [reflexivity|].
    destruct (p_value f true (t :: ts') []) as [[v rest]| | |] eqn:Ev; cbn [bind] in H |- *;
      try (rewrite (IHv true (t :: ts') []) by (rewrite Ev; discriminate); rewrite Ev; reflexivity); [|contradiction].
    rewrite (IHv true (t :: ts') []) by (rewrite Ev; discriminate). rewrite Ev. cbn [bind].
    destruct v; [|apply IHa; exact H].
    destruct rest as [|t2 rest']; [reflexivity|].
    destruct (k_is_white_space (ck t2) || k_is_argument_delimiter (ck t2)); [apply IHa; exact H|reflexivity].
Qed.

Lemma value_more k : forall f in_arg ts acc,
  p_value f in_arg ts acc <> OutOfFuel -> p_value (k + f) in_arg ts acc = p_value f in_arg ts acc.
Proof.
  induction k as [|k IH]; intros f in_arg ts acc H; [reflexivity|]. cbn [Nat.add].
  rewrite (proj1 (fuel_mono (k + f))); rewrite IH by exact H; [reflexivity|exact H].
Qed.
Lemma args_more k : forall f ts acc,
  p_args f ts acc <> OutOfFuel -> p_args (k + f) ts acc = p_args f ts acc.
Proof.
  induction k as [|k IH]; intros f ts acc H; [reflexivity|]. cbn [Nat.add].
  rewrite (proj2 (fuel_mono (k + f))); rewrite IH by exact H; [reflexivity|exact H].
Qed.
Lemma value_le f f' in_arg ts acc r : f <= f' -> p_value f in_arg ts acc = Ok r -> p_value f' in_arg ts acc = Ok r.
Proof.
  intros Hle H. replace f' with ((f' - f) + f) by lia. rewrite value_more; [exact H|rewrite H; discriminate].
Qed.
Lemma args_le f f' ts acc r : f <= f' -> p_args f ts acc = Ok r -> p_args f' ts acc = Ok r.
Proof.
  intros Hle H. replace f' with ((f' - f) + f) by lia. rewrite args_more; [exact H|rewrite H; discriminate].
Qed.
Lemma value_det f1 f2 in_arg ts acc r :
  p_value f1 in_arg ts acc = Ok r -> p_value f2 in_arg ts acc <> OutOfFuel -> p_value f2 in_arg ts acc = Ok r.
Proof.
  intros H1 H2. rewrite <- (value_more f1 f2 in_arg ts acc H2). apply (value_le f1); [lia|exact H1].
Qed.


Lemma p_args_S f ts acc :
  p_args (S f) ts acc =
  match ts with
  | [] => Ok (rev acc, [])
  | t :: ts' =>
      if k_is_close_bracket (ck t) then Ok (rev acc, ts')
      else
        let* (v, rest) := p_value f true ts [] in
        match v with
        | _ :: _ => p_args f rest (v :: acc)
        | [] =>
            match rest with
            | t2 :: rest' =>
                if k_is_white_space (ck t2) || k_is_argument_delimiter (ck t2)
                then p_args f rest' acc
                else tok_error rest
            | [] => tok_error rest
            end
        end
  end.
Proof. reflexivity. Qed.

(* ================================================================== the parser on the tokens of a written value *)
(* after a keyword there is no opening parenthesis: the keyword is not read as the name of a call *)
Definition rest_ok (rest : list ctoken) : Prop :=
  match rest with b :: _ => k_is_open_bracket (ck b) = false | [] => True end.

Definition leaf_value_kind (k : ckind) : Prop :=
  match k with CLiteral _ | CNumber _ _ _ | CColor _ _ _ _ _ | CString _ _ => True | _ => False end.

(* one leaf token *)
Lemma parse_leaf f in_arg (t : ctoken) rest acc :
  leaf_value_kind (ck t) -> rest_ok rest ->
  p_value (S f) in_arg (t :: rest) acc = p_value f in_arg rest (tokv t :: acc).
Proof.
  intros Hk Hr. cbn [p_value]. destruct (ck t) eqn:Ek; try contradiction; cbn [k_is_value]; try reflexivity.
  destruct rest as [|b r]; [reflexivity|]. cbn [rest_ok] in Hr. rewrite Hr. reflexivity.
Qed.
(* a blank inside a value in value mode / inside arguments *)
Lemma parse_blank f (t : ctoken) rest acc :
  ck t = CWhiteSpace -> p_value (S f) true (t :: rest) acc = p_value f true rest acc.
Proof. intros Hk. cbn [p_value]. rewrite Hk. reflexivity. Qed.

Lemma head_kind_leaf t : stok_ok t -> match t with SCall _ _ => False | _ => True end -> leaf_value_kind (head_kind t).
Proof.
  destruct t as [w|n|c|q b|name args]; intros Hok Hl; try exact I; try contradiction.
  cbn [head_kind]. destruct (col_kind_facts c Hok) as [r [g [b [a E]]]]. rewrite E. exact I.
Qed.

(* the tokens of [t], followed by [rest]: whatever the parser then returns with [x] pushed, it returns from here *)
Definition parses (t : stok) : Prop :=
  stok_ok t -> forall toks, map ck toks = kinds_tok t ->
  exists x, unpos x = cv_tok t /\
    forall in_arg rest acc R f, rest_ok rest ->
      p_value f in_arg rest (x :: acc) = Ok R -> exists f', p_value f' in_arg (toks ++ rest) acc = Ok R.

Lemma parses_leaf t : match t with SCall _ _ => False | _ => True end -> parses t.
Proof.
  intros Hl Hok toks Hk.
  assert (Hk1 : map ck toks = [head_kind t]) by (destruct t; try exact Hk; contradiction).
  destruct toks as [|t0 [|t1 r]]; try discriminate. injection Hk1 as Hk0.
  exists (tokv t0). split.
  - unfold tokv. cbn [unpos]. rewrite Hk0. destruct t; try reflexivity; contradiction.
  - intros in_arg rest acc R f Hr H. exists (S f). cbn [app]. rewrite parse_leaf; [exact H| |exact Hr].
    rewrite Hk0. apply head_kind_leaf; assumption.
Qed.

Lemma tail_kinds_head xs (txs : list ctoken) rest : map ck txs = tail_kinds xs -> rest_ok rest -> rest_ok (txs ++ rest).
Proof.
  destruct xs as [|x xs]; cbn [tail_kinds map concat]; intros H Hr.
  - destruct txs; [exact Hr|discriminate].
  - destruct txs as [|t r]; [discriminate|]. cbn [map app] in *. injection H as H0 _. cbn [rest_ok]. rewrite H0. reflexivity.
Qed.

(* further tokens of a list: blank, token, blank, token ... (in_arg = true: value mode and arguments) *)
Lemma parse_tail l : Forall parses l -> toks_ok l -> forall toks, map ck toks = tail_kinds l ->
  exists xs, map unpos xs = map cv_tok l /\
    forall rest acc R f, rest_ok rest ->
      p_value f true rest (rev xs ++ acc) = Ok R -> exists f', p_value f' true (toks ++ rest) acc = Ok R.
Proof.
  induction 1 as [|x l Hx _ IH]; intros Hok toks Hk.
  - destruct toks; [|discriminate]. exists []. split; [reflexivity|]. intros rest acc R f _ H. exists f. exact H.
  - destruct Hok as [Hokx Hokl]. rewrite tail_kinds_cons in Hk.
    destruct toks as [|tw toks']; [discriminate|]. cbn [map] in Hk. injection Hk as Hw Hk.
    apply map_eq_app in Hk. destruct Hk as [tx [tl [-> [Kx Kl]]]].
    destruct (Hx Hokx tx Kx) as [x' [Ux Px]]. destruct (IH Hokl tl Kl) as [xs' [Uxs Pxs]].
    exists (x' :: xs'). split; [cbn [map]; rewrite Ux, Uxs; reflexivity|].
    intros rest acc R f Hr H. cbn [rev] in H. rewrite <- app_assoc in H. cbn [app] in H.
    destruct (Pxs rest (x' :: acc) R f Hr H) as [f1 H1].
    destruct (Px true (tl ++ rest) acc R f1 (tail_kinds_head l tl rest Kl Hr) H1) as [f2 H2].
    exists (S f2). cbn [app]. rewrite <- app_assoc. rewrite parse_blank; [exact H2|exact Hw].
Qed.

Lemma parse_list l : Forall parses l -> toks_ok l -> l <> [] -> forall toks, map ck toks = kinds_list l ->
  exists xs, map unpos xs = map cv_tok l /\ xs <> [] /\
    forall rest acc R f, rest_ok rest ->
      p_value f true rest (rev xs ++ acc) = Ok R -> exists f', p_value f' true (toks ++ rest) acc = Ok R.
Proof.
  intros HF Hok Hne toks Hk. destruct HF as [|x l Hx HF]; [contradiction|]. destruct Hok as [Hokx Hokl].
  rewrite kinds_list_cons in Hk. apply map_eq_app in Hk. destruct Hk as [tx [tl [-> [Kx Kl]]]].
  destruct (Hx Hokx tx Kx) as [x' [Ux Px]]. destruct (parse_tail l HF Hokl tl Kl) as [xs' [Uxs Pxs]].
  exists (x' :: xs'). split; [cbn [map]; rewrite Ux, Uxs; reflexivity|]. split; [discriminate|].
  intros rest acc R f Hr H. cbn [rev] in H. rewrite <- app_assoc in H. cbn [app] in H.
  destruct (Pxs rest (x' :: acc) R f Hr H) as [f1 H1].
  destruct (Px true (tl ++ rest) acc R f1 (tail_kinds_head l tl rest Kl Hr) H1) as [f2 H2].
  exists f2. rewrite <- app_assoc. exact H2.
Qed.

(* what ends an argument: a comma or the closing parenthesis *)
Definition stops (t : ctoken) : Prop := ck t = COperator c_comma \/ ck t = CBracket false.
Lemma parse_stop f (t : ctoken) rest acc : stops t -> p_value (S f) true (t :: rest) acc = Ok (rev acc, t :: rest).
Proof. intros [H|H]; cbn [p_value]; rewrite H; reflexivity. Qed.
Lemma stops_rest_ok t rest : stops t -> rest_ok (t :: rest).
Proof. intros [H|H]; cbn [rest_ok]; rewrite H; reflexivity. Qed.

(* one argument (possibly after a blank), up to the token that ends it *)
Lemma parse_arg a : Forall parses a -> toks_ok a -> a <> [] -> forall ta, map ck ta = kinds_list a ->
  exists xa, map unpos xa = map cv_tok a /\ xa <> [] /\
    forall ts rest, stops ts ->
      (exists f, p_value f true (ta ++ ts :: rest) [] = Ok (xa, ts :: rest)) /\
      (forall tw, ck tw = CWhiteSpace -> exists f, p_value f true (tw :: ta ++ ts :: rest) [] = Ok (xa, ts :: rest)).
Proof.
  intros HF Hok Hne ta Hk. destruct (parse_list a HF Hok Hne ta Hk) as [xa [Ua [Hxa Pa]]].
  exists xa. split; [exact Ua|]. split; [exact Hxa|]. intros ts rest Hs.
  assert (H0 : p_value 1 true (ts :: rest) (rev xa ++ []) = Ok (xa, ts :: rest)).
  { rewrite parse_stop by exact Hs. rewrite app_nil_r, rev_involutive. reflexivity. }
  destruct (Pa (ts :: rest) [] _ 1 (stops_rest_ok ts rest Hs) H0) as [f Hf].
  split; [exists f; exact Hf|]. intros tw Hw. exists (S f). rewrite parse_blank; [exact Hf|exact Hw].
Qed.

Lemma kinds_list_head a (ta : list ctoken) rest : toks_ok a -> a <> [] -> map ck ta = kinds_list a ->
  exists t r, ta ++ rest = t :: r /\ k_is_close_bracket (ck t) = false.
Proof.
  intros Hok Hne Hk. destruct a as [|x xs]; [contradiction|]. rewrite kinds_list_cons in Hk.
  destruct ta as [|t r].
  - destruct x; discriminate.
  - exists t, (r ++ rest). split; [reflexivity|]. cbn [map] in Hk.
    destruct x as [w|n|c|q b|name args]; cbn [kinds_tok app] in Hk; injection Hk as H0 _; rewrite H0; try reflexivity.
    cbn [head_kind]. destruct Hok as [Hc _]. destruct (col_kind_facts c Hc) as [r0 [g [b [al E]]]]. rewrite E. reflexivity.
Qed.

(* the arguments after the first, then the closing parenthesis *)
Lemma parse_more_args r : Forall (Forall parses) r -> args_ok r -> forall toks, map ck toks = args_kinds r ->
  exists pargs, map (map unpos) pargs = map (map cv_tok) r /\
    forall tc rest accA, ck tc = CBracket false ->
      exists f, p_args f (toks ++ tc :: rest) accA = Ok (rev accA ++ pargs, rest).
Proof.
  induction 1 as [|a r Ha _ IH]; intros Hok toks Hk.
  - destruct toks; [|discriminate]. exists []. split; [reflexivity|]. intros tc rest accA Hc. exists 1.
    cbn [app p_args]. rewrite Hc. cbn [k_is_close_bracket]. rewrite app_nil_r. reflexivity.
  - destruct Hok as [Hne [Hoka Hokr]]. rewrite args_kinds_cons in Hk.
    destruct toks as [|tcm [|tw toks']]; try discriminate. cbn [map] in Hk. injection Hk as Hcm Hw Hk.
    apply map_eq_app in Hk. destruct Hk as [ta [tr [-> [Ka Kr]]]].
    destruct (parse_arg a Ha Hoka Hne ta Ka) as [xa [Ua [Hxa Pa]]]. destruct (IH Hokr tr Kr) as [pr [Ur Pr]].
    exists (xa :: pr). split; [cbn [map]; rewrite Ua, Ur; reflexivity|].
    intros tc rest accA Hc.
    destruct (Pr tc rest (xa :: accA) Hc) as [f1 H1].
    (* the token that ends this argument *)
    assert (Hs : exists ts rs, tr ++ tc :: rest = ts :: rs /\ stops ts).
    { destruct r as [|a2 r2].
      - destruct tr; [|discriminate]. exists tc, rest. split; [reflexivity|right; exact Hc].
      - rewrite args_kinds_cons in Kr. destruct tr as [|t0 tr0]; [discriminate|]. cbn [map] in Kr. injection Kr as K0 _.
        exists t0, (tr0 ++ tc :: rest). split; [reflexivity|left; exact K0]. }
    destruct Hs as [ts [rs [Es Hs]]].
    destruct (proj2 (Pa ts rs Hs) tw Hw) as [f2 H2].
    set (F := S (f1 + f2)).
    exists (S (S F)). cbn [app]. rewrite <- app_assoc.
    (* round 1: the comma *)
    rewrite p_args_S. rewrite Hcm. cbn [k_is_close_bracket].
    rewrite (parse_stop F tcm _ [] (or_introl Hcm)). cbn [bind rev].
    rewrite Hcm. cbn [k_is_white_space k_is_argument_delimiter k_is_operator]. rewrite N.eqb_refl. cbn [orb].
    (* round 2: blank + the argument *)
    rewrite p_args_S. rewrite Hw. cbn [k_is_close_bracket]. rewrite Es.
    rewrite (value_le f2 F true _ [] _ ltac:(unfold F; lia) H2). cbn [bind].
    destruct xa as [|x0 xr]; [contradiction|]. rewrite <- Es.
    etransitivity; [apply (args_le f1 F); [unfold F; lia|exact H1]|]. cbn [rev]. rewrite <- app_assoc. reflexivity.
Qed.

Lemma p_value_S f in_arg ts acc :
  p_value (S f) in_arg ts acc =
  match ts with
  | [] => Ok (rev acc, [])
  | t :: ts' =>
      if k_is_value (ck t) then
        match ck t, ts' with
        | CLiteral name, b :: ts'' =>
            if k_is_open_bracket (ck b) then
              let* (args, rest) := p_args f ts'' [] in
              p_value f in_arg rest (VFunc name args :: acc)
            else p_value f in_arg ts' (tokv t :: acc)
        | _, _ => p_value f in_arg ts' (tokv t :: acc)
        end
      else if k_is_value_delimiter (ck t) || (in_arg && k_is_white_space (ck t))
      then p_value f in_arg ts' acc
      else Ok (rev acc, ts)
  end.
Proof. reflexivity. Qed.

(* all the arguments of a call and its closing parenthesis *)
Lemma parse_all_args args : Forall (Forall parses) args -> args_ok args -> forall tmid,
  map ck tmid = match args with [] => [] | a :: r => kinds_list a ++ args_kinds r end ->
  exists pargs, map (map unpos) pargs = map (map cv_tok) args /\
    forall tc rest, ck tc = CBracket false -> exists f, p_args f (tmid ++ tc :: rest) [] = Ok (pargs, rest).
Proof.
  intros HF Hok tmid Hk. destruct HF as [|a r Ha Hr].
  - destruct tmid; [|discriminate]. exists []. split; [reflexivity|]. intros tc rest Hc. exists 1.
    cbn [app]. rewrite p_args_S, Hc. reflexivity.
  - destruct Hok as [Hne [Hoka Hokr]]. apply map_eq_app in Hk. destruct Hk as [ta [tr [-> [Ka Kr]]]].
    destruct (parse_arg a Ha Hoka Hne ta Ka) as [xa [Ua [Hxa Pa]]].
    destruct (parse_more_args r Hr Hokr tr Kr) as [pr [Ur Pr]].
    exists (xa :: pr). split; [cbn [map]; rewrite Ua, Ur; reflexivity|].
    intros tc rest Hc. destruct (Pr tc rest [xa] Hc) as [f1 H1].
    assert (Hs : exists ts rs, tr ++ tc :: rest = ts :: rs /\ stops ts).
    { destruct r as [|a2 r2].
      - destruct tr; [|discriminate]. exists tc, rest. split; [reflexivity|right; exact Hc].
      - rewrite args_kinds_cons in Kr. destruct tr as [|t0 tr0]; [discriminate|]. cbn [map] in Kr. injection Kr as K0 _.
        exists t0, (tr0 ++ tc :: rest). split; [reflexivity|left; exact K0]. }
    destruct Hs as [ts [rs [Es Hs]]].
    destruct (proj1 (Pa ts rs Hs)) as [f2 H2].
    destruct (kinds_list_head a ta (tr ++ tc :: rest) Hoka Hne Ka) as [t0 [r0 [E0 Hc0]]].
    set (F := S (f1 + f2)). exists (S F). rewrite <- app_assoc, p_args_S.
    rewrite E0, Hc0, <- E0, Es.
    rewrite (value_le f2 F true _ [] _ ltac:(unfold F; lia) H2). cbn [bind].
    destruct xa as [|x0 xr]; [contradiction|]. rewrite <- Es.
    etransitivity; [apply (args_le f1 F); [unfold F; lia|exact H1]|]. reflexivity.
Qed.

Lemma parses_all t : parses t.
Proof.
  induction t as [w|n|c|q b|name args IH] using stok_ind2; try (apply parses_leaf; exact I).
  intros Hok toks Hk. rewrite stok_ok_call in Hok. destruct Hok as [Hn Hargs]. rewrite kinds_call in Hk.
  destruct toks as [|tn [|tb toks']]; try discriminate. cbn [map] in Hk. injection Hk as Kn Kb Hk.
  apply map_eq_app in Hk. destruct Hk as [tmid [tcl [-> [Km Kc]]]].
  destruct tcl as [|tc [|? ?]]; try discriminate. injection Kc as Kc.
  destruct (parse_all_args args IH Hargs tmid Km) as [pargs [Ua Pa]].
  exists (VFunc name pargs). split; [cbn [unpos cv_tok]; rewrite Ua; reflexivity|].
  intros in_arg rest acc R f Hr H.
  destruct (Pa tc rest Kc) as [f1 H1].
  set (F := f + f1). exists (S F). cbn [app]. rewrite <- app_assoc. cbn [app].
  rewrite p_value_S, Kn. cbn [k_is_value]. rewrite Kb. cbn [k_is_open_bracket].
  rewrite (args_le f1 F _ [] _ ltac:(unfold F; lia) H1). cbn [bind].
  apply (value_le f F); [unfold F; lia|exact H].
Qed.

(* ================================================================== THEOREM: the parser on a written value *)
Theorem value_parse v toks : toks_ok v -> v <> [] -> map ck toks = kinds_list v ->
  exists pv, parser true toks = Ok [mkProp None [pv] false false] /\ map unpos pv = map cv_tok v.
Proof.
  intros Hok Hne Hk.
  destruct (parse_list v (Forall_every _ parses_all v) Hok Hne toks Hk) as [pv [Upv [Hpv Ppv]]].
  exists pv. split; [|exact Upv].
  (* the value: every token of the list, up to the end *)
  assert (H0 : p_value 1 true [] (rev pv ++ []) = Ok (pv, [])).
  { cbn [p_value]. rewrite app_nil_r, rev_involutive. reflexivity. }
  destruct (Ppv [] [] _ 1 I H0) as [f Hf]. rewrite app_nil_r in Hf.
  assert (HV : p_value (S (S (2 * length toks))) true toks [] = Ok (pv, [])).
  { apply (value_det f); [exact Hf|]. pose proof (p_value_fuel true toks) as HF.
    intros E. rewrite E in HF. exact HF. }
  (* the first token is neither a blank nor `!` *)
  destruct (kinds_list_head v toks [] Hok Hne Hk) as [t0 [r0 [E0 _]]]. rewrite app_nil_r in E0. subst toks.
  assert (Hk0 : leaf_value_kind (ck t0)).
  { destruct v as [|x xs]; [contradiction|]. rewrite kinds_list_cons in Hk. cbn [map] in Hk.
    destruct Hok as [Hokx _].
    destruct x as [w|n|c|q b|name args]; cbn [kinds_tok app] in Hk; injection Hk as H0' _; rewrite H0'; try exact I.
    cbn [head_kind]. destruct (col_kind_facts c Hokx) as [r1 [g [b [al E]]]]. rewrite E. exact I. }
  unfold parser. cbn [length]. 
  assert (Hprop : p_property true (t0 :: r0) = Ok (Some (mkProp None [pv] false false), [])).
  { unfold p_property.
    assert (Hname : (match ck t0 with
                     | CLiteral v0 => if negb true && negb (is_function_start (t0 :: r0))
                                      then (Some v0, match r0 with
                                                     | d :: ts'' => if k_is_value_delimiter (ck d) then ts'' else r0
                                                     | [] => r0
                                                     end)
                                      else (None, t0 :: r0)
                     | _ => (None, t0 :: r0)
                     end) = (@None str, t0 :: r0)).
    { destruct (ck t0); reflexivity. }
    rewrite Hname.
    assert (Hws : k_is_white_space (ck t0) = false) by (destruct (ck t0); try contradiction; reflexivity).
    rewrite Hws.
    cbn [length Nat.mul]. cbn [p_prop_loop].
    assert (Himp : k_is_important (ck t0) = false) by (destruct (ck t0); try contradiction; reflexivity).
    rewrite Himp. rewrite HV. cbn [bind].
    destruct pv as [|x0 xr]; [contradiction|].
    replace (length r0 + S (length r0 + 0)) with (S (2 * length r0)) by lia. cbn [p_prop_loop rev app bind]. reflexivity. }
  cbn [p_loop]. rewrite Hprop. cbn [bind]. destruct (length r0); reflexivity.
Qed.
