(* C15 groundwork: what each output-stream operation and each token push appends to the
   value of the stream, and that the level is left as it was.  Used by IndentProofs.v. *)
From Coq Require Import List NArith ZArith Bool Lia.
From Emmet Require Import lib.Base model.MarkupTokenizer model.MarkupParser model.MarkupConvert
     model.OutStream model.FormatHtml model.FormatIndent.
Import ListNotations.

(* ---------------------------------------------------------------- strings without line breaks *)
(* the formatter splits lines at CR, LF and CRLF only (output_stream.re_line_break); every other character,
   including \f, \v, U+0085, U+2028, is an ordinary character of a line *)
Definition is_crlf (ch : char) : bool := ((ch =? c_cr) || (ch =? c_nl))%N.
Definition nocrlf (s : str) : bool := forallb (fun ch => negb (is_crlf ch)) s.
Definition nows (s : str) : bool := forallb (fun ch => negb (is_py_space ch)) s.

Lemma nocrlf_app a b : nocrlf (a ++ b) = nocrlf a && nocrlf b.
Proof. unfold nocrlf. apply forallb_app. Qed.

Lemma linebreak_is_space ch : is_crlf ch = true -> is_py_space ch = true.
Proof.
  unfold is_crlf. intros H. apply orb_true_iff in H. destruct H as [H|H]; apply N.eqb_eq in H; subst ch;
    vm_compute; reflexivity.
Qed.

Lemma nows_nocrlf s : nows s = true -> nocrlf s = true.
Proof.
  unfold nows, nocrlf. rewrite !forallb_forall. intros H x Hx. specialize (H x Hx).
  destruct (is_crlf x) eqn:E; [|reflexivity].
  apply linebreak_is_space in E. rewrite E in H. discriminate.
Qed.

Lemma split_crlf_aux_nocrlf : forall s cur, nocrlf s = true ->
  split_crlf_aux s cur = match rev cur ++ s with [] => [] | x => [x] end.
Proof.
  induction s as [|ch s IH]; intros cur H.
  - cbn [split_crlf_aux]. rewrite app_nil_r. destruct cur as [|c0 cur]; [reflexivity|].
    destruct (rev (c0 :: cur)) eqn:E; [|reflexivity].
    cbn [rev] in E. destruct (rev cur); discriminate.
  - cbn [nocrlf forallb] in H. fold (nocrlf s) in H. apply andb_true_iff in H. destruct H as [Hc Hs].
    apply negb_true_iff in Hc. cbn [split_crlf_aux]. fold (is_crlf ch). rewrite Hc. rewrite (IH (ch :: cur) Hs).
    cbn [rev]. rewrite <- app_assoc. reflexivity.
Qed.

Lemma split_crlf_nocrlf s : nocrlf s = true -> split_crlf s = match s with [] => [] | _ => [s] end.
Proof. intros H. unfold split_crlf. rewrite (split_crlf_aux_nocrlf s [] H). destruct s; reflexivity. Qed.

(* ---------------------------------------------------------------- value / level of a stream *)
Lemma value_push_gen b o s : os_value (os_push_gen b o s) = os_value o ++ s.
Proof.
  unfold os_value, os_push_gen. cbn [os_events rev]. rewrite map_app, concat_app.
  cbn [map concat ev_text]. rewrite app_nil_r. reflexivity.
Qed.
Lemma value_push o s : os_value (os_push o s) = os_value o ++ s.
Proof. apply value_push_gen. Qed.
Lemma value_push_field o i ph : os_value (os_push_field o i ph) = os_value o ++ ph.
Proof.
  unfold os_value, os_push_field. cbn [os_events rev]. rewrite map_app, concat_app.
  cbn [map concat ev_text]. rewrite app_nil_r. reflexivity.
Qed.
Lemma value_set_level o l : os_value (os_set_level o l) = os_value o.
Proof. reflexivity. Qed.
Lemma value_add_level o d : os_value (os_add_level o d) = os_value o.
Proof. reflexivity. Qed.
Lemma level_add_level o d : os_level (os_add_level o d) = (os_level o + d)%Z.
Proof. reflexivity. Qed.
Lemma level_push o s : os_level (os_push o s) = os_level o.
Proof. reflexivity. Qed.
Lemma level_push_field o i ph : os_level (os_push_field o i ph) = os_level o.
Proof. reflexivity. Qed.

(* the newline string: output.newline followed by output.baseIndent *)
Definition nlb (f : ofmt) : str := of_newline f ++ of_base_indent f.
Definition ind (f : ofmt) (d : nat) : str := repeat_str (of_indent f) d.

Lemma value_push_newline f o :
  os_value (os_push_newline f o (Some None)) = os_value o ++ nlb f ++ ind f (Z.to_nat (Z.max (os_level o) 0)).
Proof.
  unfold os_push_newline, os_push_indent. rewrite value_push.
  unfold os_value at 1. cbn [os_events os_level os_push_gen rev]. rewrite map_app, concat_app.
  cbn [map concat ev_text]. rewrite app_nil_r. fold (os_value o). rewrite <- app_assoc. reflexivity.
Qed.
Lemma level_push_newline f o i : os_level (os_push_newline f o i) = os_level o.
Proof. unfold os_push_newline, os_push_indent. destruct i as [[n|]|]; reflexivity. Qed.

Lemma push_string_nocrlf f o s : nocrlf s = true ->
  os_value (os_push_string f o s) = os_value o ++ s /\ os_level (os_push_string f o s) = os_level o.
Proof.
  intros H. unfold os_push_string. rewrite (split_crlf_nocrlf s H). destruct s as [|ch s].
  - rewrite app_nil_r. split; reflexivity.
  - cbn [fold_left]. rewrite value_push. split; reflexivity.
Qed.

(* ---------------------------------------------------------------- formatter states *)
Definition val (st : fstate) : str := os_value (fs_out st).
Definition lvl (st : fstate) : Z := os_level (fs_out st).

(* [st'] is [st] with [s] appended and the same level *)
Definition appends (st st' : fstate) (s : str) : Prop := val st' = val st ++ s /\ lvl st' = lvl st.

Lemma appends_refl st : appends st st [].
Proof. unfold appends. rewrite app_nil_r. split; reflexivity. Qed.
Lemma appends_trans st st1 st2 a b : appends st st1 a -> appends st1 st2 b -> appends st st2 (a ++ b).
Proof.
  unfold appends. intros [H1 L1] [H2 L2]. rewrite H2, H1, L2, L1, app_assoc. split; reflexivity.
Qed.
Lemma appends_eq st st' a b : a = b -> appends st st' a -> appends st st' b.
Proof. intros ->. exact (fun H => H). Qed.

Lemma appends_push_str c s st : nocrlf s = true -> appends st (push_str c s st) s.
Proof. intros H. unfold appends, val, lvl, push_str. cbn [fs_out]. apply push_string_nocrlf, H. Qed.
Lemma appends_push_raw s st : appends st (push_raw s st) s.
Proof. unfold appends, val, lvl, push_raw. cbn [fs_out]. rewrite value_push. split; reflexivity. Qed.

(* text of a token list: strings verbatim, a field by its placeholder *)
Definition tok_text (t : vtok) : str := match t with VStr s => s | VField _ nm => nm end.
Definition val_text (v : list vtok) : str := concat (map tok_text v).
Definition tok_nocrlf (t : vtok) : bool := match t with VStr s => nocrlf s | VField _ _ => true end.
Definition toks_nocrlf (v : list vtok) : bool := forallb tok_nocrlf v.

Lemma appends_push_tokens c toks st : toks_nocrlf toks = true -> appends st (push_tokens c toks st) (val_text toks).
Proof.
  intros H. unfold push_tokens.
  assert (G : forall toks o lg, toks_nocrlf toks = true ->
            let r := fold_left (fun '(o, lg) t =>
                 match t with
                 | VStr s => (os_push_string (oc_fmt c) o s, lg)
                 | VField i nm => (os_push_field o (fs_field st + i)%N nm,
                                   match lg with Some l => Some (N.max l i) | None => Some i end)
                 end) toks (o, lg) in
            os_value (fst r) = os_value o ++ val_text toks /\ os_level (fst r) = os_level o).
  { clear toks H. induction toks as [|t ts IH]; intros o lg H; cbn zeta.
    - cbn [fold_left fst val_text map concat]. rewrite app_nil_r. split; reflexivity.
    - cbn [toks_nocrlf forallb] in H. fold (toks_nocrlf ts) in H. apply andb_true_iff in H. destruct H as [Ht Hts].
      cbn [fold_left]. destruct t as [s|i nm].
      + cbn [tok_nocrlf] in Ht. destruct (push_string_nocrlf (oc_fmt c) o s Ht) as [V L].
        destruct (IH (os_push_string (oc_fmt c) o s) lg Hts) as [V2 L2]. cbn zeta in V2, L2.
        rewrite V2, L2, V, L. unfold val_text. cbn [map concat tok_text]. rewrite app_assoc. split; reflexivity.
      + destruct (IH (os_push_field o (fs_field st + i)%N nm)
                     (match lg with Some l => Some (N.max l i) | None => Some i end) Hts) as [V2 L2].
        cbn zeta in V2, L2. rewrite V2, L2, value_push_field, level_push_field.
        unfold val_text. cbn [map concat tok_text]. rewrite app_assoc. split; reflexivity. }
  specialize (G toks (fs_out st) None H). cbn zeta in G.
  destruct (fold_left _ toks (fs_out st, None)) as [out largest]. cbn [fst] in G.
  unfold appends, val, lvl. cbn [fs_out]. exact G.
Qed.

Lemma appends_add_level st d : val (map_out (fun os => os_add_level os d) st) = val st
                               /\ lvl (map_out (fun os => os_add_level os d) st) = (lvl st + d)%Z.
Proof. split; reflexivity. Qed.

Lemma newline_spec c st :
  val (map_out (fun os => os_push_newline (oc_fmt c) os (Some None)) st)
    = val st ++ nlb (oc_fmt c) ++ ind (oc_fmt c) (Z.to_nat (Z.max (lvl st) 0))
  /\ lvl (map_out (fun os => os_push_newline (oc_fmt c) os (Some None)) st) = lvl st.
Proof.
  unfold val, lvl, map_out. cbn [fs_out]. rewrite value_push_newline, level_push_newline. split; reflexivity.
Qed.

(* folding a pushing step over a list *)
Lemma appends_fold {A} (f : fstate -> A -> fstate) (g : A -> str) (P : A -> Prop) :
  (forall st a, P a -> appends st (f st a) (g a)) ->
  forall l st, Forall P l -> appends st (fold_left f l st) (concat (map g l)).
Proof.
  intros Hf. induction l as [|a l IH]; intros st HP; cbn [fold_left map concat].
  - apply appends_refl.
  - inversion HP; subst. eapply appends_trans; [apply Hf; assumption|apply IH; assumption].
Qed.

Lemma join_cons (sep x : str) (l : list str) : join sep (x :: l) = x ++ concat (map (app sep) l).
Proof.
  revert x. induction l as [|y l IH]; intros x.
  - cbn [join map concat]. rewrite app_nil_r. reflexivity.
  - change (join sep (x :: y :: l)) with (x ++ sep ++ join sep (y :: l)).
    rewrite IH. cbn [map concat]. rewrite <- app_assoc. reflexivity.
Qed.

(* ---------------------------------------------------------------- tokens that stay on one line *)
(* a string with at most one line (it may end in a line break): push_string pushes that line only *)
Definition tok_single (t : vtok) : bool :=
  match t with
  | VStr s => match split_crlf s with _ :: _ :: _ => false | _ => true end
  | VField _ _ => true
  end.
Definition first_line (t : vtok) : vtok :=
  match t with
  | VStr s => VStr (match split_crlf s with l0 :: _ => l0 | [] => [] end)
  | VField _ _ => t
  end.

Lemma appends_push_tokens_single c toks st : forallb tok_single toks = true ->
  appends st (push_tokens c toks st) (val_text (map first_line toks)).
Proof.
  intros H. unfold push_tokens.
  assert (G : forall toks o lg, forallb tok_single toks = true ->
            let r := fold_left (fun '(o, lg) t =>
                 match t with
                 | VStr s => (os_push_string (oc_fmt c) o s, lg)
                 | VField i nm => (os_push_field o (fs_field st + i)%N nm,
                                   match lg with Some l => Some (N.max l i) | None => Some i end)
                 end) toks (o, lg) in
            os_value (fst r) = os_value o ++ val_text (map first_line toks) /\ os_level (fst r) = os_level o).
  { clear toks H. induction toks as [|t ts IH]; intros o lg H; cbn zeta.
    - cbn [fold_left fst val_text map concat]. rewrite app_nil_r. split; reflexivity.
    - cbn [forallb] in H. apply andb_true_iff in H. destruct H as [Ht Hts].
      cbn [fold_left]. destruct t as [s|i nm].
      + assert (P : os_value (os_push_string (oc_fmt c) o s)
                    = os_value o ++ match split_crlf s with l0 :: _ => l0 | [] => [] end
                    /\ os_level (os_push_string (oc_fmt c) o s) = os_level o).
        { unfold os_push_string. cbn [tok_single] in Ht. destruct (split_crlf s) as [|l0 [|l1 ls]]; try discriminate.
          - rewrite app_nil_r. split; reflexivity.
          - cbn [fold_left]. rewrite value_push. split; reflexivity. }
        destruct P as [V L].
        destruct (IH (os_push_string (oc_fmt c) o s) lg Hts) as [V2 L2]. cbn zeta in V2, L2.
        rewrite V2, L2, V, L. unfold val_text. cbn [map concat tok_text first_line]. rewrite app_assoc. split; reflexivity.
      + destruct (IH (os_push_field o (fs_field st + i)%N nm)
                     (match lg with Some l => Some (N.max l i) | None => Some i end) Hts) as [V2 L2].
        cbn zeta in V2, L2. rewrite V2, L2, value_push_field, level_push_field.
        unfold val_text. cbn [map concat tok_text first_line]. rewrite app_assoc. split; reflexivity. }
  specialize (G toks (fs_out st) None H). cbn zeta in G.
  destruct (fold_left _ toks (fs_out st, None)) as [out largest]. cbn [fst] in G.
  unfold appends, val, lvl. cbn [fs_out]. exact G.
Qed.
