(* C13, stylesheet resolver: the tabstops that resolve_as_property generates around the default value
   of a property snippet (wrap_with_field, model/CssResolve.wrap_list) are numbered consecutively from 1 in
   document order, one WrapState per comma-separated value: for a value without fields of its own the
   indices of the fields of the wrapped value are exactly 1, 2, ..., k. *)
From Coq Require Import ZArith List Bool Lia ZifyBool String.
From Emmet Require Import lib.Base lib.StyleLib model.CssTokenizer model.CssParser model.Score model.Color
     model.CssSnippets model.CssResolve model.MarkupConvert model.OutStream model.CssFormatStream
     proofs.OutStreamProofs proofs.FormatChunks proofs.CssFormatStream proofs.CssFormatFields.
Import ListNotations.
Local Open Scope N_scope.

Fixpoint nseq (start : N) (len : nat) : list N :=
  match len with O => [] | S k => start :: nseq (start + 1) k end.
Lemma nseq_app start a b : nseq start (a + b) = nseq start a ++ nseq (start + N.of_nat a) b.
Proof.
  revert start. induction a as [|a IH]; intros start; cbn [nseq Nat.add app].
  - f_equal. lia.
  - rewrite IH. do 3 f_equal. lia.
Qed.

Definition widx (out : list cval) : list (option N) := map fst (value_field_args out).
Lemma widx_app a b : widx (a ++ b) = widx a ++ widx b.
Proof. unfold widx, value_field_args. rewrite flat_map_app, map_app. reflexivity. Qed.

(* the two local loops of wrap_val, named; they are wrap_list / wrap_args *)
Definition wloc_arg (cfg : sconfig) :=
  fix wrap_arg (vs : list cval) (idx : N) : list cval * N :=
    match vs with
    | [] => ([], idx)
    | x :: xs => let '(o1, i1) := wrap_val cfg x idx in
                 let '(o2, i2) := wrap_arg xs i1 in (o1 :: o2, i2)
    end.
Definition wloc_args (cfg : sconfig) :=
  fix wrap_args (l : list (list cval)) (idx : N) : list (list cval) * N :=
    match l with
    | [] => ([], idx)
    | arg :: r =>
        let '(o1, i1) := wloc_arg cfg arg idx in
        let '(o2, i2) := wrap_args r i1 in
        (o1 :: o2, i2)
    end.
Lemma wloc_arg_eq cfg vs : forall idx, wloc_arg cfg vs idx = wrap_list cfg vs idx.
Proof.
  induction vs as [|x xs IH]; intros idx; cbn [wloc_arg wrap_list]; [reflexivity|].
  destruct (wrap_val cfg x idx) as [o1 i1]. fold (wloc_arg cfg). rewrite IH. reflexivity.
Qed.
Lemma wloc_args_eq cfg l : forall idx, wloc_args cfg l idx = wrap_args cfg l idx.
Proof.
  induction l as [|a r IH]; intros idx; cbn [wloc_args wrap_args]; [reflexivity|].
  rewrite wloc_arg_eq. destruct (wrap_list cfg a idx) as [o1 i1]. fold (wloc_args cfg). rewrite IH. reflexivity.
Qed.
Lemma wrap_val_func cfg name args idx :
  wrap_val cfg (VFunc name args) idx =
  let '(args', idx') := wrap_args cfg args idx in (VFunc name args', idx').
Proof. rewrite <- wloc_args_eq. reflexivity. Qed.

(* the field indices of a wrapped token / value / argument list *)
Definition tidx (v : cval) : list (option N) := map fst (tok_field_args v).
Definition aidx (args : list (list cval)) : list (option N) := map fst (flat_map value_field_args args).
Lemma widx_cons v vs : widx (v :: vs) = tidx v ++ widx vs.
Proof. unfold widx, tidx, value_field_args. cbn [flat_map]. apply map_app. Qed.
Lemma aidx_cons a r : aidx (a :: r) = widx a ++ aidx r.
Proof. unfold aidx, widx. cbn [flat_map]. apply map_app. Qed.
Lemma tidx_func name args : tidx (VFunc name args) = aidx args.
Proof. reflexivity. Qed.

(* numbered idx, idx+1, ..., idx+k-1 and the counter ends at idx+k *)
Definition consec (l : list (option N)) (idx idx' : N) : Prop :=
  exists k, l = map Some (nseq idx k) /\ idx' = idx + N.of_nat k.
Lemma consec_nil idx : consec [] idx idx.
Proof. exists O. split; [reflexivity|cbn; lia]. Qed.
Lemma consec_app l1 l2 a b c : consec l1 a b -> consec l2 b c -> consec (l1 ++ l2) a c.
Proof.
  intros [k1 [A1 B1]] [k2 [A2 B2]]. exists (k1 + k2)%nat. split.
  - rewrite A1, A2, B1, nseq_app, map_app. reflexivity.
  - rewrite B2, B1. lia.
Qed.

Definition val_ok (cfg : sconfig) (v : cval) : Prop :=
  has_field_val v = false -> forall idx, consec (tidx (fst (wrap_val cfg v idx))) idx (snd (wrap_val cfg v idx)).

Lemma wrap_list_ok_gen cfg vs : Forall (val_ok cfg) vs -> existsb has_field_val vs = false ->
  forall idx, consec (widx (fst (wrap_list cfg vs idx))) idx (snd (wrap_list cfg vs idx)).
Proof.
  induction 1 as [|x xs Hx _ IH]; intros Hf idx; cbn [wrap_list]; [apply consec_nil|].
  cbn [existsb] in Hf. apply orb_false_elim in Hf. destruct Hf as [F1 F2].
  specialize (Hx F1 idx). destruct (wrap_val cfg x idx) as [o1 i1] eqn:E1.
  specialize (IH F2 i1). destruct (wrap_list cfg xs i1) as [o2 i2] eqn:E2.
  cbn [fst snd] in *. rewrite widx_cons. eapply consec_app; eassumption.
Qed.

Lemma wrap_args_ok_gen cfg args : Forall (Forall (val_ok cfg)) args ->
  existsb (fun a => existsb has_field_val a) args = false ->
  forall idx, consec (aidx (fst (wrap_args cfg args idx))) idx (snd (wrap_args cfg args idx)).
Proof.
  induction 1 as [|a r Ha _ IH]; intros Hf idx; cbn [wrap_args]; [apply consec_nil|].
  cbn [existsb] in Hf. apply orb_false_elim in Hf. destruct Hf as [F1 F2].
  pose proof (wrap_list_ok_gen cfg a Ha F1 idx) as H1. destruct (wrap_list cfg a idx) as [o1 i1] eqn:E1.
  specialize (IH F2 i1). destruct (wrap_args cfg r i1) as [o2 i2] eqn:E2.
  cbn [fst snd] in *. rewrite aidx_cons. eapply consec_app; eassumption.
Qed.

Lemma consec_one idx : consec [Some idx] idx (idx + 1).
Proof. exists 1%nat. split; [reflexivity|cbn; lia]. Qed.

Lemma wrap_val_ok cfg v : val_ok cfg v.
Proof.
  induction v as [k st en|name args IH] using cval_ind2; unfold val_ok; intros Hf idx.
  - destruct k; cbn [wrap_val fst snd]; try apply consec_one; try apply consec_nil.
    cbn in Hf. discriminate.
  - rewrite wrap_val_func. cbn [has_field_val] in Hf.
    pose proof (wrap_args_ok_gen cfg args IH Hf idx) as H.
    destruct (wrap_args cfg args idx) as [args' idx'] eqn:E. cbn [fst snd] in *.
    rewrite tidx_func. exact H.
Qed.

Lemma wrap_list_ok cfg vs : existsb has_field_val vs = false ->
  forall idx, consec (widx (fst (wrap_list cfg vs idx))) idx (snd (wrap_list cfg vs idx)).
Proof. apply wrap_list_ok_gen, Forall_all. intros v. apply wrap_val_ok. Qed.

(* wrap_with_field(value, config): the generated tabstops are 1, 2, ..., k in document order *)
Theorem wrap_with_field_numbering cfg node :
  has_field node = false ->
  exists k, map fst (value_field_args (wrap_with_field cfg node)) = map Some (nseq 1 k).
Proof.
  intros Hf. destruct (wrap_list_ok cfg node Hf 1) as [k [A _]]. exists k. exact A.
Qed.
