(* C13, stylesheet resolver: the tabstops that resolve_as_property generates around the default value
   of a property snippet (wrap_with_field, model/CssResolve.wrap_list) are numbered consecutively from 1 in
   document order, one WrapState per comma-separated value: for a value without fields of its own the
   indices of the fields of the wrapped value are exactly 1, 2, ..., k. *)
From Coq Require Import ZArith List Bool Lia ZifyBool String.
From Emmet Require Import lib.Base lib.StyleLib model.CssTokenizer model.CssParser model.Score model.Color
     model.CssSnippets model.CssResolve model.MarkupConvert model.OutStream model.CssFormatStream
     proofs.OutStreamProofs proofs.FormatChunks proofs.CssFormatStream proofs.CssFormatFields.
Import ListNotations.
Local Open Scope N_scope.

Fixpoint nseq (start : N) (len : nat) : list N :=
  match len with O => [] | S k => start :: nseq (start + 1) k end.
Lemma nseq_app start a b : nseq start (a + b) = nseq start a ++ nseq (start + N.of_nat a) b.
Proof.
  revert start. induction a as [|a IH]; intros start; cbn [nseq Nat.add app].
  - f_equal. lia.
  - rewrite IH. do 3 f_equal. lia.
Qed.

Definition widx (out : list cval) : list (option N) := map fst (value_field_args out).
Lemma widx_app a b : widx (a ++ b) = widx a ++ widx b.
Proof. unfold widx, value_field_args. rewrite flat_map_app, map_app. reflexivity. Qed.

(* numbered idx, idx+1, ..., idx+k-1 and the counter ends at idx+k *)
Definition consecutive (r : list cval * N) (idx : N) : Prop :=
  exists k, widx (fst r) = map Some (nseq idx k) /\ snd r = idx + N.of_nat k.

Lemma consecutive_seq r1 r2 idx :
  consecutive r1 idx -> consecutive r2 (snd r1) -> consecutive (fst r1 ++ fst r2, snd r2) idx.
Proof.
  intros [k1 [A1 B1]] [k2 [A2 B2]]. exists (k1 + k2)%nat. cbn [fst snd]. split.
  - rewrite widx_app, A1, A2, B1, nseq_app, map_app. reflexivity.
  - rewrite B2, B1. lia.
Qed.
Lemma consecutive_lit l r idx : widx l = [] -> consecutive r idx -> consecutive (l ++ fst r, snd r) idx.
Proof.
  intros Hl [k [A B]]. exists k. cbn [fst snd]. split; [rewrite widx_app, Hl; exact A|exact B].
Qed.
Lemma consecutive_lit_r l r idx : widx l = [] -> consecutive r idx -> consecutive (fst r ++ l, snd r) idx.
Proof.
  intros Hl [k [A B]]. exists k. cbn [fst snd]. split; [rewrite widx_app, Hl, app_nil_r; exact A|exact B].
Qed.
Lemma consecutive_nil idx : consecutive ([], idx) idx.
Proof. exists O. split; [reflexivity|cbn; lia]. Qed.

(* the two local loops of wrap_val, named *)
Definition wloc_arg (cfg : sconfig) :=
  fix wrap_arg (vs : list cval) (idx : N) : list cval * N :=
    match vs with
    | [] => ([], idx)
    | x :: xs => let '(o1, i1) := wrap_val cfg x idx in
                 let '(o2, i2) := wrap_arg xs i1 in (o1 ++ o2, i2)
    end.
Definition wloc_args (cfg : sconfig) (max_i : nat) :=
  fix wrap_args (l : list (list cval)) (i : nat) (idx : N) : list cval * N :=
    match l with
    | [] => ([], idx)
    | arg :: r =>
        let '(o1, i1) := wloc_arg cfg arg idx in
        let sep := if Nat.eqb i max_i then [] else [synth (CLiteral (lit ", "))] in
        let '(o2, i2) := wrap_args r (S i) i1 in
        (o1 ++ sep ++ o2, i2)
    end.
Lemma wrap_val_func cfg name args idx :
  wrap_val cfg (VFunc name args) idx =
  let '(body, idx') := wloc_args cfg (length args - 1)%nat args O (idx + 1) in
  ([synth (CField name (Some idx)); synth (CLiteral [c_lparen])] ++ body ++ [synth (CLiteral [c_rparen])], idx').
Proof. reflexivity. Qed.

Definition val_ok (cfg : sconfig) (v : cval) : Prop :=
  has_field_val v = false -> forall idx, consecutive (wrap_val cfg v idx) idx.

Lemma wloc_arg_ok cfg vs : Forall (val_ok cfg) vs -> existsb has_field_val vs = false ->
  forall idx, consecutive (wloc_arg cfg vs idx) idx.
Proof.
  induction 1 as [|x xs Hx _ IH]; intros Hf idx; cbn [wloc_arg]; [apply consecutive_nil|].
  cbn [existsb] in Hf. apply orb_false_elim in Hf. destruct Hf as [F1 F2].
  specialize (Hx F1 idx). destruct (wrap_val cfg x idx) as [o1 i1] eqn:E1.
  specialize (IH F2 i1). fold (wloc_arg cfg) in *. destruct (wloc_arg cfg xs i1) as [o2 i2] eqn:E2.
  apply (consecutive_seq (o1, i1) (o2, i2) idx Hx IH).
Qed.

Lemma wloc_args_ok cfg m args : Forall (Forall (val_ok cfg)) args ->
  existsb (fun a => existsb has_field_val a) args = false ->
  forall i idx, consecutive (wloc_args cfg m args i idx) idx.
Proof.
  induction 1 as [|a r Ha _ IH]; intros Hf i idx; cbn [wloc_args]; [apply consecutive_nil|].
  cbn [existsb] in Hf. apply orb_false_elim in Hf. destruct Hf as [F1 F2].
  pose proof (wloc_arg_ok cfg a Ha F1 idx) as H1. destruct (wloc_arg cfg a idx) as [o1 i1] eqn:E1.
  specialize (IH F2 (S i) i1). fold (wloc_args cfg m) in *. destruct (wloc_args cfg m r (S i) i1) as [o2 i2] eqn:E2.
  assert (H2 : consecutive ((if Nat.eqb i m then [] else [synth (CLiteral (lit ", "))]) ++ o2, i2) i1).
  { apply (consecutive_lit _ (o2, i2) i1); [destruct (Nat.eqb i m); reflexivity|exact IH]. }
  apply (consecutive_seq (o1, i1) (_, i2) idx H1 H2).
Qed.

Lemma consecutive_one (t : cval) idx : widx [t] = [Some idx] -> consecutive ([t], idx + 1) idx.
Proof. intros H. exists 1%nat. split; [exact H|cbn; lia]. Qed.

Lemma wrap_val_ok cfg v : val_ok cfg v.
Proof.
  induction v as [k st en|name args IH] using cval_ind2; unfold val_ok; intros Hf idx.
  - destruct k; cbn [wrap_val]; try (apply consecutive_one; reflexivity);
      try (exists O; split; [reflexivity|cbn; lia]).
    cbn in Hf. discriminate.
  - rewrite wrap_val_func. cbn [has_field_val] in Hf.
    pose proof (wloc_args_ok cfg (length args - 1)%nat args IH Hf O (idx + 1)) as H.
    destruct (wloc_args cfg (length args - 1)%nat args O (idx + 1)) as [body idx'] eqn:E.
    assert (H2 : consecutive (body ++ [synth (CLiteral [c_rparen])], idx') (idx + 1)).
    { apply (consecutive_lit_r _ (body, idx') (idx + 1)); [reflexivity|exact H]. }
    destruct H2 as [k [A B]]. exists (S k). cbn [fst snd]. split.
    + change ([synth (CField name (Some idx)); synth (CLiteral [c_lparen])] ++ body ++ [synth (CLiteral [c_rparen])])
        with ([synth (CField name (Some idx))] ++ [synth (CLiteral [c_lparen])] ++ body ++ [synth (CLiteral [c_rparen])]).
      rewrite !widx_app. cbn [fst] in A. rewrite <- widx_app, A. reflexivity.
    + cbn [snd] in B. rewrite B. lia.
Qed.

Lemma wrap_list_ok cfg vs : existsb has_field_val vs = false -> forall idx, consecutive (wrap_list cfg vs idx) idx.
Proof.
  induction vs as [|x xs IH]; intros Hf idx; cbn [wrap_list]; [apply consecutive_nil|].
  cbn [existsb] in Hf. apply orb_false_elim in Hf. destruct Hf as [F1 F2].
  pose proof (wrap_val_ok cfg x F1 idx) as H1. destruct (wrap_val cfg x idx) as [o1 i1] eqn:E1.
  specialize (IH F2 i1). destruct (wrap_list cfg xs i1) as [o2 i2] eqn:E2.
  apply (consecutive_seq (o1, i1) (o2, i2) idx H1 IH).
Qed.

(* wrap_with_field(value, config): the generated tabstops are 1, 2, ..., k in document order *)
Theorem wrap_with_field_numbering cfg node :
  has_field node = false ->
  exists k, map fst (value_field_args (wrap_with_field cfg node)) = map Some (nseq 1 k).
Proof.
  intros Hf. destruct (wrap_list_ok cfg node Hf 1) as [k [A _]]. exists k. exact A.
Qed.
