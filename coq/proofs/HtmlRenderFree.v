(* C09, Level B: the body condition [ends_firstb pat body] ("in body ++ pat the terminator occurs first
   at the end") follows from the plain reading "the body does not contain the terminator" for every
   terminator no proper prefix of which is also a suffix -- `-->`, `]]>` and every close tag `</name>`. *)
From Coq Require Import List NArith ZArith Bool Lia ZifyBool.
From Emmet Require Import lib.Base lib.HtmlLib gen.GenHtml model.HtmlScan model.HtmlMatch
  proofs.HtmlScanProofs proofs.HtmlRenderLib proofs.HtmlRender proofs.HtmlRenderScan.
Import ListNotations.
Local Open Scope nat_scope.

(* [pat] occurs somewhere in [s] ([pat] not empty) *)
Fixpoint contains (pat s : str) : bool :=
  match s with
  | [] => false
  | _ :: r => starts_with pat s || contains pat r
  end.

(* no proper non-empty prefix of [pat] is also a suffix of [pat] *)
Definition unbordered (pat : str) : Prop :=
  forall k, 1 <= k < length pat -> firstn k pat <> skipn (length pat - k) pat.

Lemma starts_with_overlap pat (b : str) :
  unbordered pat -> b <> [] -> starts_with pat (b ++ pat) = true -> starts_with pat b = true.
Proof.
  intros Hu Hb H. destruct (le_lt_dec (length pat) (length b)) as [Hle|Hlt].
  - rewrite starts_with_app_long in H by exact Hle. exact H.
  - exfalso. apply starts_with_firstn in H.
    rewrite firstn_app in H. rewrite (firstn_all2 b) in H by lia.
    apply (Hu (length pat - length b)).
    + destruct b; [contradiction|]. cbn [length] in *. lia.
    + replace (length pat - (length pat - length b)) with (length b) by lia.
      rewrite <- H at 3. rewrite skipn_app_exact by reflexivity. reflexivity.
Qed.

Theorem free_ends_first pat : unbordered pat -> forall body,
  contains pat body = false -> ends_firstb pat body = true.
Proof.
  intros Hu. induction body as [|c body IH]; intros H; [reflexivity|].
  cbn [contains] in H. apply orb_false_iff in H. destruct H as [H1 H2].
  cbn [ends_firstb]. rewrite (IH H2), andb_true_r. apply negb_true_iff.
  destruct (starts_with pat ((c :: body) ++ pat)) eqn:E; [|reflexivity].
  apply starts_with_overlap in E; [congruence|exact Hu|discriminate].
Qed.

Lemma unbordered_by_heads (pat : str) x :
  (forall p, pat = x :: p -> Forall (fun c => c <> x) p) -> hd_error pat = Some x -> unbordered pat.
Proof.
  intros Hall Hhd k Hk E. destruct pat as [|y p]; [discriminate|]. cbn [hd_error] in Hhd. inversion Hhd; subst y.
  specialize (Hall p eq_refl). cbn [length] in *.
  destruct k as [|k]; [lia|]. cbn [firstn] in E.
  replace (S (length p) - S k) with (S (length p - S k)) in E by lia. cbn [skipn] in E.
  destruct (skipn (length p - S k) p) as [|z t] eqn:Es; [discriminate|]. inversion E; subst z.
  assert (Hin : In x p).
  { rewrite <- (firstn_skipn (length p - S k) p). apply in_or_app. right. rewrite Es. left. reflexivity. }
  rewrite Forall_forall in Hall. exact (Hall x Hin eq_refl).
Qed.

Lemma unbordered_comment_close : unbordered comment_close.
Proof. intros k Hk. cbn [length comment_close] in Hk. assert (k = 1 \/ k = 2) as [-> | ->] by lia; discriminate. Qed.
Lemma unbordered_cdata_close : unbordered cdata_close.
Proof. intros k Hk. cbn [length cdata_close] in Hk. assert (k = 1 \/ k = 2) as [-> | ->] by lia; discriminate. Qed.

Lemma unbordered_close_tag n : name_ok n = true -> unbordered (close_tag n).
Proof.
  intros Hn. apply (unbordered_by_heads _ c_lt); [|reflexivity].
  intros p E. unfold close_tag in E. inversion E; subst p. clear E.
  constructor; [discriminate|]. apply Forall_app. split.
  - destruct n as [|c r]; [discriminate|]. cbn [name_ok] in Hn. apply andb_true_iff in Hn. destruct Hn as [Hc Hr].
    constructor.
    + intros ->. discriminate Hc.
    + rewrite Forall_forall. intros x Hx ->. rewrite forallb_forall in Hr. specialize (Hr _ Hx). discriminate Hr.
  - constructor; [discriminate|constructor].
Qed.

(* the three body conditions of [item_ok], in the plain reading *)
Theorem comment_body_free b : contains comment_close b = false -> ends_firstb comment_close b = true.
Proof. apply free_ends_first. exact unbordered_comment_close. Qed.
Theorem cdata_body_free b : contains cdata_close b = false -> ends_firstb cdata_close b = true.
Proof. apply free_ends_first. exact unbordered_cdata_close. Qed.
Theorem raw_body_free n b :
  name_ok n = true -> contains (close_tag n) b = false -> ends_firstb (close_tag n) b = true.
Proof. intros Hn. apply free_ends_first. apply unbordered_close_tag. exact Hn. Qed.
