(* C16 (HTML half), fold part: for ALL ordered event lists (not only scanner
   outputs) match is the head of balanced_outward, balanced_outward entries
   strictly nest and contain the position, balanced_inward entries nest, and
   every reported tag range is the range of an event. *)
From Coq Require Import List NArith ZArith Bool Lia ZifyBool.
From Emmet Require Import lib.Base lib.HtmlLib gen.GenHtml model.HtmlScan model.HtmlMatch proofs.HtmlScanProofs.
Import ListNotations.
Local Open Scope N_scope.

(* ------------------------------------------------------------------ match = head of outward *)
Lemma hd_error_if_app {A} (c : bool) (b : A) l :
  hd_error ((if c then [b] else []) ++ l) = if c then Some b else hd_error l.
Proof. destruct c; reflexivity. Qed.

Theorem match_go_hd_outward o pos : forall evs stack,
  match_go o pos stack evs = hd_error (outward_go o pos stack evs).
Proof.
  induction evs as [|e rest IH]; intros stack; cbn [match_go outward_go]; [reflexivity|].
  destruct (ev_type e) eqn:Ety.
  - (* open *)
    destruct (is_self_close o (ev_name e)); cbn [orb].
    + rewrite hd_error_if_app. destruct (strictly_in (ev_start e) pos (ev_end e)); [reflexivity|apply IH].
    + apply IH.
  - (* close *)
    destruct stack as [|t stack']; [apply IH|].
    destruct (str_eqb (t_name t) (ev_name e)); [|apply IH].
    rewrite hd_error_if_app. destruct (strictly_in (t_start t) pos (ev_end e)); [reflexivity|apply IH].
  - cbn [orb]. rewrite hd_error_if_app.
    destruct (strictly_in (ev_start e) pos (ev_end e)); [reflexivity|apply IH].
Qed.

(* ------------------------------------------------------------------ outward: strict nesting *)
Definition bal_start (b : balanced) : N := fst (b_open b).
Definition bal_end (b : balanced) : N :=
  match b_close b with Some c => snd c | None => snd (b_open b) end.
Definition contains_pos (pos : Z) (b : balanced) : Prop :=
  (Z.of_N (bal_start b) < pos < Z.of_N (bal_end b))%Z.

(* every entry strictly contains [pos]; every entry strictly contains its predecessor *)
Fixpoint outward_chain (pos : Z) (inner : option (N * N)) (l : list balanced) : Prop :=
  match l with
  | [] => True
  | b :: rest =>
      contains_pos pos b /\
      match inner with
      | Some (bs, be) => bal_start b < bs /\ be < bal_end b
      | None => True
      end /\
      outward_chain pos (Some (bal_start b, bal_end b)) rest
  end.

(* stack of open tags: each lies before the next one and before the scan point *)
Fixpoint stack_ok (hi : N) (stack : list tag) : Prop :=
  match stack with
  | [] => True
  | t :: rest => t_start t < t_end t /\ t_end t <= hi /\ stack_ok (t_start t) rest
  end.

Lemma stack_ok_mono : forall stack hi hi', hi <= hi' -> stack_ok hi stack -> stack_ok hi' stack.
Proof.
  destruct stack as [|t rest]; intros hi hi' Hle H; [exact I|].
  cbn [stack_ok] in *. destruct H as (H1 & H2 & H3). repeat split; try assumption. lia.
Qed.

Lemma stack_ok_in : forall stack hi t, stack_ok hi stack -> In t stack -> t_start t < t_end t /\ t_end t <= hi.
Proof.
  induction stack as [|u rest IH]; intros hi t H Hin; [destruct Hin|].
  cbn [stack_ok] in H. destruct H as (H1 & H2 & H3).
  destruct Hin as [->|Hin]; [split; assumption|].
  destruct (IH _ _ H3 Hin) as [A B]. split; [exact A|lia].
Qed.

Definition inner_ok (pos : Z) (inner : option (N * N)) (stack : list tag) (lo : N) : Prop :=
  match inner with
  | None => True
  | Some (bs, be) =>
      (Z.of_N bs < pos < Z.of_N be)%Z /\ be <= lo /\
      forall t, In t stack -> (Z.of_N (t_start t) < pos)%Z -> t_start t < bs
  end.

Lemma strictly_in_iff a pos b : strictly_in a pos b = true <-> (Z.of_N a < pos < Z.of_N b)%Z.
Proof. unfold strictly_in. lia. Qed.

Lemma outward_go_chain o pos : forall evs stack lo inner,
  events_ordered lo evs -> stack_ok lo stack -> inner_ok pos inner stack lo ->
  outward_chain pos inner (outward_go o pos stack evs).
Proof.
  induction evs as [|e rest IH]; intros stack lo inner Hev Hst Hin; cbn [outward_go]; [exact I|].
  cbn [events_ordered] in Hev. destruct Hev as (E1 & E2 & E3).
  (* the three ways to continue *)
  assert (Hskip : forall stack', stack_ok (ev_end e) stack' -> (forall t, In t stack' -> In t stack) ->
                    outward_chain pos inner (outward_go o pos stack' rest)).
  { intros stack' Hs Hsub. eapply IH; [exact E3|exact Hs|].
    unfold inner_ok in *. destruct inner as [[bs be]|]; [|exact I].
    destruct Hin as (I1 & I2 & I3). split; [exact I1|]. split; [lia|]. intros t Ht. apply I3. apply Hsub. exact Ht. }
  assert (Hsingle : outward_chain pos inner
            ((if strictly_in (ev_start e) pos (ev_end e)
              then [mkBal (ev_name e) (ev_start e, ev_end e) None] else []) ++ outward_go o pos stack rest)).
  { destruct (strictly_in (ev_start e) pos (ev_end e)) eqn:Hhit; cbn [app].
    - apply strictly_in_iff in Hhit.
      cbn [outward_chain]. unfold contains_pos, bal_start, bal_end. cbn [b_open b_close fst snd].
      split; [exact Hhit|]. split.
      + destruct inner as [[bs be]|]; [|exact I]. destruct Hin as (I1 & I2 & _). lia.
      + eapply IH; [exact E3|eapply stack_ok_mono; [|exact Hst]; lia|].
        cbn [inner_ok]. split; [exact Hhit|]. split; [lia|].
        intros t Ht _. destruct (stack_ok_in _ _ _ Hst Ht). lia.
    - apply Hskip; [eapply stack_ok_mono; [|exact Hst]; lia|auto]. }
  destruct (ev_type e) eqn:Ety.
  - destruct (is_self_close o (ev_name e)); cbn [orb]; [exact Hsingle|].
    (* push *)
    eapply IH; [exact E3| |].
    + cbn [stack_ok t_start t_end]. split; [exact E2|]. split; [lia|].
      eapply stack_ok_mono; [|exact Hst]. exact E1.
    + unfold inner_ok in *. destruct inner as [[bs be]|]; [|exact I].
      destruct Hin as (I1 & I2 & I3). split; [exact I1|]. split; [lia|].
      intros t [<-|Ht] Hp; [cbn [t_start] in *; lia|apply I3; assumption].
  - destruct stack as [|t stack'].
    { apply Hskip; [exact I|auto]. }
    cbn [stack_ok] in Hst. destruct Hst as (S1 & S2 & S3).
    destruct (str_eqb (t_name t) (ev_name e)).
    2:{ apply Hskip; [|auto]. cbn [stack_ok]. repeat split; try assumption. lia. }
    assert (Hs' : stack_ok (ev_end e) stack') by (eapply stack_ok_mono; [|exact S3]; lia).
    destruct (strictly_in (t_start t) pos (ev_end e)) eqn:Hhit; cbn [app].
    + apply strictly_in_iff in Hhit.
      cbn [outward_chain]. unfold contains_pos, bal_start, bal_end. cbn [b_open b_close fst snd].
      split; [exact Hhit|]. split.
      * destruct inner as [[bs be]|]; [|exact I]. destruct Hin as (I1 & I2 & I3).
        split; [apply I3; [left; reflexivity|lia]|lia].
      * eapply IH; [exact E3|exact Hs'|].
        cbn [inner_ok]. split; [exact Hhit|]. split; [lia|].
        intros u Hu _. destruct (stack_ok_in _ _ _ S3 Hu). lia.
    + apply Hskip; [exact Hs'|]. intros u Hu. right. exact Hu.
  - cbn [orb]. exact Hsingle.
Qed.

(* user-facing form *)
Fixpoint strictly_nested (l : list balanced) : Prop :=
  match l with
  | a :: (b :: _) as rest => bal_start b < bal_start a /\ bal_end a < bal_end b /\ strictly_nested rest
  | _ => True
  end.

Lemma outward_chain_nested pos : forall l inner,
  outward_chain pos inner l -> Forall (contains_pos pos) l /\ strictly_nested l.
Proof.
  induction l as [|a rest IH]; intros inner H; [split; [constructor|exact I]|].
  cbn [outward_chain] in H. destruct H as (H1 & _ & H3).
  destruct (IH _ H3) as [F N]. split; [constructor; assumption|].
  destruct rest as [|b rest']; [exact I|].
  cbn [outward_chain] in H3. destruct H3 as (_ & (A & B) & _).
  cbn [strictly_nested]. split; [exact A|]. split; [exact B|exact N].
Qed.

Theorem outward_go_nested o pos evs :
  events_ordered 0 evs ->
  Forall (contains_pos pos) (outward_go o pos [] evs) /\ strictly_nested (outward_go o pos [] evs).
Proof.
  intros H. eapply outward_chain_nested. eapply (outward_go_chain o pos evs [] 0 None); [exact H|exact I|exact I].
Qed.

(* ------------------------------------------------------------------ inward: nesting *)
Definition bal_wf (b : balanced) : Prop :=
  fst (b_open b) < snd (b_open b) /\
  match b_close b with
  | Some c => snd (b_open b) <= fst c /\ fst c < snd c
  | None => True
  end.

(* each entry lies in the content of its predecessor: after its open tag, before its close tag *)
Fixpoint inward_nested (l : list balanced) : Prop :=
  match l with
  | [] => True
  | a :: rest =>
      bal_wf a /\
      match rest with
      | [] => True
      | b :: _ => exists c, b_close a = Some c /\ snd (b_open a) <= bal_start b /\ bal_end b <= fst c
      end /\
      inward_nested rest
  end.

(* a completed element (single tag or closed pair) inside [lo, hi], with its first-child chain *)
Fixpoint closed_in (t : itag) (lo hi : N) : Prop :=
  match t with
  | ITag _ a b cl ch =>
      lo <= a /\ a < b /\
      match cl with
      | Some (cs, ce) =>
          b <= cs /\ cs < ce /\ ce <= hi /\
          match ch with Some c => closed_in c b cs | None => True end
      | None => b <= hi /\ ch = None
      end
  end.

(* an open tag on the stack, scan point [hi] *)
Definition open_ok (t : itag) (hi : N) : Prop :=
  match t with
  | ITag _ a b cl ch =>
      cl = None /\ a < b /\ b <= hi /\
      match ch with Some c => closed_in c b hi | None => True end
  end.

Fixpoint istack_ok (hi : N) (stack : list itag) : Prop :=
  match stack with
  | [] => True
  | t :: rest => open_ok t hi /\ istack_ok (it_ostart t) rest
  end.

Lemma closed_in_mono : forall t lo hi lo' hi', lo' <= lo -> hi <= hi' -> closed_in t lo hi -> closed_in t lo' hi'.
Proof.
  destruct t as [n a b cl ch]. intros lo hi lo' hi' H1 H2 H. cbn [closed_in] in *.
  destruct H as (A & B & C). split; [lia|]. split; [exact B|].
  destruct cl as [[cs ce]|].
  - destruct C as (C1 & C2 & C3 & C4). repeat split; try assumption. lia.
  - destruct C as (C1 & C2). split; [lia|exact C2].
Qed.

Lemma open_ok_mono t hi hi' : hi <= hi' -> open_ok t hi -> open_ok t hi'.
Proof.
  destruct t as [n a b cl ch]. intros Hle (A & B & C & D). cbn [open_ok]. repeat split; try assumption; try lia.
  destruct ch as [c|]; [|exact I]. eapply closed_in_mono; [| |exact D]; lia.
Qed.

Lemma istack_ok_mono stack hi hi' : hi <= hi' -> istack_ok hi stack -> istack_ok hi' stack.
Proof.
  destruct stack as [|t rest]; intros Hle H; [exact I|]. cbn [istack_ok] in *.
  destruct H as [H1 H2]. split; [eapply open_ok_mono; eassumption|exact H2].
Qed.

(* entries of a completed element and its first-child chain *)
Fixpoint chain_ok (lo hi : N) (l : list balanced) : Prop :=
  match l with
  | [] => True
  | b :: rest =>
      bal_wf b /\ lo <= bal_start b /\ bal_end b <= hi /\
      match rest with
      | [] => True
      | _ => match b_close b with
             | Some c => chain_ok (snd (b_open b)) (fst c) rest
             | None => False
             end
      end
  end.

Lemma chain_of_ok : forall t lo hi, closed_in t lo hi -> chain_ok lo hi (chain_of t).
Proof.
  fix IH 1. intros [n a b cl ch] lo hi H. cbn [closed_in] in H. destruct H as (A & B & C).
  cbn [chain_of chain_ok]. unfold bal_wf, bal_start, bal_end. cbn [b_open b_close fst snd].
  destruct cl as [[cs ce]|].
  - destruct C as (C1 & C2 & C3 & C4).
    split; [split; [exact B|split; assumption]|]. split; [exact A|]. split; [exact C3|].
    destruct ch as [c|]; [|exact I].
    specialize (IH c b cs C4). destruct (chain_of c) eqn:E; [exact I|exact IH].
  - destruct C as (C1 & ->). split; [split; [exact B|exact I]|]. split; [exact A|]. split; [exact C1|exact I].
Qed.

Lemma chain_ok_nested : forall l lo hi, chain_ok lo hi l -> inward_nested l.
Proof.
  induction l as [|a rest IH]; intros lo hi H; [exact I|].
  cbn [chain_ok] in H. destruct H as (W & L & U & R).
  cbn [inward_nested]. split; [exact W|].
  destruct rest as [|b rest']; [split; exact I|].
  destruct (b_close a) as [c|] eqn:Ec; [|destruct R].
  split.
  - exists c. split; [reflexivity|]. cbn [chain_ok] in R. destruct R as (_ & R1 & R2 & _). split; assumption.
  - eapply IH. exact R.
Qed.

Lemma attach_ok stack t hi :
  istack_ok hi stack ->
  (forall p rest, stack = p :: rest -> closed_in t (it_oend p) hi) ->
  istack_ok hi (attach_first_child stack t).
Proof.
  destruct stack as [|p rest]; intros Hs Ht; [exact I|].
  cbn [attach_first_child]. cbn [istack_ok] in Hs. destruct Hs as [Hp Hr].
  specialize (Ht p rest eq_refl).
  destruct p as [n a b cl ch]. cbn [it_child it_oend] in *.
  destruct ch as [c|]; [cbn [istack_ok]; split; assumption|].
  cbn [set_child istack_ok it_ostart]. split; [|exact Hr].
  cbn [open_ok] in *. destruct Hp as (A & B & C & _). repeat split; assumption.
Qed.

Lemma weakly_in_iff a pos b : weakly_in a pos b = true <-> (Z.of_N a <= pos <= Z.of_N b)%Z.
Proof. unfold weakly_in. lia. Qed.

Theorem inward_go_nested o pos : forall evs stack lo l,
  events_ordered lo evs -> istack_ok lo stack ->
  inward_go o pos stack evs = Some l -> inward_nested l.
Proof.
  induction evs as [|e rest IH]; intros stack lo l Hev Hst H; cbn [inward_go] in H; [discriminate|].
  cbn [events_ordered] in Hev. destruct Hev as (E1 & E2 & E3).
  assert (Hsingle :
    (if strictly_in (ev_start e) pos (ev_end e)
     then Some [mkBal (ev_name e) (ev_start e, ev_end e) None]
     else inward_go o pos (attach_first_child stack (ITag (ev_name e) (ev_start e) (ev_end e) None None)) rest)
    = Some l -> inward_nested l).
  { destruct (strictly_in (ev_start e) pos (ev_end e)).
    - intros X; inversion X; subst. cbn [inward_nested]. unfold bal_wf. cbn. repeat split; try exact I. exact E2.
    - intros X. eapply IH; [exact E3| |exact X].
      apply attach_ok.
      + eapply istack_ok_mono; [|exact Hst]. lia.
      + intros p rest' ->. cbn [istack_ok] in Hst. destruct Hst as [Hp _].
        destruct p as [n a b cl ch]. cbn [open_ok it_oend] in *. destruct Hp as (_ & _ & Hb & _).
        cbn [closed_in]. repeat split; try lia. }
  destruct (ev_type e) eqn:Ety.
  - destruct (is_self_close o (ev_name e)); cbn [orb] in H; [apply Hsingle; exact H|].
    eapply IH; [exact E3| |exact H].
    cbn [istack_ok it_ostart open_ok]. split; [repeat split; try lia; exact I|].
    eapply istack_ok_mono; [|exact Hst]. exact E1.
  - destruct stack as [|t stack'].
    { eapply (IH [] (ev_end e)); [exact E3|exact I|exact H]. }
    cbn [istack_ok] in Hst. destruct Hst as [Ht Hr].
    destruct (str_eqb (it_name t) (ev_name e)).
    2:{ eapply IH; [exact E3| |exact H]. cbn [istack_ok]. split; [|exact Hr]. eapply open_ok_mono; [|exact Ht]. lia. }
    destruct t as [n a b cl ch]. cbn [open_ok] in Ht. destruct Ht as (-> & T1 & T2 & T3).
    cbn [it_ostart it_oend it_name] in *.
    destruct (weakly_in a pos (ev_end e)).
    + inversion H; subst; clear H.
      assert (G : chain_ok a (ev_end e)
                    (mkBal (ev_name e) (a, b) (Some (ev_start e, ev_end e)) :: child_chain (ITag n a b None ch))).
      { cbn [chain_ok]. unfold bal_wf, bal_start, bal_end. cbn [b_open b_close fst snd].
        split; [split; [exact T1|split; lia]|]. split; [lia|]. split; [lia|].
        unfold child_chain. cbn [it_child]. destruct ch as [c|]; [|exact I].
        assert (C : chain_ok b (ev_start e) (chain_of c)).
        { apply chain_of_ok. eapply closed_in_mono; [| |exact T3]; lia. }
        destruct (chain_of c); [exact I|exact C]. }
      eapply chain_ok_nested. exact G.
    + eapply IH; [exact E3| |exact H].
      apply attach_ok.
      * eapply istack_ok_mono; [|exact Hr]. lia.
      * intros p rest' ->. cbn [istack_ok] in Hr. destruct Hr as [Hp _].
        destruct p as [n' a' b' cl' ch']. cbn [open_ok it_oend] in *. destruct Hp as (_ & _ & Hb & _).
        cbn [set_close closed_in]. split; [exact Hb|]. split; [exact T1|].
        split; [lia|]. split; [exact E2|]. split; [lia|].
        destruct ch as [c|]; [|exact I]. eapply closed_in_mono; [| |exact T3]; lia.
  - cbn [orb] in H. apply Hsingle. exact H.
Qed.

(* ------------------------------------------------------------------ provenance of reported ranges *)
(* Every open range reported by the folds is the range of an open / self-closing
   event with the reported name, every close range is the range of a closing
   event with that name.  Stated for arbitrary predicates on (name, range). *)
Section Provenance.
  Variable OpenP CloseP : str -> N * N -> Prop.

  Definition bal_from (b : balanced) : Prop :=
    OpenP (b_name b) (b_open b) /\
    match b_close b with Some c => CloseP (b_name b) c | None => True end.

  Definition evs_from (evs : list event) : Prop :=
    forall e, In e evs ->
      match ev_type e with
      | EClose => CloseP (ev_name e) (ev_start e, ev_end e)
      | _ => OpenP (ev_name e) (ev_start e, ev_end e)
      end.

  Lemma evs_from_cons e rest : evs_from (e :: rest) ->
    match ev_type e with
    | EClose => CloseP (ev_name e) (ev_start e, ev_end e)
    | _ => OpenP (ev_name e) (ev_start e, ev_end e)
    end /\ evs_from rest.
  Proof. intros H. split; [apply H; left; reflexivity|]. intros x Hx. apply H. right. exact Hx. Qed.

  Definition tag_from (t : tag) : Prop := OpenP (t_name t) (t_start t, t_end t).

  Lemma outward_go_from o pos : forall evs stack,
    evs_from evs -> Forall tag_from stack -> Forall bal_from (outward_go o pos stack evs).
  Proof.
    induction evs as [|e rest IH]; intros stack Hev Hst; cbn [outward_go]; [constructor|].
    apply evs_from_cons in Hev. destruct Hev as [He Hrest].
    assert (Hsingle : ev_type e <> EClose -> Forall bal_from
              ((if strictly_in (ev_start e) pos (ev_end e)
                then [mkBal (ev_name e) (ev_start e, ev_end e) None] else []) ++ outward_go o pos stack rest)).
    { intros Hty. apply Forall_app. split; [|apply IH; assumption].
      destruct (strictly_in (ev_start e) pos (ev_end e)); [|constructor].
      constructor; [|constructor]. unfold bal_from. cbn. split; [|exact I].
      destruct (ev_type e); try exact He. congruence. }
    destruct (ev_type e) eqn:Ety.
    - destruct (is_self_close o (ev_name e)); cbn [orb]; [apply Hsingle; discriminate|].
      apply IH; [exact Hrest|]. constructor; [exact He|exact Hst].
    - destruct stack as [|t stack']; [apply IH; assumption|].
      destruct (str_eqb (t_name t) (ev_name e)) eqn:En; [|apply IH; assumption].
      apply str_eqb_eq in En. inversion Hst; subst.
      apply Forall_app. split; [|apply IH; assumption].
      destruct (strictly_in (t_start t) pos (ev_end e)); [|constructor].
      constructor; [|constructor]. unfold bal_from. cbn. rewrite <- En. split; [assumption|].
      rewrite En. exact He.
    - cbn [orb]. apply Hsingle. discriminate.
  Qed.

  Fixpoint itag_from (t : itag) : Prop :=
    match t with
    | ITag n a b cl ch =>
        OpenP n (a, b) /\
        match cl with Some c => CloseP n c | None => True end /\
        match ch with Some c => itag_from c | None => True end
    end.

  Lemma chain_of_from : forall t, itag_from t -> Forall bal_from (chain_of t).
  Proof.
    fix IH 1. intros [n a b cl ch] (H1 & H2 & H3). cbn [chain_of].
    constructor; [split; [exact H1|exact H2]|].
    destruct ch as [c|]; [apply IH; exact H3|constructor].
  Qed.

  Lemma attach_from stack t : Forall itag_from stack -> itag_from t -> Forall itag_from (attach_first_child stack t).
  Proof.
    destruct stack as [|p rest]; intros Hs Ht; [constructor|].
    cbn [attach_first_child]. inversion Hs; subst.
    destruct p as [n a b cl ch]. cbn [it_child]. destruct ch as [c|]; [exact Hs|].
    constructor; [|assumption]. cbn [set_child itag_from] in *. tauto.
  Qed.

  Lemma inward_go_from o pos : forall evs stack l,
    evs_from evs -> Forall itag_from stack ->
    inward_go o pos stack evs = Some l -> Forall bal_from l.
  Proof.
    induction evs as [|e rest IH]; intros stack l Hev Hst H; cbn [inward_go] in H; [discriminate|].
    apply evs_from_cons in Hev. destruct Hev as [He Hrest].
    assert (Hsingle : ev_type e <> EClose ->
      (if strictly_in (ev_start e) pos (ev_end e)
       then Some [mkBal (ev_name e) (ev_start e, ev_end e) None]
       else inward_go o pos (attach_first_child stack (ITag (ev_name e) (ev_start e) (ev_end e) None None)) rest)
      = Some l -> Forall bal_from l).
    { intros Hty. assert (Ho : OpenP (ev_name e) (ev_start e, ev_end e)) by (destruct (ev_type e); try exact He; congruence).
      destruct (strictly_in (ev_start e) pos (ev_end e)).
      - intros X; inversion X; subst. constructor; [|constructor]. split; [exact Ho|exact I].
      - intros X. eapply IH; [exact Hrest| |exact X]. apply attach_from; [exact Hst|].
        cbn [itag_from]. tauto. }
    destruct (ev_type e) eqn:Ety.
    - destruct (is_self_close o (ev_name e)); cbn [orb] in H; [apply Hsingle; [discriminate|exact H]|].
      eapply IH; [exact Hrest| |exact H]. constructor; [|exact Hst]. cbn [itag_from]. tauto.
    - destruct stack as [|t stack']; [eapply IH; eassumption|].
      destruct (str_eqb (it_name t) (ev_name e)) eqn:En; [|eapply IH; eassumption].
      apply str_eqb_eq in En. inversion Hst; subst.
      destruct t as [n a b cl ch]. cbn [it_name it_ostart it_oend] in *.
      match goal with Hx : itag_from (ITag _ _ _ _ _) |- _ => cbn [itag_from] in Hx; destruct Hx as (T1 & T2 & T3) end.
      destruct (weakly_in a pos (ev_end e)).
      + inversion H; subst; clear H. constructor.
        * split; cbn; [exact T1|exact He].
        * unfold child_chain. cbn [it_child]. destruct ch as [c|]; [apply chain_of_from; exact T3|constructor].
      + eapply IH; [exact Hrest| |exact H]. apply attach_from; [assumption|].
        cbn [set_close itag_from]. subst n. tauto.
    - cbn [orb] in H. apply Hsingle; [discriminate|exact H].
  Qed.
End Provenance.

(* ------------------------------------------------------------------ html_fold_wf *)
Theorem html_fold_wf o pos evs :
  events_ordered 0 evs ->
  match_go o pos [] evs = hd_error (outward_go o pos [] evs) /\
  Forall (contains_pos pos) (outward_go o pos [] evs) /\
  strictly_nested (outward_go o pos [] evs) /\
  (forall l, inward_go o pos [] evs = Some l -> inward_nested l).
Proof.
  intros H. split; [apply match_go_hd_outward|].
  destruct (outward_go_nested o pos evs H) as [A B]. split; [exact A|]. split; [exact B|].
  intros l Hl. eapply (inward_go_nested o pos evs [] 0); [exact H|exact I|exact Hl].
Qed.
