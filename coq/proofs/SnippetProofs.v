(* C14: snippet resolution (emmet/markup/snippets.py) terminates: the cycle guard keyed on the
   snippet text bounds the nesting by the number of snippets (pigeonhole on the duplicate-free stack). *)
From Coq Require Import List NArith ZArith Bool Lia.
From Emmet Require Import lib.Base model.MarkupTokenizer model.MarkupParser model.MarkupConvert
     model.MarkupResolve proofs.AttrProofs.
From Emmet Require proofs.BemProofs proofs.LoremFill proofs.SafeFormat model.MarkupLorem.
Import ListNotations.

(* ------------------------------------------------------------------ one level of walk_resolve,
   with the recursive call for a nested snippet abstracted as [rec] *)
Section Level.
  Variable rec : list str -> list anode -> res (list anode).
  Variable cfg : mconfig.
  Variable stack : list str.

  Definition snippet_of (nm : option str) : option str :=
    match nm with
    | Some ((_ :: _) as name) =>
        match assoc_str name (mc_snippets cfg) with
        | Some ((_ :: _) as s) => if mem_str s stack then None else Some s
        | _ => None
        end
    | _ => None
    end.

  Fixpoint wnode (n : anode) : res (list anode) :=
    match n with
    | ANode nm v rp at_ ch sc =>
        let walk_kids :=
          (fix walk_kids (k : list anode) : res (list anode) :=
             match k with
             | [] => Ok []
             | c :: k' => let* a := wnode c in let* b := walk_kids k' in Ok (a ++ b)
             end) in
        match snippet_of nm with
        | None => let* kids := walk_kids ch in Ok [ANode nm v rp at_ kids sc]
        | Some s =>
            let* parsed := parse_abbr false (snippet_env cfg) (mc_max_repeat_snip cfg) s in
            let* resolved := rec (s :: stack) parsed in
            let tops := map (merge_into (mc_reverse_attrs cfg) n) resolved in
            match tops with
            | [] => Ok []
            | _ => let* kids := walk_kids ch in Ok (attach_deepest tops kids)
            end
        end
    end.

  Fixpoint wkids (k : list anode) : res (list anode) :=
    match k with
    | [] => Ok []
    | c :: k' => let* a := wnode c in let* b := wkids k' in Ok (a ++ b)
    end.

  Fixpoint wlist (l : list anode) : res (list anode) :=
    match l with
    | [] => Ok []
    | child :: rest => let* here := wnode child in let* others := wlist rest in Ok (here ++ others)
    end.
End Level.

(* the model's walk_resolve is exactly this level function applied to itself with less fuel *)
Lemma walk_resolve_unfold : forall f cfg stack l,
  walk_resolve (S f) cfg stack l = wlist (walk_resolve f cfg) cfg stack l.
Proof. intros. induction l as [|c r IH]; reflexivity. Qed.

Section AnodeInd.
  Variable P : anode -> Prop.
  Hypothesis H : forall nm v rp at_ ch sc, Forall P ch -> P (ANode nm v rp at_ ch sc).
  Fixpoint anode_ind' (n : anode) : P n :=
    match n with
    | ANode nm v rp at_ ch sc =>
        H nm v rp at_ ch sc
          ((fix go (l : list anode) : Forall P l :=
              match l with
              | [] => Forall_nil P
              | x :: r => Forall_cons x (anode_ind' x) (go r)
              end) ch)
    end.
End AnodeInd.

Lemma bind_oof {A B} : forall (r : res A) (f : A -> res B),
  bind r f = OutOfFuel -> r = OutOfFuel \/ exists a, r = Ok a /\ f a = OutOfFuel.
Proof. intros r f H. destruct r; simpl in H; try discriminate; [right; eauto|left; reflexivity]. Qed.

Lemma bind_no_oof {A B} : forall (r : res A) (f : A -> res B),
  r <> OutOfFuel -> (forall a, r = Ok a -> f a <> OutOfFuel) -> bind r f <> OutOfFuel.
Proof.
  intros r f H1 H2 H. apply bind_oof in H. destruct H as [H|[a [Ha Hf]]]; [contradiction|]. exact (H2 a Ha Hf).
Qed.

Lemma wnode_eq : forall rec cfg stack nm v rp at_ ch sc,
  wnode rec cfg stack (ANode nm v rp at_ ch sc) =
  match snippet_of cfg stack nm with
  | None => let* kids := wkids rec cfg stack ch in Ok [ANode nm v rp at_ kids sc]
  | Some s =>
      let* parsed := parse_abbr false (snippet_env cfg) (mc_max_repeat_snip cfg) s in
      let* resolved := rec (s :: stack) parsed in
      let tops := map (merge_into (mc_reverse_attrs cfg) (ANode nm v rp at_ ch sc)) resolved in
      match tops with
      | [] => Ok []
      | _ => let* kids := wkids rec cfg stack ch in Ok (attach_deepest tops kids)
      end
  end.
Proof. intros. reflexivity. Qed.

(* values of the snippet table *)
Definition snippet_values (cfg : mconfig) : list str := map snd (mc_snippets cfg).

Lemma assoc_str_in {A} : forall k (l : list (str * A)) v, assoc_str k l = Some v -> In v (map snd l).
Proof.
  induction l as [|[k' v'] l IH]; simpl; intros v H; [discriminate|].
  destruct (str_eqb k k'); [inversion H; left; reflexivity|right; apply IH; exact H].
Qed.

Lemma snippet_of_some : forall cfg stack nm s,
  snippet_of cfg stack nm = Some s -> In s (snippet_values cfg) /\ ~ In s stack.
Proof.
  intros cfg stack nm s H. unfold snippet_of in H.
  destruct nm as [[|c name]|]; try discriminate.
  destruct (assoc_str (c :: name) (mc_snippets cfg)) as [[|c' s']|] eqn:E; try discriminate.
  destruct (mem_str (c' :: s') stack) eqn:M; [discriminate|].
  inversion H; subst. split.
  - eapply assoc_str_in. exact E.
  - apply mem_str_not_In. exact M.
Qed.

Section NoOOF.
  Variable rec : list str -> list anode -> res (list anode).
  Variable cfg : mconfig.
  Variable stack : list str.
  Hypothesis Hparse : forall s, parse_abbr false (snippet_env cfg) (mc_max_repeat_snip cfg) s <> OutOfFuel.
  Hypothesis Hrec : forall s parsed, In s (snippet_values cfg) -> ~ In s stack -> rec (s :: stack) parsed <> OutOfFuel.

  Lemma wkids_no_oof : forall ch, Forall (fun n => wnode rec cfg stack n <> OutOfFuel) ch ->
    wkids rec cfg stack ch <> OutOfFuel.
  Proof.
    induction ch as [|c k IH]; intro F; simpl; [discriminate|].
    inversion F; subst. apply bind_no_oof; [assumption|]. intros a _.
    apply bind_no_oof; [apply IH; assumption|]. intros; discriminate.
  Qed.

  Lemma wnode_no_oof : forall n, wnode rec cfg stack n <> OutOfFuel.
  Proof.
    apply anode_ind'. intros nm v rp at_ ch sc F. rewrite wnode_eq.
    destruct (snippet_of cfg stack nm) as [s|] eqn:E.
    - apply snippet_of_some in E. destruct E as [E1 E2].
      apply bind_no_oof; [apply Hparse|]. intros parsed _.
      apply bind_no_oof; [apply Hrec; assumption|]. intros resolved _.
      cbv zeta. destruct (map _ resolved); [discriminate|].
      apply bind_no_oof; [apply wkids_no_oof; exact F|]. intros; discriminate.
    - apply bind_no_oof; [apply wkids_no_oof; exact F|]. intros; discriminate.
  Qed.

  Lemma wlist_no_oof : forall l, wlist rec cfg stack l <> OutOfFuel.
  Proof.
    induction l as [|c r IH]; simpl; [discriminate|].
    apply bind_no_oof; [apply wnode_no_oof|]. intros a _.
    apply bind_no_oof; [exact IH|]. intros; discriminate.
  Qed.
End NoOOF.

(* pigeonhole: a duplicate-free stack of snippet values is no longer than the table *)
Lemma stack_bound : forall (stack vals : list str), NoDup stack -> incl stack vals -> length stack <= length vals.
Proof. intros. apply NoDup_incl_length; assumption. Qed.

Theorem walk_resolve_no_oof_gen : forall cfg,
  (forall s, parse_abbr false (snippet_env cfg) (mc_max_repeat_snip cfg) s <> OutOfFuel) ->
  forall fuel stack l,
    NoDup stack -> incl stack (snippet_values cfg) ->
    length (snippet_values cfg) < fuel + length stack ->
    walk_resolve fuel cfg stack l <> OutOfFuel.
Proof.
  intros cfg Hparse. induction fuel as [|f IH]; intros stack l ND INC LEN.
  - pose proof (stack_bound _ _ ND INC). simpl in LEN. lia.
  - rewrite walk_resolve_unfold. apply wlist_no_oof; [exact Hparse|].
    intros s parsed Hin Hnot. apply IH.
    + constructor; assumption.
    + intros x [Hx|Hx]; [subst; exact Hin|apply INC; exact Hx].
    + simpl. lia.
Qed.

(* ------------------------------------------------------------------ parsing a snippet never runs
   out of fuel: tokenize/parse are fuel-free, convert only propagates OutOfFuel *)
Ltac crush_no_oof :=
  repeat match goal with
         | |- context [match ?x with _ => _ end] => destruct x
         | |- context [if ?x then _ else _] => destruct x
         end; try discriminate.

Lemma get_text_at_no_oof : forall env pos st, get_text_at env pos st <> OutOfFuel.
Proof. intros. unfold get_text_at. crush_no_oof. Qed.

Lemma stringify_no_oof : forall env t st, stringify env t st <> OutOfFuel.
Proof.
  intros. unfold stringify. destruct (tk t); try (crush_no_oof; fail).
  apply get_text_at_no_oof.
Qed.

Lemma stringify_name_no_oof : forall env toks st, stringify_name env toks st <> OutOfFuel.
Proof.
  induction toks as [|t r IH]; intro st; simpl; [discriminate|].
  pose proof (stringify_no_oof env t st) as H.
  destruct (stringify env t st) as [[s st1]| | |]; try discriminate; [|contradiction].
  pose proof (IH st1) as H2.
  destruct (stringify_name env r st1) as [[s' st2]| | |]; try discriminate. contradiction.
Qed.

Lemma stringify_value_acc_no_oof : forall env toks accum st, stringify_value_acc env toks accum st <> OutOfFuel.
Proof.
  induction toks as [|t r IH]; intros accum st; simpl; [discriminate|].
  assert (G : forall acc', match stringify env t st with
               | Ok (s, st1) => stringify_value_acc env r (Some (acc' s)) st1
               | ParseErr k p => ParseErr k p | Internal k => Internal k | OutOfFuel => OutOfFuel
               end <> OutOfFuel).
  { intro acc'. pose proof (stringify_no_oof env t st) as H.
    destruct (stringify env t st) as [[s st1]| | |]; try discriminate; [apply IH|contradiction]. }
  destruct (tk t) eqn:E; try (apply (G (fun s => match accum with Some a => a ++ s | None => s end))).
  destruct index as [i|]; [|apply (G (fun s => match accum with Some a => a ++ s | None => s end))].
  pose proof (IH None st) as H.
  destruct (stringify_value_acc env r None st) as [[l st']| | |]; try discriminate. contradiction.
Qed.

Lemma convert_attribute_no_oof : forall env a st, convert_attribute env a st <> OutOfFuel.
Proof.
  intros. unfold convert_attribute.
  apply bind_no_oof.
  - destruct (nonempty (ta_name a)); [|discriminate].
    pose proof (stringify_name_no_oof env l st) as H.
    destruct (stringify_name env l st) as [[s st']| | |]; try discriminate. contradiction.
  - intros [name0 st1] _.
    destruct (match name0 with Some (_ :: _ as n) => _ | _ => _ end) as [[name boolean] implied].
    destruct (nonempty (ta_value a)); [|discriminate].
    destruct (match l with [] => _ | _ => _ end) as [toks' vtype].
    apply bind_no_oof; [apply stringify_value_acc_no_oof|]. intros [v st2] _. discriminate.
Qed.

Lemma convert_attributes_no_oof : forall env l st, convert_attributes env l st <> OutOfFuel.
Proof.
  induction l as [|a r IH]; intro st; simpl; [discriminate|].
  apply bind_no_oof; [apply convert_attribute_no_oof|]. intros [a' st1] _.
  apply bind_no_oof; [apply IH|]. intros [r' st2] _. discriminate.
Qed.

Section TnodeInd.
  Variable P : tnode -> Prop.
  Hypothesis HE : forall a b c d e els, Forall P els -> P (TElem a b c d e els).
  Hypothesis HG : forall els rp, Forall P els -> P (TGroup els rp).
  Fixpoint tnode_ind' (n : tnode) : P n :=
    let go := (fix go (l : list tnode) : Forall P l :=
                 match l with
                 | [] => Forall_nil P
                 | x :: r => Forall_cons x (tnode_ind' x) (go r)
                 end) in
    match n with
    | TElem a b c d e els => HE a b c d e els (go els)
    | TGroup els rp => HG els rp (go els)
    end.
End TnodeInd.

(* the inner list loop of conv_stmt *)
Definition clist (env : cenv) : list tnode -> cst -> res (list anode * cst) :=
  fix conv_list (l : list tnode) (st : cst) : res (list anode * cst) :=
    match l with
    | [] => Ok ([], st)
    | c :: l' =>
        let* (a, s1) := conv_stmt env c st in
        let* (b, s2) := conv_list l' s1 in
        Ok (a ++ b, s2)
    end.

Definition once_of (env : cenv) (node : tnode) (cur_rep : option rep) (st : cst) : res (list anode * cst) :=
  match node with
  | TGroup els _ =>
      let* (items, st1) := clist env els st in
      Ok (match cur_rep with Some r => attach_repeater items r | None => items end, st1)
  | TElem name attrs value _ self_close els =>
      let* (nm, st1) :=
         match nonempty name with
         | Some toks => let* (s, s') := stringify_name env toks st in Ok (Some s, s')
         | None => Ok (None, st)
         end in
      let* (val, st2) :=
         match nonempty value with
         | Some toks => let* (v, s') := stringify_value env toks st1 in Ok (Some v, s')
         | None => Ok (None, st1)
         end in
      let* (kids, st3) := clist env els st2 in
      let* (ats, st4) :=
         match nonempty attrs with
         | Some l => let* (l', s') := convert_attributes env l st3 in Ok (Some l', s')
         | None => Ok (None, st3)
         end in
      let text_only :=
        match nm, ats, val with
        | None, None, Some ((_ :: _) as v) => negb (existsb is_vfield v)
        | Some [], None, Some ((_ :: _) as v) => negb (existsb is_vfield v)
        | _, _, _ => false
        end in
      if text_only
      then Ok (ANode nm val cur_rep ats [] self_close :: kids, st4)
      else Ok ([ANode nm val cur_rep ats kids self_close], st4)
  end.

Definition iter_of (env : cenv) (once : option rep -> cst -> res (list anode * cst)) (r0 : rep) (count : N)
  : nat -> N -> list anode -> cst -> res (list anode * cst) :=
  fix iter (k : nat) (i : N) (acc : list anode) (st : cst) : res (list anode * cst) :=
    match k with
    | O => Ok (acc, st)
    | S k' =>
        if (i <? count)%N then
          let st1 := set_top_value i st in
          let* (items, st2) := once (Some (mkRep count i (rimplicit r0))) st1 in
          let* (items', st3) :=
             if rimplicit r0 && negb (cs_inserted st2) then
               match last_opt items with
               | Some _ =>
                   let* (txt, s') := get_text_at env (Some i) st2 in
                   Ok (on_last_deepest (fun n => insert_text n txt) items, s')
               | None => Ok (items, st2)
               end
             else Ok (items, st2) in
          let st4 := dec_guard st3 in
          if (cs_guard st4 <=? 0)%Z then Ok (acc ++ items', st4)
          else iter k' (i + 1)%N (acc ++ items') st4
        else Ok (acc, st)
    end.

Definition node_rep_of (node : tnode) : option rep :=
  match node with TElem _ _ _ r _ _ => r | TGroup _ r => r end.

Lemma conv_stmt_eq : forall env node st,
  conv_stmt env node st =
  match node_rep_of node with
  | None => once_of env node None st
  | Some r0 =>
      let count : N :=
        match rimplicit r0, ce_text env with
        | true, WList _ => N.of_nat (length (clean_text (ce_text env)))
        | _, _ => if (rcount r0 =? 0)%N then 1%N else rcount r0
        end in
      let rp := mkRep count (rvalue r0) (rimplicit r0) in
      let st0 := push_rep rp st in
      let rounds := N.to_nat (N.min count (Z.to_N (Z.max (cs_guard st0) 1))) in
      let* (result, st_end) := iter_of env (once_of env node) r0 count rounds 0%N [] st0 in
      let st' := pop_rep st_end in
      Ok (result, if rimplicit r0 then set_inserted st' else st')
  end.
Proof. intros env node st. destruct node; reflexivity. Qed.

Lemma clist_no_oof : forall env els,
  Forall (fun c => forall st, conv_stmt env c st <> OutOfFuel) els -> forall st, clist env els st <> OutOfFuel.
Proof.
  induction els as [|c r IH]; intros F st; [discriminate|].
  inversion F; subst.
  change (clist env (c :: r) st) with
    (let* (a, s1) := conv_stmt env c st in let* (b, s2) := clist env r s1 in Ok (a ++ b, s2)).
  apply bind_no_oof; [auto|]. intros [a s1] _.
  apply bind_no_oof; [apply IH; assumption|]. intros [b s2] _. discriminate.
Qed.

Lemma once_no_oof : forall env node,
  (forall st, clist env (elements_of node) st <> OutOfFuel) ->
  forall cr st, once_of env node cr st <> OutOfFuel.
Proof.
  intros env node H cr st. destruct node as [name attrs value rp sc els|els rp]; simpl in H; unfold once_of.
  - apply bind_no_oof.
    { destruct (nonempty name); [|discriminate].
      apply bind_no_oof; [apply stringify_name_no_oof|]. intros [s s'] _. discriminate. }
    intros [nm st1] _. apply bind_no_oof.
    { destruct (nonempty value); [|discriminate].
      apply bind_no_oof; [apply stringify_value_acc_no_oof|]. intros [v s'] _. discriminate. }
    intros [val st2] _. apply bind_no_oof; [apply H|].
    intros [kids st3] _. apply bind_no_oof.
    { destruct (nonempty attrs); [|discriminate].
      apply bind_no_oof; [apply convert_attributes_no_oof|]. intros [l' s'] _. discriminate. }
    intros [ats st4] _. cbv zeta.
    destruct (match nm with Some [] => _ | _ => _ end); discriminate.
  - apply bind_no_oof; [apply H|]. intros [items st1] _. discriminate.
Qed.

Lemma iter_no_oof : forall env once r0 count,
  (forall cr st, once cr st <> OutOfFuel) ->
  forall k i acc st, iter_of env once r0 count k i acc st <> OutOfFuel.
Proof.
  intros env once r0 count H. induction k as [|k IH]; intros i acc st; [discriminate|].
  change (iter_of env once r0 count (S k) i acc st) with
    (if (i <? count)%N then
       let st1 := set_top_value i st in
       let* (items, st2) := once (Some (mkRep count i (rimplicit r0))) st1 in
       let* (items', st3) :=
          if rimplicit r0 && negb (cs_inserted st2) then
            match last_opt items with
            | Some _ =>
                let* (txt, s') := get_text_at env (Some i) st2 in
                Ok (on_last_deepest (fun n => insert_text n txt) items, s')
            | None => Ok (items, st2)
            end
          else Ok (items, st2) in
       let st4 := dec_guard st3 in
       if (cs_guard st4 <=? 0)%Z then Ok (acc ++ items', st4)
       else iter_of env once r0 count k (i + 1)%N (acc ++ items') st4
     else Ok (acc, st)).
  destruct (i <? count)%N; [|discriminate]. cbv zeta.
  apply bind_no_oof; [apply H|]. intros [items st2] _.
  apply bind_no_oof.
  { destruct (rimplicit r0 && negb (cs_inserted st2)); [|discriminate].
    destruct (last_opt items); [|discriminate].
    apply bind_no_oof; [apply get_text_at_no_oof|]. intros [txt s'] _. discriminate. }
  intros [items' st3] _.
  destruct (cs_guard (dec_guard st3) <=? 0)%Z; [discriminate|apply IH].
Qed.

Lemma conv_stmt_no_oof : forall env node st, conv_stmt env node st <> OutOfFuel.
Proof.
  intros env node. apply (tnode_ind' (fun node => forall st, conv_stmt env node st <> OutOfFuel)); clear node.
  - intros a b c d e els F st. rewrite conv_stmt_eq.
    assert (O : forall cr st, once_of env (TElem a b c d e els) cr st <> OutOfFuel)
      by (apply once_no_oof; simpl; apply clist_no_oof; exact F).
    destruct (node_rep_of (TElem a b c d e els)); [|apply O].
    cbv zeta. apply bind_no_oof; [apply iter_no_oof; exact O|]. intros [result st_end] _. discriminate.
  - intros els rp F st. rewrite conv_stmt_eq.
    assert (O : forall cr st, once_of env (TGroup els rp) cr st <> OutOfFuel)
      by (apply once_no_oof; simpl; apply clist_no_oof; exact F).
    destruct (node_rep_of (TGroup els rp)); [|apply O].
    cbv zeta. apply bind_no_oof; [apply iter_no_oof; exact O|]. intros [result st_end] _. discriminate.
Qed.

Lemma conv_list_no_oof : forall env l st, conv_list env l st <> OutOfFuel.
Proof.
  induction l as [|c r IH]; intro st; simpl; [discriminate|].
  apply bind_no_oof; [apply conv_stmt_no_oof|]. intros [a s1] _.
  apply bind_no_oof; [apply IH|]. intros [b s2] _. discriminate.
Qed.

Lemma convert_no_oof : forall env mr root, convert env mr root <> OutOfFuel.
Proof.
  intros. unfold convert. apply bind_no_oof; [apply conv_list_no_oof|]. intros [children st] _.
  crush_no_oof.
Qed.

Lemma parse_abbr_no_oof : forall jsx env mr s, parse_abbr jsx env mr s <> OutOfFuel.
Proof.
  intros. unfold parse_abbr. destruct (tokenize s); [|discriminate].
  destruct (parse jsx l); [apply convert_no_oof|discriminate].
Qed.

(* ------------------------------------------------------------------ C14 theorems *)
(* resolution never runs out of fuel once the fuel exceeds the number of snippets not yet on the stack *)
Theorem walk_resolve_no_oof : forall cfg fuel stack l,
  NoDup stack -> incl stack (snippet_values cfg) ->
  length (snippet_values cfg) < fuel + length stack ->
  walk_resolve fuel cfg stack l <> OutOfFuel.
Proof. intros cfg. apply walk_resolve_no_oof_gen. intro s. apply parse_abbr_no_oof. Qed.

(* the fuel markup_parse supplies, for every table (self-referencing, mutually recursive, ...) *)
Theorem resolve_terminates : forall (cfg : mconfig) (l : list anode),
  walk_resolve (S (length (mc_snippets cfg))) cfg [] l <> OutOfFuel.
Proof.
  intros. apply walk_resolve_no_oof; [constructor|intros x []|].
  unfold snippet_values. rewrite map_length. simpl. lia.
Qed.

(* markup_parse runs out of fuel only inside the lorem pass, when the oracle stream of the configuration ran out
   (snippet resolution never does; without a lorem node the oracle is not consulted) *)
Theorem markup_parse_terminates : forall (cfg : mconfig) (abbr : str),
  markup_parse cfg abbr = OutOfFuel ->
  exists resolved, MarkupResolve.lorem_fill_list resolved (mc_draws cfg) = MarkupLorem.LExhausted.
Proof.
  intros cfg abbr. unfold markup_parse.
  pose proof (parse_abbr_no_oof (mc_jsx cfg) (mkCenv (mc_text cfg) (mc_variables cfg) (mc_href cfg)) (mc_max_repeat cfg) abbr) as HP.
  destruct (parse_abbr _ _ _ abbr) as [tree|k p| |]; cbn [bind]; try discriminate; [|contradiction].
  pose proof (resolve_terminates cfg tree) as HR.
  destruct (walk_resolve _ cfg [] tree) as [resolved|k p| |]; cbn [bind]; try discriminate; [|contradiction].
  (* the transform pass: lorem draws (LoremFill), then the rest, BEM addon included (BemProofs) *)
  pose proof (SafeFormat.transform_total cfg resolved) as HT. intros E. rewrite E in HT. exists resolved. exact HT.
Qed.

(* ------------------------------------------------------------------ nesting depth: fuel counts the
   nesting of snippets (it is decremented exactly when a definition is entered), so "more fuel changes
   nothing" is "the nesting never reaches the fuel" *)
Lemma bind_congr {A B} : forall (r1 r2 : res A) (f1 f2 : A -> res B),
  bind r1 f1 <> OutOfFuel ->
  (r1 <> OutOfFuel -> r2 = r1) ->
  (forall a, r1 = Ok a -> f1 a <> OutOfFuel -> f2 a = f1 a) ->
  bind r2 f2 = bind r1 f1.
Proof.
  intros r1 r2 f1 f2 H Hr Hf. destruct r1 as [a| | |]; simpl in *.
  - rewrite Hr by discriminate. simpl. apply Hf; [reflexivity|exact H].
  - rewrite Hr by discriminate. reflexivity.
  - rewrite Hr by discriminate. reflexivity.
  - contradiction.
Qed.

Section Mono.
  Variable rec1 rec2 : list str -> list anode -> res (list anode).
  Variable cfg : mconfig.
  Variable stack : list str.
  Hypothesis Hrec : forall stk l, rec1 stk l <> OutOfFuel -> rec2 stk l = rec1 stk l.

  Lemma wkids_mono : forall ch,
    Forall (fun n => wnode rec1 cfg stack n <> OutOfFuel -> wnode rec2 cfg stack n = wnode rec1 cfg stack n) ch ->
    wkids rec1 cfg stack ch <> OutOfFuel -> wkids rec2 cfg stack ch = wkids rec1 cfg stack ch.
  Proof.
    induction ch as [|c k IH]; intros F H; [reflexivity|]. inversion F as [|? ? Fc Fk]; subst. simpl in *.
    apply bind_congr; [exact H|exact Fc|]. intros a Ha Hb.
    apply bind_congr; [exact Hb|apply IH; assumption|]. intros; reflexivity.
  Qed.

  Lemma wnode_mono : forall n, wnode rec1 cfg stack n <> OutOfFuel -> wnode rec2 cfg stack n = wnode rec1 cfg stack n.
  Proof.
    apply (anode_ind' (fun n => wnode rec1 cfg stack n <> OutOfFuel -> wnode rec2 cfg stack n = wnode rec1 cfg stack n)).
    intros nm v rp at_ ch sc F. rewrite !wnode_eq.
    destruct (snippet_of cfg stack nm) as [s|]; intro H.
    - apply bind_congr; [exact H|reflexivity|]. intros parsed _ H2.
      apply bind_congr; [exact H2|apply Hrec|]. intros resolved _ H3. cbv zeta in *.
      destruct (map _ resolved); [reflexivity|].
      apply bind_congr; [exact H3|apply wkids_mono; exact F|]. intros; reflexivity.
    - apply bind_congr; [exact H|apply wkids_mono; exact F|]. intros; reflexivity.
  Qed.

  Lemma wlist_mono : forall l, wlist rec1 cfg stack l <> OutOfFuel -> wlist rec2 cfg stack l = wlist rec1 cfg stack l.
  Proof.
    induction l as [|c r IH]; intro H; [reflexivity|]. simpl in *.
    apply bind_congr; [exact H|apply wnode_mono|]. intros a _ H2.
    apply bind_congr; [exact H2|exact IH|]. intros; reflexivity.
  Qed.
End Mono.

Theorem walk_resolve_mono : forall cfg f stack l,
  walk_resolve f cfg stack l <> OutOfFuel ->
  forall f', f <= f' -> walk_resolve f' cfg stack l = walk_resolve f cfg stack l.
Proof.
  intros cfg. induction f as [|f IH]; intros stack l H f' LE; [exfalso; apply H; reflexivity|].
  destruct f' as [|f']; [lia|]. rewrite !walk_resolve_unfold in *.
  apply wlist_mono; [|exact H]. intros stk l0 H0. apply IH; [exact H0|lia].
Qed.

(* nesting is never deeper than the number of snippets: any larger fuel gives the same result *)
Theorem resolve_depth : forall (cfg : mconfig) (l : list anode) (fuel : nat),
  S (length (mc_snippets cfg)) <= fuel ->
  walk_resolve fuel cfg [] l = walk_resolve (S (length (mc_snippets cfg))) cfg [] l.
Proof. intros. apply walk_resolve_mono; [apply resolve_terminates|assumption]. Qed.

(* ------------------------------------------------------------------ alias = definition with the alias data merged in *)
Lemma wkids_wlist : forall rec cfg stack l, wkids rec cfg stack l = wlist rec cfg stack l.
Proof. induction l as [|c r IH]; simpl; [reflexivity|]. rewrite IH. reflexivity. Qed.

Lemma bind_ok_app_nil {A} : forall (r : res (list A)),
  (let* here := r in let* others := Ok [] in Ok (here ++ others)) = r.
Proof. intros [a| | |]; simpl; [rewrite app_nil_r|..]; reflexivity. Qed.

(* what the resolver puts in place of an alias node [n] whose name has the definition [s]:
   the definition's forest, resolved with [s] on the guard stack, every top-level node merged with the
   alias (attributes appended -- prepended under reverseAttributes --, value / repeater / self-closing
   mark of the alias override), the alias' own (resolved) children under the deepest last node *)
Theorem alias_merge : forall f cfg stack nm v rp at_ ch sc s,
  snippet_of cfg stack nm = Some s ->
  walk_resolve (S f) cfg stack [ANode nm v rp at_ ch sc] =
  let* parsed := parse_abbr false (snippet_env cfg) (mc_max_repeat_snip cfg) s in
  let* resolved := walk_resolve f cfg (s :: stack) parsed in
  let tops := map (merge_into (mc_reverse_attrs cfg) (ANode nm v rp at_ ch sc)) resolved in
  match tops with
  | [] => Ok []
  | _ :: _ => let* kids := walk_resolve (S f) cfg stack ch in Ok (attach_deepest tops kids)
  end.
Proof.
  intros f cfg stack nm v rp at_ ch sc s E.
  rewrite !walk_resolve_unfold.
  change (wlist (walk_resolve f cfg) cfg stack [ANode nm v rp at_ ch sc])
    with (let* here := wnode (walk_resolve f cfg) cfg stack (ANode nm v rp at_ ch sc) in
          let* others := Ok [] in Ok (here ++ others)).
  rewrite bind_ok_app_nil, wnode_eq, E, wkids_wlist. reflexivity.
Qed.

(* a node that is not an alias (no snippet, or its definition is being resolved) stays, its children are resolved *)
Theorem non_alias_kept : forall f cfg stack nm v rp at_ ch sc,
  snippet_of cfg stack nm = None ->
  walk_resolve (S f) cfg stack [ANode nm v rp at_ ch sc] =
  let* kids := walk_resolve (S f) cfg stack ch in Ok [ANode nm v rp at_ kids sc].
Proof.
  intros f cfg stack nm v rp at_ ch sc E.
  rewrite !walk_resolve_unfold.
  change (wlist (walk_resolve f cfg) cfg stack [ANode nm v rp at_ ch sc])
    with (let* here := wnode (walk_resolve f cfg) cfg stack (ANode nm v rp at_ ch sc) in
          let* others := Ok [] in Ok (here ++ others)).
  rewrite bind_ok_app_nil, wnode_eq, E, wkids_wlist. reflexivity.
Qed.

(* merging a bare alias (no attributes, value, repeater, children, self-closing mark) changes nothing *)
Lemma merge_into_bare : forall rv nm top, merge_into rv (ANode nm None None None [] false) top = top.
Proof. intros rv nm [n v rp at_ ch sc]. reflexivity. Qed.

Lemma map_id_ext {A} : forall (f : A -> A) l, (forall x, f x = x) -> map f l = l.
Proof. intros f l H. induction l; simpl; [reflexivity|]. rewrite H, IHl. reflexivity. Qed.

Lemma on_deepest_id : forall f, (forall n, f n = n) -> forall n, on_deepest f n = n.
Proof.
  intros f Hf. apply anode_ind'. intros nm v rp at_ ch sc F.
  simpl. destruct (rev ch) eqn:E; [apply Hf|]. f_equal.
  clear E. induction ch as [|x r IH]; [reflexivity|].
  inversion F; subst. destruct r as [|y r']; [rewrite H1; reflexivity|].
  rewrite IH by assumption. reflexivity.
Qed.

Lemma drop_last_last {A} : forall (l : list A) x, last_opt l = Some x -> drop_last l ++ [x] = l.
Proof.
  intros l x H. unfold last_opt in H. destruct (rev l) as [|y r] eqn:E; [discriminate|]. inversion H; subst y.
  assert (L : l = rev r ++ [x]) by (rewrite <- (rev_involutive l), E; reflexivity).
  unfold drop_last. rewrite L, app_length. simpl.
  replace (length (rev r) + 1 - 1) with (length (rev r)) by lia.
  rewrite firstn_app, firstn_all, Nat.sub_diag. simpl. rewrite app_nil_r. reflexivity.
Qed.

Lemma attach_deepest_nil : forall l, attach_deepest l [] = l.
Proof.
  intro l. unfold attach_deepest, on_last_deepest. destruct (last_opt l) as [x|] eqn:E; [|reflexivity].
  rewrite on_deepest_id; [apply drop_last_last; exact E|].
  intros [nm v rp at_ ch sc]. simpl. rewrite app_nil_r. reflexivity.
Qed.

(* a bare snippet name resolves to exactly what its definition resolves to in its place *)
Theorem alias_bare_eq_definition : forall f cfg stack nm s,
  snippet_of cfg stack nm = Some s ->
  walk_resolve (S f) cfg stack [ANode nm None None None [] false] =
  let* parsed := parse_abbr false (snippet_env cfg) (mc_max_repeat_snip cfg) s in
  walk_resolve f cfg (s :: stack) parsed.
Proof.
  intros f cfg stack nm s E. rewrite (alias_merge f cfg stack nm None None None [] false s E).
  destruct (parse_abbr false (snippet_env cfg) (mc_max_repeat_snip cfg) s) as [parsed| | |]; try reflexivity.
  simpl. destruct (walk_resolve f cfg (s :: stack) parsed) as [resolved| | |]; try reflexivity.
  simpl. rewrite map_id_ext by (intro; apply merge_into_bare).
  destruct resolved as [|r0 rs]; [reflexivity|].
  simpl. rewrite attach_deepest_nil. reflexivity.
Qed.
