(* C14: the decorated alias against the definition DECORATED BEFORE RESOLUTION.

   SnippetAcyclic.v relates the decorated alias to the definition resolved in place and then decorated.
   Here the decoration is moved onto the parsed definition itself, which is what "the definition
   written in place of the alias, with the attributes on each of its top-level elements / the child under
   its deepest element" denotes as a tree:
     resolve [k + attributes]  = resolve (definition forest with the attributes on every top-level node)
     resolve [k * repeater]    = resolve (definition forest with the repeater on every top-level node)
     resolve [k {text}], [k/]  likewise
     resolve [k > children]    = resolve (definition forest with the children appended below find_deepest)
   the last one under the side condition the code imposes: no node on the last-child chain of the
   definition resolves to nothing (then the alias keeps the children on the previous node, the
   definition in place loses them). *)
From Coq Require Import List NArith ZArith Bool Lia.
From Emmet Require Import lib.Base model.MarkupTokenizer model.MarkupParser model.MarkupConvert
     model.MarkupResolve proofs.AttrProofs proofs.SnippetProofs proofs.SnippetAcyclic.
Import ListNotations.

(* ------------------------------------------------------------------ decorations that touch no children *)
Section FieldOnly.
  Variable cfg : mconfig.
  Variable g : anode -> anode.
  Hypothesis Hg_name : forall n, an_name (g n) = an_name n.
  Hypothesis Hg_children : forall n, an_children (g n) = an_children n.
  Hypothesis Hg_set : forall n ch, g (set_children n ch) = set_children (g n) ch.
  Hypothesis Hg_merge : forall n top, merge_into (mc_reverse_attrs cfg) (g n) top = g (merge_into (mc_reverse_attrs cfg) n top).

  Lemma set_children_self : forall n, set_children n (an_children n) = n.
  Proof. intros [nm v rp at_ ch sc]. reflexivity. Qed.

  Lemma g_on_deepest : forall f, (forall m, g (f m) = f (g m)) -> forall n, g (on_deepest f n) = on_deepest f (g n).
  Proof.
    intros f Hf n. destruct n as [nm v rp at_ ch sc].
    pose proof (Hg_children (ANode nm v rp at_ ch sc)) as Hc. cbn [an_children] in Hc.
    destruct (g (ANode nm v rp at_ ch sc)) as [nm' v' rp' at' ch' sc'] eqn:E. cbn [an_children] in Hc. subst ch'.
    cbn [on_deepest]. destruct (rev ch) eqn:R.
    - rewrite <- E. apply Hf.
    - set (ch2 := (fix go (l : list anode) : list anode :=
                     match l with [] => [] | [x] => [on_deepest f x] | x :: (_ :: _) as l' => x :: go l' end) ch).
      change (ANode nm v rp at_ ch2 sc) with (set_children (ANode nm v rp at_ ch sc) ch2).
      rewrite Hg_set, E. reflexivity.
  Qed.

  Lemma g_attach : forall tops kids, map g (attach_deepest tops kids) = attach_deepest (map g tops) kids.
  Proof.
    intros tops kids. unfold attach_deepest, on_last_deepest.
    assert (HL : last_opt (map g tops) = option_map g (last_opt tops)).
    { unfold last_opt. rewrite <- map_rev. destruct (rev tops); reflexivity. }
    rewrite HL. destruct (last_opt tops) as [l|] eqn:E; [|reflexivity]. cbn [option_map].
    rewrite map_app. cbn [map]. f_equal.
    - unfold drop_last. rewrite map_length, firstn_map. reflexivity.
    - f_equal. apply g_on_deepest. intros m. rewrite Hg_set, Hg_children. reflexivity.
  Qed.

  Section Level.
    Variable rec : list str -> list anode -> res (list anode).
    Variable st : list str.

    Lemma wnode_g : forall n,
      wnode rec cfg st (g n) = let* r := wnode rec cfg st n in Ok (map g r).
    Proof.
      intros n. destruct n as [nm v rp at_ ch sc].
      pose proof (Hg_children (ANode nm v rp at_ ch sc)) as Hc. pose proof (Hg_name (ANode nm v rp at_ ch sc)) as Hn.
      destruct (g (ANode nm v rp at_ ch sc)) as [nm' v' rp' at' ch' sc'] eqn:E. cbn [an_children an_name] in Hc, Hn. subst ch' nm'.
      rewrite !wnode_eq. destruct (snippet_of cfg st nm) as [s|].
      - destruct (parse_abbr false (snippet_env cfg) (mc_max_repeat_snip cfg) s) as [parsed| | |]; try reflexivity. cbn [bind].
        destruct (rec (s :: st) parsed) as [resolved| | |]; try reflexivity. cbn [bind]. cbv zeta.
        rewrite <- E.
        rewrite (map_ext_all (merge_into (mc_reverse_attrs cfg) (g (ANode nm v rp at_ ch sc)))
                             (fun top => g (merge_into (mc_reverse_attrs cfg) (ANode nm v rp at_ ch sc) top)) resolved)
          by (intro; apply Hg_merge).
        rewrite <- (map_map (merge_into (mc_reverse_attrs cfg) (ANode nm v rp at_ ch sc)) g).
        destruct (map (merge_into (mc_reverse_attrs cfg) (ANode nm v rp at_ ch sc)) resolved) as [|t0 ts] eqn:ET; [reflexivity|].
        cbn [map]. destruct (wkids rec cfg st ch) as [kids| | |]; try reflexivity. cbn [bind].
        rewrite g_attach. reflexivity.
      - destruct (wkids rec cfg st ch) as [kids| | |]; try reflexivity. cbn [bind map].
        change (ANode nm v rp at_ kids sc) with (set_children (ANode nm v rp at_ ch sc) kids).
        rewrite Hg_set, E. reflexivity.
    Qed.

    Lemma wlist_g : forall l, wlist rec cfg st (map g l) = let* r := wlist rec cfg st l in Ok (map g r).
    Proof.
      induction l as [|n l IH]; [reflexivity|]. cbn [map wlist]. rewrite wnode_g, IH.
      destruct (wnode rec cfg st n) as [a| | |]; try reflexivity. cbn [bind].
      destruct (wlist rec cfg st l) as [b| | |]; try reflexivity. cbn [bind]. rewrite map_app. reflexivity.
    Qed.
  End Level.

  (* resolving a forest whose top-level nodes are decorated = decorating the resolved forest *)
  Theorem walk_resolve_g : forall f st l,
    walk_resolve (S f) cfg st (map g l) = let* r := walk_resolve (S f) cfg st l in Ok (map g r).
  Proof. intros. rewrite !walk_resolve_unfold. apply wlist_g. Qed.
End FieldOnly.

(* ------------------------------------------------------------------ the four field decorations qualify *)
Lemma add_attrs_merge : forall rv a X n top,
  merge_into rv (add_attrs rv (a :: X) n) top = add_attrs rv (a :: X) (merge_into rv n top).
Proof.
  intros rv a X [nm v rp at_ ch sc] [nm2 v2 rp2 at2 ch2 sc2].
  unfold add_attrs, merge_into. cbn [an_attrs an_value an_repeat an_self].
  destruct rv; destruct at_ as [[|b l]|]; cbn [app nonempty]; f_equal; f_equal.
  all: try reflexivity.
  - rewrite app_nil_r. reflexivity.
  - f_equal. rewrite <- app_assoc. reflexivity.
  - rewrite app_nil_r. reflexivity.
  - rewrite <- app_assoc. reflexivity.
Qed.

Lemma set_repeat_merge : forall rv r n top, merge_into rv (set_repeat r n) top = set_repeat r (merge_into rv n top).
Proof. intros rv r [nm v rp at_ ch sc] [nm2 v2 rp2 at2 ch2 sc2]. reflexivity. Qed.
Lemma set_value_merge : forall rv x n top, merge_into rv (set_value x n) top = set_value x (merge_into rv n top).
Proof. intros rv x [nm v rp at_ ch sc] [nm2 v2 rp2 at2 ch2 sc2]. reflexivity. Qed.
Lemma set_self_merge : forall rv n top, merge_into rv (set_self n) top = set_self (merge_into rv n top).
Proof. intros rv [nm v rp at_ ch sc] [nm2 v2 rp2 at2 ch2 sc2]. reflexivity. Qed.

Theorem resolve_add_attrs : forall cfg f st a X l,
  walk_resolve (S f) cfg st (map (add_attrs (mc_reverse_attrs cfg) (a :: X)) l) =
  let* r := walk_resolve (S f) cfg st l in Ok (map (add_attrs (mc_reverse_attrs cfg) (a :: X)) r).
Proof.
  intros. apply walk_resolve_g.
  - intros [nm v rp at_ ch sc]. reflexivity.
  - intros [nm v rp at_ ch sc]. reflexivity.
  - intros [nm v rp at_ ch sc] c. reflexivity.
  - intros. apply add_attrs_merge.
Qed.

Theorem resolve_set_repeat : forall cfg f st r l,
  walk_resolve (S f) cfg st (map (set_repeat r) l) = let* x := walk_resolve (S f) cfg st l in Ok (map (set_repeat r) x).
Proof.
  intros. apply walk_resolve_g.
  - intros [nm v rp at_ ch sc]. reflexivity.
  - intros [nm v rp at_ ch sc]. reflexivity.
  - intros [nm v rp at_ ch sc] c. reflexivity.
  - intros. apply set_repeat_merge.
Qed.

Theorem resolve_set_value : forall cfg f st x l,
  walk_resolve (S f) cfg st (map (set_value x) l) = let* r := walk_resolve (S f) cfg st l in Ok (map (set_value x) r).
Proof.
  intros. apply walk_resolve_g.
  - intros [nm v rp at_ ch sc]. reflexivity.
  - intros [nm v rp at_ ch sc]. reflexivity.
  - intros [nm v rp at_ ch sc] c. reflexivity.
  - intros. apply set_value_merge.
Qed.

Theorem resolve_set_self : forall cfg f st l,
  walk_resolve (S f) cfg st (map set_self l) = let* r := walk_resolve (S f) cfg st l in Ok (map set_self r).
Proof.
  intros. apply walk_resolve_g.
  - intros [nm v rp at_ ch sc]. reflexivity.
  - intros [nm v rp at_ ch sc]. reflexivity.
  - intros [nm v rp at_ ch sc] c. reflexivity.
  - intros. apply set_self_merge.
Qed.

(* ------------------------------------------------------------------ alias + decoration = the parsed
   definition with the decoration on each top-level node, resolved in place *)
Theorem alias_attributes_pre : forall cfg k d D a X,
  def_of cfg (Some k) = Some d -> self_free cfg d = true -> parse_def cfg d = Ok D ->
  walk_resolve (full_fuel cfg) cfg [] [ANode (Some k) None None (Some (a :: X)) [] false] =
  walk_resolve (full_fuel cfg) cfg [] (map (add_attrs (mc_reverse_attrs cfg) (a :: X)) D).
Proof.
  intros cfg k d D a X Hd Hsf EP. rewrite (alias_attributes cfg k d a X Hd Hsf).
  unfold resolve_def. rewrite EP. cbn [bind]. unfold full_fuel. rewrite resolve_add_attrs. reflexivity.
Qed.

Theorem alias_repeat_pre : forall cfg k d D r,
  def_of cfg (Some k) = Some d -> self_free cfg d = true -> parse_def cfg d = Ok D ->
  walk_resolve (full_fuel cfg) cfg [] [ANode (Some k) None (Some r) None [] false] =
  walk_resolve (full_fuel cfg) cfg [] (map (set_repeat r) D).
Proof.
  intros cfg k d D r Hd Hsf EP. rewrite (alias_repeat cfg k d r Hd Hsf).
  unfold resolve_def. rewrite EP. cbn [bind]. unfold full_fuel. rewrite resolve_set_repeat. reflexivity.
Qed.

Theorem alias_text_pre : forall cfg k d D x,
  def_of cfg (Some k) = Some d -> self_free cfg d = true -> parse_def cfg d = Ok D ->
  walk_resolve (full_fuel cfg) cfg [] [ANode (Some k) (Some x) None None [] false] =
  walk_resolve (full_fuel cfg) cfg [] (map (set_value x) D).
Proof.
  intros cfg k d D x Hd Hsf EP. rewrite (alias_text cfg k d x Hd Hsf).
  unfold resolve_def. rewrite EP. cbn [bind]. unfold full_fuel. rewrite resolve_set_value. reflexivity.
Qed.

Theorem alias_self_closing_pre : forall cfg k d D,
  def_of cfg (Some k) = Some d -> self_free cfg d = true -> parse_def cfg d = Ok D ->
  walk_resolve (full_fuel cfg) cfg [] [ANode (Some k) None None None [] true] =
  walk_resolve (full_fuel cfg) cfg [] (map set_self D).
Proof.
  intros cfg k d D Hd Hsf EP. rewrite (alias_self_closing cfg k d Hd Hsf).
  unfold resolve_def. rewrite EP. cbn [bind]. unfold full_fuel. rewrite resolve_set_self. reflexivity.
Qed.

(* ================================================================== children *)
(* ------------------------------------------------------------------ list / on_deepest facts *)
Lemma last_opt_snoc {A} : forall (pre : list A) n, last_opt (pre ++ [n]) = Some n.
Proof. intros. unfold last_opt. rewrite rev_app_distr. reflexivity. Qed.

Lemma drop_last_snoc {A} : forall (pre : list A) n, drop_last (pre ++ [n]) = pre.
Proof.
  intros. unfold drop_last. rewrite app_length. cbn [length].
  replace (length pre + 1 - 1) with (length pre) by lia.
  rewrite firstn_app, firstn_all, Nat.sub_diag. cbn [firstn]. apply app_nil_r.
Qed.

Lemma snoc_cases {A} : forall l : list A, l = [] \/ exists pre n, l = pre ++ [n].
Proof.
  intro l. destruct l as [|x l]; [left; reflexivity|right].
  destruct (exists_last (l := x :: l) ltac:(discriminate)) as [pre [n E]]. exists pre, n. exact E.
Qed.

Lemma on_last_deepest_snoc : forall f pre n, on_last_deepest f (pre ++ [n]) = pre ++ [on_deepest f n].
Proof. intros. unfold on_last_deepest. rewrite last_opt_snoc, drop_last_snoc. reflexivity. Qed.

Lemma on_last_deepest_app : forall f a b, b <> [] -> on_last_deepest f (a ++ b) = a ++ on_last_deepest f b.
Proof.
  intros f a b Hb. destruct (snoc_cases b) as [->|[pre [n ->]]]; [contradiction|].
  rewrite app_assoc, !on_last_deepest_snoc, app_assoc. reflexivity.
Qed.

Lemma on_deepest_leaf : forall f nm v rp at_ sc,
  on_deepest f (ANode nm v rp at_ [] sc) = f (ANode nm v rp at_ [] sc).
Proof. reflexivity. Qed.

Lemma on_deepest_node : forall f nm v rp at_ ch sc, ch <> [] ->
  on_deepest f (ANode nm v rp at_ ch sc) = ANode nm v rp at_ (on_last_deepest f ch) sc.
Proof.
  intros f nm v rp at_ ch sc Hc. destruct (snoc_cases ch) as [->|[pre [x ->]]]; [contradiction|].
  cbn [on_deepest]. rewrite rev_app_distr. cbn [rev app]. f_equal. rewrite on_last_deepest_snoc.
  clear Hc. induction pre as [|p pre IH]; [reflexivity|].
  cbn [app]. destruct (pre ++ [x]) as [|y r] eqn:E; [destruct pre; discriminate|].
  rewrite IH. reflexivity.
Qed.

Definition Fk (X : list anode) : anode -> anode := fun m => set_children m (an_children m ++ X).

Lemma attach_deepest_Fk : forall l X, attach_deepest l X = on_last_deepest (Fk X) l.
Proof. reflexivity. Qed.

Lemma attach_deepest_empty : forall X, attach_deepest [] X = [].
Proof. reflexivity. Qed.

Lemma attach_deepest_app : forall a b X, b <> [] -> attach_deepest (a ++ b) X = a ++ attach_deepest b X.
Proof. intros. rewrite !attach_deepest_Fk. apply on_last_deepest_app. assumption. Qed.

Lemma on_last_deepest_nonempty : forall f l, l <> [] -> on_last_deepest f l <> [].
Proof.
  intros f l H. destruct (snoc_cases l) as [->|[pre [n ->]]]; [contradiction|].
  rewrite on_last_deepest_snoc. intro E. destruct pre; discriminate.
Qed.

(* hanging K below what was hung below: one hanging of the combined forest *)
Lemma on_deepest_attach_assoc : forall R K, R <> [] -> forall n,
  on_deepest (Fk K) (on_deepest (Fk R) n) = on_deepest (Fk (attach_deepest R K)) n.
Proof.
  intros R K HR. apply anode_ind'. intros nm v rp at_ ch sc F.
  destruct (snoc_cases ch) as [->|[pre [x ->]]].
  - rewrite !on_deepest_leaf. unfold Fk at 2 3. cbn [set_children an_children app].
    rewrite (on_deepest_node _ nm v rp at_ R sc HR). reflexivity.
  - assert (Hne : pre ++ [x] <> []) by (intro E; destruct pre; discriminate).
    rewrite (on_deepest_node (Fk R) nm v rp at_ _ sc Hne), (on_deepest_node (Fk (attach_deepest R K)) nm v rp at_ _ sc Hne).
    rewrite !on_last_deepest_snoc.
    assert (Hne2 : pre ++ [on_deepest (Fk R) x] <> []) by (intro E; destruct pre; discriminate).
    rewrite (on_deepest_node (Fk K) nm v rp at_ _ sc Hne2), on_last_deepest_snoc.
    apply Forall_app in F. destruct F as [_ Fx]. inversion Fx as [|? ? Hx _]; subst. rewrite Hx. reflexivity.
Qed.

Lemma attach_assoc : forall tops R K, R <> [] ->
  attach_deepest (attach_deepest tops R) K = attach_deepest tops (attach_deepest R K).
Proof.
  intros tops R K HR. destruct (snoc_cases tops) as [->|[pre [n ->]]]; [reflexivity|].
  rewrite !attach_deepest_Fk, !on_last_deepest_snoc. rewrite on_deepest_attach_assoc by exact HR. reflexivity.
Qed.

Lemma merge_into_set_children : forall rv n c top, merge_into rv (set_children n c) top = merge_into rv n top.
Proof. intros rv [nm v rp at_ ch sc] c [nm2 v2 rp2 at2 ch2 sc2]. reflexivity. Qed.

(* ------------------------------------------------------------------ the side condition of the code:
   every node on the last-child chain (the last node of the forest, the last child of it, ...) resolves
   to a non-empty forest.  An alias whose definition resolves to nothing vanishes: the alias form keeps the
   children on the previous node, the definition written in place loses them. *)
Section Live.
  Variable cfg : mconfig.
  Variable f : nat.
  Variable st : list str.
  Let W := walk_resolve (S f) cfg st.

  Inductive live : list anode -> Prop :=
  | live_end : forall pre n R, W [n] = Ok R -> R <> [] -> an_children n = [] -> live (pre ++ [n])
  | live_down : forall pre n R, W [n] = Ok R -> R <> [] -> an_children n <> [] -> live (an_children n) -> live (pre ++ [n]).

  Lemma W_snoc : forall pre n R, W (pre ++ [n]) = Ok R ->
    exists Rp Rn, W pre = Ok Rp /\ W [n] = Ok Rn /\ R = Rp ++ Rn.
  Proof.
    intros pre n R H. unfold W in *. rewrite walk_resolve_app in H.
    destruct (walk_resolve (S f) cfg st pre) as [Rp| | |]; try discriminate. cbn [bind] in H.
    destruct (walk_resolve (S f) cfg st [n]) as [Rn| | |]; try discriminate. cbn [bind] in H.
    inversion H. exists Rp, Rn. repeat split.
  Qed.

  Lemma live_nonempty : forall l, live l -> forall R, W l = Ok R -> R <> [].
  Proof.
    intros l H. destruct H as [pre n Rn Hn Hne _|pre n Rn Hn Hne _ _]; intros R HR;
      destruct (W_snoc pre n R HR) as [Rp [Rn' [_ [Hn' ->]]]]; rewrite Hn in Hn'; inversion Hn'; subst Rn';
      intro E; apply app_eq_nil in E; destruct E as [_ E]; contradiction.
  Qed.

  (* one node whose children are replaced *)
  Lemma W_node_children : forall nm v rp at_ ch ch' sc R K K',
    W [ANode nm v rp at_ ch sc] = Ok R -> R <> [] -> W ch = Ok K -> W ch' = Ok K' ->
    exists base : list anode -> list anode,
      R = base K /\ W [ANode nm v rp at_ ch' sc] = Ok (base K') /\
      ((base = fun kids => [ANode nm v rp at_ kids sc]) \/ (exists tops, tops <> [] /\ base = attach_deepest tops)).
  Proof.
    intros nm v rp at_ ch ch' sc R K K' HR Hne HK HK'. unfold W in *.
    destruct (snippet_of cfg st nm) as [s|] eqn:E.
    - rewrite (alias_merge f cfg st nm v rp at_ ch sc s E) in HR.
      rewrite (alias_merge f cfg st nm v rp at_ ch' sc s E).
      destruct (parse_abbr false (snippet_env cfg) (mc_max_repeat_snip cfg) s) as [parsed| | |]; try discriminate. cbn [bind] in *.
      destruct (walk_resolve f cfg (s :: st) parsed) as [resolved| | |]; try discriminate. cbn [bind] in *. cbv zeta in *.
      assert (ET : map (merge_into (mc_reverse_attrs cfg) (ANode nm v rp at_ ch' sc)) resolved =
                   map (merge_into (mc_reverse_attrs cfg) (ANode nm v rp at_ ch sc)) resolved).
      { apply map_ext_all. intro top.
        change (ANode nm v rp at_ ch' sc) with (set_children (ANode nm v rp at_ ch sc) ch').
        apply merge_into_set_children. }
      rewrite ET. destruct (map (merge_into (mc_reverse_attrs cfg) (ANode nm v rp at_ ch sc)) resolved) as [|t0 ts] eqn:ETs.
      + inversion HR. subst R. contradiction.
      + rewrite HK in HR. rewrite HK'. cbn [bind] in *. inversion HR.
        exists (attach_deepest (t0 :: ts)). split; [reflexivity|]. split; [reflexivity|].
        right. exists (t0 :: ts). split; [discriminate|reflexivity].
    - rewrite (non_alias_kept f cfg st nm v rp at_ ch sc E) in HR.
      rewrite (non_alias_kept f cfg st nm v rp at_ ch' sc E).
      rewrite HK in HR. rewrite HK'. cbn [bind] in *. inversion HR.
      exists (fun kids => [ANode nm v rp at_ kids sc]). split; [reflexivity|]. split; [reflexivity|]. left. reflexivity.
  Qed.

  Lemma W_nil : W [] = Ok [].
  Proof. reflexivity. Qed.

  (* resolution commutes with hanging a forest below find_deepest, along a live chain *)
  Theorem attach_resolve : forall D, live D -> forall R X K,
    W D = Ok R -> W X = Ok K -> W (attach_deepest D X) = Ok (attach_deepest R K).
  Proof.
    intros D HL. induction HL as [pre n Rn Hn Hne Hc|pre n Rn Hn Hne Hc HLc IH]; intros R X K HR HX;
      destruct (W_snoc pre n R HR) as [Rp [Rn' [Hp [Hn' ->]]]]; rewrite Hn in Hn'; inversion Hn'; subst Rn'; clear Hn';
      rewrite attach_deepest_Fk, on_last_deepest_snoc; unfold W; rewrite walk_resolve_app; fold W; rewrite Hp; cbn [bind];
      rewrite (attach_deepest_app Rp Rn K Hne); destruct n as [nm v rp at_ ch sc]; cbn [an_children] in Hc.
    - subst ch. rewrite on_deepest_leaf. unfold Fk. cbn [set_children an_children app].
      destruct (W_node_children nm v rp at_ [] X sc Rn [] K Hn Hne W_nil HX)
        as [base [E1 [E2 [->|[tops [Ht ->]]]]]]; rewrite E2; cbn [bind]; subst Rn.
      + reflexivity.
      + rewrite attach_deepest_nil. reflexivity.
    - rewrite (on_deepest_node (Fk X) nm v rp at_ ch sc Hc). rewrite <- attach_deepest_Fk.
      (* the children of n resolve (n resolves to something) *)
      assert (HK0 : exists Rc, W ch = Ok Rc).
      { unfold W in Hn |- *. destruct (snippet_of cfg st nm) as [s|] eqn:E.
        - rewrite (alias_merge f cfg st nm v rp at_ ch sc s E) in Hn.
          destruct (parse_abbr false (snippet_env cfg) (mc_max_repeat_snip cfg) s) as [parsed| | |]; try discriminate. cbn [bind] in Hn.
          destruct (walk_resolve f cfg (s :: st) parsed) as [resolved| | |]; try discriminate. cbn [bind] in Hn. cbv zeta in Hn.
          destruct (map (merge_into (mc_reverse_attrs cfg) (ANode nm v rp at_ ch sc)) resolved) as [|t0 ts].
          + inversion Hn. subst Rn. contradiction.
          + destruct (walk_resolve (S f) cfg st ch) as [Rc| | |]; try discriminate. exists Rc. reflexivity.
        - rewrite (non_alias_kept f cfg st nm v rp at_ ch sc E) in Hn.
          destruct (walk_resolve (S f) cfg st ch) as [Rc| | |]; try discriminate. exists Rc. reflexivity. }
      destruct HK0 as [Rc HRc]. cbn [an_children] in IH, HLc.
      pose proof (live_nonempty ch HLc Rc HRc) as HRcne.
      pose proof (IH Rc X K HRc HX) as HI.
      destruct (W_node_children nm v rp at_ ch (attach_deepest ch X) sc Rn Rc (attach_deepest Rc K) Hn Hne HRc HI)
        as [base [E1 [E2 [->|[tops [Ht ->]]]]]]; rewrite E2; cbn [bind]; subst Rn.
      + f_equal. f_equal.
        rewrite (attach_deepest_Fk [ANode nm v rp at_ Rc sc] K). change [ANode nm v rp at_ Rc sc] with ([] ++ [ANode nm v rp at_ Rc sc]).
        rewrite on_last_deepest_snoc. cbn [app]. rewrite (on_deepest_node (Fk K) nm v rp at_ Rc sc HRcne). reflexivity.
      + rewrite (attach_assoc tops Rc K HRcne). reflexivity.
  Qed.
End Live.

(* ------------------------------------------------------------------ `k>children` = the parsed definition
   with the children hung below its deepest element, resolved in place *)
Theorem alias_children_pre : forall cfg k d D ch R K,
  def_of cfg (Some k) = Some d -> self_free cfg d = true -> parse_def cfg d = Ok D ->
  live cfg (length (mc_snippets cfg)) [] D ->
  walk_resolve (full_fuel cfg) cfg [] D = Ok R -> walk_resolve (full_fuel cfg) cfg [] ch = Ok K ->
  walk_resolve (full_fuel cfg) cfg [] [ANode (Some k) None None None ch false] =
  walk_resolve (full_fuel cfg) cfg [] (attach_deepest D ch).
Proof.
  intros cfg k d D ch R K Hd Hsf EP HL HR HK.
  rewrite (alias_children cfg k d ch Hd Hsf). unfold resolve_def. rewrite EP. cbn [bind]. rewrite HR. cbn [bind].
  unfold full_fuel in *.
  pose proof (live_nonempty cfg _ [] D HL R HR) as Hne.
  rewrite (attach_resolve cfg _ [] D HL R ch K HR HK). rewrite HK. cbn [bind].
  destruct R; [contradiction|reflexivity].
Qed.

(* the usual case: no alias on the last-child chain of the definition (it "ends with elements") *)
Inductive plain_chain (cfg : mconfig) (st : list str) : list anode -> Prop :=
| pc_end : forall pre nm v rp at_ sc,
    snippet_of cfg st nm = None -> plain_chain cfg st (pre ++ [ANode nm v rp at_ [] sc])
| pc_down : forall pre nm v rp at_ ch sc,
    snippet_of cfg st nm = None -> ch <> [] -> plain_chain cfg st ch -> plain_chain cfg st (pre ++ [ANode nm v rp at_ ch sc]).

Lemma live_of_plain : forall cfg f st D, plain_chain cfg st D ->
  forall R, walk_resolve (S f) cfg st D = Ok R -> live cfg f st D.
Proof.
  intros cfg f st D H. induction H as [pre nm v rp at_ sc E|pre nm v rp at_ ch sc E Hc _ IH]; intros R HR;
    destruct (W_snoc cfg f st pre _ R HR) as [Rp [Rn [_ [Hn _]]]];
    pose proof Hn as Hn2; rewrite (non_alias_kept f cfg st nm v rp at_ _ sc E) in Hn2.
  - cbn in Hn2. inversion Hn2. eapply live_end; [exact Hn|subst; discriminate|reflexivity].
  - destruct (walk_resolve (S f) cfg st ch) as [kids| | |] eqn:EK; try discriminate. cbn [bind] in Hn2. inversion Hn2.
    eapply live_down; [exact Hn|subst; discriminate|exact Hc|exact (IH kids eq_refl)].
Qed.

(* why the side condition: k = `p>e`, e = `()` (resolves to nothing): `k>b` puts b into p, `p>e>b` loses it *)
Definition void_cfg : mconfig :=
  mkMConfig [104;116;109;108]%N [([101]%N, [40;41]%N); ([107]%N, [112;62;101]%N)] [] WNone None None false None [] false false
            false [] [] None.
Example dead_chain_differs :
  self_free void_cfg [112;62;101]%N = true /\
  exists D t1 t2, parse_def void_cfg [112;62;101]%N = Ok D /\
    walk_resolve (full_fuel void_cfg) void_cfg [] [ANode (Some [107]%N) None None None [ANode (Some [98]%N) None None None [] false] false] = Ok t1 /\
    walk_resolve (full_fuel void_cfg) void_cfg [] (attach_deepest D [ANode (Some [98]%N) None None None [] false]) = Ok t2 /\
    t1 <> t2.
Proof.
  split; [vm_compute; reflexivity|].
  eexists. eexists. eexists. split; [vm_compute; reflexivity|]. split; [vm_compute; reflexivity|]. split; [vm_compute; reflexivity|].
  intro H. discriminate H.
Qed.

Corollary alias_children_pre_plain : forall cfg k d D ch R K,
  def_of cfg (Some k) = Some d -> self_free cfg d = true -> parse_def cfg d = Ok D ->
  plain_chain cfg [] D ->
  walk_resolve (full_fuel cfg) cfg [] D = Ok R -> walk_resolve (full_fuel cfg) cfg [] ch = Ok K ->
  walk_resolve (full_fuel cfg) cfg [] [ANode (Some k) None None None ch false] =
  walk_resolve (full_fuel cfg) cfg [] (attach_deepest D ch).
Proof.
  intros cfg k d D ch R K Hd Hsf EP HP HR HK.
  apply (alias_children_pre cfg k d D ch R K Hd Hsf EP); try assumption.
  exact (live_of_plain cfg _ [] D HP R HR).
Qed.
