(* C14: the decorated alias against the definition DECORATED BEFORE RESOLUTION.

   SnippetAcyclic.v relates the decorated alias to the definition resolved in place and then decorated.
   Here the decoration is moved onto the parsed definition itself, which is what "the definition
   written in place of the alias, with the attributes on each of its top-level elements / the child under
   its deepest element" denotes as a tree:
     resolve [k + attributes]  = resolve (definition forest with the attributes on every top-level node)
     resolve [k * repeater]    = resolve (definition forest with the repeater on every top-level node)
     resolve [k {text}], [k/]  likewise
     resolve [k > children]    = resolve (definition forest with the children appended below find_deepest)
   the last one under the side condition the code imposes: no node on the last-child chain of the
   definition resolves to nothing (then the alias keeps the children on the previous node, the
   definition in place loses them). *)
From Coq Require Import List NArith ZArith Bool Lia.
From Emmet Require Import lib.Base model.MarkupTokenizer model.MarkupParser model.MarkupConvert
     model.MarkupResolve proofs.AttrProofs proofs.SnippetProofs proofs.SnippetAcyclic.
Import ListNotations.

(* ------------------------------------------------------------------ decorations that touch no children *)
Section FieldOnly.
  Variable cfg : mconfig.
  Variable g : anode -> anode.
  Hypothesis Hg_name : forall n, an_name (g n) = an_name n.
  Hypothesis Hg_children : forall n, an_children (g n) = an_children n.
  Hypothesis Hg_set : forall n ch, g (set_children n ch) = set_children (g n) ch.
  Hypothesis Hg_merge : forall n top, merge_into (mc_reverse_attrs cfg) (g n) top = g (merge_into (mc_reverse_attrs cfg) n top).

  Lemma set_children_self : forall n, set_children n (an_children n) = n.
  Proof. intros [nm v rp at_ ch sc]. reflexivity. Qed.

  Lemma g_on_deepest : forall f, (forall m, g (f m) = f (g m)) -> forall n, g (on_deepest f n) = on_deepest f (g n).
  Proof.
    intros f Hf n. destruct n as [nm v rp at_ ch sc].
    pose proof (Hg_children (ANode nm v rp at_ ch sc)) as Hc. cbn [an_children] in Hc.
    destruct (g (ANode nm v rp at_ ch sc)) as [nm' v' rp' at' ch' sc'] eqn:E. cbn [an_children] in Hc. subst ch'.
    cbn [on_deepest]. destruct (rev ch) eqn:R.
    - rewrite <- E. apply Hf.
    - set (ch2 := (fix go (l : list anode) : list anode :=
                     match l with [] => [] | [x] => [on_deepest f x] | x :: (_ :: _) as l' => x :: go l' end) ch).
      change (ANode nm v rp at_ ch2 sc) with (set_children (ANode nm v rp at_ ch sc) ch2).
      rewrite Hg_set, E. reflexivity.
  Qed.

  Lemma g_attach : forall tops kids, map g (attach_deepest tops kids) = attach_deepest (map g tops) kids.
  Proof.
    intros tops kids. unfold attach_deepest, on_last_deepest.
    assert (HL : last_opt (map g tops) = option_map g (last_opt tops)).
    { unfold last_opt. rewrite <- map_rev. destruct (rev tops); reflexivity. }
    rewrite HL. destruct (last_opt tops) as [l|] eqn:E; [|reflexivity]. cbn [option_map].
    rewrite map_app. cbn [map]. f_equal.
    - unfold drop_last. rewrite map_length, firstn_map. reflexivity.
    - f_equal. apply g_on_deepest. intros m. rewrite Hg_set, Hg_children. reflexivity.
  Qed.

  Section Level.
    Variable rec : list str -> list anode -> res (list anode).
    Variable st : list str.

    Lemma wnode_g : forall n,
      wnode rec cfg st (g n) = let* r := wnode rec cfg st n in Ok (map g r).
    Proof.
      intros n. destruct n as [nm v rp at_ ch sc].
      pose proof (Hg_children (ANode nm v rp at_ ch sc)) as Hc. pose proof (Hg_name (ANode nm v rp at_ ch sc)) as Hn.
      destruct (g (ANode nm v rp at_ ch sc)) as [nm' v' rp' at' ch' sc'] eqn:E. cbn [an_children an_name] in Hc, Hn. subst ch' nm'.
      rewrite !wnode_eq. destruct (snippet_of cfg st nm) as [s|].
      - destruct (parse_abbr false (snippet_env cfg) (mc_max_repeat_snip cfg) s) as [parsed| | |]; try reflexivity. cbn [bind].
        destruct (rec (s :: st) parsed) as [resolved| | |]; try reflexivity. cbn [bind]. cbv zeta.
        rewrite <- E.
        rewrite (map_ext_all (merge_into (mc_reverse_attrs cfg) (g (ANode nm v rp at_ ch sc)))
                             (fun top => g (merge_into (mc_reverse_attrs cfg) (ANode nm v rp at_ ch sc) top)) resolved)
          by (intro; apply Hg_merge).
        rewrite <- (map_map (merge_into (mc_reverse_attrs cfg) (ANode nm v rp at_ ch sc)) g).
        destruct (map (merge_into (mc_reverse_attrs cfg) (ANode nm v rp at_ ch sc)) resolved) as [|t0 ts] eqn:ET; [reflexivity|].
        cbn [map]. destruct (wkids rec cfg st ch) as [kids| | |]; try reflexivity. cbn [bind].
        rewrite g_attach. reflexivity.
      - destruct (wkids rec cfg st ch) as [kids| | |]; try reflexivity. cbn [bind map].
        change (ANode nm v rp at_ kids sc) with (set_children (ANode nm v rp at_ ch sc) kids).
        rewrite Hg_set, E. reflexivity.
    Qed.

    Lemma wlist_g : forall l, wlist rec cfg st (map g l) = let* r := wlist rec cfg st l in Ok (map g r).
    Proof.
      induction l as [|n l IH]; [reflexivity|]. cbn [map wlist]. rewrite wnode_g, IH.
      destruct (wnode rec cfg st n) as [a| | |]; try reflexivity. cbn [bind].
      destruct (wlist rec cfg st l) as [b| | |]; try reflexivity. cbn [bind]. rewrite map_app. reflexivity.
    Qed.
  End Level.

  (* resolving a forest whose top-level nodes are decorated = decorating the resolved forest *)
  Theorem walk_resolve_g : forall f st l,
    walk_resolve (S f) cfg st (map g l) = let* r := walk_resolve (S f) cfg st l in Ok (map g r).
  Proof. intros. rewrite !walk_resolve_unfold. apply wlist_g. Qed.
End FieldOnly.

(* ------------------------------------------------------------------ the four field decorations qualify *)
Lemma add_attrs_merge : forall rv a X n top,
  merge_into rv (add_attrs rv (a :: X) n) top = add_attrs rv (a :: X) (merge_into rv n top).
Proof.
  intros rv a X [nm v rp at_ ch sc] [nm2 v2 rp2 at2 ch2 sc2].
  unfold add_attrs, merge_into. cbn [an_attrs an_value an_repeat an_self].
  destruct rv; destruct at_ as [[|b l]|]; cbn [app nonempty]; f_equal; f_equal.
  all: try reflexivity.
  - rewrite app_nil_r. reflexivity.
  - f_equal. rewrite <- app_assoc. reflexivity.
  - rewrite app_nil_r. reflexivity.
  - rewrite <- app_assoc. reflexivity.
Qed.

Lemma set_repeat_merge : forall rv r n top, merge_into rv (set_repeat r n) top = set_repeat r (merge_into rv n top).
Proof. intros rv r [nm v rp at_ ch sc] [nm2 v2 rp2 at2 ch2 sc2]. reflexivity. Qed.
Lemma set_value_merge : forall rv x n top, merge_into rv (set_value x n) top = set_value x (merge_into rv n top).
Proof. intros rv x [nm v rp at_ ch sc] [nm2 v2 rp2 at2 ch2 sc2]. reflexivity. Qed.
Lemma set_self_merge : forall rv n top, merge_into rv (set_self n) top = set_self (merge_into rv n top).
Proof. intros rv [nm v rp at_ ch sc] [nm2 v2 rp2 at2 ch2 sc2]. reflexivity. Qed.

Theorem resolve_add_attrs : forall cfg f st a X l,
  walk_resolve (S f) cfg st (map (add_attrs (mc_reverse_attrs cfg) (a :: X)) l) =
  let* r := walk_resolve (S f) cfg st l in Ok (map (add_attrs (mc_reverse_attrs cfg) (a :: X)) r).
Proof.
  intros. apply walk_resolve_g.
  - intros [nm v rp at_ ch sc]. reflexivity.
  - intros [nm v rp at_ ch sc]. reflexivity.
  - intros [nm v rp at_ ch sc] c. reflexivity.
  - intros. apply add_attrs_merge.
Qed.

Theorem resolve_set_repeat : forall cfg f st r l,
  walk_resolve (S f) cfg st (map (set_repeat r) l) = let* x := walk_resolve (S f) cfg st l in Ok (map (set_repeat r) x).
Proof.
  intros. apply walk_resolve_g.
  - intros [nm v rp at_ ch sc]. reflexivity.
  - intros [nm v rp at_ ch sc]. reflexivity.
  - intros [nm v rp at_ ch sc] c. reflexivity.
  - intros. apply set_repeat_merge.
Qed.

Theorem resolve_set_value : forall cfg f st x l,
  walk_resolve (S f) cfg st (map (set_value x) l) = let* r := walk_resolve (S f) cfg st l in Ok (map (set_value x) r).
Proof.
  intros. apply walk_resolve_g.
  - intros [nm v rp at_ ch sc]. reflexivity.
  - intros [nm v rp at_ ch sc]. reflexivity.
  - intros [nm v rp at_ ch sc] c. reflexivity.
  - intros. apply set_value_merge.
Qed.

Theorem resolve_set_self : forall cfg f st l,
  walk_resolve (S f) cfg st (map set_self l) = let* r := walk_resolve (S f) cfg st l in Ok (map set_self r).
Proof.
  intros. apply walk_resolve_g.
  - intros [nm v rp at_ ch sc]. reflexivity.
  - intros [nm v rp at_ ch sc]. reflexivity.
  - intros [nm v rp at_ ch sc] c. reflexivity.
  - intros. apply set_self_merge.
Qed.

(* ------------------------------------------------------------------ alias + decoration = the parsed
   definition with the decoration on each top-level node, resolved in place *)
Theorem alias_attributes_pre : forall cfg k d D a X,
  def_of cfg (Some k) = Some d -> self_free cfg d = true -> parse_def cfg d = Ok D ->
  walk_resolve (full_fuel cfg) cfg [] [ANode (Some k) None None (Some (a :: X)) [] false] =
  walk_resolve (full_fuel cfg) cfg [] (map (add_attrs (mc_reverse_attrs cfg) (a :: X)) D).
Proof.
  intros cfg k d D a X Hd Hsf EP. rewrite (alias_attributes cfg k d a X Hd Hsf).
  unfold resolve_def. rewrite EP. cbn [bind]. unfold full_fuel. rewrite resolve_add_attrs. reflexivity.
Qed.

Theorem alias_repeat_pre : forall cfg k d D r,
  def_of cfg (Some k) = Some d -> self_free cfg d = true -> parse_def cfg d = Ok D ->
  walk_resolve (full_fuel cfg) cfg [] [ANode (Some k) None (Some r) None [] false] =
  walk_resolve (full_fuel cfg) cfg [] (map (set_repeat r) D).
Proof.
  intros cfg k d D r Hd Hsf EP. rewrite (alias_repeat cfg k d r Hd Hsf).
  unfold resolve_def. rewrite EP. cbn [bind]. unfold full_fuel. rewrite resolve_set_repeat. reflexivity.
Qed.

Theorem alias_text_pre : forall cfg k d D x,
  def_of cfg (Some k) = Some d -> self_free cfg d = true -> parse_def cfg d = Ok D ->
  walk_resolve (full_fuel cfg) cfg [] [ANode (Some k) (Some x) None None [] false] =
  walk_resolve (full_fuel cfg) cfg [] (map (set_value x) D).
Proof.
  intros cfg k d D x Hd Hsf EP. rewrite (alias_text cfg k d x Hd Hsf).
  unfold resolve_def. rewrite EP. cbn [bind]. unfold full_fuel. rewrite resolve_set_value. reflexivity.
Qed.

Theorem alias_self_closing_pre : forall cfg k d D,
  def_of cfg (Some k) = Some d -> self_free cfg d = true -> parse_def cfg d = Ok D ->
  walk_resolve (full_fuel cfg) cfg [] [ANode (Some k) None None None [] true] =
  walk_resolve (full_fuel cfg) cfg [] (map set_self D).
Proof.
  intros cfg k d D Hd Hsf EP. rewrite (alias_self_closing cfg k d Hd Hsf).
  unfold resolve_def. rewrite EP. cbn [bind]. unfold full_fuel. rewrite resolve_set_self. reflexivity.
Qed.
