(* The generator READS the stream left to right: whenever a function returns, it consumed a prefix of the stream, and
   on any other continuation of that prefix it returns the same value and leaves that continuation: the result depends
   only on the draws consumed.  Consequently an exhausted stream means exactly "more draws are needed": no
   extension-independent failure hides behind OutOfFuel. *)
From Coq Require Import ZArith List Bool Lia Arith.
From Emmet Require Import lib.Base gen.GenLorem model.MarkupTokenizer model.MarkupParser model.MarkupConvert
     model.MarkupLorem model.MarkupResolve proofs.SafeResolve proofs.LoremProofs proofs.LoremFill.
Import ListNotations.
Local Open Scope Z_scope.

Definition streams {A} (f : list Z -> lres A) : Prop :=
  forall s v r, f s = LOk v r -> exists used, s = used ++ r /\ forall x, f (used ++ x) = LOk v x.

Lemma streams_ret : forall A (a : A), streams (fun s => LOk a s).
Proof. intros A a s v r H. inversion H; subst. exists []. split; [reflexivity|]. intros x. reflexivity. Qed.

Lemma streams_fail : forall A (e : lres A), (forall v r, e <> LOk v r) -> streams (fun _ => e).
Proof. intros A e He s v r H. exfalso. exact (He v r H). Qed.

Lemma streams_bind : forall A B (f : list Z -> lres A) (g : A -> list Z -> lres B),
  streams f -> (forall a, streams (g a)) -> streams (fun s => lbind (f s) g).
Proof.
  intros A B f g Hf Hg s w r2 H. cbv beta in H.
  destruct (f s) as [a r1| | |k] eqn:Ef; try discriminate. cbn [lbind] in H.
  destruct (Hf s a r1 Ef) as [u1 [E1 F1]]. destruct (Hg a r1 w r2 H) as [u2 [E2 F2]].
  exists (u1 ++ u2). split; [rewrite <- app_assoc; congruence|].
  intros x. cbv beta. rewrite <- app_assoc. rewrite F1. cbn [lbind]. apply F2.
Qed.

Lemma streams_ext : forall A (f g : list Z -> lres A), (forall s, f s = g s) -> streams f -> streams g.
Proof.
  intros A f g E Hf s v r H. rewrite <- E in H. destruct (Hf s v r H) as [u [E1 F1]].
  exists u. split; [exact E1|]. intros x. rewrite <- E. apply F1.
Qed.

Lemma randint_streams : forall a b, streams (randint a b).
Proof.
  intros a b s v r H. unfold randint in *. destruct (b <? a); [discriminate|].
  destruct s as [|d s']; [discriminate|]. inversion H; subst. exists [d]. split; [reflexivity|]. intros x. reflexivity.
Qed.

Lemma sample_loop_streams : forall arr l iterations result, streams (sample_loop arr l iterations result).
Proof.
  intros arr l iterations result s. revert result. induction s as [|d s IH]; intros result v r H.
  - cbn [sample_loop] in H. destruct (zlen result <? iterations) eqn:E.
    + destruct (l - 1 <? 0); discriminate.
    + inversion H; subst. exists []. split; [reflexivity|]. intros x. cbn [app].
      destruct x; cbn [sample_loop]; rewrite E; reflexivity.
  - cbn [sample_loop] in H. destruct (zlen result <? iterations) eqn:E.
    + destruct (l - 1 <? 0) eqn:E2; [discriminate|].
      destruct (py_index arr (0 + d mod (l - 1 - 0 + 1))) as [item|] eqn:Ei; [|discriminate].
      destruct (IH _ v r H) as [u [E1 F1]]. exists (d :: u). split; [cbn [app]; congruence|].
      intros x. cbn [app sample_loop]. rewrite E, E2, Ei. apply F1.
    + inversion H; subst. exists []. split; [reflexivity|]. intros x. cbn [app].
      destruct x; cbn [sample_loop]; rewrite E; reflexivity.
Qed.

Lemma sample_streams : forall arr count, streams (sample arr count).
Proof. intros. unfold sample. apply sample_loop_streams. Qed.

Lemma choice_streams : forall val, streams (choice val).
Proof.
  intros val. unfold choice. apply streams_bind; [apply randint_streams|].
  intros i. destruct (py_index val i); [apply streams_ret|apply streams_fail; discriminate].
Qed.

Lemma sentence_streams : forall ws e, streams (sentence ws e).
Proof.
  intros ws e. unfold sentence.
  destruct (match ws with [] => Some [] | w :: r => match capitalize w with Some c => Some (c :: r) | None => None end end);
    [|apply streams_fail; discriminate].
  assert (H : streams (fun s => let+ c from s1 := choice lorem_sentence_ends s in LOk (join [c_space] l ++ [c]) s1)).
  { apply streams_bind; [apply choice_streams|]. intros c. apply streams_ret. }
  destruct e as [[|c e']|]; [exact H|apply streams_ret|exact H].
Qed.

Lemma commas_loop_streams : forall k l words, streams (commas_loop k l words).
Proof.
  induction k as [|k IH]; intros l words; [apply streams_ret|].
  cbn [commas_loop]. apply streams_bind; [apply randint_streams|]. intros pos.
  destruct (py_pos words pos) as [p|]; [|apply streams_fail; discriminate].
  destruct (nth_error words p) as [w|]; [|apply streams_fail; discriminate].
  destruct (py_index w (-1)) as [c|]; [|apply streams_fail; discriminate].
  apply IH.
Qed.

Lemma insert_commas_streams : forall words, streams (insert_commas words).
Proof.
  intros words. unfold insert_commas. destruct (zlen words <? 2); [apply streams_ret|].
  apply streams_bind; [|intros total; apply commas_loop_streams].
  destruct ((3 <? zlen words) && (zlen words <=? 6)); [apply randint_streams|].
  destruct ((6 <? zlen words) && (zlen words <=? 12)); apply randint_streams.
Qed.

Lemma para_loop_streams : forall fuel db wc total result, streams (para_loop fuel db wc total result).
Proof.
  induction fuel as [|f IH]; intros db wc total result.
  - cbn [para_loop]. destruct (total <? wc); [apply streams_fail; discriminate|apply streams_ret].
  - cbn [para_loop]. destruct (total <? wc); [|apply streams_ret].
    apply streams_bind; [apply randint_streams|]. intros r.
    apply streams_bind; [apply sample_streams|]. intros words.
    apply streams_bind; [apply insert_commas_streams|]. intros ws.
    apply streams_bind; [apply sentence_streams|]. intros sent. apply IH.
Qed.

(* more fuel never changes a result other than LFuel *)
Lemma para_loop_fuel_mono : forall f f' db wc total result s, (f <= f')%nat ->
  para_loop f db wc total result s <> LFuel -> para_loop f' db wc total result s = para_loop f db wc total result s.
Proof.
  induction f as [|f IH]; intros f' db wc total result s Hle H.
  - cbn [para_loop] in *. destruct (total <? wc) eqn:E; [contradiction|].
    destruct f'; cbn [para_loop]; rewrite E; reflexivity.
  - destruct f' as [|f']; [lia|]. cbn [para_loop] in *. destruct (total <? wc); [|reflexivity].
    destruct (randint 2 30 s) as [a s1| | |]; try reflexivity. cbn [lbind] in *.
    destruct (sample (snd db) (Z.min a (wc - total)) s1) as [words s2| | |]; try reflexivity. cbn [lbind] in *.
    destruct (insert_commas words s2) as [ws s3| | |]; try reflexivity. cbn [lbind] in *.
    destruct (sentence ws None s3) as [sent s4| | |]; try reflexivity. cbn [lbind] in *.
    apply IH; [lia|exact H].
Qed.

Lemma paragraph_streams : forall fuel db wc common, streams (paragraph fuel db wc common).
Proof.
  intros fuel db wc common. unfold paragraph.
  destruct (if common then fst db else None) as [cm|]; [|apply para_loop_streams].
  apply streams_bind; [apply insert_commas_streams|]. intros ws.
  apply streams_bind; [apply sentence_streams|]. intros sent. apply para_loop_streams.
Qed.

Lemma paragraph_fuel_mono : forall f f' db wc common s, (f <= f')%nat ->
  paragraph f db wc common s <> LFuel -> paragraph f' db wc common s = paragraph f db wc common s.
Proof.
  intros f f' db wc common s Hle H. unfold paragraph in *.
  destruct (if common then fst db else None) as [cm|]; [|apply para_loop_fuel_mono; assumption].
  destruct (insert_commas (py_prefix cm wc) s) as [ws s1| | |]; try reflexivity. cbn [lbind] in *.
  destruct (sentence ws (Some c_dot_str) s1) as [sent s2| | |]; try reflexivity. cbn [lbind] in *.
  apply para_loop_fuel_mono; assumption.
Qed.

(* any fuel above the length of the stream gives the result of any other such fuel *)
Lemma paragraph_fuel_any : forall f1 f2 db wc common s, db_ok db = true -> 1 <= wc ->
  (length s < f1)%nat -> (length s < f2)%nat -> paragraph f1 db wc common s = paragraph f2 db wc common s.
Proof.
  intros f1 f2 db wc common s Hdb Hwc H1 H2.
  assert (N1 : paragraph f1 db wc common s <> LFuel).
  { pose proof (paragraph_spec db wc common f1 s Hdb Hwc H1) as Hs. intro E. rewrite E in Hs. exact Hs. }
  assert (N2 : paragraph f2 db wc common s <> LFuel).
  { pose proof (paragraph_spec db wc common f2 s Hdb Hwc H2) as Hs. intro E. rewrite E in Hs. exact Hs. }
  destruct (Nat.le_ge_cases f1 f2) as [L|L].
  - symmetry. apply paragraph_fuel_mono; assumption.
  - apply paragraph_fuel_mono; assumption.
Qed.

(* lorem_text: the fuel it hands to paragraph() depends on the length of the stream, which changes nothing *)
Theorem lorem_text_streams : forall lang minw maxw common, streams (lorem_text lang minw maxw common).
Proof.
  intros lang minw maxw common s v r H. unfold lorem_text in H.
  destruct (randint (lorem_min minw) (lorem_max minw maxw) s) as [wc s1| | |] eqn:Er; try discriminate. cbn [lbind] in H.
  destruct (lorem_db_ok lang) as [db [Edb Hdb]]. rewrite Edb in H.
  assert (Hwc : 1 <= wc).
  { pose proof (randint_spec _ _ s (lorem_min_max minw maxw)) as Hs. rewrite Er in Hs. simpl in Hs.
    pose proof (lorem_min_pos minw). lia. }
  destruct (randint_streams _ _ s wc s1 Er) as [u1 [E1 F1]].
  (* the result on s1 with a fuel that is large enough for both streams *)
  destruct (paragraph_streams (S (length s1)) db wc common s1 v r H) as [u2 [E2 F2]].
  exists (u1 ++ u2). split; [rewrite <- app_assoc; congruence|].
  intros x. unfold lorem_text. rewrite <- app_assoc, F1. cbn [lbind]. rewrite Edb.
  destruct (Nat.le_ge_cases (S (length s1)) (S (length (u2 ++ x)))) as [L|L].
  - rewrite (paragraph_fuel_mono (S (length s1)) (S (length (u2 ++ x)))); [apply F2|exact L|].
    rewrite F2. discriminate.
  - (* a smaller fuel, still above the length of the stream u2 ++ x: same result as with the larger one *)
    rewrite (paragraph_fuel_any (S (length (u2 ++ x))) (S (length s1)) db wc common (u2 ++ x) Hdb Hwc); [apply F2|lia|lia].
Qed.

(* consequently: an exhausted stream stays exhausted on every prefix -- OutOfFuel means "more draws are needed" *)
Corollary lorem_text_exhausted_prefix : forall lang minw maxw common p q,
  lorem_text lang minw maxw common (p ++ q) = LExhausted -> lorem_text lang minw maxw common p = LExhausted.
Proof.
  intros lang minw maxw common p q H.
  pose proof (lorem_text_safe lang minw maxw common p) as Hs.
  destruct (lorem_text lang minw maxw common p) as [v r| | |k] eqn:E; try contradiction; [|reflexivity].
  destruct (lorem_text_streams _ _ _ _ p v r E) as [u [E1 F1]]. subst p.
  rewrite <- app_assoc, F1 in H. discriminate.
Qed.

(* the pass over the forest reads the stream left to right as well: the output of expand() depends only on the
   draws the lorem nodes consumed *)
Theorem lorem_fill_node_streams : forall n anc, streams (lorem_fill_node anc n).
Proof.
  apply (anode_ind' (fun n => forall anc, streams (lorem_fill_node anc n))).
  intros nm v rp at_ ch sc IH anc.
  eapply streams_ext; [intros s; symmetry; apply lorem_fill_node_eq|]. cbv zeta.
  apply streams_bind.
  - destruct (lorem_header nm) as [|lang minw maxw]; [apply streams_ret|].
    apply streams_bind; [apply lorem_text_streams|]. intros p. apply streams_ret.
  - intros v1. apply streams_bind; [|intros ch'; apply streams_ret].
    generalize (own_or rp anc) as a. clear - IH. induction IH as [|c k Hc _ IHk]; intros a.
    + apply streams_ret.
    + cbn [fill_kids]. apply streams_bind; [apply Hc|]. intros c'.
      apply streams_bind; [apply IHk|]. intros k'. apply streams_ret.
Qed.

Theorem lorem_fill_list_streams : forall l, streams (lorem_fill_list l).
Proof.
  induction l as [|c k IH]; [apply streams_ret|].
  cbn [lorem_fill_list]. apply streams_bind; [apply lorem_fill_node_streams|]. intros c'.
  apply streams_bind; [apply IH|]. intros k'. apply streams_ret.
Qed.

(* draws that are not consumed do not matter: the pipeline result on a stream = the result on the consumed prefix
   followed by anything *)
Corollary lorem_fill_unread : forall l draws l' rest,
  lorem_fill_list l draws = LOk l' rest ->
  exists used, draws = used ++ rest /\ forall other, lorem_fill (used ++ other) l = Ok l'.
Proof.
  intros l draws l' rest H. destruct (lorem_fill_list_streams l draws l' rest H) as [u [E F]].
  exists u. split; [exact E|]. intros other. unfold lorem_fill. rewrite F. reflexivity.
Qed.
