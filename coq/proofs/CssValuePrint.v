(* C06 / C05 / C13, stylesheet VALUE printing with alternatives, at the level of parsed values.

   SPEC (short, no positions, no formatter): a written value is a list of [wtok] -- a leaf with the text it prints
   as, or a call with a name and comma-separated arguments, each again a list of tokens.
     [wprint]   tokens separated by single blanks, arguments by ", ", `name(` ... `)`;
     [relabel]  every leaf text t replaced by  f i t,  i = 1, 2, ... in document order (the names of calls are
                not leaves);
     [erase_fields]  on strings: removes the wrappers `${<digits>:` ... `}`.

   THEOREMS, for ALL values (any number of tokens, any nesting depth) and all configurations:
     value_print     output_value v               = wprint (abs v)                    (unwrapped)
     wrapped_print   output_value (wrap_with_field v) = wprint (relabel field (abs v) from 1)
     wrapped_leaves  the leaves of the relabelled value are  f 1 t1, f 2 t2, ..., f k tk
     erase_identity  under the library's default callback the wrapped value prints like the unwrapped one
     erase_tabstop   erase_fields (output_value (wrap_with_field v)) = output_value v   under the ${i:t} callback
   and their composition with C06_key_reaches_property_snippet: [user_value_line].

   Model: model/CssResolve.wrap_with_field, model/CssFormat.output_value / output_token (repaired code). *)
From Coq Require Import ZArith List Bool Lia ZifyBool String.
From Emmet Require Import lib.Base lib.StyleLib model.CssTokenizer model.CssParser model.Score model.Color
     model.CssSnippets model.CssResolve model.CssFormat
     proofs.CssFormatStream proofs.CssFormatStreamEq proofs.CssWrapFields.
Import ListNotations.
Local Open Scope N_scope.

(* ================================================================== SPEC *)
Inductive wtok :=
| WLeaf (text : str)
| WCall (name : str) (args : list (list wtok)).

Fixpoint wprint_tok (t : wtok) : str :=
  match t with
  | WLeaf s => s
  | WCall name args =>
      name ++ [c_lparen] ++ join (lit ", ") (map (fun a => join [c_space] (map wprint_tok a)) args) ++ [c_rparen]
  end.
Definition wprint (ws : list wtok) : str := join [c_space] (map wprint_tok ws).

(* leaf texts in document order *)
Fixpoint leaves_tok (t : wtok) : list str :=
  match t with
  | WLeaf s => [s]
  | WCall _ args => flat_map (flat_map leaves_tok) args
  end.
Definition leaves (ws : list wtok) : list str := flat_map leaves_tok ws.

(* numbering: leaf texts become  f i text,  the counter runs through the value in document order *)
Fixpoint relabel_tok (f : N -> str -> str) (t : wtok) (i : N) {struct t} : wtok * N :=
  match t with
  | WLeaf s => (WLeaf (f i s), i + 1)
  | WCall name args =>
      let fix go_list (l : list wtok) (i : N) : list wtok * N :=
        match l with
        | [] => ([], i)
        | x :: xs => let '(x', i1) := relabel_tok f x i in
                     let '(xs', i2) := go_list xs i1 in (x' :: xs', i2)
        end in
      let fix go_args (l : list (list wtok)) (i : N) : list (list wtok) * N :=
        match l with
        | [] => ([], i)
        | a :: r => let '(a', i1) := go_list a i in
                    let '(r', i2) := go_args r i1 in (a' :: r', i2)
        end in
      let '(args', i') := go_args args i in (WCall name args', i')
  end.
Fixpoint relabel_list (f : N -> str -> str) (l : list wtok) (i : N) : list wtok * N :=
  match l with
  | [] => ([], i)
  | x :: xs => let '(x', i1) := relabel_tok f x i in
               let '(xs', i2) := relabel_list f xs i1 in (x' :: xs', i2)
  end.
Fixpoint relabel_args (f : N -> str -> str) (l : list (list wtok)) (i : N) : list (list wtok) * N :=
  match l with
  | [] => ([], i)
  | a :: r => let '(a', i1) := relabel_list f a i in
              let '(r', i2) := relabel_args f r i1 in (a' :: r', i2)
  end.
Definition relabel (f : N -> str -> str) (ws : list wtok) : list wtok := fst (relabel_list f ws 1).

(* the two callbacks: an editor tabstop and the library default *)
Definition tabstop (i : N) (t : str) : str :=
  lit "${" ++ str_of_N i ++ (match t with [] => [] | _ => c_colon :: t end) ++ [c_rbrace].
Definition placeholder (i : N) (t : str) : str := t.

(* ---- the abstraction: what a token of the parsed value prints as *)
Definition leaf_text (cfg : sconfig) (k : ckind) : str :=
  match k with
  | CColor r g b a _ => color r g b a (c_short_hex cfg)
  | CLiteral s => s
  | CCustomProperty s => s
  | CNumber value _ u => frac value 4 ++ u
  | CString s single => q_of single ++ s ++ q_of single
  | CField name index => push_field cfg index name
  | _ => []
  end.
Fixpoint abs_tok (cfg : sconfig) (v : cval) : wtok :=
  match v with
  | VTok k _ _ => WLeaf (leaf_text cfg k)
  | VFunc name args => WCall name (map (map (abs_tok cfg)) args)
  end.
Definition abs (cfg : sconfig) (v : cssvalue) : list wtok := map (abs_tok cfg) v.

(* ---- the domain *)
(* no line break: push_string leaves the text alone *)
Definition nobreakb (s : str) : bool := forallb (fun c => negb ((c =? c_cr) || (c =? c_nl))) s.
(* a token wrap_with_field wraps: keyword, number, colour, string *)
Definition leaf_kind (k : ckind) : bool :=
  match k with CLiteral _ | CNumber _ _ _ | CColor _ _ _ _ _ | CString _ _ => true | _ => false end.
Fixpoint wrappable (v : cval) : bool :=
  match v with
  | VTok k _ _ => leaf_kind k
  | VFunc _ args => forallb (forallb wrappable) args
  end.
(* a token the formatter prints as its text with a blank before it: the four kinds with texts free of line
   breaks, custom properties, and fields that are not written close to the previous token *)
Definition printable_kind (cfg : sconfig) (k : ckind) (st : option nat) : bool :=
  match k with
  | CColor _ _ _ _ _ => true
  | CLiteral _ | CCustomProperty _ | CNumber _ _ _ | CString _ _ => nobreakb (leaf_text cfg k)
  | CField _ _ => match st with None => true | Some _ => false end
  | _ => false
  end.
Fixpoint printable (cfg : sconfig) (v : cval) : bool :=
  match v with
  | VTok k st _ => printable_kind cfg k st
  | VFunc _ args => forallb (forallb (printable cfg)) args
  end.

(* ================================================================== PROOFS *)
Lemma join_cons sep x l : join sep (x :: l) = x ++ match l with [] => [] | _ => sep ++ join sep l end.
Proof. destruct l; cbn [join]; [symmetry; apply app_nil_r|reflexivity]. Qed.

(* ---- push_string on texts without line breaks *)
Lemma split_nobreak s : forall cur, nobreakb s = true ->
  css_split_crlf_aux s cur = match rev cur ++ s with [] => [] | x => [x] end.
Proof.
  induction s as [|c s IH]; intros cur H; cbn [css_split_crlf_aux].
  - rewrite app_nil_r. destruct cur as [|a cur]; [reflexivity|]. cbn [rev]. destruct (rev cur ++ [a]) eqn:E; [|reflexivity].
    apply app_eq_nil in E. destruct E; discriminate.
  - cbn [nobreakb forallb] in H. apply andb_prop in H. destruct H as [Hc Hs]. apply negb_true_iff in Hc. rewrite Hc.
    rewrite IH by exact Hs. cbn [rev]. rewrite <- app_assoc. reflexivity.
Qed.
Lemma push_string_nobreak cfg s : nobreakb s = true -> push_string cfg s = s.
Proof.
  intros H. unfold push_string, css_split_crlf. rewrite split_nobreak by exact H. cbn [rev app].
  destruct s; reflexivity.
Qed.

(* ---- the local loops of relabel_tok are relabel_list / relabel_args *)
Definition rloc_list (f : N -> str -> str) :=
  fix go_list (l : list wtok) (i : N) : list wtok * N :=
    match l with
    | [] => ([], i)
    | x :: xs => let '(x', i1) := relabel_tok f x i in
                 let '(xs', i2) := go_list xs i1 in (x' :: xs', i2)
    end.
Definition rloc_args (f : N -> str -> str) :=
  fix go_args (l : list (list wtok)) (i : N) : list (list wtok) * N :=
    match l with
    | [] => ([], i)
    | a :: r => let '(a', i1) := rloc_list f a i in
                let '(r', i2) := go_args r i1 in (a' :: r', i2)
    end.
Lemma rloc_list_eq f l : forall i, rloc_list f l i = relabel_list f l i.
Proof.
  induction l as [|x xs IH]; intros i; cbn [rloc_list relabel_list]; [reflexivity|].
  destruct (relabel_tok f x i) as [x' i1]. fold (rloc_list f). rewrite IH. reflexivity.
Qed.
Lemma rloc_args_eq f l : forall i, rloc_args f l i = relabel_args f l i.
Proof.
  induction l as [|a r IH]; intros i; cbn [rloc_args relabel_args]; [reflexivity|].
  rewrite rloc_list_eq. destruct (relabel_list f a i) as [a' i1]. fold (rloc_args f). rewrite IH. reflexivity.
Qed.
Lemma relabel_tok_call f name args i :
  relabel_tok f (WCall name args) i = let '(args', i') := relabel_args f args i in (WCall name args', i').
Proof. rewrite <- rloc_args_eq. reflexivity. Qed.

(* induction over nested written values *)
Fixpoint wtok_ind2 (P : wtok -> Prop)
  (Hleaf : forall s, P (WLeaf s))
  (Hcall : forall name args, Forall (Forall P) args -> P (WCall name args))
  (t : wtok) {struct t} : P t :=
  match t with
  | WLeaf s => Hleaf s
  | WCall name args =>
      Hcall name args
        ((fix go (l : list (list wtok)) : Forall (Forall P) l :=
            match l with
            | [] => Forall_nil _
            | a :: r =>
                Forall_cons a
                  ((fix go2 (vs : list wtok) : Forall P vs :=
                      match vs with
                      | [] => Forall_nil _
                      | x :: xs => Forall_cons x (wtok_ind2 P Hleaf Hcall x) (go2 xs)
                      end) a) (go r)
            end) args)
  end.

(* ---- all separators of a value are single blanks *)
Definition no_glue (t : cval) : bool :=
  match t with VTok (CField _ _) (Some _) _ => false | _ => true end.

Lemma output_value_from_join cfg vs : forallb no_glue vs = true -> forall first pe,
  output_value_from cfg vs first pe =
  (if first then [] else match vs with [] => [] | _ => [c_space] end) ++ join [c_space] (map (output_token cfg) vs).
Proof.
  induction vs as [|t r IH]; intros H first pe; cbn [output_value_from].
  - destruct first; reflexivity.
  - cbn [forallb] in H. apply andb_prop in H. destruct H as [Ht Hr].
    rewrite (IH Hr). cbn [map]. rewrite join_cons.
    assert (Hs : (if first then [] else match t with
                                        | VTok (CField _ _) st _ => if same_pos st pe then [] else [c_space]
                                        | _ => [c_space]
                                        end) = (if first then [] else [c_space])).
    { destruct first; [reflexivity|]. destruct t as [[] [s|] en|]; try reflexivity. discriminate. }
    rewrite Hs. destruct r; reflexivity.
Qed.
Lemma output_value_join cfg v : forallb no_glue v = true ->
  output_value cfg v = join [c_space] (map (output_token cfg) v).
Proof. intros H. unfold output_value. rewrite (output_value_from_join cfg v H). reflexivity. Qed.

Lemma output_args_join cfg args : forall first,
  output_args cfg args first =
  (if first then [] else match args with [] => [] | _ => lit ", " end) ++ join (lit ", ") (map (output_value cfg) args).
Proof.
  induction args as [|a r IH]; intros first; cbn [output_args].
  - destruct first; reflexivity.
  - rewrite IH. cbn [map]. rewrite join_cons. destruct r; reflexivity.
Qed.

Lemma printable_no_glue cfg t : printable cfg t = true -> no_glue t = true.
Proof. destruct t as [[] [s|] en|]; cbn; try reflexivity; discriminate. Qed.
Lemma printable_list_no_glue cfg vs : forallb (printable cfg) vs = true -> forallb no_glue vs = true.
Proof.
  induction vs as [|t r IH]; cbn [forallb]; [reflexivity|]. intros H. apply andb_prop in H. destruct H as [H1 H2].
  rewrite (printable_no_glue cfg t H1), (IH H2). reflexivity.
Qed.

(* ---- (1) a printable token prints as its abstraction *)
Definition tok_prints (cfg : sconfig) (t : cval) : Prop :=
  printable cfg t = true -> output_token cfg t = wprint_tok (abs_tok cfg t).

Lemma value_prints_gen cfg vs : Forall (tok_prints cfg) vs -> forallb (printable cfg) vs = true ->
  output_value cfg vs = wprint (abs cfg vs).
Proof.
  intros HF Hp. rewrite (output_value_join cfg vs (printable_list_no_glue cfg vs Hp)).
  unfold wprint, abs. rewrite map_map. f_equal.
  induction HF as [|t r Ht _ IH]; [reflexivity|]. cbn [forallb] in Hp. apply andb_prop in Hp. destruct Hp as [H1 H2].
  cbn [map]. rewrite (Ht H1), (IH H2). reflexivity.
Qed.

Lemma args_print_gen cfg args : Forall (Forall (tok_prints cfg)) args ->
  forallb (forallb (printable cfg)) args = true ->
  map (output_value cfg) args = map (fun a => join [c_space] (map wprint_tok a)) (map (map (abs_tok cfg)) args).
Proof.
  induction 1 as [|a r Ha _ IH]; intros Hp; [reflexivity|].
  cbn [forallb] in Hp. apply andb_prop in Hp. destruct Hp as [H1 H2]. cbn [map]. rewrite (IH H2). f_equal.
  exact (value_prints_gen cfg a Ha H1).
Qed.

Lemma token_prints cfg t : tok_prints cfg t.
Proof.
  induction t as [k st en|name args IH] using cval_ind2; unfold tok_prints; intros Hp.
  - cbn [printable] in Hp. destruct k; cbn [printable_kind] in Hp; try discriminate;
      cbn [output_token abs_tok wprint_tok leaf_text]; try reflexivity;
      try (apply push_string_nobreak; exact Hp).
  - rewrite output_token_func, output_args_join. cbn [abs_tok wprint_tok app printable] in *.
    rewrite (args_print_gen cfg args IH Hp). reflexivity.
Qed.

(* THEOREM (unwrapped printing): tokens separated by single blanks, call arguments by ", " *)
Theorem value_print cfg v : forallb (printable cfg) v = true -> output_value cfg v = wprint (abs cfg v).
Proof. apply value_prints_gen, Forall_all, token_prints. Qed.

(* ---- (2) wrap_with_field is relabel on the abstraction, and its result is printable *)
Definition field_of (cfg : sconfig) (i : N) (t : str) : str := push_field cfg (Some i) t.

Definition wrap_spec (cfg : sconfig) (t : cval) : Prop :=
  wrappable t = true -> forall i,
    printable cfg (fst (wrap_val cfg t i)) = true /\
    abs_tok cfg (fst (wrap_val cfg t i)) = fst (relabel_tok (field_of cfg) (abs_tok cfg t) i) /\
    snd (wrap_val cfg t i) = snd (relabel_tok (field_of cfg) (abs_tok cfg t) i).

Lemma wrap_list_spec cfg vs : Forall (wrap_spec cfg) vs -> forallb wrappable vs = true -> forall i,
  forallb (printable cfg) (fst (wrap_list cfg vs i)) = true /\
  abs cfg (fst (wrap_list cfg vs i)) = fst (relabel_list (field_of cfg) (abs cfg vs) i) /\
  snd (wrap_list cfg vs i) = snd (relabel_list (field_of cfg) (abs cfg vs) i).
Proof.
  induction 1 as [|x xs Hx _ IH]; intros Hw i; cbn [wrap_list abs map relabel_list fst snd]; [repeat split|].
  cbn [forallb] in Hw. apply andb_prop in Hw. destruct Hw as [W1 W2].
  destruct (Hx W1 i) as [P1 [A1 S1]].
  destruct (wrap_val cfg x i) as [o1 i1]. destruct (relabel_tok (field_of cfg) (abs_tok cfg x) i) as [x' j1].
  cbn [fst snd] in *. subst j1.
  destruct (IH W2 i1) as [P2 [A2 S2]]. fold (abs cfg xs).
  destruct (wrap_list cfg xs i1) as [o2 i2]. destruct (relabel_list (field_of cfg) (abs cfg xs) i1) as [xs' j2].
  cbn [fst snd forallb abs map] in *. rewrite P1, P2, A1, A2. repeat split. exact S2.
Qed.

Definition abs_args (cfg : sconfig) (args : list (list cval)) : list (list wtok) := map (abs cfg) args.

Lemma wrap_args_spec cfg args : Forall (Forall (wrap_spec cfg)) args -> forallb (forallb wrappable) args = true ->
  forall i,
  forallb (forallb (printable cfg)) (fst (wrap_args cfg args i)) = true /\
  abs_args cfg (fst (wrap_args cfg args i)) = fst (relabel_args (field_of cfg) (abs_args cfg args) i) /\
  snd (wrap_args cfg args i) = snd (relabel_args (field_of cfg) (abs_args cfg args) i).
Proof.
  induction 1 as [|a r Ha _ IH]; intros Hw i; cbn [wrap_args abs_args map relabel_args fst snd]; [repeat split|].
  cbn [forallb] in Hw. apply andb_prop in Hw. destruct Hw as [W1 W2].
  destruct (wrap_list_spec cfg a Ha W1 i) as [P1 [A1 S1]].
  destruct (wrap_list cfg a i) as [o1 i1]. destruct (relabel_list (field_of cfg) (abs cfg a) i) as [a' j1].
  cbn [fst snd] in *. subst j1.
  destruct (IH W2 i1) as [P2 [A2 S2]]. fold (abs_args cfg r).
  destruct (wrap_args cfg r i1) as [o2 i2]. destruct (relabel_args (field_of cfg) (abs_args cfg r) i1) as [r' j2].
  cbn [fst snd forallb abs_args map] in *. rewrite P1, P2, A1, A2. repeat split. exact S2.
Qed.

Lemma wrap_val_spec cfg t : wrap_spec cfg t.
Proof.
  induction t as [k st en|name args IH] using cval_ind2; unfold wrap_spec; intros Hw i.
  - cbn [wrappable] in Hw. destruct k; cbn [leaf_kind] in Hw; try discriminate;
      cbn [wrap_val abs_tok relabel_tok fst snd leaf_text]; repeat split.
  - rewrite wrap_val_func. cbn [abs_tok]. rewrite relabel_tok_call. cbn [wrappable] in Hw.
    change (map (map (abs_tok cfg)) args) with (abs_args cfg args).
    destruct (wrap_args_spec cfg args IH Hw i) as [P [A S]].
    destruct (wrap_args cfg args i) as [o i']. destruct (relabel_args (field_of cfg) (abs_args cfg args) i) as [a' j].
    cbn [fst snd printable abs_tok] in *.
    change (map (map (abs_tok cfg)) o) with (abs_args cfg o). rewrite A. repeat split; assumption.
Qed.

(* THEOREM (wrapped printing): the value with every leaf wrapped in a field, numbered from 1 in document order *)
Theorem wrapped_print cfg v : forallb wrappable v = true ->
  output_value cfg (wrap_with_field cfg v) = wprint (relabel (field_of cfg) (abs cfg v)).
Proof.
  intros Hw. unfold wrap_with_field, relabel.
  destruct (wrap_list_spec cfg v (Forall_all _ (wrap_val_spec cfg) v) Hw 1) as [P [A _]].
  rewrite (value_print cfg _ P), A. reflexivity.
Qed.

(* ================================================================== numbering: 1, 2, ..., k in document order *)
Fixpoint zipf (f : N -> str -> str) (i : N) (l : list str) : list str :=
  match l with [] => [] | s :: r => f i s :: zipf f (i + 1) r end.
Lemma zipf_app f a : forall i b, zipf f i (a ++ b) = zipf f i a ++ zipf f (i + N.of_nat (length a)) b.
Proof.
  induction a as [|s a IH]; intros i b; cbn [zipf app length].
  - f_equal. lia.
  - rewrite IH. do 3 f_equal. lia.
Qed.

Definition numbered (f : N -> str -> str) (before after : list str) (i j : N) : Prop :=
  after = zipf f i before /\ j = i + N.of_nat (length before).
Lemma numbered_nil f i : numbered f [] [] i i.
Proof. split; [reflexivity|cbn; lia]. Qed.
Lemma numbered_app f a a' b b' i j k : numbered f a a' i j -> numbered f b b' j k -> numbered f (a ++ b) (a' ++ b') i k.
Proof.
  intros [A1 B1] [A2 B2]. split.
  - rewrite zipf_app, <- B1, <- A1, <- A2. reflexivity.
  - rewrite app_length. lia.
Qed.

Definition tok_numbered (f : N -> str -> str) (t : wtok) : Prop :=
  forall i, numbered f (leaves_tok t) (leaves_tok (fst (relabel_tok f t i))) i (snd (relabel_tok f t i)).
Lemma list_numbered f l : Forall (tok_numbered f) l ->
  forall i, numbered f (leaves l) (leaves (fst (relabel_list f l i))) i (snd (relabel_list f l i)).
Proof.
  induction 1 as [|x xs Hx _ IH]; intros i; cbn [relabel_list]; [apply numbered_nil|].
  specialize (Hx i). destruct (relabel_tok f x i) as [x' i1]. specialize (IH i1).
  destruct (relabel_list f xs i1) as [xs' i2]. cbn [fst snd leaves flat_map] in *. eapply numbered_app; eassumption.
Qed.
Definition leaves_args (args : list (list wtok)) : list str := flat_map (flat_map leaves_tok) args.
Lemma args_numbered f args : Forall (Forall (tok_numbered f)) args ->
  forall i, numbered f (leaves_args args) (leaves_args (fst (relabel_args f args i))) i (snd (relabel_args f args i)).
Proof.
  induction 1 as [|a r Ha _ IH]; intros i; cbn [relabel_args]; [apply numbered_nil|].
  pose proof (list_numbered f a Ha i) as H1. destruct (relabel_list f a i) as [a' i1]. specialize (IH i1).
  destruct (relabel_args f r i1) as [r' i2]. cbn [fst snd leaves_args flat_map] in *. eapply numbered_app; eassumption.
Qed.
Lemma tok_is_numbered f t : tok_numbered f t.
Proof.
  induction t as [s|name args IH] using wtok_ind2; intros i.
  - cbn [relabel_tok fst snd leaves_tok]. split; [reflexivity|cbn; lia].
  - rewrite relabel_tok_call. pose proof (args_numbered f args IH i) as H.
    destruct (relabel_args f args i) as [args' i']. exact H.
Qed.

(* THEOREM (numbering): the leaves of the relabelled value are  f 1 t1, f 2 t2, ..., f k tk  in document order *)
Theorem wrapped_leaves f ws : leaves (relabel f ws) = zipf f 1 (leaves ws).
Proof. unfold relabel. exact (proj1 (list_numbered f ws (Forall_all _ (tok_is_numbered f) ws) 1)). Qed.

(* ================================================================== relabel: extensional, identity *)
Definition tok_ext (f g : N -> str -> str) (t : wtok) : Prop := forall i, relabel_tok f t i = relabel_tok g t i.
Lemma list_ext f g l : Forall (tok_ext f g) l -> forall i, relabel_list f l i = relabel_list g l i.
Proof.
  induction 1 as [|x xs Hx _ IH]; intros i; cbn [relabel_list]; [reflexivity|].
  rewrite Hx. destruct (relabel_tok g x i) as [x' i1]. rewrite IH. reflexivity.
Qed.
Lemma args_ext f g args : Forall (Forall (tok_ext f g)) args -> forall i, relabel_args f args i = relabel_args g args i.
Proof.
  induction 1 as [|a r Ha _ IH]; intros i; cbn [relabel_args]; [reflexivity|].
  rewrite (list_ext f g a Ha). destruct (relabel_list g a i) as [a' i1]. rewrite IH. reflexivity.
Qed.
Lemma relabel_ext f g : (forall i s, f i s = g i s) -> forall ws, relabel f ws = relabel g ws.
Proof.
  intros H ws. unfold relabel. rewrite (list_ext f g ws); [reflexivity|]. apply Forall_all.
  intros t. induction t as [s|name args IH] using wtok_ind2; intros i.
  - cbn [relabel_tok]. rewrite H. reflexivity.
  - rewrite !relabel_tok_call, (args_ext f g args IH). reflexivity.
Qed.

Definition tok_id (t : wtok) : Prop := forall i, fst (relabel_tok placeholder t i) = t.
Lemma list_id l : Forall tok_id l -> forall i, fst (relabel_list placeholder l i) = l.
Proof.
  induction 1 as [|x xs Hx _ IH]; intros i; cbn [relabel_list]; [reflexivity|].
  specialize (Hx i). destruct (relabel_tok placeholder x i) as [x' i1]. specialize (IH i1).
  destruct (relabel_list placeholder xs i1) as [xs' i2]. cbn [fst] in *. subst. reflexivity.
Qed.
Lemma args_id args : Forall (Forall tok_id) args -> forall i, fst (relabel_args placeholder args i) = args.
Proof.
  induction 1 as [|a r Ha _ IH]; intros i; cbn [relabel_args]; [reflexivity|].
  pose proof (list_id a Ha i) as H1. destruct (relabel_list placeholder a i) as [a' i1]. specialize (IH i1).
  destruct (relabel_args placeholder r i1) as [r' i2]. cbn [fst] in *. subst. reflexivity.
Qed.
Lemma relabel_placeholder ws : relabel placeholder ws = ws.
Proof.
  unfold relabel. apply list_id, Forall_all. intros t.
  induction t as [s|name args IH] using wtok_ind2; intros i; [reflexivity|].
  rewrite relabel_tok_call. pose proof (args_id args IH i) as H.
  destruct (relabel_args placeholder args i) as [args' i']. cbn [fst] in *. subst. reflexivity.
Qed.

(* THEOREM (erasure, library default callback): a field prints as its placeholder, so the wrapped value prints
   exactly like the unwrapped one *)
Theorem erase_identity cfg v :
  c_field cfg = FieldPlaceholder -> forallb wrappable v = true -> forallb (printable cfg) v = true ->
  output_value cfg (wrap_with_field cfg v) = output_value cfg v.
Proof.
  intros Hf Hw Hp. rewrite (wrapped_print cfg v Hw), (value_print cfg v Hp).
  rewrite (relabel_ext (field_of cfg) placeholder); [rewrite relabel_placeholder; reflexivity|].
  intros i s. unfold field_of, push_field. rewrite Hf. reflexivity.
Qed.

(* ================================================================== erase_fields on strings *)
Definition dig (c : char) : bool := (c_0 <=? c) && (c <=? c_9).
Fixpoint span_dig (s : str) : nat :=
  match s with c :: r => if dig c then S (span_dig r) else O | [] => O end.

(* a tabstop head at the start of s: "${" digits ":" opens a wrapper (Some (length, true));
   "${" digits "}" is a tabstop without placeholder (Some (length, false)) *)
Definition field_head (s : str) : option (nat * bool) :=
  match s with
  | c1 :: c2 :: r =>
      if (c1 =? c_dollar) && (c2 =? c_lbrace) then
        match span_dig r with
        | O => None
        | nd => match skipn nd r with
                | c :: _ => if c =? c_colon then Some ((3 + nd)%nat, true)
                            else if c =? c_rbrace then Some ((3 + nd)%nat, false) else None
                | [] => None
                end
        end
      else None
  | _ => None
  end.

Fixpoint erase_go (skip depth : nat) (s : str) : str :=
  match s with
  | [] => []
  | c :: r =>
      match skip with
      | S k => erase_go k depth r
      | O =>
          match field_head s with
          | Some (len, opens) => erase_go (pred len) (if opens then S depth else depth) r
          | None =>
              if (c =? c_rbrace) && negb (Nat.eqb depth 0) then erase_go 0 (pred depth) r
              else c :: erase_go 0 depth r
          end
      end
  end.
(* removes every wrapper `${<digits>:` ... `}` (the text inside stays) and every `${<digits>}` *)
Definition erase_fields (s : str) : str := erase_go 0 0 s.

(* texts the wrappers cannot be confused with: no `$`, no `}` *)
Definition cleanb (s : str) : bool := forallb (fun c => negb (c =? c_dollar) && negb (c =? c_rbrace)) s.
Fixpoint clean_tok (t : wtok) : bool :=
  match t with
  | WLeaf s => cleanb s
  | WCall name args => cleanb name && forallb (forallb clean_tok) args
  end.
Definition clean (s : str) : Prop := Forall (fun c => c <> c_dollar /\ c <> c_rbrace) s.
Lemma cleanb_clean s : cleanb s = true -> clean s.
Proof.
  unfold cleanb, clean. rewrite forallb_forall, Forall_forall. intros H c Hc. specialize (H c Hc).
  apply andb_prop in H. destruct H as [H1 H2]. apply negb_true_iff in H1, H2. apply N.eqb_neq in H1, H2. split; assumption.
Qed.

Lemma erase_skip p : forall d r, erase_go (length p) d (p ++ r) = erase_go 0 d r.
Proof.
  induction p as [|c p IH]; intros d r; [destruct r; reflexivity|].
  cbn [length app erase_go]. apply IH.
Qed.
Lemma field_head_not_dollar c r : c <> c_dollar -> field_head (c :: r) = None.
Proof.
  intros H. unfold field_head. destruct r as [|c2 r]; [reflexivity|].
  destruct (c =? c_dollar) eqn:E; [apply N.eqb_eq in E; contradiction|reflexivity].
Qed.
Lemma erase_plain s : clean s -> forall d r, erase_go 0 d (s ++ r) = s ++ erase_go 0 d r.
Proof.
  induction 1 as [|c s [H1 H2] _ IH]; intros d r; [reflexivity|].
  cbn [app erase_go]. rewrite (field_head_not_dollar c (s ++ r) H1).
  destruct (c =? c_rbrace) eqn:E; [apply N.eqb_eq in E; contradiction|]. cbn [andb]. rewrite IH. reflexivity.
Qed.
Lemma erase_close d r : erase_go 0 (S d) (c_rbrace :: r) = erase_go 0 d r.
Proof. cbn [erase_go]. rewrite field_head_not_dollar by discriminate. reflexivity. Qed.

(* the decimal numeral of an index: ASCII digits, at least one *)
Lemma digits_fuel_dig fuel : forall n acc, Forall (fun c => dig c = true) acc ->
  Forall (fun c => dig c = true) (digits_fuel fuel n acc) /\ (acc <> [] -> digits_fuel fuel n acc <> []).
Proof.
  induction fuel as [|f IH]; intros n acc Ha; cbn [digits_fuel]; [split; [exact Ha|auto]|].
  assert (Hd : dig (c_0 + n mod 10) = true).
  { unfold dig, c_0, c_9. pose proof (N.mod_upper_bound n 10 ltac:(discriminate)) as Hm.
    revert Hm. generalize (n mod 10). intros m Hm. lia. }
  destruct (n <? 10).
  - split; [constructor; assumption|discriminate].
  - destruct (IH (n / 10) ((c_0 + n mod 10) :: acc) (Forall_cons _ Hd Ha)) as [A B]. split; [exact A|].
    intros _. apply B. discriminate.
Qed.
Lemma str_of_N_dig n : Forall (fun c => dig c = true) (str_of_N n) /\ str_of_N n <> [].
Proof.
  unfold str_of_N. cbn [digits_fuel].
  assert (Hd : dig (c_0 + n mod 10) = true).
  { unfold dig, c_0, c_9. pose proof (N.mod_upper_bound n 10 ltac:(discriminate)) as Hm.
    revert Hm. generalize (n mod 10). intros m Hm. lia. }
  destruct (n <? 10).
  - split; [repeat constructor; assumption|discriminate].
  - destruct (digits_fuel_dig (N.to_nat (N.log2 n)) (n / 10) [c_0 + n mod 10] (Forall_cons _ Hd (Forall_nil _))) as [A B].
    split; [exact A|apply B; discriminate].
Qed.
Lemma span_dig_app ds c r : Forall (fun c => dig c = true) ds -> dig c = false -> span_dig (ds ++ c :: r) = length ds.
Proof.
  induction 1 as [|x ds Hx _ IH]; intros Hc; cbn [app span_dig length]; [rewrite Hc; reflexivity|].
  rewrite Hx, IH by exact Hc. reflexivity.
Qed.
Lemma skipn_app_len {A} (l r : list A) : skipn (length l) (l ++ r) = r.
Proof. induction l; [reflexivity|assumption]. Qed.

Lemma field_head_tab ds c rest : Forall (fun c => dig c = true) ds -> ds <> [] -> dig c = false ->
  field_head (c_dollar :: c_lbrace :: ds ++ c :: rest) =
  if c =? c_colon then Some ((3 + length ds)%nat, true)
  else if c =? c_rbrace then Some ((3 + length ds)%nat, false) else None.
Proof.
  intros Hd Hn Hc. unfold field_head. rewrite !N.eqb_refl. cbn [andb].
  rewrite (span_dig_app ds c rest Hd Hc). destruct ds as [|x ds]; [contradiction|].
  cbn [length]. change (S (length ds)) with (length (x :: ds)). rewrite skipn_app_len. reflexivity.
Qed.

Lemma erase_skip1 p c : forall d r, erase_go (S (length p)) d (p ++ c :: r) = erase_go 0 d r.
Proof.
  intros d r. replace (S (length p)) with (length (p ++ [c])) by (rewrite app_length; cbn [length]; lia).
  replace (p ++ c :: r) with ((p ++ [c]) ++ r) by (rewrite <- app_assoc; reflexivity). apply erase_skip.
Qed.

Lemma erase_tab i t : clean t -> forall d r, erase_go 0 d (tabstop i t ++ r) = t ++ erase_go 0 d r.
Proof.
  intros Ht d r. destruct (str_of_N_dig i) as [Hd Hn]. unfold tabstop.
  change (lit "${") with [c_dollar; c_lbrace]. destruct t as [|c0 t].
  - cbn [app]. rewrite <- app_assoc. cbn [app].
    cbn [erase_go]. rewrite (field_head_tab (str_of_N i) c_rbrace r Hd Hn eq_refl).
    change (c_rbrace =? c_colon) with false. rewrite N.eqb_refl. cbv iota.
    cbn [Nat.add pred erase_go]. apply erase_skip1.
  - cbn [app]. rewrite <- !app_assoc. cbn [app].
    cbn [erase_go]. rewrite (field_head_tab (str_of_N i) c_colon _ Hd Hn eq_refl). rewrite N.eqb_refl. cbv iota.
    cbn [Nat.add pred erase_go]. rewrite erase_skip1.
    replace (c0 :: (t ++ [c_rbrace]) ++ r) with ((c0 :: t) ++ c_rbrace :: r) by (cbn [app]; rewrite <- app_assoc; reflexivity).
    rewrite (erase_plain (c0 :: t) Ht), erase_close. reflexivity.
Qed.

(* ---- erase_fields undoes relabel tabstop, on the printed string *)
Lemma join_concat sep x l : join sep (x :: l) = x ++ concat (map (fun y => sep ++ y) l).
Proof.
  revert x. induction l as [|a l IH]; intros x; [cbn; symmetry; apply app_nil_r|].
  change (join sep (x :: a :: l)) with (x ++ sep ++ join sep (a :: l)). rewrite IH. cbn [map concat].
  rewrite <- app_assoc. reflexivity.
Qed.

Definition aprint (a : list wtok) : str := join [c_space] (map wprint_tok a).
Definition tail_toks (l : list wtok) : str := concat (map (fun t => [c_space] ++ wprint_tok t) l).
Definition tail_args (l : list (list wtok)) : str := concat (map (fun a => lit ", " ++ aprint a) l).
Lemma aprint_cons x l : aprint (x :: l) = wprint_tok x ++ tail_toks l.
Proof. unfold aprint, tail_toks. cbn [map]. rewrite join_concat, map_map. reflexivity. Qed.
Lemma args_print_cons a l : join (lit ", ") (map aprint (a :: l)) = aprint a ++ tail_args l.
Proof. unfold tail_args. cbn [map]. rewrite join_concat, map_map. reflexivity. Qed.

Definition tok_erases (t : wtok) : Prop :=
  clean_tok t = true -> forall i d r,
    erase_go 0 d (wprint_tok (fst (relabel_tok tabstop t i)) ++ r) = wprint_tok t ++ erase_go 0 d r.

Lemma clean_space : clean [c_space]. Proof. repeat constructor; discriminate. Qed.
Lemma clean_comma : clean (lit ", "). Proof. repeat constructor; discriminate. Qed.
Lemma clean_lparen : clean [c_lparen]. Proof. repeat constructor; discriminate. Qed.
Lemma clean_rparen : clean [c_rparen]. Proof. repeat constructor; discriminate. Qed.

Lemma tail_toks_erases l : Forall tok_erases l -> forallb clean_tok l = true -> forall i d r,
  erase_go 0 d (tail_toks (fst (relabel_list tabstop l i)) ++ r) = tail_toks l ++ erase_go 0 d r.
Proof.
  induction 1 as [|x xs Hx _ IH]; intros Hc i d r; cbn [relabel_list]; [reflexivity|].
  cbn [forallb] in Hc. apply andb_prop in Hc. destruct Hc as [C1 C2].
  specialize (Hx C1 i). destruct (relabel_tok tabstop x i) as [x' i1]. specialize (IH C2 i1).
  destruct (relabel_list tabstop xs i1) as [xs' i2]. cbn [fst] in *.
  unfold tail_toks in *. cbn [map concat]. rewrite <- !app_assoc.
  rewrite (erase_plain [c_space] clean_space), Hx, IH. reflexivity.
Qed.
Lemma aprint_erases l : Forall tok_erases l -> forallb clean_tok l = true -> forall i d r,
  erase_go 0 d (aprint (fst (relabel_list tabstop l i)) ++ r) = aprint l ++ erase_go 0 d r.
Proof.
  intros HF Hc i d r. destruct HF as [|x xs Hx HF]; [reflexivity|].
  cbn [forallb] in Hc. apply andb_prop in Hc. destruct Hc as [C1 C2]. cbn [relabel_list].
  specialize (Hx C1 i). destruct (relabel_tok tabstop x i) as [x' i1].
  pose proof (tail_toks_erases xs HF C2 i1) as HT. destruct (relabel_list tabstop xs i1) as [xs' i2]. cbn [fst] in *.
  rewrite !aprint_cons, <- !app_assoc, Hx, HT. reflexivity.
Qed.
Lemma tail_args_erases args : Forall (Forall tok_erases) args -> forallb (forallb clean_tok) args = true -> forall i d r,
  erase_go 0 d (tail_args (fst (relabel_args tabstop args i)) ++ r) = tail_args args ++ erase_go 0 d r.
Proof.
  induction 1 as [|a l Ha _ IH]; intros Hc i d r; cbn [relabel_args]; [reflexivity|].
  cbn [forallb] in Hc. apply andb_prop in Hc. destruct Hc as [C1 C2].
  pose proof (aprint_erases a Ha C1 i) as H1. destruct (relabel_list tabstop a i) as [a' i1]. specialize (IH C2 i1).
  destruct (relabel_args tabstop l i1) as [l' i2]. cbn [fst] in *.
  unfold tail_args in *. cbn [map concat]. rewrite <- !app_assoc.
  rewrite (erase_plain (lit ", ") clean_comma), H1, IH. reflexivity.
Qed.
Lemma args_print_erases args : Forall (Forall tok_erases) args -> forallb (forallb clean_tok) args = true -> forall i d r,
  erase_go 0 d (join (lit ", ") (map aprint (fst (relabel_args tabstop args i))) ++ r) =
  join (lit ", ") (map aprint args) ++ erase_go 0 d r.
Proof.
  intros HF Hc i d r. destruct HF as [|a l Ha HF]; [reflexivity|].
  cbn [forallb] in Hc. apply andb_prop in Hc. destruct Hc as [C1 C2]. cbn [relabel_args].
  pose proof (aprint_erases a Ha C1 i) as H1. destruct (relabel_list tabstop a i) as [a' i1].
  pose proof (tail_args_erases l HF C2 i1) as HT. destruct (relabel_args tabstop l i1) as [l' i2]. cbn [fst] in *.
  rewrite !args_print_cons, <- !app_assoc, H1, HT. reflexivity.
Qed.

Lemma tok_does_erase t : tok_erases t.
Proof.
  induction t as [s|name args IH] using wtok_ind2; unfold tok_erases; intros Hc i d r.
  - cbn [relabel_tok fst wprint_tok clean_tok] in *. apply erase_tab, cleanb_clean, Hc.
  - rewrite relabel_tok_call. cbn [clean_tok] in Hc. apply andb_prop in Hc. destruct Hc as [Cn Ca].
    pose proof (args_print_erases args IH Ca i) as H. destruct (relabel_args tabstop args i) as [args' i'].
    cbn [fst wprint_tok] in *. fold aprint. rewrite <- !app_assoc.
    rewrite (erase_plain name (cleanb_clean name Cn)), (erase_plain [c_lparen] clean_lparen), H.
    rewrite (erase_plain [c_rparen] clean_rparen). reflexivity.
Qed.

(* THEOREM (erasure on strings): printing the value with every leaf wrapped in ${i:...} and erasing the wrappers
   gives the plain printing -- for every value whose texts and names contain neither `$` nor `}` *)
Theorem erase_relabel ws : forallb clean_tok ws = true -> erase_fields (wprint (relabel tabstop ws)) = wprint ws.
Proof.
  intros Hc. unfold erase_fields, wprint, relabel. fold (aprint ws). fold (aprint (fst (relabel_list tabstop ws 1))).
  pose proof (aprint_erases ws (Forall_all _ tok_does_erase ws) Hc 1 0%nat []) as H.
  rewrite !app_nil_r in H. exact H.
Qed.

Theorem erase_tabstop cfg v :
  c_field cfg = FieldTabstop -> forallb wrappable v = true -> forallb (printable cfg) v = true ->
  forallb clean_tok (abs cfg v) = true ->
  erase_fields (output_value cfg (wrap_with_field cfg v)) = output_value cfg v.
Proof.
  intros Hf Hw Hp Hc. rewrite (wrapped_print cfg v Hw), (value_print cfg v Hp).
  rewrite (relabel_ext (field_of cfg) tabstop); [apply erase_relabel, Hc|].
  intros i s. unfold field_of, push_field, tabstop. rewrite Hf. reflexivity.
Qed.
