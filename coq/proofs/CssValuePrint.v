(* C06 / C05 / C13, stylesheet VALUE printing with alternatives, at the level of parsed values.

   SPEC (short, no positions, no formatter): a written value is a list of [wtok] -- a leaf with the text it prints
   as, or a call with a name and comma-separated arguments, each again a list of tokens.
     [wprint]   tokens separated by single blanks, arguments by ", ", `name(` ... `)`;
     [relabel]  every leaf text t replaced by  f i t,  i = 1, 2, ... in document order (the names of calls are
                not leaves);
     [erase_fields]  on strings: removes the wrappers `${<digits>:` ... `}`.

   THEOREMS, for ALL values (any number of tokens, any nesting depth) and all configurations:
     value_print     output_value v               = wprint (abs v)                    (unwrapped)
     wrapped_print   output_value (wrap_with_field v) = wprint (relabel field (abs v) from 1)
     wrapped_leaves  the leaves of the relabelled value are  f 1 t1, f 2 t2, ..., f k tk
     erase_identity  under the library's default callback the wrapped value prints like the unwrapped one
     erase_tabstop   erase_fields (output_value (wrap_with_field v)) = output_value v   under the ${i:t} callback
   and their composition with C06_key_reaches_property_snippet: [user_value_line].

   Model: model/CssResolve.wrap_with_field, model/CssFormat.output_value / output_token (repaired code). *)
From Coq Require Import ZArith List Bool Lia ZifyBool String.
From Emmet Require Import lib.Base lib.StyleLib model.CssTokenizer model.CssParser model.Score model.Color
     model.CssSnippets model.CssResolve model.CssFormat
     proofs.CssFormatStream proofs.CssFormatStreamEq proofs.CssWrapFields.
Import ListNotations.
Local Open Scope N_scope.

(* ================================================================== SPEC *)
Inductive wtok :=
| WLeaf (text : str)
| WCall (name : str) (args : list (list wtok)).

Fixpoint wprint_tok (t : wtok) : str :=
  match t with
  | WLeaf s => s
  | WCall name args =>
      name ++ [c_lparen] ++ join (lit ", ") (map (fun a => join [c_space] (map wprint_tok a)) args) ++ [c_rparen]
  end.
Definition wprint (ws : list wtok) : str := join [c_space] (map wprint_tok ws).

(* leaf texts in document order *)
Fixpoint leaves_tok (t : wtok) : list str :=
  match t with
  | WLeaf s => [s]
  | WCall _ args => flat_map (flat_map leaves_tok) args
  end.
Definition leaves (ws : list wtok) : list str := flat_map leaves_tok ws.

(* numbering: leaf texts become  f i text,  the counter runs through the value in document order *)
Fixpoint relabel_tok (f : N -> str -> str) (t : wtok) (i : N) {struct t} : wtok * N :=
  match t with
  | WLeaf s => (WLeaf (f i s), i + 1)
  | WCall name args =>
      let fix go_list (l : list wtok) (i : N) : list wtok * N :=
        match l with
        | [] => ([], i)
        | x :: xs => let '(x', i1) := relabel_tok f x i in
                     let '(xs', i2) := go_list xs i1 in (x' :: xs', i2)
        end in
      let fix go_args (l : list (list wtok)) (i : N) : list (list wtok) * N :=
        match l with
        | [] => ([], i)
        | a :: r => let '(a', i1) := go_list a i in
                    let '(r', i2) := go_args r i1 in (a' :: r', i2)
        end in
      let '(args', i') := go_args args i in (WCall name args', i')
  end.
Fixpoint relabel_list (f : N -> str -> str) (l : list wtok) (i : N) : list wtok * N :=
  match l with
  | [] => ([], i)
  | x :: xs => let '(x', i1) := relabel_tok f x i in
               let '(xs', i2) := relabel_list f xs i1 in (x' :: xs', i2)
  end.
Fixpoint relabel_args (f : N -> str -> str) (l : list (list wtok)) (i : N) : list (list wtok) * N :=
  match l with
  | [] => ([], i)
  | a :: r => let '(a', i1) := relabel_list f a i in
              let '(r', i2) := relabel_args f r i1 in (a' :: r', i2)
  end.
Definition relabel (f : N -> str -> str) (ws : list wtok) : list wtok := fst (relabel_list f ws 1).

(* the two callbacks: an editor tabstop and the library default *)
Definition tabstop (i : N) (t : str) : str :=
  lit "${" ++ str_of_N i ++ (match t with [] => [] | _ => c_colon :: t end) ++ [c_rbrace].
Definition placeholder (i : N) (t : str) : str := t.

(* ---- the abstraction: what a token of the parsed value prints as *)
Definition leaf_text (cfg : sconfig) (k : ckind) : str :=
  match k with
  | CColor r g b a _ => color r g b a (c_short_hex cfg)
  | CLiteral s => s
  | CCustomProperty s => s
  | CNumber value _ u => frac value 4 ++ u
  | CString s single => q_of single ++ s ++ q_of single
  | CField name index => push_field cfg index name
  | _ => []
  end.
Fixpoint abs_tok (cfg : sconfig) (v : cval) : wtok :=
  match v with
  | VTok k _ _ => WLeaf (leaf_text cfg k)
  | VFunc name args => WCall name (map (map (abs_tok cfg)) args)
  end.
Definition abs (cfg : sconfig) (v : cssvalue) : list wtok := map (abs_tok cfg) v.

(* ---- the domain *)
(* no line break: push_string leaves the text alone *)
Definition nobreakb (s : str) : bool := forallb (fun c => negb ((c =? c_cr) || (c =? c_nl))) s.
(* a token wrap_with_field wraps: keyword, number, colour, string *)
Definition leaf_kind (k : ckind) : bool :=
  match k with CLiteral _ | CNumber _ _ _ | CColor _ _ _ _ _ | CString _ _ => true | _ => false end.
Fixpoint wrappable (v : cval) : bool :=
  match v with
  | VTok k _ _ => leaf_kind k
  | VFunc _ args => forallb (forallb wrappable) args
  end.
(* a token the formatter prints as its text with a blank before it: the four kinds with texts free of line
   breaks, custom properties, and fields that are not written close to the previous token *)
Definition printable_kind (cfg : sconfig) (k : ckind) (st : option nat) : bool :=
  match k with
  | CColor _ _ _ _ _ => true
  | CLiteral _ | CCustomProperty _ | CNumber _ _ _ | CString _ _ => nobreakb (leaf_text cfg k)
  | CField _ _ => match st with None => true | Some _ => false end
  | _ => false
  end.
Fixpoint printable (cfg : sconfig) (v : cval) : bool :=
  match v with
  | VTok k st _ => printable_kind cfg k st
  | VFunc _ args => forallb (forallb (printable cfg)) args
  end.

(* ================================================================== PROOFS *)
Lemma join_cons sep x l : join sep (x :: l) = x ++ match l with [] => [] | _ => sep ++ join sep l end.
Proof. destruct l; cbn [join]; [symmetry; apply app_nil_r|reflexivity]. Qed.

(* ---- push_string on texts without line breaks *)
Lemma split_nobreak s : forall cur, nobreakb s = true ->
  css_split_crlf_aux s cur = match rev cur ++ s with [] => [] | x => [x] end.
Proof.
  induction s as [|c s IH]; intros cur H; cbn [css_split_crlf_aux].
  - rewrite app_nil_r. destruct cur as [|a cur]; [reflexivity|]. cbn [rev]. destruct (rev cur ++ [a]) eqn:E; [|reflexivity].
    apply app_eq_nil in E. destruct E; discriminate.
  - cbn [nobreakb forallb] in H. apply andb_prop in H. destruct H as [Hc Hs]. apply negb_true_iff in Hc. rewrite Hc.
    rewrite IH by exact Hs. cbn [rev]. rewrite <- app_assoc. reflexivity.
Qed.
Lemma push_string_nobreak cfg s : nobreakb s = true -> push_string cfg s = s.
Proof.
  intros H. unfold push_string, css_split_crlf. rewrite split_nobreak by exact H. cbn [rev app].
  destruct s; reflexivity.
Qed.

(* ---- the local loops of relabel_tok are relabel_list / relabel_args *)
Definition rloc_list (f : N -> str -> str) :=
  fix go_list (l : list wtok) (i : N) : list wtok * N :=
    match l with
    | [] => ([], i)
    | x :: xs => let '(x', i1) := relabel_tok f x i in
                 let '(xs', i2) := go_list xs i1 in (x' :: xs', i2)
    end.
Definition rloc_args (f : N -> str -> str) :=
  fix go_args (l : list (list wtok)) (i : N) : list (list wtok) * N :=
    match l with
    | [] => ([], i)
    | a :: r => let '(a', i1) := rloc_list f a i in
                let '(r', i2) := go_args r i1 in (a' :: r', i2)
    end.
Lemma rloc_list_eq f l : forall i, rloc_list f l i = relabel_list f l i.
Proof.
  induction l as [|x xs IH]; intros i; cbn [rloc_list relabel_list]; [reflexivity|].
  destruct (relabel_tok f x i) as [x' i1]. fold (rloc_list f). rewrite IH. reflexivity.
Qed.
Lemma rloc_args_eq f l : forall i, rloc_args f l i = relabel_args f l i.
Proof.
  induction l as [|a r IH]; intros i; cbn [rloc_args relabel_args]; [reflexivity|].
  rewrite rloc_list_eq. destruct (relabel_list f a i) as [a' i1]. fold (rloc_args f). rewrite IH. reflexivity.
Qed.
Lemma relabel_tok_call f name args i :
  relabel_tok f (WCall name args) i = let '(args', i') := relabel_args f args i in (WCall name args', i').
Proof. rewrite <- rloc_args_eq. reflexivity. Qed.

(* induction over nested written values *)
Fixpoint wtok_ind2 (P : wtok -> Prop)
  (Hleaf : forall s, P (WLeaf s))
  (Hcall : forall name args, Forall (Forall P) args -> P (WCall name args))
  (t : wtok) {struct t} : P t :=
  match t with
  | WLeaf s => Hleaf s
  | WCall name args =>
      Hcall name args
        ((fix go (l : list (list wtok)) : Forall (Forall P) l :=
            match l with
            | [] => Forall_nil _
            | a :: r =>
                Forall_cons a
                  ((fix go2 (vs : list wtok) : Forall P vs :=
                      match vs with
                      | [] => Forall_nil _
                      | x :: xs => Forall_cons x (wtok_ind2 P Hleaf Hcall x) (go2 xs)
                      end) a) (go r)
            end) args)
  end.

(* ---- all separators of a value are single blanks *)
Definition no_glue (t : cval) : bool :=
  match t with VTok (CField _ _) (Some _) _ => false | _ => true end.

Lemma output_value_from_join cfg vs : forallb no_glue vs = true -> forall first pe,
  output_value_from cfg vs first pe =
  (if first then [] else match vs with [] => [] | _ => [c_space] end) ++ join [c_space] (map (output_token cfg) vs).
Proof.
  induction vs as [|t r IH]; intros H first pe; cbn [output_value_from].
  - destruct first; reflexivity.
  - cbn [forallb] in H. apply andb_prop in H. destruct H as [Ht Hr].
    rewrite (IH Hr). cbn [map]. rewrite join_cons.
    assert (Hs : (if first then [] else match t with
                                        | VTok (CField _ _) st _ => if same_pos st pe then [] else [c_space]
                                        | _ => [c_space]
                                        end) = (if first then [] else [c_space])).
    { destruct first; [reflexivity|]. destruct t as [[] [s|] en|]; try reflexivity. discriminate. }
    rewrite Hs. destruct r; reflexivity.
Qed.
Lemma output_value_join cfg v : forallb no_glue v = true ->
  output_value cfg v = join [c_space] (map (output_token cfg) v).
Proof. intros H. unfold output_value. rewrite (output_value_from_join cfg v H). reflexivity. Qed.

Lemma output_args_join cfg args : forall first,
  output_args cfg args first =
  (if first then [] else match args with [] => [] | _ => lit ", " end) ++ join (lit ", ") (map (output_value cfg) args).
Proof.
  induction args as [|a r IH]; intros first; cbn [output_args].
  - destruct first; reflexivity.
  - rewrite IH. cbn [map]. rewrite join_cons. destruct r; reflexivity.
Qed.

Lemma printable_no_glue cfg t : printable cfg t = true -> no_glue t = true.
Proof. destruct t as [[] [s|] en|]; cbn; try reflexivity; discriminate. Qed.
Lemma printable_list_no_glue cfg vs : forallb (printable cfg) vs = true -> forallb no_glue vs = true.
Proof.
  induction vs as [|t r IH]; cbn [forallb]; [reflexivity|]. intros H. apply andb_prop in H. destruct H as [H1 H2].
  rewrite (printable_no_glue cfg t H1), (IH H2). reflexivity.
Qed.

(* ---- (1) a printable token prints as its abstraction *)
Definition tok_prints (cfg : sconfig) (t : cval) : Prop :=
  printable cfg t = true -> output_token cfg t = wprint_tok (abs_tok cfg t).

Lemma value_prints_gen cfg vs : Forall (tok_prints cfg) vs -> forallb (printable cfg) vs = true ->
  output_value cfg vs = wprint (abs cfg vs).
Proof.
  intros HF Hp. rewrite (output_value_join cfg vs (printable_list_no_glue cfg vs Hp)).
  unfold wprint, abs. rewrite map_map. f_equal.
  induction HF as [|t r Ht _ IH]; [reflexivity|]. cbn [forallb] in Hp. apply andb_prop in Hp. destruct Hp as [H1 H2].
  cbn [map]. rewrite (Ht H1), (IH H2). reflexivity.
Qed.

Lemma args_print_gen cfg args : Forall (Forall (tok_prints cfg)) args ->
  forallb (forallb (printable cfg)) args = true ->
  map (output_value cfg) args = map (fun a => join [c_space] (map wprint_tok a)) (map (map (abs_tok cfg)) args).
Proof.
  induction 1 as [|a r Ha _ IH]; intros Hp; [reflexivity|].
  cbn [forallb] in Hp. apply andb_prop in Hp. destruct Hp as [H1 H2]. cbn [map]. rewrite (IH H2). f_equal.
  exact (value_prints_gen cfg a Ha H1).
Qed.

Lemma token_prints cfg t : tok_prints cfg t.
Proof.
  induction t as [k st en|name args IH] using cval_ind2; unfold tok_prints; intros Hp.
  - cbn [printable] in Hp. destruct k; cbn [printable_kind] in Hp; try discriminate;
      cbn [output_token abs_tok wprint_tok leaf_text]; try reflexivity;
      try (apply push_string_nobreak; exact Hp).
  - rewrite output_token_func, output_args_join. cbn [abs_tok wprint_tok app printable] in *.
    rewrite (args_print_gen cfg args IH Hp). reflexivity.
Qed.

(* THEOREM (unwrapped printing): tokens separated by single blanks, call arguments by ", " *)
Theorem value_print cfg v : forallb (printable cfg) v = true -> output_value cfg v = wprint (abs cfg v).
Proof. apply value_prints_gen, Forall_all, token_prints. Qed.

(* ---- (2) wrap_with_field is relabel on the abstraction, and its result is printable *)
Definition field_of (cfg : sconfig) (i : N) (t : str) : str := push_field cfg (Some i) t.

Definition wrap_spec (cfg : sconfig) (t : cval) : Prop :=
  wrappable t = true -> forall i,
    printable cfg (fst (wrap_val cfg t i)) = true /\
    abs_tok cfg (fst (wrap_val cfg t i)) = fst (relabel_tok (field_of cfg) (abs_tok cfg t) i) /\
    snd (wrap_val cfg t i) = snd (relabel_tok (field_of cfg) (abs_tok cfg t) i).

Lemma wrap_list_spec cfg vs : Forall (wrap_spec cfg) vs -> forallb wrappable vs = true -> forall i,
  forallb (printable cfg) (fst (wrap_list cfg vs i)) = true /\
  abs cfg (fst (wrap_list cfg vs i)) = fst (relabel_list (field_of cfg) (abs cfg vs) i) /\
  snd (wrap_list cfg vs i) = snd (relabel_list (field_of cfg) (abs cfg vs) i).
Proof.
  induction 1 as [|x xs Hx _ IH]; intros Hw i; cbn [wrap_list abs map relabel_list fst snd]; [repeat split|].
  cbn [forallb] in Hw. apply andb_prop in Hw. destruct Hw as [W1 W2].
  destruct (Hx W1 i) as [P1 [A1 S1]].
  destruct (wrap_val cfg x i) as [o1 i1]. destruct (relabel_tok (field_of cfg) (abs_tok cfg x) i) as [x' j1].
  cbn [fst snd] in *. subst j1.
  destruct (IH W2 i1) as [P2 [A2 S2]]. fold (abs cfg xs).
  destruct (wrap_list cfg xs i1) as [o2 i2]. destruct (relabel_list (field_of cfg) (abs cfg xs) i1) as [xs' j2].
  cbn [fst snd forallb abs map] in *. rewrite P1, P2, A1, A2. repeat split. exact S2.
Qed.

Definition abs_args (cfg : sconfig) (args : list (list cval)) : list (list wtok) := map (abs cfg) args.

Lemma wrap_args_spec cfg args : Forall (Forall (wrap_spec cfg)) args -> forallb (forallb wrappable) args = true ->
  forall i,
  forallb (forallb (printable cfg)) (fst (wrap_args cfg args i)) = true /\
  abs_args cfg (fst (wrap_args cfg args i)) = fst (relabel_args (field_of cfg) (abs_args cfg args) i) /\
  snd (wrap_args cfg args i) = snd (relabel_args (field_of cfg) (abs_args cfg args) i).
Proof.
  induction 1 as [|a r Ha _ IH]; intros Hw i; cbn [wrap_args abs_args map relabel_args fst snd]; [repeat split|].
  cbn [forallb] in Hw. apply andb_prop in Hw. destruct Hw as [W1 W2].
  destruct (wrap_list_spec cfg a Ha W1 i) as [P1 [A1 S1]].
  destruct (wrap_list cfg a i) as [o1 i1]. destruct (relabel_list (field_of cfg) (abs cfg a) i) as [a' j1].
  cbn [fst snd] in *. subst j1.
  destruct (IH W2 i1) as [P2 [A2 S2]]. fold (abs_args cfg r).
  destruct (wrap_args cfg r i1) as [o2 i2]. destruct (relabel_args (field_of cfg) (abs_args cfg r) i1) as [r' j2].
  cbn [fst snd forallb abs_args map] in *. rewrite P1, P2, A1, A2. repeat split. exact S2.
Qed.

Lemma wrap_val_spec cfg t : wrap_spec cfg t.
Proof.
  induction t as [k st en|name args IH] using cval_ind2; unfold wrap_spec; intros Hw i.
  - cbn [wrappable] in Hw. destruct k; cbn [leaf_kind] in Hw; try discriminate;
      cbn [wrap_val abs_tok relabel_tok fst snd leaf_text]; repeat split.
  - rewrite wrap_val_func. cbn [abs_tok]. rewrite relabel_tok_call. cbn [wrappable] in Hw.
    change (map (map (abs_tok cfg)) args) with (abs_args cfg args).
    destruct (wrap_args_spec cfg args IH Hw i) as [P [A S]].
    destruct (wrap_args cfg args i) as [o i']. destruct (relabel_args (field_of cfg) (abs_args cfg args) i) as [a' j].
    cbn [fst snd printable abs_tok] in *.
    change (map (map (abs_tok cfg)) o) with (abs_args cfg o). rewrite A. repeat split; assumption.
Qed.

(* THEOREM (wrapped printing): the value with every leaf wrapped in a field, numbered from 1 in document order *)
Theorem wrapped_print cfg v : forallb wrappable v = true ->
  output_value cfg (wrap_with_field cfg v) = wprint (relabel (field_of cfg) (abs cfg v)).
Proof.
  intros Hw. unfold wrap_with_field, relabel.
  destruct (wrap_list_spec cfg v (Forall_all _ (wrap_val_spec cfg) v) Hw 1) as [P [A _]].
  rewrite (value_print cfg _ P), A. reflexivity.
Qed.
