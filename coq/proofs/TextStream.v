(* C04 -- text_not_reparsed: text reaches the output stream as the same characters (line by line when
   it has line breaks); the stream never tokenizes it. *)
From Coq Require Import ZArith List Bool Lia.
From Emmet Require Import lib.Base model.MarkupTokenizer model.MarkupParser model.MarkupConvert model.OutStream.
Local Open Scope N_scope.

Definition is_crlf (c : char) : bool := (c =? c_cr) || (c =? c_nl).

Lemma os_value_push_gen nl o s : os_value (os_push_gen nl o s) = os_value o ++ s.
Proof.
  unfold os_value, os_push_gen. cbn [os_events rev map]. rewrite map_app, concat_app.
  cbn [map concat ev_text]. rewrite app_nil_r. reflexivity.
Qed.
Lemma os_value_push o s : os_value (os_push o s) = os_value o ++ s.
Proof. apply os_value_push_gen. Qed.

(* newline + base indent + indentation of the current level: what push_newline(True) writes *)
Definition line_sep (f : ofmt) (level : Z) : str :=
  of_newline f ++ of_base_indent f ++ repeat_str (of_indent f) (Z.to_nat (Z.max level 0)).

Lemma os_value_newline f o :
  os_value (os_push_newline f o (Some None)) = os_value o ++ line_sep f (os_level o).
Proof.
  unfold os_push_newline, os_push_indent. rewrite os_value_push.
  unfold os_value at 1. cbn [os_events os_level].
  change (concat (map ev_text (rev (os_events (os_push_gen true o (of_newline f ++ of_base_indent f))))))
    with (os_value (os_push_gen true o (of_newline f ++ of_base_indent f))).
  rewrite os_value_push_gen. unfold line_sep. rewrite <- !app_assoc. reflexivity.
Qed.
Lemma os_level_newline f o : os_level (os_push_newline f o (Some None)) = os_level o.
Proof. reflexivity. Qed.
Lemma os_level_push o s : os_level (os_push o s) = os_level o.
Proof. reflexivity. Qed.

(* push_string writes the lines of the text, each verbatim, separated by the configured newline and
   the indentation in force -- and nothing else *)
Theorem push_string_value f o s :
  os_value (os_push_string f o s) = os_value o ++ join (line_sep f (os_level o)) (split_crlf s).
Proof.
  unfold os_push_string. destruct (split_crlf s) as [|l0 ls]; [cbn [join]; rewrite app_nil_r; reflexivity|].
  assert (G : forall ls o' l,
            os_value (fold_left (fun o'' l => os_push (os_push_newline f o'' (Some None)) l) ls (os_push o' l))
            = os_value o' ++ join (line_sep f (os_level o')) (l :: ls)
            /\ True).
  { induction ls0 as [|l1 ls0 IH]; intros o' l; split; try exact I.
    - cbn [fold_left join]. apply os_value_push.
    - cbn [fold_left]. destruct (IH (os_push_newline f (os_push o' l) (Some None)) l1) as [E _].
      rewrite E. rewrite os_value_newline, os_value_push. rewrite os_level_newline, os_level_push.
      cbn [join]. rewrite <- !app_assoc. destruct ls0; reflexivity. }
  apply G.
Qed.

(* the lines are the text cut at CR / LF / CRLF: every other character is kept, in order *)
Lemma split_crlf_aux_chars : forall n s, (length s <= n)%nat -> forall cur,
  concat (split_crlf_aux s cur) = rev cur ++ filter (fun c => negb (is_crlf c)) s.
Proof.
  induction n as [|n IH]; intros s Hn cur.
  - destruct s; [|cbn [length] in Hn; lia].
    cbn [split_crlf_aux filter]. destruct cur; [reflexivity|]. cbn [concat]. rewrite !app_nil_r. reflexivity.
  - destruct s as [|c s'].
    { apply (IH [] ltac:(cbn; lia)). }
    cbn [length] in Hn. cbn [split_crlf_aux filter]. unfold is_crlf at 1.
    destruct ((c =? c_cr) || (c =? c_nl)) eqn:E; cbn [negb].
    + destruct s' as [|c2 s''].
      * cbn [concat filter]. reflexivity.
      * destruct ((c =? c_cr) && (c2 =? c_nl)) eqn:E2.
        -- cbn [concat]. rewrite (IH s'' ltac:(cbn [length] in Hn; lia) []). cbn [rev app].
           apply andb_true_iff in E2. destruct E2 as [_ E2]. apply N.eqb_eq in E2. subst c2.
           cbn [filter]. replace (is_crlf c_nl) with true by reflexivity. reflexivity.
        -- cbn [concat]. rewrite (IH (c2 :: s'') ltac:(lia) []). reflexivity.
    + rewrite (IH s' ltac:(lia) (c :: cur)). cbn [rev]. rewrite <- app_assoc. reflexivity.
Qed.

Theorem split_crlf_chars s : concat (split_crlf s) = filter (fun c => negb (is_crlf c)) s.
Proof. unfold split_crlf. rewrite (split_crlf_aux_chars (length s) s (Nat.le_refl _) []). reflexivity. Qed.

(* text without line breaks is pushed as ONE chunk, the very same string *)
Lemma split_crlf_aux_single : forall s cur,
  forallb (fun c => negb (is_crlf c)) s = true ->
  split_crlf_aux s cur = match rev cur ++ s with [] => [] | l => [l] end.
Proof.
  induction s as [|c s IH]; intros cur H.
  - cbn [split_crlf_aux]. rewrite app_nil_r. destruct cur as [|x cur']; [reflexivity|].
    destruct (rev (x :: cur')) eqn:E; [|reflexivity].
    apply (f_equal (@length N)) in E. rewrite rev_length in E. discriminate.
  - cbn [forallb] in H. apply andb_true_iff in H. destruct H as [Hc Hs].
    cbn [split_crlf_aux]. unfold is_crlf in Hc. destruct ((c =? c_cr) || (c =? c_nl)); [discriminate|].
    rewrite IH by exact Hs. cbn [rev]. rewrite <- app_assoc. reflexivity.
Qed.

Theorem push_string_verbatim f o s :
  forallb (fun c => negb (is_crlf c)) s = true ->
  os_value (os_push_string f o s) = os_value o ++ s.
Proof.
  intros H. rewrite push_string_value. unfold split_crlf. rewrite split_crlf_aux_single by exact H.
  cbn [rev app]. destruct s; cbn [join]; reflexivity.
Qed.
