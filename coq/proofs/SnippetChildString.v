(* C14, `k>c` against `d>c` as STRINGS, end to end, for all tables.  The one thing taken as a hypothesis is
   how the text `d>c` is read: as the definition's forest with the child hung below find_deepest
   ([child_reads_below]).  That is a statement about tokenizer + parser + converter alone (no snippet
   table); it holds when the definition ends with an element that is not a text node, has no repeater on its
   last-child chain and no group at the end (`x*2>b` repeats b; the children of a text-only node become its
   siblings); it is decidable by evaluation for any concrete definition (see the example). *)
From Coq Require Import List NArith ZArith Bool Lia.
From Emmet Require Import lib.Base model.MarkupTokenizer model.MarkupParser model.MarkupConvert
     model.MarkupResolve proofs.AttrProofs proofs.SnippetProofs proofs.SnippetAcyclic proofs.SnippetAliasParse
     proofs.SnippetAliasForms proofs.SnippetDecorate.
Import ListNotations.

Definition child_reads_below (cfg : mconfig) (d c : str) (D : list anode) : Prop :=
  parse_def cfg d = Ok D /\ parse_def cfg (d ++ c_gt :: c) = Ok (attach_deepest D [bare c]).

Theorem alias_child_eq_definition_child : forall cfg k c d D R K,
  key_text k = true -> key_text c = true ->
  def_of cfg (Some k) = Some d -> self_free cfg d = true ->
  mc_jsx cfg = false -> mc_text cfg = WNone -> mc_max_repeat cfg = mc_max_repeat_snip cfg ->
  child_reads_below cfg d c D ->
  live cfg (length (mc_snippets cfg)) [] D ->
  walk_resolve (full_fuel cfg) cfg [] D = Ok R -> walk_resolve (full_fuel cfg) cfg [] [bare c] = Ok K ->
  markup_parse cfg (k ++ c_gt :: c) = markup_parse cfg (d ++ c_gt :: c).
Proof.
  intros cfg k c d D R K Hk Hc Hd Hsf Hj Ht Hm [EP EPc] HL HR HK.
  rewrite (alias_child_string cfg k c d Hk Hc Hd Hsf Ht).
  unfold resolve_def. rewrite EP. cbn [bind]. rewrite HR. cbn [bind]. rewrite HK. cbn [bind].
  pose proof (live_nonempty cfg _ [] D HL R HR) as Hne.
  unfold markup_parse. fold (outer_env cfg).
  rewrite (same_reading_plain cfg (d ++ c_gt :: c) Hj Ht Hm). rewrite EPc. cbn [bind].
  fold (full_fuel cfg). unfold full_fuel in *.
  rewrite (attach_resolve cfg _ [] D HL R [bare c] K HR HK). cbn [bind].
  destruct R; [contradiction|reflexivity].
Qed.

(* non-vacuity: u = `div.a>span+em[t=1]`, nested alias w below; `u>b` = `div.a>span+em[t=1]>b` *)
Definition chs_cfg : mconfig :=
  mkMConfig [104;116;109;108]%N
            [([117]%N, [100;105;118;46;97;62;119;43;101;109;91;116;61;49;93]%N);     (* u = div.a>w+em[t=1] *)
             ([119]%N, [115;112;97;110;123;104;105;125]%N)]                           (* w = span{hi} *)
            [] WNone None None false None [] false false false [] [] None.
Example alias_child_eq_definition_child_nonvacuous :
  exists D R K,
    child_reads_below chs_cfg [100;105;118;46;97;62;119;43;101;109;91;116;61;49;93]%N [98]%N D /\
    live chs_cfg (length (mc_snippets chs_cfg)) [] D /\
    walk_resolve (full_fuel chs_cfg) chs_cfg [] D = Ok R /\
    walk_resolve (full_fuel chs_cfg) chs_cfg [] [bare [98]%N] = Ok K /\
    self_free chs_cfg [100;105;118;46;97;62;119;43;101;109;91;116;61;49;93]%N = true.
Proof.
  eexists. eexists. eexists. split.
  - split; vm_compute; reflexivity.
  - split.
    + (* the chain: div > em, no alias on it *)
      eapply live_of_plain; [|vm_compute; reflexivity].
      match goal with |- plain_chain _ _ [?n] => change [n] with ([] ++ [n]) end.
      eapply pc_down; [reflexivity|discriminate|].
      match goal with |- plain_chain _ _ [?a; ?b] => change [a; b] with ([a] ++ [b]) end.
      eapply pc_end. reflexivity.
    + split; [vm_compute; reflexivity|]. split; [vm_compute; reflexivity|vm_compute; reflexivity].
Qed.

(* the hypothesis fails for a text-only ending: `p>{hi}` followed by `>b` -- the converter makes b a sibling of the text *)
Example child_reads_below_fails_text :
  exists D X, parse_def chs_cfg [112;62;123;104;105;125]%N = Ok D /\
              parse_def chs_cfg [112;62;123;104;105;125;62;98]%N = Ok X /\ X <> attach_deepest D [bare [98]%N].
Proof.
  eexists. eexists. split; [vm_compute; reflexivity|]. split; [vm_compute; reflexivity|].
  intro H. discriminate H.
Qed.
