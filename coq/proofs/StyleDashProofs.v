(* C05 dash_rule: lemmas on one round of the stylesheet tokenizer loop, for every
   context (source, mode, bracket depth, tokens read so far, position). *)
From Coq Require Import ZifyBool.
From Emmet Require Import lib.Base lib.StyleLib model.CssTokenizer proofs.CssTokenizerProofs.
Local Open Scope nat_scope.

Lemma dash_is_operator rest : coperator (c_dash :: rest) = CTok (COperator c_dash) 1.
Proof. reflexivity. Qed.

Lemma consume_kind_not_bracket k : should_consume_dash_after k = true ->
  match k with CBracket _ => False | _ => True end.
Proof. destruct k; cbn; intros H; try exact I; discriminate. Qed.

(* (a) after a unit-less number or a colour, a following `-` is tokenised as the
       value delimiter (an Operator token of one character) and the loop goes on after it *)
Lemma dash_after_unitless_or_color src v br acc pos c r k n rest :
  cconsume (Nat.eqb br 0 && negb v) (Nat.eqb pos 0) (c :: r) = CTok k n ->
  should_consume_dash_after k = true ->
  skipn n (c :: r) = c_dash :: rest ->
  ctoks src v 0 br acc pos (c :: r) =
  ctoks src v n br
        (mkCTok (COperator c_dash) (pos + n) (pos + n + 1) :: mkCTok k pos (pos + n) :: acc) (S pos) r.
Proof.
  intros Hc Hs Hr. cbn [ctoks]. rewrite Hc.
  pose proof (consume_kind_not_bracket k Hs) as Hk.
  destruct k; try contradiction; rewrite Hs, Hr, dash_is_operator; reflexivity.
Qed.

(* (b) after any other token (in particular a number WITH a unit) nothing is consumed
       behind the token: the next round starts right after it *)
Lemma no_forced_operator src v br acc pos c r k n :
  cconsume (Nat.eqb br 0 && negb v) (Nat.eqb pos 0) (c :: r) = CTok k n ->
  should_consume_dash_after k = false ->
  match k with CBracket _ => False | _ => True end ->
  ctoks src v 0 br acc pos (c :: r) = ctoks src v (pred n) br (mkCTok k pos (pos + n) :: acc) (S pos) r.
Proof.
  intros Hc Hs Hk. cbn [ctoks]. rewrite Hc.
  destruct k; try contradiction; rewrite Hs; reflexivity.
Qed.

Lemma number_with_unit_no_forced v raw u0 u :
  should_consume_dash_after (CNumber v raw (u0 :: u)) = false.
Proof. reflexivity. Qed.
Lemma unitless_number_forced v raw : should_consume_dash_after (CNumber v raw []) = true.
Proof. reflexivity. Qed.
Lemma color_forced r g b a raw : should_consume_dash_after (CColor r g b a raw) = true.
Proof. reflexivity. Qed.

(* (c) at the start of a round, `-digit` is a sign: the round produces a NEGATIVE number
       whose raw text starts with the dash *)
Lemma dec_of_body_neg neg body d : dec_of_body neg body = Some d -> dneg d = neg.
Proof.
  unfold dec_of_body. intros H.
  destruct (fst (split_at_dot body)) eqn:E1; destruct (match snd (split_at_dot body) with Some f => f | None => [] end) eqn:E2;
    try discriminate;
    destruct (digits_value 0 _); try discriminate; inversion H; reflexivity.
Qed.

Lemma dash_digit_is_sign short at_start d r :
  is_number d = true ->
  exists v raw' u n,
    cconsume short at_start (c_dash :: d :: r) = CTok (CNumber v (c_dash :: raw') u) n /\ dneg v = true /\ 2 <= n.
Proof.
  intros Hd.
  assert (Hdd : (d =? c_dash)%N = false).
  { destruct (d =? c_dash)%N eqn:E; [|reflexivity]. apply N.eqb_eq in E. subst d.
    rewrite dash_not_number in Hd. discriminate. }
  unfold cconsume.
  assert (H1 : ccustom_property (c_dash :: d :: r) = CNone).
  { unfold ccustom_property. rewrite Hdd. rewrite andb_false_r. reflexivity. }
  assert (H2 : cfield (c_dash :: d :: r) = CNone) by reflexivity.
  rewrite H1. cbn [corelse]. rewrite H2. cbn [corelse].
  unfold cnumber_value.
  destruct (consume_number_spec (c_dash :: d :: r)) as [Hle Hraw].
  assert (Hcn : exists m, consume_number (c_dash :: d :: r) = S (S m)).
  { unfold consume_number. cbn [cpeek_is tl]. rewrite N.eqb_refl.
    unfold number_body. cbn [cspan]. rewrite Hd.
    set (nd := S (cspan is_number r)).
    destruct (cpeek_is c_dot (skipn nd (d :: r))).
    - subst nd. cbv iota beta. eexists. cbn [Nat.add]. reflexivity.
    - subst nd. eexists. cbn [Nat.add]. reflexivity. }
  destruct Hcn as [m Hm]. rewrite Hm in *.
  destruct Hraw as [dv Hdv]; [discriminate|].
  rewrite Hdv. cbn [firstn] in Hdv.
  unfold dec_of_raw in Hdv. rewrite N.eqb_refl in Hdv. apply dec_of_body_neg in Hdv.
  cbn [firstn corelse].
  eexists dv, _, _, _. split; [reflexivity|]. split; [exact Hdv|].
  destruct (cpeek_is c_percent (skipn (S (S m)) (c_dash :: d :: r))); lia.
Qed.
