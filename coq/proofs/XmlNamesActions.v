(* C17 on tags whose names are ANY XML Names: the action helpers on `<n a="v">t</n>` (proofs/XmlNames.v: xdoc)
   select exactly the tag of the record -- corollaries of proofs/HtmlSelectText.v over the complete name alphabet. *)
From Coq Require Import List NArith ZArith Bool Lia.
From Emmet Require Import lib.Base gen.GenHtml model.HtmlScan model.HtmlMatch model.HtmlActions
  proofs.HtmlRenderLib proofs.HtmlRender proofs.HtmlRenderScan proofs.HtmlRenderCompose proofs.HtmlSelectText
  proofs.XmlNames.
Import ListNotations.
Local Open Scope Z_scope.

(* the only tag record of the document: its open tag at offset 0 *)
Definition xtag (n a v : str) : tagrec := mkTagRec 0 n [xattr a v] [] false.

Lemma xdoc_tags n a v t : tags_of (xdoc n a v t) = [xtag n a v].
Proof. reflexivity. Qed.

Lemma xtag_end n a v : tr_end (xtag n a v) = x_oe n a v.
Proof.
  unfold tr_end, tr_text, xtag, x_oe, open_tag, render_attrs. cbn [tr_start tr_name tr_attrs tr_ws tr_sc flat_map].
  unfold render_attr, value_part, xattr. cbn [da_ws da_name da_val render_aname value_text].
  cbn [length app]. rewrite !app_length. cbn [length]. rewrite !app_length. cbn [length].
  rewrite ?app_length. cbn [length]. lia.
Qed.

(* select_item_html: whatever the position and direction, the selection is computed from the one tag as written *)
Theorem select_xml_named_pair o n a v t pos is_prev :
  xdoc_ok (o_special o) n a v t ->
  select_item_html o (render (xdoc n a v t)) pos is_prev =
  Ok (option_map written_model (select_tag pos is_prev [xtag n a v])).
Proof.
  intros H. pose proof (select_text o (xdoc n a v t) pos is_prev (xdoc_item_ok _ n a v t H)) as [E _].
  rewrite xdoc_tags in E. exact E.
Qed.

(* get_open_tag: strictly inside the open tag `<n a="v">` -> that tag with its attribute token *)
Theorem open_tag_xml_named_pair n a v t pos :
  xdoc_ok (o_special default_opts) n a v t ->
  0 < pos < Z.of_N (x_oe n a v) ->
  get_open_tag (render (xdoc n a v t)) pos = Ok (Some (ctx_of_tag (xtag n a v))).
Proof.
  intros H Hp. pose proof (get_open_tag_text (xdoc n a v t) pos (xdoc_item_ok _ n a v t H)) as [G _].
  apply G.
  - rewrite xdoc_tags. left. reflexivity.
  - cbn [xtag tr_start]. lia.
  - rewrite xtag_end. lia.
Qed.
