(* C04 -- text through convert/stringify: brackets, the `$#` placeholder, wrap text placement. *)
From Coq Require Import ZArith List Bool Lia ZifyBool.
From Emmet Require Import lib.Base model.MarkupTokenizer model.MarkupParser model.MarkupConvert proofs.TextSpec.
Local Open Scope N_scope.

(* `(` and `)` that end up inside a value are written back as themselves *)
Lemma group_bracket_text env t st op :
  tk t = TBracket op BGroup -> stringify env t st = Ok ([if op then c_lparen else c_rparen], st).
Proof. intros H. unfold stringify. rewrite H. destruct op; reflexivity. Qed.

Lemma bracket_text env t st op b :
  tk t = TBracket op b ->
  stringify env t st =
    Ok ([match b, op with
         | BAttr, true => c_lbrack | BAttr, false => c_rbrack
         | BExpr, true => c_lbrace | BExpr, false => c_rbrace
         | BGroup, true => c_lparen | BGroup, false => c_rparen
         end], st).
Proof. intros H. unfold stringify. rewrite H. reflexivity. Qed.

(* ---------------------------------------------------------------- `$#` *)
(* states the converter can be in: the counter of an implicit repeater over a line list is the index of
   one of the non-blank lines (convert_statement: i < count = len(clean_text)) *)
Definition reps_in_range (env : cenv) (st : cst) : Prop :=
  forall r, In r (cs_repeaters st) -> rimplicit r = true ->
    match ce_text env with
    | WList l => (N.to_nat (rvalue r) < length (wrap_lines l))%nat
    | _ => True
    end.

Lemma clean_text_filter l : clean_text (WList l) = filter nonblank l.
Proof.
  cbn [clean_text]. apply filter_ext. intros a. unfold is_blank, nonblank. destruct (strip a); reflexivity.
Qed.
Lemma clean_text_lines l : map strip (clean_text (WList l)) = wrap_lines l.
Proof. rewrite clean_text_filter. reflexivity. Qed.

Lemma find_some_in {A} (p : A -> bool) l x : find p l = Some x -> In x l /\ p x = true.
Proof. apply find_some. Qed.

(* what `$#` stands for *)
Definition placeholder_text (env : cenv) (st : cst) : str :=
  match ce_text env with
  | WNone => []
  | WStr s => s
  | WList l =>
      match find (fun r => rimplicit r) (cs_repeaters st) with
      | Some r => nth (N.to_nat (rvalue r)) (wrap_lines l) []
      | None => join [c_nl] l
      end
  end.

Lemma placeholder_total env t st :
  tk t = TRepeaterPlaceholder -> reps_in_range env st ->
  stringify env t st = Ok (placeholder_text env st, set_text_inserted (set_inserted st)).
Proof.
  intros Ht Hr. unfold stringify. rewrite Ht. unfold get_text_at, placeholder_text.
  destruct (ce_text env) as [|s|l] eqn:Et; try reflexivity.
  cbn [cs_repeaters set_inserted].
  destruct (find (fun r => rimplicit r) (cs_repeaters st)) as [r|] eqn:Ef; [|reflexivity].
  apply find_some in Ef. destruct Ef as [Hin Himp].
  specialize (Hr r Hin Himp). rewrite Et in Hr.
  unfold wrap_lines in *. rewrite map_length in Hr.
  rewrite clean_text_filter.
  destruct (nth_error (filter nonblank l) (N.to_nat (rvalue r))) as [line|] eqn:En.
  - rewrite (nth_error_nth _ _ _ (map_nth_error strip _ _ En)). reflexivity.
  - apply nth_error_None in En. lia.
Qed.
