(* C17 (CSS half), Level B for the END of a body: parse_properties run on the TEXT of a rule body of the
   grammar model/CssSheetTail.v (items of the C10 level-B grammar followed by nothing, by an unterminated
   `name : value`, or by `name :` with neither value nor `;`) returns props_spec_tail of the body's layout.
     scan_body_text        the scanner on the body text yields the events of the layout tree followed by the
                           tail's events (PropertyName [+ PropertyValue with delimiter -1])
     body_tail_colon       the colon offset recorded for an STEmpty tail is a colon of the body text
     parse_properties_body_text
                           parse_properties code from to, where code[from:to] is the body text, =
                           props_spec_tail (body text) from (layout tree) (layout tail) *)
From Coq Require Import ZArith List Bool Lia ZifyBool.
From Emmet Require Import lib.Base model.CssScan model.CssMatch model.CssParse model.CssActions
     model.CssTree model.CssTreeActions model.CssSheet model.CssSheetTail
     proofs.CssScanProofs proofs.CssMatchProofs proofs.CssTreeProofs proofs.CssActionsProofs proofs.CssRender
     proofs.CssSectionText.
Import ListNotations.
Local Open Scope Z_scope.

Lemma head_gap g : gap_ok g = true -> head_not_colon (render_gap g).
Proof.
  destruct g as [|x g]; intros H; [exact I|].
  cbn [gap_ok forallb] in H. apply andb_true_iff in H. destruct H as [Hx _].
  unfold render_gap. cbn [flat_map]. apply head_glex. exact Hx.
Qed.

(* after the loop: a name and a colon, nothing since *)
Lemma eof_name_colon ns nl colon : 0 <= ns -> 0 <= nl ->
  scan_eof (colon_branch (tok_st st0 ns nl 0) colon) = [mkEv PropertyName ns (ns + nl) colon].
Proof.
  intros H1 H2. unfold scan_eof, colon_branch, tok_st, st0.
  cbn [st_start st_end st_pdelim st_pstart st_pend st_expr st_sel].
  change (-1 =? -1) with true. cbv iota.
  replace (ns =? -1) with false by lia. replace (ns + nl =? -1) with false by lia.
  cbn [negb app]. change (-1 =? -1) with true. reflexivity.
Qed.

(* after the loop: a name, a colon and a value *)
Lemma eof_name_colon_value ns nl colon vs vl : 0 <= ns -> 0 <= nl -> 0 <= vs ->
  scan_eof (tok_st (colon_branch (tok_st st0 ns nl 0) colon) vs vl 0) =
  [mkEv PropertyName ns (ns + nl) colon; mkEv PropertyValue vs (vs + vl) (-1)].
Proof.
  intros H1 H2 H3. unfold scan_eof, colon_branch, tok_st, st0.
  cbn [st_start st_end st_pdelim st_pstart st_pend st_expr st_sel].
  change (-1 =? -1) with true. cbv iota.
  replace (ns =? -1) with false by lia. replace (ns + nl =? -1) with false by lia.
  cbn [negb app]. replace (vs =? -1) with false by lia. reflexivity.
Qed.

Lemma scan_stail t pos : 0 <= pos -> stail_ok t = true ->
  scan_go 0 st0 pos (render_stail t) = tail_events (lay_stail pos t).
Proof.
  intros Hp Hok. destruct t as [g|g1 name g2 g3 value g4|g1 name g2 g3]; cbn [stail_ok] in Hok.
  - cbn [render_stail lay_stail tail_events]. rewrite <- (app_nil_r (render_gap g)).
    rewrite scan_gap by exact Hok. reflexivity.
  - repeat match type of Hok with (_ && _) = true => apply andb_true_iff in Hok; destruct Hok as [Hok ?] end.
    rename Hok into Hg1, H4 into Hn, H3 into Hg2, H2 into Hg3, H1 into Hv, H0 into Hg4, H into Hs.
    pose proof (zlen_nonneg (render_gap g1)). pose proof (zlen_nonneg (render_gap g2)).
    pose proof (zlen_nonneg (render_gap g3)). pose proof (zlen_nonneg (render_gap g4)).
    pose proof (zlen_nonneg (render_lexs name)). pose proof (zlen_nonneg (render_lexs value)).
    cbn [render_stail lay_stail tail_events]. cbv zeta.
    rewrite scan_gap by exact Hg1.
    rewrite scan_run; [|lia|reflexivity|exact Hn].
    rewrite scan_gap by exact Hg2.
    rewrite scan_colon; [|reflexivity|apply colon_sep_head; assumption].
    rewrite scan_gap by exact Hg3.
    rewrite scan_run; [|lia|reflexivity|exact Hv].
    rewrite <- (app_nil_r (render_gap g4)). rewrite scan_gap by exact Hg4.
    cbn [scan_go]. rewrite eof_name_colon_value by lia. reflexivity.
  - repeat match type of Hok with (_ && _) = true => apply andb_true_iff in Hok; destruct Hok as [Hok ?] end.
    rename Hok into Hg1, H1 into Hn, H0 into Hg2, H into Hg3.
    pose proof (zlen_nonneg (render_gap g1)). pose proof (zlen_nonneg (render_gap g2)).
    pose proof (zlen_nonneg (render_gap g3)). pose proof (zlen_nonneg (render_lexs name)).
    cbn [render_stail lay_stail tail_events]. cbv zeta.
    rewrite scan_gap by exact Hg1.
    rewrite scan_run; [|lia|reflexivity|exact Hn].
    rewrite scan_gap by exact Hg2.
    rewrite scan_colon; [|reflexivity|apply head_gap; exact Hg3].
    rewrite <- (app_nil_r (render_gap g3)). rewrite scan_gap by exact Hg3.
    cbn [scan_go]. rewrite eof_name_colon by lia. reflexivity.
Qed.

Theorem scan_body_text body t : body_ok body t = true ->
  scan (render_body body t) = body_events_tail (body_tree body) (body_tail_of body t).
Proof.
  intros H. unfold body_ok in H. apply andb_true_iff in H. destruct H as [Hi Ht].
  unfold scan, render_body, body_events_tail, body_tree, body_tail_of.
  assert (Hall : Forall item_stmt body) by (apply Forall_forall; intros x _; apply scan_item).
  rewrite (scan_items_of body Hall Hi 0 _ (Z.le_refl 0)). f_equal.
  rewrite Z.add_0_l. apply scan_stail; [apply zlen_nonneg|exact Ht].
Qed.

(* the character at offset zlen A of A ++ c :: B *)
Lemma nth_error_mid {A} (a : list A) c b : nth_error (a ++ c :: b) (length a) = Some c.
Proof. induction a as [|x a IH]; [reflexivity|exact IH]. Qed.

Theorem body_tail_colon body t : tail_ok (render_body body t) (body_tail_of body t).
Proof.
  destruct t as [g|g1 name g2 g3 value g4|g1 name g2 g3]; try exact I.
  unfold body_tail_of, render_body. cbn [lay_stail tail_ok render_stail]. cbv zeta. unfold colon_at.
  pose proof (zlen_nonneg (render_items body)). pose proof (zlen_nonneg (render_gap g1)).
  pose proof (zlen_nonneg (render_gap g2)). pose proof (zlen_nonneg (render_lexs name)).
  split; [lia|].
  replace (render_items body ++ render_gap g1 ++ render_lexs name ++ render_gap g2 ++ c_colon :: render_gap g3)
    with ((render_items body ++ render_gap g1 ++ render_lexs name ++ render_gap g2) ++ c_colon :: render_gap g3)
    by (repeat rewrite <- app_assoc; reflexivity).
  replace (Z.to_nat (zlen (render_items body) + zlen (render_gap g1) + zlen (render_lexs name) + zlen (render_gap g2)))
    with (length (render_items body ++ render_gap g1 ++ render_lexs name ++ render_gap g2)).
  - apply nth_error_mid.
  - rewrite !app_length. unfold zlen. lia.
Qed.

Lemma body_tree_wf body : seq_ok wf_node 0 (zlen (render_items body)) (body_tree body).
Proof.
  pose proof (tree_wf (mkSheet body [])) as H. unfold wf_forest, tree, render in H.
  cbn [sh_items sh_tail render_gap flat_map] in H. rewrite app_nil_r in H. exact H.
Qed.

(* parse_properties on a document whose slice [from:to] is the text of the body *)
Theorem parse_properties_body_text body t pre post :
  body_ok body t = true ->
  parse_properties (pre ++ render_body body t ++ post) (zlen pre) (zlen pre + zlen (render_body body t)) =
  props_spec_tail (render_body body t) (zlen pre) (body_tree body) (body_tail_of body t).
Proof.
  intros H. unfold parse_properties.
  rewrite (py_slice_mid pre (render_body body t) post _ _ eq_refl eq_refl).
  rewrite (scan_body_text body t H).
  eapply props_tree_tail; [apply body_tree_wf|apply body_tail_colon].
Qed.
