(* html_element / indent_element cut into named blocks with the walk over the children
   abstracted as a parameter [next].  The block forms are definitionally the model functions
   (lemmas *_unfold, by computation), so every proof about the formatter is done block by block. *)
From Emmet Require Import lib.Base model.MarkupTokenizer model.MarkupParser model.MarkupConvert
     model.OutStream model.FormatHtml model.FormatIndent.

(* ---------------------------------------------------------------- children walk *)
Definition html_children (c : oconfig) (node : anode) : fstate -> fstate :=
  (fix go (i : nat) (l : list anode) (st : fstate) : fstate :=
     match l with
     | [] => st
     | ch :: r => go (S i) r (html_element c (Some node) ch i (an_children node) st)
     end) O (an_children node).

(* the same walk, starting at index [i] over a suffix [l] of the children *)
Fixpoint html_walk (c : oconfig) (parent : option anode) (items : list anode) (i : nat) (l : list anode) (st : fstate) : fstate :=
  match l with
  | [] => st
  | ch :: r => html_walk c parent items (S i) r (html_element c parent ch i items st)
  end.

(* ---------------------------------------------------------------- push_attribute in blocks *)
Definition attr_out_name (c : oconfig) (a : aattr) (nm0 : str) : str :=
  attr_name c (match oc_markup_attributes c with
               | Some ((_ :: _) as tbl) =>
                   match get_multi_value nm0 tbl (aa_multiple a) with
                   | Some ((_ :: _) as m) => m
                   | _ => nm0
                   end
               | _ => nm0
               end).
Definition attr_prefix (c : oconfig) (a : aattr) (nm0 : str) : option str :=
  match oc_value_prefix c with
  | Some ((_ :: _) as tbl) => get_multi_value nm0 tbl (aa_multiple a)
  | _ => None
  end.
(* the value actually written and its quotes *)
Definition attr_v1 (c : oconfig) (a : aattr) (nm0 : str) : option (list vtok) * str * str :=
  match attr_prefix c a nm0, aa_value a with
  | Some ((_ :: _) as pf), Some [VStr val] =>
      let v := if is_prop_key val then pf ++ [c_dot] ++ val
               else pf ++ [c_lbrack; c_squote] ++ val ++ [c_squote; c_rbrack] in
      (Some [VStr v],
       if oc_jsx c then [c_lbrace] else attr_quote c a true,
       if oc_jsx c then [c_rbrace] else attr_quote c a false)
  | _, _ => (aa_value a, attr_quote c a true, attr_quote c a false)
  end.
Definition attr_value2 (c : oconfig) (a : aattr) (name : str) (value1 : option (list vtok)) : option (list vtok) :=
  if is_boolean_attribute c a && negb (truthy_l value1) then
    if negb (oc_compact_boolean c) then Some [VStr name] else value1
  else if negb (truthy_l value1) then Some caret
  else value1.
Definition attr_write (c : oconfig) (name : str) (value2 : option (list vtok)) (lq rq : str) (st : fstate) : fstate :=
  let st1 := push_str c (c_space :: name) st in
  match value2 with
  | Some ((_ :: _) as v) => push_str c rq (push_tokens c v (push_str c (c_eq :: lq) st1))
  | _ => if negb (str_eqb (oc_self_closing_style c) s_html)
         then push_str c (c_eq :: lq ++ rq) st1
         else st1
  end.

Lemma push_attribute_unfold c a st :
  push_attribute c a st =
  match aa_name a with
  | Some ((_ :: _) as nm0) =>
      let name := attr_out_name c a nm0 in
      let '(value1, lq, rq) := attr_v1 c a nm0 in
      attr_write c name (attr_value2 c a name value1) lq rq st
  | _ => st
  end.
Proof. reflexivity. Qed.

(* ---------------------------------------------------------------- blocks of element() *)
Definition level_newline (c : oconfig) (d : Z) (st : fstate) : fstate :=
  map_out (fun o => let o' := os_add_level o d in os_push_newline_int (oc_fmt c) o' (os_level o')) st.

Definition el_attrs (c : oconfig) (node : anode) (st : fstate) : fstate :=
  match an_attrs node with
  | Some ((_ :: _) as l) =>
      fold_left (fun s a => if should_output_attribute a then push_attribute c a s else s) l st
  | _ => st
  end.

(* comment before, "<name", attributes *)
Definition el_open (c : oconfig) (nm : str) (node : anode) (st : fstate) : fstate :=
  let st := comment_node c (oc_comment_before c) node st in
  let st := push_str c (c_lt :: tag_name c nm) st in
  el_attrs c node st.

(* push_snippet(node, state, next) *)
Definition el_snippet (c : oconfig) (node : anode) (next : fstate -> fstate) (st : fstate) : option fstate :=
  match an_value node, an_children node with
  | Some ((_ :: _) as value), _ :: _ =>
      match find_field_ix value with
      | Some ix =>
          let st1 := push_tokens c (firstn ix value) st in
          let line := os_line (fs_out st1) in
          let st2 := next st1 in
          let '(st3, pos) :=
            match nth_error value (S ix) with
            | Some (VStr s) =>
                if negb (Nat.eqb (os_line (fs_out st2)) line)
                then (push_str c (lstrip s) st2, S (S ix))
                else (st2, S ix)
            | _ => (st2, S ix)
            end in
          Some (push_tokens c (skipn pos value) st3)
      | None => None
      end
  | _, _ => None
  end.

(* the value of a named element, with its inner formatting *)
Definition el_value (c : oconfig) (node : anode) (st : fstate) : fstate :=
  match an_value node with
  | Some ((_ :: _) as value) =>
      let inner := existsb has_newline value || starts_with_block_tag c value in
      let st := if inner then level_newline c 1 st else st in
      let st := push_tokens c value st in
      if inner
      then match an_children node with
           | [] => level_newline c (-1) st
           | _ => map_out (fun o => os_add_level o (-1)) st
           end
      else st
  | _ => st
  end.

(* the tabstop of an empty leaf *)
Definition el_leaf (c : oconfig) (nm : str) (node : anode) (st : fstate) : fstate :=
  if negb (truthy_l (an_value node)) && match an_children node with [] => true | _ => false end then
    let inner := oc_format_leaf c || mem_str nm (oc_format_force c) in
    let st := if inner then level_newline c 1 st else st in
    let st := push_tokens c caret st in
    if inner then level_newline c (-1) st else st
  else st.

Definition el_content (c : oconfig) (nm : str) (node : anode) (next : fstate -> fstate) (st : fstate) : fstate :=
  match el_snippet c node next st with
  | Some st' => st'
  | None => el_leaf c nm node (next (el_value c node st))
  end.

Definition el_close (c : oconfig) (nm : str) (node : anode) (st : fstate) : fstate :=
  let st := push_str c ([c_lt; c_slash] ++ tag_name c nm ++ [c_gt]) st in
  comment_node c (oc_comment_after c) node st.

Definition el_named (c : oconfig) (nm : str) (node : anode) (next : fstate -> fstate) (st : fstate) : fstate :=
  let st := el_open c nm node st in
  if an_self node && match an_children node with [] => true | _ => false end
     && negb (truthy_l (an_value node))
  then push_str c (self_close c ++ [c_gt]) st
  else
    let st := push_str c [c_gt] st in
    let st := el_content c nm node next st in
    el_close c nm node st.

Definition el_unnamed (c : oconfig) (node : anode) (next : fstate -> fstate) (st : fstate) : fstate :=
  match el_snippet c node next st with
  | Some st' => st'
  | None =>
      next (match an_value node with
            | Some ((_ :: _) as value) => push_tokens c value st
            | _ => st
            end)
  end.

Definition el_body (c : oconfig) (node : anode) (next : fstate -> fstate) (st : fstate) : fstate :=
  match an_name node with
  | Some ((_ :: _) as nm) => el_named c nm node next st
  | _ => el_unnamed c node next st
  end.

(* the line break after the last formatted child: puts the parent's closing tag on its own line *)
Definition tail_newline (c : oconfig) (fmt : bool) (parent : option anode) (index : nat) (items : list anode) : bool :=
  fmt && Nat.eqb index (length items - 1) && match parent with Some _ => true | None => false end
  && negb (Nat.eqb (length items) 0).

Definition el_tail (c : oconfig) (fmt : bool) (parent : option anode) (index : nat) (items : list anode)
           (st : fstate) : fstate :=
  if tail_newline c fmt parent index items
  then map_out (fun o => os_push_newline_int (oc_fmt c) o
                           (os_level o - (if is_snippet_opt parent then 0 else 1))%Z) st
  else st.

Definition html_element_step (c : oconfig) (parent : option anode) (node : anode) (index : nat)
           (items : list anode) (next : fstate -> fstate) (st : fstate) : fstate :=
  let fmt := should_format c parent node index items in
  let level := get_indent c parent in
  let st := map_out (fun o => os_add_level o level) st in
  let st := if fmt then map_out (fun o => os_push_newline (oc_fmt c) o (Some None)) st else st in
  let st := el_body c node next st in
  let st := el_tail c fmt parent index items st in
  map_out (fun o => os_add_level o (- level)%Z) st.

Lemma html_element_unfold c parent node index items st :
  html_element c parent node index items st
  = html_element_step c parent node index items (html_children c node) st.
Proof. destruct node; reflexivity. Qed.

Lemma html_walk_fix c parent items : forall l i st,
  (fix go (i : nat) (l : list anode) (st : fstate) : fstate :=
     match l with
     | [] => st
     | ch :: r => go (S i) r (html_element c parent ch i items st)
     end) i l st = html_walk c parent items i l st.
Proof. induction l as [|x l IH]; intros i st; cbn [html_walk]; [reflexivity|]. apply IH. Qed.

Lemma html_children_walk c node st :
  html_children c node st = html_walk c (Some node) (an_children node) O (an_children node) st.
Proof. unfold html_children. apply html_walk_fix. Qed.

Lemma html_format_walk c children :
  html_format c children = html_walk c None children O children (mkFs os_empty 1).
Proof. unfold html_format. apply html_walk_fix. Qed.

(* ---------------------------------------------------------------- induction over trees *)
Lemma anode_ind' (P : anode -> Prop) :
  (forall nm v rp at_ ch sc, Forall P ch -> P (ANode nm v rp at_ ch sc)) -> forall n, P n.
Proof.
  intros H. fix IH 1. intros [nm v rp at_ ch sc]. apply H.
  induction ch as [|c ch IHch]; constructor; [apply IH|exact IHch].
Qed.

(* ---------------------------------------------------------------- indent formatter *)
Definition indent_children (c : oconfig) (o : iopts) (node : anode) : fstate -> fstate :=
  (fix go (i : nat) (l : list anode) (st : fstate) : fstate :=
     match l with
     | [] => st
     | ch :: r => go (S i) r (indent_element c o (Some node) ch i st)
     end) O (an_children node).

Fixpoint indent_walk (c : oconfig) (o : iopts) (parent : option anode) (i : nat) (l : list anode) (st : fstate) : fstate :=
  match l with
  | [] => st
  | ch :: r => indent_walk c o parent (S i) r (indent_element c o parent ch i st)
  end.

Definition ind_head (c : oconfig) (o : iopts) (node : anode) (st : fstate) : fstate :=
  let attrs := match an_attrs node with Some l => l | None => [] end in
  let primary := filter is_primary attrs in
  let secondary := filter (fun a => negb (is_primary a)) attrs in
  let st :=
    match an_name node with
    | Some ((_ :: _) as nm) =>
        if negb (str_eqb nm s_div)
           || negb (existsb (fun a => match aa_value a with Some _ => true | None => false end) primary)
        then push_str c (io_before_name o ++ nm ++ io_after_name o) st
        else st
    | _ => st
    end in
  let st := push_primary_attributes c primary st in
  push_secondary_attributes c o (filter should_output_attribute secondary) st.

Definition indent_element_step (c : oconfig) (o : iopts) (parent : option anode) (node : anode) (index : nat)
           (next : fstate -> fstate) (st : fstate) : fstate :=
  let level := match parent with Some _ => 1 | None => 0 end%Z in
  let st := map_out (fun os => os_add_level os level) st in
  let fmt := negb (match parent with None => Nat.eqb index 0 | Some _ => false end) && negb (is_snippet node) in
  let st := if fmt then map_out (fun os => os_push_newline (oc_fmt c) os (Some None)) st else st in
  let st := ind_head c o node st in
  let st :=
    if an_self node && negb (truthy_l (an_value node)) && match an_children node with [] => true | _ => false end
    then match io_self_close o with [] => st | sc => push_str c sc st end
    else next (push_value c o node st) in
  map_out (fun os => os_add_level os (- level)%Z) st.

Lemma indent_element_unfold c o parent node index st :
  indent_element c o parent node index st
  = indent_element_step c o parent node index (indent_children c o node) st.
Proof. destruct node; reflexivity. Qed.

Lemma indent_walk_fix c o parent : forall l i st,
  (fix go (i : nat) (l : list anode) (st : fstate) : fstate :=
     match l with
     | [] => st
     | ch :: r => go (S i) r (indent_element c o parent ch i st)
     end) i l st = indent_walk c o parent i l st.
Proof. induction l as [|x l IH]; intros i st; cbn [indent_walk]; [reflexivity|]. apply IH. Qed.

Lemma indent_children_walk c o node st :
  indent_children c o node st = indent_walk c o (Some node) O (an_children node) st.
Proof. unfold indent_children. apply indent_walk_fix. Qed.

Lemma indent_format_walk c o children :
  indent_format c o children = indent_walk c o None O children (mkFs os_empty 1).
Proof. unfold indent_format. apply indent_walk_fix. Qed.
