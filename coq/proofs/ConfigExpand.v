(* C20 -- the link between the configuration layers and expand():  emmet/__init__.py expand(abbr,
   config, global_config) = Config(config, global_config), then the markup or the stylesheet pipeline
   on the RESOLVED configuration.

   MODEL.  [expand_model_gen css b u g abbr]:
     c    := config_init b u g                          (model/Config.v, the subject of C20)
     v    := view c                                     what expand reads of the resolved configuration:
               type, syntax,
               options[k] for the option keys the pipelines read            ([option_keys], by LOOKUP)
               the merged snippets and variables in canonical (key) order   ([canon], proofs/ConfigCanon.v:
                     the pipelines only look names up / sort the entries themselves)
               text / maxRepeat / max_repeat / context of the call's own config ([other_keys])
     type = 'stylesheet'  ->  css v abbr                (the stylesheet pipeline; a parameter here because the
                                                         stylesheet model uses floats: proofs/ConfigExpandCss.v)
     otherwise            ->  decode the view into the records [xconfig] of the markup pipeline model
                              (the very fields harness/markup_util.enc_config transmits) and call
                              [expand_markup_str]
   Values are [cval] (lib/ConfigVal.v).  The result is [None] when a value the decoder needs has a type
   the library does not document (outside the model), else [Some] of the pipeline's result.

   THEOREMS (all layer contents, all names, all abbreviations, any stylesheet function):
     [view_option_is_spec_lookup]   every option the expand model decodes is the value of the most specific
                                    layer that defines it ([spec_lookup], the SPEC of C20)
     [view_cong]                    the view depends on the layers only through the effective lookups
     [expand_layers_congruent]      two layer stacks with equal effective lookups give equal expand results *)
From Coq Require Import String List Bool NArith ZArith Lia.
From Emmet Require Import lib.Base lib.StyleLib lib.ConfigLib lib.ConfigVal gen.GenLayerOrder model.Config
     proofs.ConfigProofs proofs.ConfigCanon
     model.MarkupConvert model.MarkupResolve model.OutStream model.FormatHtml model.MarkupExpand.
Import ListNotations.
Local Open Scope N_scope.

(* the keys, as code-point lists (computed here so that the extracted model does not carry Coq strings) *)
Definition s_stylesheet : str := Eval vm_compute in lit "stylesheet".
Definition k_inlineElements : str := Eval vm_compute in lit "inlineElements".
Definition k_output_indent : str := Eval vm_compute in lit "output.indent".
Definition k_output_baseIndent : str := Eval vm_compute in lit "output.baseIndent".
Definition k_output_newline : str := Eval vm_compute in lit "output.newline".
Definition k_output_tagCase : str := Eval vm_compute in lit "output.tagCase".
Definition k_output_attributeCase : str := Eval vm_compute in lit "output.attributeCase".
Definition k_output_attributeQuotes : str := Eval vm_compute in lit "output.attributeQuotes".
Definition k_output_format : str := Eval vm_compute in lit "output.format".
Definition k_output_formatLeafNode : str := Eval vm_compute in lit "output.formatLeafNode".
Definition k_output_formatSkip : str := Eval vm_compute in lit "output.formatSkip".
Definition k_output_formatForce : str := Eval vm_compute in lit "output.formatForce".
Definition k_output_inlineBreak : str := Eval vm_compute in lit "output.inlineBreak".
Definition k_output_compactBoolean : str := Eval vm_compute in lit "output.compactBoolean".
Definition k_output_booleanAttributes : str := Eval vm_compute in lit "output.booleanAttributes".
Definition k_output_reverseAttributes : str := Eval vm_compute in lit "output.reverseAttributes".
Definition k_output_selfClosingStyle : str := Eval vm_compute in lit "output.selfClosingStyle".
Definition k_output_field : str := Eval vm_compute in lit "output.field".
Definition k_output_text : str := Eval vm_compute in lit "output.text".
Definition k_markup_href : str := Eval vm_compute in lit "markup.href".
Definition k_markup_attributes : str := Eval vm_compute in lit "markup.attributes".
Definition k_markup_valuePrefix : str := Eval vm_compute in lit "markup.valuePrefix".
Definition k_comment_enabled : str := Eval vm_compute in lit "comment.enabled".
Definition k_comment_trigger : str := Eval vm_compute in lit "comment.trigger".
Definition k_comment_before : str := Eval vm_compute in lit "comment.before".
Definition k_comment_after : str := Eval vm_compute in lit "comment.after".
Definition k_bem_enabled : str := Eval vm_compute in lit "bem.enabled".
Definition k_bem_element : str := Eval vm_compute in lit "bem.element".
Definition k_bem_modifier : str := Eval vm_compute in lit "bem.modifier".
Definition k_jsx_enabled : str := Eval vm_compute in lit "jsx.enabled".
Definition k_stylesheet_keywords : str := Eval vm_compute in lit "stylesheet.keywords".
Definition k_stylesheet_unitless : str := Eval vm_compute in lit "stylesheet.unitless".
Definition k_stylesheet_shortHex : str := Eval vm_compute in lit "stylesheet.shortHex".
Definition k_stylesheet_between : str := Eval vm_compute in lit "stylesheet.between".
Definition k_stylesheet_after : str := Eval vm_compute in lit "stylesheet.after".
Definition k_stylesheet_intUnit : str := Eval vm_compute in lit "stylesheet.intUnit".
Definition k_stylesheet_floatUnit : str := Eval vm_compute in lit "stylesheet.floatUnit".
Definition k_stylesheet_unitAliases : str := Eval vm_compute in lit "stylesheet.unitAliases".
Definition k_stylesheet_json : str := Eval vm_compute in lit "stylesheet.json".
Definition k_stylesheet_jsonDoubleQuotes : str := Eval vm_compute in lit "stylesheet.jsonDoubleQuotes".
Definition k_stylesheet_fuzzySearchMinScore : str := Eval vm_compute in lit "stylesheet.fuzzySearchMinScore".
Definition k_stylesheet_skipUnmatched : str := Eval vm_compute in lit "stylesheet.skipUnmatched".
Definition k_text : str := Eval vm_compute in lit "text".
Definition k_maxRepeat : str := Eval vm_compute in lit "maxRepeat".
Definition k_max_repeat : str := Eval vm_compute in lit "max_repeat".
Definition k_context : str := Eval vm_compute in lit "context".

(* ------------------------------------------------------------------ the view *)
(* every option key one of the two pipelines reads *)
Definition option_keys : list str :=
  [k_inlineElements; k_output_indent; k_output_baseIndent; k_output_newline;
   k_output_tagCase; k_output_attributeCase; k_output_attributeQuotes; k_output_format;
   k_output_formatLeafNode; k_output_formatSkip; k_output_formatForce; k_output_inlineBreak;
   k_output_compactBoolean; k_output_booleanAttributes; k_output_reverseAttributes;
   k_output_selfClosingStyle; k_output_field; k_output_text; k_markup_href;
   k_markup_attributes; k_markup_valuePrefix;
   k_comment_enabled; k_comment_trigger; k_comment_before; k_comment_after;
   k_bem_enabled; k_bem_element; k_bem_modifier; k_jsx_enabled;
   k_stylesheet_keywords; k_stylesheet_unitless; k_stylesheet_shortHex; k_stylesheet_between;
   k_stylesheet_after; k_stylesheet_intUnit; k_stylesheet_floatUnit; k_stylesheet_unitAliases;
   k_stylesheet_json; k_stylesheet_jsonDoubleQuotes; k_stylesheet_fuzzySearchMinScore;
   k_stylesheet_skipUnmatched].
(* entries of the call's own config besides type / syntax / the three sections *)
Definition other_keys : list str := [k_text; k_maxRepeat; k_max_repeat; k_context].

Record cview := mkView {
  v_type : str;
  v_syntax : str;
  v_options : list (str * option cval);     (* (k, options.get(k)) for k in option_keys *)
  v_snippets : dict cval;                   (* config.snippets, canonical order *)
  v_variables : dict cval;                  (* config.variables, canonical order *)
  v_other : list (str * option cval) }.     (* (k, user_config.get(k)) for k in other_keys *)

Definition section_or_empty (c : config cval) (sec : str) : dict cval :=
  match config_section c sec with Some d => d | None => [] end.

Definition view (c : config cval) : cview :=
  mkView (cf_type c) (cf_syntax c)
         (map (fun k => (k, dget k (section_or_empty c s_options))) option_keys)
         (canon (section_or_empty c s_snippets))
         (canon (section_or_empty c s_variables))
         (map (fun k => (k, dget k (u_other (cf_user c)))) other_keys).

(* ------------------------------------------------------------------ reading values *)
Definition obind {A B} (o : option A) (f : A -> option B) : option B :=
  match o with Some a => f a | None => None end.
Notation "'do' x <- a ; b" := (obind a (fun x => b)) (at level 200, x name, a at level 100, b at level 200).

Definition opt (v : cview) (k : str) : option cval :=
  match assoc_str k (v_options v) with Some o => o | None => None end.
Definition oth (v : cview) (k : str) : option cval :=
  match assoc_str k (v_other v) with Some o => o | None => None end.

(* a str option: anything else (None included) makes the pipeline raise or misbehave: outside the model *)
Definition get_str (o : option cval) : option str :=
  match o with Some (CStr s) => Some s | _ => None end.
(* a list-of-str option *)
Definition get_strs (o : option cval) : option (list str) :=
  match o with Some (CStrs l) => Some l | _ => None end.
(* bool(x) *)
Definition truthy (o : option cval) : option bool :=
  match o with
  | None | Some CNone => Some false
  | Some (CBool b) => Some b
  | Some (CNum n) => Some (negb (n =? 0))
  | Some (CDec m _) => Some (negb (m =? 0))
  | Some (CStr s) => Some (match s with [] => false | _ => true end)
  | Some (CStrs l) => Some (match l with [] => false | _ => true end)
  | Some (CPairs l) => Some (match l with [] => false | _ => true end)
  | Some CFieldDefault | Some CTextDefault => Some true
  | Some (COther _) => None
  end.
(* `d if d else None` for a dict str -> str *)
Definition get_pairs_opt (o : option cval) : option (option (list (str * str))) :=
  match o with
  | None | Some CNone | Some (CPairs []) => Some None
  | Some (CPairs l) => Some (Some l)
  | _ => None
  end.
Definition get_num_opt (o : option cval) : option (option N) :=
  match o with None | Some CNone => Some None | Some (CNum n) => Some (Some n) | _ => None end.
(* output.inlineBreak: None / False -> 0 *)
Definition get_inline_break (o : option cval) : option N :=
  match o with None | Some CNone | Some (CBool false) => Some 0 | Some (CNum n) => Some n | _ => None end.
Definition get_text (o : option cval) : option wtext :=
  match o with
  | None | Some CNone => Some WNone
  | Some (CStr s) => Some (WStr s)
  | Some (CStrs l) => Some (WList l)
  | _ => None
  end.
Definition is_absent (o : option cval) : option unit :=
  match o with None | Some CNone => Some tt | _ => None end.
Definition expect (want : cval -> bool) (o : option cval) : option unit :=
  match o with Some c => if want c then Some tt else None | None => None end.

Definition expect_str (o : option cval) : option str :=
  match o with Some (CStr s) => Some s | _ => None end.

(* a dict str -> str (snippets, variables): every value a str *)
Fixpoint strs_of_dict (d : dict cval) : option (list (str * str)) :=
  match d with
  | [] => Some []
  | (k, CStr s) :: r => do r' <- strs_of_dict r; Some ((k, s) :: r')
  | _ => None
  end.

(* ------------------------------------------------------------------ markup: the records of the pipeline model *)
Definition decode_markup (v : cview) : option xconfig :=
  do snippets <- strs_of_dict (v_snippets v);
  do variables <- strs_of_dict (v_variables v);
  do text <- get_text (oth v (k_text));
  do mr_a <- get_num_opt (oth v (k_maxRepeat));
  do mr_b <- get_num_opt (oth v (k_max_repeat));
  do _ <- is_absent (oth v (k_context));
  (* cfg.get('maxRepeat') or cfg.get('max_repeat') *)
  let max_repeat := match mr_a with Some n => if n =? 0 then mr_b else Some n | None => mr_b end in
  do _ <- expect (fun c => match c with CFieldDefault => true | _ => false end) (opt v (k_output_field));
  do _ <- expect (fun c => match c with CTextDefault => true | _ => false end) (opt v (k_output_text));
  do jsx <- truthy (opt v (k_jsx_enabled));
  do inline <- get_strs (opt v (k_inlineElements));
  do reverse <- truthy (opt v (k_output_reverseAttributes));
  do href <- truthy (opt v (k_markup_href));
  do indent <- get_str (opt v (k_output_indent));
  do base_indent <- get_str (opt v (k_output_baseIndent));
  do newline <- get_str (opt v (k_output_newline));
  do tag_case <- get_str (opt v (k_output_tagCase));
  do attr_case <- get_str (opt v (k_output_attributeCase));
  do attr_quotes <- get_str (opt v (k_output_attributeQuotes));
  do format <- truthy (opt v (k_output_format));
  do format_leaf <- truthy (opt v (k_output_formatLeafNode));
  do format_skip <- get_strs (opt v (k_output_formatSkip));
  do format_force <- get_strs (opt v (k_output_formatForce));
  do inline_break <- get_inline_break (opt v (k_output_inlineBreak));
  do compact_boolean <- truthy (opt v (k_output_compactBoolean));
  do boolean_attrs <- get_strs (opt v (k_output_booleanAttributes));
  do self_closing <- get_str (opt v (k_output_selfClosingStyle));
  do comment_enabled <- truthy (opt v (k_comment_enabled));
  do comment_trigger <- get_strs (opt v (k_comment_trigger));
  do comment_before <- get_str (opt v (k_comment_before));
  do comment_after <- get_str (opt v (k_comment_after));
  do markup_attributes <- get_pairs_opt (opt v (k_markup_attributes));
  do value_prefix <- get_pairs_opt (opt v (k_markup_valuePrefix));
  do bem_enabled <- truthy (opt v (k_bem_enabled));
  do bem_element <- (if bem_enabled then expect_str (opt v (k_bem_element)) else Some []);
  do bem_modifier <- (if bem_enabled then expect_str (opt v (k_bem_modifier)) else Some []);
  Some (mkX (mkMConfig (v_syntax v) snippets variables text max_repeat mr_b jsx None inline reverse href
                       bem_enabled bem_element bem_modifier None)
            (mkOconfig (mkOfmt indent base_indent newline) tag_case attr_case attr_quotes format format_leaf
                       format_skip format_force inline_break compact_boolean boolean_attrs self_closing
                       inline comment_enabled comment_trigger comment_before comment_after jsx
                       markup_attributes value_prefix)).

Definition expand_markup_of_view (v : cview) (abbr : str) : option (res str) :=
  do x <- decode_markup v; Some (expand_markup_str x abbr).

(* ------------------------------------------------------------------ expand *)
Section Expand.
  (* the stylesheet pipeline on a view *)
  Variable css : cview -> str -> option (res str).

  (* emmet/__init__.py expand() after Config(...): `if resolved_config.type == 'stylesheet'` *)
  Definition expand_of_view (v : cview) (abbr : str) : option (res str) :=
    if str_eqb (v_type v) s_stylesheet then css v abbr else expand_markup_of_view v abbr.

  Definition expand_model_gen (b : builtin cval) (u : user_config cval) (g : cfg_table cval) (abbr : str)
    : option (res str) :=
    expand_of_view (view (config_init b u g)) abbr.

  (* ---------------------------------------------------------------- theorems *)
  Lemma section_is_merged b u g sec :
    In sec [s_variables; s_snippets; s_options] ->
    section_or_empty (config_init b u g) sec
    = merged_data (config_env b u g) (resolved_type u) (resolved_syntax b u) sec.
  Proof.
    intro H. destruct (config_lookup b u g sec [] H) as [d [Hs [_ [_ [Hd _]]]]].
    unfold section_or_empty. rewrite Hs. exact Hd.
  Qed.

  Lemma section_lookup b u g sec k :
    In sec [s_variables; s_snippets; s_options] ->
    dget k (section_or_empty (config_init b u g) sec)
    = spec_lookup (config_env b u g) (resolved_type u) (resolved_syntax b u) sec k.
  Proof. intro H. rewrite (section_is_merged b u g sec H). apply merged_lookup. Qed.

  Lemma section_wf b u g sec :
    In sec [s_variables; s_snippets; s_options] -> wf (section_or_empty (config_init b u g) sec).
  Proof. intro H. rewrite (section_is_merged b u g sec H). apply merged_wf. Qed.

  Lemma in_options : In s_options [s_variables; s_snippets; s_options].
  Proof. right. right. now left. Qed.
  Lemma in_snippets : In s_snippets [s_variables; s_snippets; s_options].
  Proof. right. now left. Qed.
  Lemma in_variables : In s_variables [s_variables; s_snippets; s_options].
  Proof. now left. Qed.

  Lemma assoc_map_self {A} (f : str -> A) (l : list str) k :
    In k l -> assoc_str k (map (fun x => (x, f x)) l) = Some (f k).
  Proof.
    induction l as [|x l IH]; intro H; [destruct H|]. cbn [map assoc_str].
    destruct (str_eqb k x) eqn:E.
    - apply str_eqb_eq in E. now subst.
    - destruct H as [->|H]; [rewrite str_eqb_refl in E; discriminate|]. now apply IH.
  Qed.

  (* every option the expand model decodes is the value of the most specific defining layer *)
  Theorem view_option_is_spec_lookup b u g k :
    In k option_keys ->
    opt (view (config_init b u g)) k
    = spec_lookup (config_env b u g) (resolved_type u) (resolved_syntax b u) s_options k.
  Proof.
    intro H. unfold opt, view. cbn [v_options].
    rewrite (assoc_map_self (fun k => dget k (section_or_empty (config_init b u g) s_options)) option_keys k H).
    apply section_lookup, in_options.
  Qed.

  (* so are the snippets and the variables it hands to the pipelines *)
  Theorem view_snippet_is_spec_lookup b u g k :
    dget k (v_snippets (view (config_init b u g)))
    = spec_lookup (config_env b u g) (resolved_type u) (resolved_syntax b u) s_snippets k
    /\ dget k (v_variables (view (config_init b u g)))
    = spec_lookup (config_env b u g) (resolved_type u) (resolved_syntax b u) s_variables k.
  Proof.
    unfold view. cbn [v_snippets v_variables]. rewrite !dget_canon.
    split; apply section_lookup; [apply in_snippets|apply in_variables].
  Qed.

  (* two layer stacks give every key of every section the same effective value *)
  Definition same_effective (b : builtin cval) (u : user_config cval) (g : cfg_table cval)
             (u' : user_config cval) (g' : cfg_table cval) : Prop :=
    resolved_type u = resolved_type u' /\
    resolved_syntax b u = resolved_syntax b u' /\
    (forall sec k, In sec [s_variables; s_snippets; s_options] ->
        spec_lookup (config_env b u g) (resolved_type u) (resolved_syntax b u) sec k
        = spec_lookup (config_env b u' g') (resolved_type u') (resolved_syntax b u') sec k) /\
    (forall k, dget k (u_other u) = dget k (u_other u')).

  Theorem view_cong b u g u' g' :
    same_effective b u g u' g' -> view (config_init b u g) = view (config_init b u' g').
  Proof.
    intros [Ht [Hs [Hl Ho]]].
    assert (L : forall sec k, In sec [s_variables; s_snippets; s_options] ->
                dget k (section_or_empty (config_init b u g) sec)
                = dget k (section_or_empty (config_init b u' g') sec)).
    { intros sec k H. rewrite !section_lookup by assumption. now apply Hl. }
    unfold view. f_equal.
    - destruct (config_lookup b u g s_options [] in_options) as [_ [_ [-> _]]].
      destruct (config_lookup b u' g' s_options [] in_options) as [_ [_ [-> _]]]. exact Ht.
    - destruct (config_lookup b u g s_options [] in_options) as [_ [_ [_ [-> _]]]].
      destruct (config_lookup b u' g' s_options [] in_options) as [_ [_ [_ [-> _]]]]. exact Hs.
    - apply map_ext. intro k. f_equal. apply L, in_options.
    - apply canon_unique; try (apply section_wf, in_snippets). intro k. apply L, in_snippets.
    - apply canon_unique; try (apply section_wf, in_variables). intro k. apply L, in_variables.
    - apply map_ext. intro k. f_equal. apply Ho.
  Qed.

  (* MAIN: expand depends on the layers only through the effective value of each key *)
  Theorem expand_layers_congruent b u g u' g' abbr :
    same_effective b u g u' g' ->
    expand_model_gen b u g abbr = expand_model_gen b u' g' abbr.
  Proof. intro H. unfold expand_model_gen. now rewrite (view_cong b u g u' g' H). Qed.
End Expand.
