(* Parser blocks for bare names (optionally followed by a repeater) with the JSX option on or
   off: ParserGroups.gblock_name / gblock_name_rep generalised over [jsx].  With JSX on, a
   capitalised name starts the `Capitalized(.Capitalized)*` chain, which ends at once before an
   operator, a `)`, a repeater or the end of input. *)
From Emmet Require Import lib.Base model.MarkupTokenizer model.MarkupParser proofs.ParserSpine proofs.ParserGroups.
Local Open Scope nat_scope.

Lemma element_name_lit jsx t v rest :
  tk t = TLiteral v ->
  match rest with
  | [] => True
  | t' :: _ => is_element_name_tok t' = false /\ is_operator t' (Some OpClass) = false
  end ->
  element_name jsx (t :: rest) = 1.
Proof.
  intros Ht Hr. unfold element_name. cbn [hd_is tl].
  assert (Hn : is_element_name_tok t = true) by (unfold is_element_name_tok; rewrite Ht; reflexivity).
  destruct (jsx && is_capitalized_literal t).
  - assert (Hj : jsx_chain rest = 0).
    { destruct rest as [|t' r]; [reflexivity|]. cbn [jsx_chain]. destruct Hr as [_ ->]. reflexivity. }
    rewrite Hj. cbn [skipn Nat.add]. destruct rest as [|t' r]; [reflexivity|]. cbn [span_tok]. destruct Hr as [-> _]. reflexivity.
  - cbn [skipn Nat.add span_tok]. rewrite Hn. destruct rest as [|t' r]; [reflexivity|]. cbn [span_tok].
    destruct Hr as [-> _]. reflexivity.
Qed.

Lemma quiet_elem_body_j jsx (s : est) (t' : token) (r : list token) :
  (op_tok OpChild t' \/ op_tok OpSibling t' \/ op_tok OpClimb t' \/ gclose_tok t') ->
  est_empty s = false ->
  elem_body jsx s (t' :: r) = EBreak s 0.
Proof.
  intros Hb Hne. unfold op_tok, gclose_tok in Hb. unfold elem_body.
  assert (Hrep : rep_of t' = None) by (unfold rep_of; destruct Hb as [H|[H|[H|H]]]; rewrite H; reflexivity).
  rewrite Hrep.
  assert (Htx : text (t' :: r) = 0).
  { unfold text, is_bracket. destruct Hb as [H|[H|[H|H]]]; rewrite H; reflexivity. }
  assert (Hid : short_attribute jsx OpId (t' :: r) = None).
  { unfold short_attribute. cbn [span_tok]. unfold is_operator. destruct Hb as [H|[H|[H|H]]]; rewrite H; reflexivity. }
  assert (Hcl : short_attribute jsx OpClass (t' :: r) = None).
  { unfold short_attribute. cbn [span_tok]. unfold is_operator. destruct Hb as [H|[H|[H|H]]]; rewrite H; reflexivity. }
  assert (Has : attribute_set (t' :: r) = ASNone).
  { unfold attribute_set, is_bracket. destruct Hb as [H|[H|[H|H]]]; rewrite H; reflexivity. }
  assert (Hclose : is_operator t' (Some OpClose) = false).
  { unfold is_operator. destruct Hb as [H|[H|[H|H]]]; rewrite H; reflexivity. }
  rewrite Hne. cbn [negb].
  destruct (e_repeat s); destruct (e_value s); rewrite ?Htx, Hid, Hcl, Has, Hclose; reflexivity.
Qed.

Lemma quiet_follow t' :
  (op_tok OpChild t' \/ op_tok OpSibling t' \/ op_tok OpClimb t' \/ gclose_tok t') ->
  is_element_name_tok t' = false /\ is_operator t' (Some OpClass) = false.
Proof.
  unfold op_tok, gclose_tok. intros Hb. split; [unfold is_element_name_tok|unfold is_operator];
    destruct Hb as [H|[H|[H|H]]]; rewrite H; reflexivity.
Qed.

Lemma gblock_name_j jsx (t : token) (v : str) :
  tk t = TLiteral v ->
  gblock_ok jsx [t] (mkLeaf (Some [t]) None None None false).
Proof.
  intros Ht. split; [discriminate|]. split.
  - cbn [hd_is]. unfold is_climb_op, is_operator. rewrite Ht. reflexivity.
  - intros rest Hb. unfold element. cbn [app].
    rewrite (element_name_lit jsx t v rest Ht)
      by (destruct rest as [|t' r]; [exact I|apply quiet_follow; exact Hb]).
    cbn [firstn elem_loop].
    destruct rest as [|t' r].
    + cbn [elem_loop est_empty e_name leaf_node lf_name lf_attrs lf_value lf_repeat lf_self e_attrs e_value e_repeat e_self length].
      reflexivity.
    + cbn [elem_loop]. cbn [gboundary] in Hb. rewrite quiet_elem_body_j; [|exact Hb|reflexivity].
      cbn [est_empty e_name leaf_node lf_name lf_attrs lf_value lf_repeat lf_self e_attrs e_value e_repeat e_self length].
      reflexivity.
Qed.

Lemma gblock_name_rep_j jsx (t tr : token) (v : str) (rp : rep) :
  tk t = TLiteral v -> rep_of tr = Some rp ->
  gblock_ok jsx [t; tr] (mkLeaf (Some [t]) None None (Some rp) false).
Proof.
  intros Ht Hr. split; [discriminate|]. split.
  - cbn [hd_is]. unfold is_climb_op, is_operator. rewrite Ht. reflexivity.
  - intros rest Hb.
    assert (Hktr : exists c vl i, tk tr = TRepeater c vl i).
    { unfold rep_of in Hr. destruct (tk tr); try discriminate. eauto. }
    destruct Hktr as [c [vl [i Hktr]]].
    unfold element. cbn [app].
    rewrite (element_name_lit jsx t v (tr :: rest) Ht)
      by (split; [unfold is_element_name_tok|unfold is_operator]; rewrite Hktr; reflexivity).
    cbn [firstn elem_loop].
    assert (Hbody : elem_body jsx (mkEst (Some [t]) None None None false) (tr :: rest)
                    = ECont (mkEst (Some [t]) None None (Some rp) false) 1).
    { unfold elem_body. cbn [e_repeat est_empty e_name e_value e_attrs negb]. rewrite Hr. reflexivity. }
    rewrite Hbody. cbn [pred].
    destruct rest as [|t' r].
    + cbn [elem_loop est_empty e_name leaf_node lf_name lf_attrs lf_value lf_repeat lf_self e_attrs e_value e_repeat e_self length].
      reflexivity.
    + cbn [elem_loop]. cbn [gboundary] in Hb. rewrite quiet_elem_body_j; [|exact Hb|reflexivity].
      cbn [est_empty e_name leaf_node lf_name lf_attrs lf_value lf_repeat lf_self e_attrs e_value e_repeat e_self length].
      reflexivity.
Qed.
