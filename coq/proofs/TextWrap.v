(* C04 -- wrap text: the implicit repeater makes one copy per non-blank line; the plain case inserts
   the whole text once; "deepest last element" = the node visited last in document order. *)
From Coq Require Import ZArith List Bool Lia ZifyBool.
From Emmet Require Import lib.Base model.MarkupTokenizer model.MarkupParser model.MarkupConvert
     proofs.TextSpec proofs.TextConvert.
Local Open Scope N_scope.

(* ---------------------------------------------------------------- convert_statement, equationally *)
(* convert_group / convert_element of [node] with node.repeat temporarily = [cur_rep] *)
(* the list traversal as written inside convert_statement (pointwise equal to [conv_list env]) *)
Definition conv_kids (env : cenv) : list tnode -> cst -> res (list anode * cst) :=
  fix conv_list (l : list tnode) (st : cst) : res (list anode * cst) :=
    match l with
    | [] => Ok ([], st)
    | c :: l' =>
        let* (a, s1) := conv_stmt env c st in
        let* (b, s2) := conv_list l' s1 in
        Ok (a ++ b, s2)
    end.

Definition once_of (env : cenv) (node : tnode) (cur_rep : option rep) (st : cst) : res (list anode * cst) :=
  match node with
  | TGroup els _ =>
      let* (items, st1) := conv_kids env els st in
      Ok (match cur_rep with Some r => attach_repeater items r | None => items end, st1)
  | TElem name attrs value _ self_close els =>
      let* (nm, st1) :=
         match nonempty name with
         | Some toks => let* (s, s') := stringify_name env toks st in Ok (Some s, s')
         | None => Ok (None, st)
         end in
      let* (val, st2) :=
         match nonempty value with
         | Some toks => let* (v, s') := stringify_value env toks st1 in Ok (Some v, s')
         | None => Ok (None, st1)
         end in
      let* (kids, st3) := conv_kids env els st2 in
      let* (ats, st4) :=
         match nonempty attrs with
         | Some l => let* (l', s') := convert_attributes env l st3 in Ok (Some l', s')
         | None => Ok (None, st3)
         end in
      let text_only :=
        match nm, ats, val with
        | None, None, Some ((_ :: _) as v) => negb (existsb is_vfield v)
        | Some [], None, Some ((_ :: _) as v) => negb (existsb is_vfield v)
        | _, _, _ => false
        end in
      if text_only
      then Ok (ANode nm val cur_rep ats [] self_close :: kids, st4)
      else Ok ([ANode nm val cur_rep ats kids self_close], st4)
  end.

(* the `while i < repeat.count` loop of convert_statement *)
Definition rep_iter (env : cenv) (once : option rep -> cst -> res (list anode * cst)) (count : N) (implicit : bool)
  : nat -> N -> list anode -> cst -> res (list anode * cst) :=
  fix iter (k : nat) (i : N) (acc : list anode) (st : cst) : res (list anode * cst) :=
  match k with
  | O => Ok (acc, st)
  | S k' =>
      if (i <? count)%N then
        let st1 := set_top_value i st in
        let* (items, st2) := once (Some (mkRep count i implicit)) st1 in
        let* (items', st3) :=
           if implicit && negb (cs_inserted st2) then
             match last_opt items with
             | Some _ =>
                 let* (txt, s') := get_text_at env (Some i) st2 in
                 Ok (on_last_deepest (fun n => insert_text n txt) items, s')
             | None => Ok (items, st2)
             end
           else Ok (items, st2) in
        let st4 := dec_guard st3 in
        if (cs_guard st4 <=? 0)%Z then Ok (acc ++ items', st4)
        else iter k' (i + 1)%N (acc ++ items') st4
      else Ok (acc, st)
  end.

Definition rep_loop (env : cenv) (once : option rep -> cst -> res (list anode * cst)) (r0 : rep) (st : cst)
  : res (list anode * cst) :=
  let count : N :=
    match rimplicit r0, ce_text env with
    | true, WList _ => N.of_nat (length (clean_text (ce_text env)))
    | _, _ => if (rcount r0 =? 0)%N then 1%N else rcount r0
    end in
  let rp := mkRep count (rvalue r0) (rimplicit r0) in
  let st0 := push_rep rp st in
  let rounds := N.to_nat (N.min count (Z.to_N (Z.max (cs_guard st0) 1))) in
  let* (result, st_end) := rep_iter env once count (rimplicit r0) rounds 0%N [] st0 in
  let st' := pop_rep st_end in
  Ok (result, if rimplicit r0 then set_inserted st' else st').

Definition node_rep (node : tnode) : option rep :=
  match node with TElem _ _ _ r _ _ => r | TGroup _ r => r end.

Lemma conv_stmt_eq env node st :
  conv_stmt env node st =
    match node_rep node with
    | None => once_of env node None st
    | Some r0 => rep_loop env (once_of env node) r0 st
    end.
Proof. destruct node as [a b c [r|] e f|els [r|]]; reflexivity. Qed.
