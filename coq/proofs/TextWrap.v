(* C04 -- wrap text: the implicit repeater makes one copy per non-blank line; the plain case inserts
   the whole text once; "deepest last element" = the node visited last in document order. *)
From Coq Require Import ZArith List Bool Lia ZifyBool.
From Emmet Require Import lib.Base model.MarkupTokenizer model.MarkupParser model.MarkupConvert
     proofs.TextSpec proofs.TextConvert.
Local Open Scope N_scope.

(* ---------------------------------------------------------------- convert_statement, equationally *)
(* convert_group / convert_element of [node] with node.repeat temporarily = [cur_rep] *)
(* the list traversal as written inside convert_statement (pointwise equal to [conv_list env]) *)
Definition conv_kids (env : cenv) : list tnode -> cst -> res (list anode * cst) :=
  fix conv_list (l : list tnode) (st : cst) : res (list anode * cst) :=
    match l with
    | [] => Ok ([], st)
    | c :: l' =>
        let* (a, s1) := conv_stmt env c st in
        let* (b, s2) := conv_list l' s1 in
        Ok (a ++ b, s2)
    end.

Definition once_of (env : cenv) (node : tnode) (cur_rep : option rep) (st : cst) : res (list anode * cst) :=
  match node with
  | TGroup els _ =>
      let* (items, st1) := conv_kids env els st in
      Ok (match cur_rep with Some r => attach_repeater items r | None => items end, st1)
  | TElem name attrs value _ self_close els =>
      let* (nm, st1) :=
         match nonempty name with
         | Some toks => let* (s, s') := stringify_name env toks st in Ok (Some s, s')
         | None => Ok (None, st)
         end in
      let* (val, st2) :=
         match nonempty value with
         | Some toks => let* (v, s') := stringify_value env toks st1 in Ok (Some v, s')
         | None => Ok (None, st1)
         end in
      let* (kids, st3) := conv_kids env els st2 in
      let* (ats, st4) :=
         match nonempty attrs with
         | Some l => let* (l', s') := convert_attributes env l st3 in Ok (Some l', s')
         | None => Ok (None, st3)
         end in
      let text_only :=
        match nm, ats, val with
        | None, None, Some ((_ :: _) as v) => negb (existsb is_vfield v)
        | Some [], None, Some ((_ :: _) as v) => negb (existsb is_vfield v)
        | _, _, _ => false
        end in
      if text_only
      then Ok (ANode nm val cur_rep ats [] self_close :: kids, st4)
      else Ok ([ANode nm val cur_rep ats kids self_close], st4)
  end.

(* the `while i < repeat.count` loop of convert_statement *)
Definition rep_iter (env : cenv) (once : option rep -> cst -> res (list anode * cst)) (count : N) (implicit : bool)
  : nat -> N -> list anode -> cst -> res (list anode * cst) :=
  fix iter (k : nat) (i : N) (acc : list anode) (st : cst) : res (list anode * cst) :=
  match k with
  | O => Ok (acc, st)
  | S k' =>
      if (i <? count)%N then
        let st1 := set_top_value i st in
        let* (items, st2) := once (Some (mkRep count i implicit)) st1 in
        let* (items', st3) :=
           if implicit && negb (cs_inserted st2) then
             match last_opt items with
             | Some _ =>
                 let* (txt, s') := get_text_at env (Some i) st2 in
                 Ok (on_last_deepest (fun n => insert_text n txt) items, s')
             | None => Ok (items, st2)
             end
           else Ok (items, st2) in
        let st4 := dec_guard st3 in
        if (cs_guard st4 <=? 0)%Z then Ok (acc ++ items', st4)
        else iter k' (i + 1)%N (acc ++ items') st4
      else Ok (acc, st)
  end.

Definition rep_loop (env : cenv) (once : option rep -> cst -> res (list anode * cst)) (r0 : rep) (st : cst)
  : res (list anode * cst) :=
  let count : N :=
    match rimplicit r0, ce_text env with
    | true, WList _ => N.of_nat (length (clean_text (ce_text env)))
    | _, _ => if (rcount r0 =? 0)%N then 1%N else rcount r0
    end in
  let rp := mkRep count (rvalue r0) (rimplicit r0) in
  let st0 := push_rep rp st in
  let rounds := N.to_nat (N.min count (Z.to_N (Z.max (cs_guard st0) 1))) in
  let* (result, st_end) := rep_iter env once count (rimplicit r0) rounds 0%N [] st0 in
  let st' := pop_rep st_end in
  Ok (result, if rimplicit r0 then set_inserted st' else st').

Definition node_rep (node : tnode) : option rep :=
  match node with TElem _ _ _ r _ _ => r | TGroup _ r => r end.

Lemma conv_stmt_eq env node st :
  conv_stmt env node st =
    match node_rep node with
    | None => once_of env node None st
    | Some r0 => rep_loop env (once_of env node) r0 st
    end.
Proof. destruct node as [a b c [r|] e f|els [r|]]; reflexivity. Qed.

Lemma conv_kids_eq env : forall l st, conv_kids env l st = conv_list env l st.
Proof.
  induction l as [|c l IH]; intros st; [reflexivity|].
  cbn [conv_kids conv_list]. destruct (conv_stmt env c st) as [[a s1]| | |]; cbn [bind]; try reflexivity.
  fold (conv_kids env). rewrite IH. reflexivity.
Qed.

(* ---------------------------------------------------------------- the line a copy receives *)
Lemma get_text_line env lines st (j : nat) :
  ce_text env = WList lines -> (j < length (wrap_lines lines))%nat ->
  get_text_at env (Some (N.of_nat j)) st = Ok (nth j (wrap_lines lines) [], set_text_inserted st).
Proof.
  intros Et Hj. unfold get_text_at. rewrite Et. rewrite clean_text_filter. rewrite Nat2N.id.
  unfold wrap_lines in *. rewrite map_length in Hj.
  destruct (nth_error (filter nonblank lines) j) as [line|] eqn:En.
  - rewrite (nth_error_nth _ _ _ (map_nth_error strip _ _ En)). reflexivity.
  - apply nth_error_None in En. lia.
Qed.

(* ---------------------------------------------------------------- wrap_implicit *)
(* How one copy of X converts is a parameter: [copy j] is the forest X yields under counter j (any
   forest), [ph] says whether converting X meets a `$#` (then the state records it).  The theorem is
   about what the implicit repeater does with the copies and the lines. *)
Definition mark (ph : bool) (st : cst) : cst := if ph then set_text_inserted (set_inserted st) else st.

Definition copy_spec (once : option rep -> cst -> res (list anode * cst)) (count : N) (ph : bool)
           (copy : nat -> list anode) : Prop :=
  forall (j : nat) (st : cst) (rs : list rep),
    (N.of_nat j < count)%N ->
    cs_repeaters st = mkRep count (N.of_nat j) true :: rs ->
    once (Some (mkRep count (N.of_nat j) true)) st = Ok (copy j, mark ph st).

(* what copy j looks like in the result: with a `$#` inside X the placeholder already holds the line;
   without, the trimmed line is appended to the deepest last element of the copy *)
Definition piece (ph : bool) (L : list str) (copy : nat -> list anode) (j : nat) : list anode :=
  if ph then copy j else on_last_deepest (fun n => insert_text n (nth j L [])) (copy j).

Lemma last_opt_none_nil {A} (l : list A) : last_opt l = None -> l = [].
Proof.
  unfold last_opt. destruct (rev l) eqn:E; [|discriminate]. intros _.
  apply (f_equal (@rev A)) in E. rewrite rev_involutive in E. exact E.
Qed.

Lemma rep_iter_lines env once lines ph copy :
  ce_text env = WList lines ->
  let L := wrap_lines lines in
  let count := N.of_nat (length L) in
  copy_spec once count ph copy ->
  (ph = true \/ forall j, copy j <> []) ->
  forall (k j : nat) (acc : list anode) (st : cst) (v : N) (rs : list rep),
    (j + k = length L)%nat ->
    cs_repeaters st = mkRep count v true :: rs ->
    (ph = false -> cs_inserted st = false) ->
    (Z.of_nat k <= cs_guard st)%Z ->
    exists st',
      rep_iter env once count true k (N.of_nat j) acc st =
        Ok (acc ++ concat (map (piece ph L copy) (seq j k)), st')
      /\ (exists v', cs_repeaters st' = mkRep count v' true :: rs)
      /\ (ph = false -> cs_inserted st' = false)
      /\ (k <> O -> cs_text_inserted st' = true).
Proof.
  intros Et L count Hcopy Hne. induction k as [|k IH]; intros j acc st v rs Hjk Hrs Hins Hg.
  - exists st. cbn [rep_iter seq map concat]. rewrite app_nil_r.
    split; [reflexivity|]. split; [eexists; exact Hrs|]. split; [exact Hins|congruence].
  - cbn [rep_iter].
    assert (Hlt : (N.of_nat j <? count)%N = true) by (unfold count; apply N.ltb_lt; lia).
    rewrite Hlt.
    assert (Hrs1 : cs_repeaters (set_top_value (N.of_nat j) st) = mkRep count (N.of_nat j) true :: rs).
    { unfold set_top_value. rewrite Hrs. reflexivity. }
    rewrite (Hcopy j _ rs ltac:(apply N.ltb_lt; exact Hlt) Hrs1). cbn [bind andb].
    set (st2 := mark ph (set_top_value (N.of_nat j) st)).
    assert (Hrs2 : cs_repeaters st2 = mkRep count (N.of_nat j) true :: rs).
    { unfold st2, mark. destruct ph; exact Hrs1. }
    assert (Hins2 : cs_inserted st2 = ph || cs_inserted st).
    { unfold st2, mark, set_top_value. rewrite Hrs. destruct ph; reflexivity. }
    assert (Hg2 : cs_guard st2 = cs_guard st).
    { unfold st2, mark, set_top_value. rewrite Hrs. destruct ph; reflexivity. }
    (* the text insertion of this round *)
    assert (Hstep : exists st3,
      (if negb (cs_inserted st2)
       then match last_opt (copy j) with
            | Some _ =>
                let* (txt, s') := get_text_at env (Some (N.of_nat j)) st2 in
                Ok (on_last_deepest (fun n => insert_text n txt) (copy j), s')
            | None => Ok (copy j, st2)
            end
       else Ok (copy j, st2)) = Ok (piece ph L copy j, st3)
      /\ cs_repeaters st3 = cs_repeaters st2 /\ cs_guard st3 = cs_guard st2
      /\ cs_inserted st3 = cs_inserted st2
      /\ cs_text_inserted st3 = true).
    { unfold piece. destruct ph.
      - rewrite Hins2. cbn [orb negb]. exists st2.
        split; [reflexivity|]. split; [reflexivity|]. split; [reflexivity|]. split; reflexivity.
      - rewrite Hins2, (Hins eq_refl). cbn [orb negb].
        destruct Hne as [Hp|Hne]; [discriminate|].
        destruct (last_opt (copy j)) eqn:El.
        + rewrite (get_text_line env lines st2 j Et) by (fold L; lia). cbn [bind].
          exists (set_text_inserted st2).
          split; [reflexivity|]. split; [reflexivity|]. split; [reflexivity|].
          split; [|reflexivity]. cbn [set_text_inserted cs_inserted]. rewrite Hins2, (Hins eq_refl). reflexivity.
        + apply last_opt_none_nil in El. elim (Hne j El). }
    destruct Hstep as [st3 [Hs [Hr3 [Hg3 [Hi3 Ht3]]]]].
    rewrite Hs. cbn [bind].
    assert (Hgd : cs_guard (dec_guard st3) = (cs_guard st - 1)%Z) by (cbn [dec_guard cs_guard]; lia).
    assert (Hinsd : ph = false -> cs_inserted (dec_guard st3) = false).
    { intros Hp. cbn [dec_guard cs_inserted]. rewrite Hi3, Hins2, Hp, (Hins Hp). reflexivity. }
    assert (Hrsd : cs_repeaters (dec_guard st3) = mkRep count (N.of_nat j) true :: rs).
    { cbn [dec_guard cs_repeaters]. rewrite Hr3. exact Hrs2. }
    destruct (cs_guard (dec_guard st3) <=? 0)%Z eqn:Eg.
    + (* the guard is used up: this was the last round anyway *)
      assert (k = O) by lia. subst k.
      exists (dec_guard st3). cbn [seq map concat]. rewrite app_nil_r.
      split; [reflexivity|]. split; [eexists; exact Hrsd|]. split; [exact Hinsd|].
      intros _. exact Ht3.
    + replace (N.of_nat j + 1)%N with (N.of_nat (S j)) by lia.
      destruct (IH (S j) (acc ++ piece ph L copy j) (dec_guard st3) (N.of_nat j) rs
                   ltac:(lia) Hrsd Hinsd ltac:(lia)) as [st' [E [Hr' [Hi' Ht']]]].
      exists st'. rewrite E. cbn [seq map concat]. rewrite <- app_assoc.
      split; [reflexivity|]. split; [exact Hr'|]. split; [exact Hi'|].
      intros _. destruct k as [|k'].
      * cbn [rep_iter] in E. inversion E; subst. exact Ht3.
      * apply Ht'. discriminate.
Qed.

(* wrap_implicit, at convert_statement: X* over a list of lines *)
Theorem wrap_implicit env node r0 lines ph copy st :
  ce_text env = WList lines ->
  node_rep node = Some r0 -> rimplicit r0 = true ->
  let L := wrap_lines lines in
  copy_spec (once_of env node) (N.of_nat (length L)) ph copy ->
  (ph = true \/ forall j, copy j <> []) ->
  (ph = false -> cs_inserted st = false) ->
  (Z.of_nat (length L) <= cs_guard st)%Z ->
  exists st',
    conv_stmt env node st = Ok (concat (map (piece ph L copy) (seq 0 (length L))), st')
    /\ cs_inserted st' = true
    /\ cs_repeaters st' = cs_repeaters st
    /\ (L <> [] -> cs_text_inserted st' = true).
Proof.
  intros Et Hrep Himp L Hcopy Hne Hins Hg.
  rewrite conv_stmt_eq, Hrep. unfold rep_loop. rewrite Himp, Et.
  assert (Hcount : N.of_nat (length (clean_text (WList lines))) = N.of_nat (length L)).
  { unfold L. rewrite <- clean_text_lines, map_length. reflexivity. }
  rewrite Hcount.
  set (count := N.of_nat (length L)).
  set (st0 := push_rep (mkRep count (rvalue r0) true) st).
  assert (Hrounds : N.to_nat (N.min count (Z.to_N (Z.max (cs_guard st0) 1))) = length L).
  { unfold st0, count. cbn [push_rep cs_guard]. lia. }
  rewrite Hrounds.
  destruct (rep_iter_lines env (once_of env node) lines ph copy Et Hcopy Hne
              (length L) 0%nat [] st0 (rvalue r0) (cs_repeaters st) eq_refl eq_refl Hins
              ltac:(unfold st0; cbn [push_rep cs_guard]; lia))
    as [st' [E [[v' Hr'] [Hi' Ht']]]].
  change (N.of_nat 0) with 0%N in E. subst count. subst L. rewrite E. cbn [bind app].
  eexists. split; [reflexivity|].
  split; [reflexivity|]. split.
  - cbn [set_inserted pop_rep cs_repeaters]. rewrite Hr'. reflexivity.
  - intros HL. cbn [set_inserted pop_rep cs_text_inserted]. apply Ht'.
    destruct (wrap_lines lines); [congruence|discriminate].
Qed.

(* ---------------------------------------------------------------- the whole text, plain case *)
Definition whole_text (t : wtext) : str :=
  match t with
  | WList l => strip (join [c_nl] l)
  | WStr s => strip s
  | WNone => []
  end.

(* wrap_plain: when converting the abbreviation did not consume the text (no implicit repeater, no `$#`),
   the whole text -- joined and stripped as the code does -- goes once into the deepest last element
   ([insert_wrap] = insert_text, followed by insert_href when that element is an `a` and markup.href is on;
   proofs/HrefProofs.v: insert_wrap changes the value exactly as insert_text does, and the attributes only) *)
Theorem wrap_plain env mr root children st :
  ce_text env <> WNone ->
  conv_list env root
    (mkCst false (match mr with Some m => Z.of_N m | None => 1000000%Z end) [] false) = Ok (children, st) ->
  cs_text_inserted st = false ->
  convert env mr root = Ok (on_last_deepest (fun n => insert_wrap env n (whole_text (ce_text env))) children).
Proof.
  intros Ht Hc Hi. unfold convert. rewrite Hc. cbn [bind]. rewrite Hi.
  destruct (ce_text env); [congruence|reflexivity|reflexivity].
Qed.

(* wrap_implicit, at convert: the abbreviation is the single statement X* *)
Theorem wrap_implicit_convert env mr node r0 lines ph copy :
  ce_text env = WList lines ->
  node_rep node = Some r0 -> rimplicit r0 = true ->
  let L := wrap_lines lines in
  copy_spec (once_of env node) (N.of_nat (length L)) ph copy ->
  (ph = true \/ forall j, copy j <> []) ->
  (Z.of_nat (length L) <= match mr with Some m => Z.of_N m | None => 1000000 end)%Z ->
  convert env mr [node] = Ok (concat (map (piece ph L copy) (seq 0 (length L)))).
Proof.
  intros Et Hrep Himp L Hcopy Hne Hg. unfold convert. cbn [conv_list].
  destruct (wrap_implicit env node r0 lines ph copy
              (mkCst false (match mr with Some m => Z.of_N m | None => 1000000%Z end) [] false)
              Et Hrep Himp Hcopy Hne (fun _ => eq_refl) Hg) as [st' [E [Hi [Hr Ht]]]].
  rewrite E. cbn [bind]. rewrite app_nil_r. rewrite Et.
  destruct (cs_text_inserted st') eqn:Eti; [reflexivity|].
  (* no non-blank line at all: no copies, and nothing to insert the text into *)
  subst L. destruct (wrap_lines lines) as [|l0 L'] eqn:EL.
  - reflexivity.
  - assert (Hx : false = true) by (apply Ht; discriminate). discriminate.
Qed.
