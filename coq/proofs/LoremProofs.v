(* Proofs about the lorem text generator (model/MarkupLorem.v), for EVERY stream of raw draws.
   [lsafe P r]: r is LOk with P, or LExhausted -- never LFuel, never LInternal. *)
From Coq Require Import ZArith List Bool Lia ZifyBool Arith.
From Emmet Require Import lib.Base gen.GenLorem model.MarkupLorem.
Import ListNotations.
Local Open Scope Z_scope.

Definition lsafe {A} (P : A -> list Z -> Prop) (r : lres A) : Prop :=
  match r with
  | LOk a rest => P a rest
  | LExhausted => True
  | LFuel => False
  | LInternal _ => False
  end.

Lemma lsafe_bind : forall A B (P : A -> list Z -> Prop) (Q : B -> list Z -> Prop) (r : lres A) f,
  lsafe P r -> (forall a s, P a s -> lsafe Q (f a s)) -> lsafe Q (lbind r f).
Proof. intros A B P Q [a rest| | |k] f H Hf; simpl in *; auto. Qed.

Lemma lsafe_weaken : forall A (P Q : A -> list Z -> Prop) (r : lres A),
  lsafe P r -> (forall a s, P a s -> Q a s) -> lsafe Q r.
Proof. intros A P Q [a rest| | |k] H HPQ; simpl in *; auto. Qed.

(* ---------------------------------------------------------------- randint *)
(* one raw draw is consumed, the value lies in [a, b] *)
Lemma randint_spec : forall a b s, a <= b ->
  lsafe (fun v r => a <= v <= b /\ exists d, s = d :: r /\ v = a + d mod (b - a + 1)) (randint a b s).
Proof.
  intros a b s Hab. unfold randint. destruct (b <? a) eqn:E; [lia|].
  destruct s as [|d r]; [exact I|]. simpl.
  pose proof (Z.mod_pos_bound d (b - a + 1) ltac:(lia)). split; [lia|]. exists d. auto.
Qed.

Lemma randint_shorter : forall a b s, a <= b ->
  lsafe (fun v r => a <= v <= b /\ (length r < length s)%nat) (randint a b s).
Proof.
  intros. eapply lsafe_weaken; [apply randint_spec; assumption|].
  intros v r [Hv [d [-> _]]]. split; [exact Hv|simpl; lia].
Qed.

(* ---------------------------------------------------------------- indexing *)
Lemma zlen_nonneg : forall A (l : list A), 0 <= zlen l.
Proof. intros. unfold zlen. lia. Qed.

Lemma zlen_app : forall A (l1 l2 : list A), zlen (l1 ++ l2) = zlen l1 + zlen l2.
Proof. intros. unfold zlen. rewrite app_length. lia. Qed.

Lemma py_pos_in_range : forall A (l : list A) i, 0 <= i < zlen l ->
  py_pos l i = Some (Z.to_nat i) /\ (Z.to_nat i < length l)%nat.
Proof.
  intros A l i H. unfold py_pos. destruct (i <? 0) eqn:E; [lia|]. destruct (i <? zlen l) eqn:E2; [|lia].
  split; [reflexivity|]. clear E E2. unfold zlen in H. lia.
Qed.

Lemma py_index_in_range : forall A (l : list A) i, 0 <= i < zlen l -> exists x, py_index l i = Some x /\ In x l.
Proof.
  intros A l i H. unfold py_index. destruct (py_pos_in_range A l i H) as [-> Hlt].
  destruct (nth_error l (Z.to_nat i)) eqn:E.
  - exists a. split; [reflexivity|]. eapply nth_error_In; eassumption.
  - apply nth_error_None in E. lia.
Qed.

(* w[-1] of a non-empty string is its last character *)
Lemma py_index_last : forall (w : str) c, py_index (w ++ [c]) (-1) = Some c.
Proof.
  intros w c. unfold py_index, py_pos. rewrite zlen_app. change (zlen [c]) with 1.
  pose proof (zlen_nonneg _ w).
  destruct (-1 <? 0) eqn:E; [|lia]. destruct (0 <=? zlen w + 1 + -1) eqn:E2; [|lia].
  replace (Z.to_nat (zlen w + 1 + -1)) with (length w) by (unfold zlen; lia).
  rewrite nth_error_app2; [|apply Nat.le_refl]. rewrite Nat.sub_diag. reflexivity.
Qed.

Lemma py_index_last_some : forall (w : str), w <> [] -> exists c, py_index w (-1) = Some c.
Proof.
  intros w H. destruct (exists_last H) as [w' [c ->]]. exists c. apply py_index_last.
Qed.

(* ---------------------------------------------------------------- sample *)
(* the loop as written in the Python source: one randint per iteration *)
Lemma sample_loop_eq : forall arr l iterations result s,
  sample_loop arr l iterations result s =
  if zlen result <? iterations then
    let+ i from r := randint 0 (l - 1) s in
    match py_index arr i with
    | None => LInternal IK_Index
    | Some item => sample_loop arr l iterations (if mem_str item result then result else result ++ [item]) r
    end
  else LOk result s.
Proof.
  intros. destruct s as [|d r]; cbn [sample_loop]; destruct (zlen result <? iterations); try reflexivity;
    unfold randint; destruct (l - 1 <? 0); reflexivity.
Qed.

Lemma sample_loop_spec : forall arr l iterations, l = zlen arr -> iterations <= l ->
  forall s result, Forall (fun w => In w arr) result ->
  lsafe (fun res r => Forall (fun w => In w arr) res /\ zlen res = Z.max iterations (zlen result)
                      /\ (length r <= length s)%nat)
        (sample_loop arr l iterations result s).
Proof.
  intros arr l iterations Hl Hit. induction s as [|d r IH]; intros result Hres.
  - cbn [sample_loop]. destruct (zlen result <? iterations) eqn:E.
    + destruct (l - 1 <? 0) eqn:E2; [|exact I]. pose proof (zlen_nonneg _ result). lia.
    + simpl. split; [exact Hres|]. split; [lia|lia].
  - cbn [sample_loop]. destruct (zlen result <? iterations) eqn:E.
    + pose proof (zlen_nonneg _ result) as Hr0.
      destruct (l - 1 <? 0) eqn:E2; [lia|].
      replace (l - 1 - 0 + 1) with l by lia.
      pose proof (Z.mod_pos_bound d l ltac:(lia)) as Hm.
      destruct (py_index_in_range _ arr (0 + d mod l) ltac:(lia)) as [item [-> Hin]].
      eapply lsafe_weaken; [apply IH|].
      * destruct (mem_str item result); [exact Hres|]. apply Forall_app. split; [exact Hres|]. constructor; [exact Hin|constructor].
      * intros res r' [H1 [H2 H3]]. split; [exact H1|]. split; [|simpl; lia].
        rewrite H2. destruct (mem_str item result); [reflexivity|]. rewrite zlen_app. change (zlen [item]) with 1. lia.
    + simpl. split; [exact Hres|]. split; [lia|lia].
Qed.

(* sample(arr, count): min(len(arr), count) entries of arr (0 for a negative count) *)
Lemma sample_spec : forall arr count s,
  lsafe (fun res r => Forall (fun w => In w arr) res /\ zlen res = Z.max (Z.min (zlen arr) count) 0
                      /\ (length r <= length s)%nat)
        (sample arr count s).
Proof.
  intros. unfold sample. eapply lsafe_weaken; [apply sample_loop_spec; [reflexivity|lia|constructor]|].
  intros res r [H1 [H2 H3]]. split; [exact H1|]. split; [|exact H3]. rewrite H2. unfold zlen at 2. simpl. reflexivity.
Qed.

(* ---------------------------------------------------------------- choice *)
Lemma choice_spec : forall val s, val <> [] ->
  lsafe (fun c r => In c val /\ (length r < length s)%nat) (choice val s).
Proof.
  intros val s Hne. unfold choice.
  assert (0 < zlen val) by (destruct val; [contradiction|unfold zlen; simpl; lia]).
  eapply lsafe_bind; [apply randint_shorter; lia|].
  intros i r [Hi Hr]. destruct (py_index_in_range _ val i ltac:(lia)) as [c [-> Hc]]. simpl. auto.
Qed.

(* ---------------------------------------------------------------- capitalize *)
(* a word the generated capitalisation table covers: not empty, first character in the table *)
Definition good_word (w : str) : bool :=
  match w with
  | [] => false
  | c :: _ => match assoc_N c lorem_cap_first with Some _ => true | None => false end
  end.
(* the capitalised form (specification side) *)
Definition cap (w : str) : str := match capitalize w with Some c => c | None => w end.

Lemma good_capitalize : forall w, good_word w = true -> capitalize w = Some (cap w).
Proof.
  intros [|c r] H; [simpl in H; discriminate|]. unfold cap, capitalize. cbn [good_word] in H.
  destruct (assoc_N c lorem_cap_first); [reflexivity|discriminate].
Qed.

Lemma good_nonempty : forall w, good_word w = true -> w <> [].
Proof. intros [|c r] H; [simpl in H; discriminate|intro; discriminate]. Qed.

Lemma good_app : forall w x, good_word w = true -> good_word (w ++ x) = true.
Proof. intros [|c r] x H; [simpl in H; discriminate|exact H]. Qed.

(* ---------------------------------------------------------------- insert_commas *)
(* what insert_commas may do to an entry: nothing, or one comma appended *)
Definition decorated (w' w : str) : Prop := w' = w \/ w' = w ++ [c_comma].

Lemma decorated_refl : forall l, Forall2 decorated l l.
Proof. induction l; constructor; [left; reflexivity|assumption]. Qed.

Lemma Forall2_set_nth : forall A B (R : A -> B -> Prop) l1 l2 p x y,
  Forall2 R l1 l2 -> nth_error l2 p = Some y -> R x y -> Forall2 R (set_nth p x l1) l2.
Proof.
  intros A B R l1 l2 p x y H. revert p. induction H as [|a b l1 l2 Hab H IH]; intros p Hn Hxy.
  - destruct p; constructor.
  - destruct p as [|p]; simpl in *.
    + inversion Hn; subst. constructor; assumption.
    + constructor; [assumption|]. apply IH; assumption.
Qed.

Lemma Forall2_nth_error : forall A B (R : A -> B -> Prop) l1 l2 p x,
  Forall2 R l1 l2 -> nth_error l1 p = Some x -> exists y, nth_error l2 p = Some y /\ R x y.
Proof.
  intros A B R l1 l2 p x H. revert p. induction H as [|a b l1 l2 Hab H IH]; intros p Hn.
  - destruct p; discriminate.
  - destruct p as [|p]; simpl in *.
    + inversion Hn; subst. exists b. auto.
    + apply IH. exact Hn.
Qed.

Lemma set_nth_length : forall A p (x : A) l, length (set_nth p x l) = length l.
Proof. intros A p x l. revert p. induction l as [|a l IH]; intros [|p]; simpl; auto. Qed.

Lemma Forall_set_nth : forall A (P : A -> Prop) p x l, Forall P l -> P x -> Forall P (set_nth p x l).
Proof.
  intros A P p x l H. revert p. induction H as [|a l Ha H IH]; intros [|p] Hx; simpl; constructor; auto.
Qed.

Lemma commas_loop_spec : forall words0 k l s words,
  l = zlen words -> 2 <= l -> Forall (fun w => good_word w = true) words -> Forall2 decorated words words0 ->
  lsafe (fun ws r => Forall2 decorated ws words0 /\ Forall (fun w => good_word w = true) ws
                     /\ (length r <= length s)%nat
                     /\ (forall w, last ws w = last words w))
        (commas_loop k l words s).
Proof.
  intros words0. induction k as [|k IH]; intros l s words Hl H2 Hgood Hdec.
  - simpl. repeat split; auto.
  - cbn [commas_loop]. eapply lsafe_bind; [apply randint_shorter; lia|].
    intros pos r [Hpos Hr].
    destruct (py_pos_in_range _ words pos ltac:(lia)) as [-> Hlt].
    destruct (nth_error words (Z.to_nat pos)) as [w|] eqn:En; [|apply nth_error_None in En; lia].
    assert (Hgw : good_word w = true).
    { rewrite Forall_forall in Hgood. apply Hgood. eapply nth_error_In; eassumption. }
    destruct (py_index_last_some w (good_nonempty w Hgw)) as [c Ec]. rewrite Ec.
    destruct (Forall2_nth_error _ _ _ _ _ _ _ Hdec En) as [w0 [En0 Hw0]].
    eapply lsafe_weaken.
    + apply IH with (l := l).
      * destruct (c =? c_comma)%N; [exact Hl|]. unfold zlen. rewrite set_nth_length. exact Hl.
      * exact H2.
      * destruct (c =? c_comma)%N; [exact Hgood|]. apply Forall_set_nth; [exact Hgood|apply good_app; exact Hgw].
      * destruct (c =? c_comma)%N eqn:Ecc; [exact Hdec|].
        eapply Forall2_set_nth; [exact Hdec|exact En0|].
        destruct Hw0 as [->| ->]; [right; reflexivity|].
        (* w = w0 ++ [comma]: its last character is the comma, contradiction *)
        rewrite py_index_last in Ec. inversion Ec; subst c. rewrite N.eqb_refl in Ecc. discriminate.
    + intros ws r' [H1 [H3 [H4 H5]]]. split; [exact H1|]. split; [exact H3|]. split; [lia|].
      intros d. rewrite H5. destruct (c =? c_comma)%N; [reflexivity|].
      (* position pos <= l - 2 is not the last one *)
      clear - Hpos Hl En. unfold zlen in Hl.
      assert (Hp : (S (Z.to_nat pos) < length words)%nat) by lia.
      revert Hp. generalize (Z.to_nat pos) as p. generalize (w ++ [c_comma]) as x. clear.
      induction words as [|a words IH]; intros x p Hp; [simpl in Hp; lia|].
      destruct p as [|p]; simpl set_nth.
      * destruct words; [simpl in Hp; lia|reflexivity].
      * destruct words as [|b words]; [simpl in Hp; lia|].
        change (last (a :: set_nth p x (b :: words)) d = last (a :: b :: words) d).
        assert (E := IH x p ltac:(simpl in *; lia)).
        destruct (set_nth p x (b :: words)) eqn:Es.
        { pose proof (set_nth_length _ p x (b :: words)) as Hsl. rewrite Es in Hsl. simpl in Hsl. lia. }
        simpl in *. exact E.
Qed.

(* insert_commas(words): same entries, some with a comma appended, never the last one *)
Lemma insert_commas_spec : forall words s, Forall (fun w => good_word w = true) words ->
  lsafe (fun ws r => Forall2 decorated ws words /\ Forall (fun w => good_word w = true) ws
                     /\ (length r <= length s)%nat /\ (forall d, last ws d = last words d))
        (insert_commas words s).
Proof.
  intros words s Hgood. unfold insert_commas.
  destruct (zlen words <? 2) eqn:E.
  - simpl. repeat split; auto. apply decorated_refl.
  - apply Z.ltb_ge in E. eapply lsafe_bind.
    + instantiate (1 := fun v r => (length r < length s)%nat).
      destruct ((3 <? zlen words) && (zlen words <=? 6));
        [|destruct ((6 <? zlen words) && (zlen words <=? 12))];
        (eapply lsafe_weaken; [apply randint_shorter; lia|intros v r [_ H]; exact H]).
    + intros total r Hr. eapply lsafe_weaken.
      * apply commas_loop_spec with (words0 := words); [reflexivity|exact E|exact Hgood|apply decorated_refl].
      * intros ws r' [H1 [H2 [H3 H4]]]. split; [exact H1|]. split; [exact H2|]. split; [cbv beta in *; lia|exact H4].
Qed.

(* ---------------------------------------------------------------- sentence *)
(* the first entry capitalised *)
Definition cap_head (ws : list str) : list str := match ws with [] => [] | w :: r => cap w :: r end.

Lemma sentence_spec : forall ws end_ s, Forall (fun w => good_word w = true) ws ->
  lsafe (fun t r => exists e, t = join [c_space] (cap_head ws) ++ e /\ (length r <= length s)%nat /\
                    match end_ with
                    | Some (c :: e') => e = c :: e'
                    | _ => exists c, e = [c] /\ In c lorem_sentence_ends
                    end)
        (sentence ws end_ s).
Proof.
  intros ws end_ s Hgood. unfold sentence.
  assert (Hcap : match ws with [] => Some [] | w :: r => match capitalize w with Some c => Some (c :: r) | None => None end end
                 = Some (cap_head ws)).
  { destruct ws as [|w r]; [reflexivity|]. inversion Hgood; subst. rewrite (good_capitalize w H1). reflexivity. }
  rewrite Hcap.
  assert (Hch : lsafe (fun t r => exists e, t = join [c_space] (cap_head ws) ++ e /\ (length r <= length s)%nat /\
                                   exists c, e = [c] /\ In c lorem_sentence_ends)
                      (let+ c from s1 := choice lorem_sentence_ends s in LOk (join [c_space] (cap_head ws) ++ [c]) s1)).
  { eapply lsafe_bind; [apply choice_spec; discriminate|].
    intros c r [Hc Hr]. simpl. exists [c]. split; [reflexivity|]. split; [lia|]. exists c. auto. }
  destruct end_ as [[|c e']|]; [exact Hch| |exact Hch].
  simpl. exists (c :: e'). auto.
Qed.

(* ---------------------------------------------------------------- paragraph *)
(* what the proofs need of a vocabulary; swept over the generated table below *)
Definition db_common (db : vocabulary) : list str := match fst db with Some c => c | None => [] end.
Definition db_ok (db : vocabulary) : bool :=
  forallb good_word (snd db) && (30 <=? zlen (snd db)) &&
  match fst db with Some c => forallb good_word c && negb (zlen c =? 0) | None => true end.
Definition db_entries (db : vocabulary) : list str := db_common db ++ snd db.

(* a paragraph as the list of its sentences: (entries as insert_commas left them, sentence end) *)
Definition sent := (list str * str)%type.
Definition sent_text (p : sent) : str := join [c_space] (cap_head (fst p)) ++ snd p.
Definition sent_count (l : list sent) : Z := fold_right (fun p acc => zlen (fst p) + acc) 0 l.
Definition para_text (l : list sent) : str := join [c_space] (map sent_text l).
(* entries of the vocabulary, each possibly with a comma appended, but not the last one *)
Definition from_vocab (voc : list str) (ws : list str) : Prop :=
  exists ws0, Forall2 decorated ws ws0 /\ Forall (fun w => In w voc) ws0 /\ (forall d, last ws d = last ws0 d).
Definition sent_ok (voc : list str) (p : sent) : Prop :=
  from_vocab voc (fst p) /\ fst p <> [] /\ exists c, snd p = [c] /\ In c lorem_sentence_ends.

Lemma sent_count_app : forall a b, sent_count (a ++ b) = sent_count a + sent_count b.
Proof. induction a as [|p a IH]; intros b; simpl; [reflexivity|]. rewrite IH. lia. Qed.

Lemma Forall2_zlen : forall A B (R : A -> B -> Prop) l1 l2, Forall2 R l1 l2 -> zlen l1 = zlen l2.
Proof. intros A B R l1 l2 H. unfold zlen. induction H; simpl; lia. Qed.

Lemma forallb_good : forall l, forallb good_word l = true -> Forall (fun w => good_word w = true) l.
Proof. intros l H. apply Forall_forall. intros x Hx. rewrite forallb_forall in H. auto. Qed.

Lemma Forall_in_good : forall voc ws, Forall (fun w => good_word w = true) voc -> Forall (fun w => In w voc) ws ->
  Forall (fun w => good_word w = true) ws.
Proof. intros voc ws Hv Hw. rewrite Forall_forall in *. intros x Hx. auto. Qed.

Lemma para_loop_spec : forall db wc, db_ok db = true ->
  forall fuel total acc s,
  (length s < fuel)%nat -> total <= wc -> sent_count acc = total -> Forall (sent_ok (db_entries db)) acc ->
  lsafe (fun t r => exists more, t = para_text (acc ++ more) /\ sent_count (acc ++ more) = wc
                                 /\ Forall (sent_ok (db_entries db)) (acc ++ more) /\ (length r <= length s)%nat)
        (para_loop fuel db wc total (map sent_text acc) s).
Proof.
  intros db wc Hdb. unfold db_ok in Hdb. apply andb_prop in Hdb. destruct Hdb as [Hdb Hcm].
  apply andb_prop in Hdb. destruct Hdb as [Hgood H30]. apply forallb_good in Hgood. apply Z.leb_le in H30.
  induction fuel as [|f IH]; intros total acc s Hf Htot Hcnt Hacc; [lia|].
  cbn [para_loop]. destruct (total <? wc) eqn:E.
  - apply Z.ltb_lt in E.
    eapply lsafe_bind; [apply randint_shorter; lia|]. intros r s1 [Hr Hs1]. cbv beta.
    eapply lsafe_bind; [apply sample_spec|]. intros words s2 [Hin [Hlen Hs2]]. cbv beta.
    assert (Hn : zlen words = Z.min r (wc - total)) by lia.
    assert (Hgw : Forall (fun w => good_word w = true) words) by (eapply Forall_in_good; eassumption).
    eapply lsafe_bind; [apply insert_commas_spec; exact Hgw|]. intros ws s3 [Hdec [Hgws [Hs3 Hlast]]]. cbv beta.
    eapply lsafe_bind; [apply sentence_spec; exact Hgws|]. intros t s4 [e [Ht [Hs4 [c [He Hc]]]]]. cbv beta.
    assert (Hws : zlen ws = zlen words) by (eapply Forall2_zlen; eassumption).
    replace (map sent_text acc ++ [t]) with (map sent_text (acc ++ [(ws, e)])).
    2:{ rewrite map_app. simpl. unfold sent_text at 2. simpl. rewrite Ht. reflexivity. }
    eapply lsafe_weaken.
    + apply IH.
      * lia.
      * lia.
      * rewrite sent_count_app. simpl. lia.
      * apply Forall_app. split; [exact Hacc|]. constructor; [|constructor].
        split; [|split].
        -- exists words. split; [exact Hdec|]. split; [|exact Hlast].
           rewrite Forall_forall in *. intros x Hx. unfold db_entries. apply in_or_app. right. auto.
        -- simpl. intro Hnil. rewrite Hnil in Hws. unfold zlen at 1 in Hws. simpl in Hws. lia.
        -- exists c. simpl. auto.
    + intros t' r' [more [H1 [H2 [H3 H4]]]]. exists ((ws, e) :: more).
      rewrite <- app_assoc in H1, H2, H3. simpl in H1, H2, H3. repeat split; auto. lia.
  - simpl. exists []. rewrite app_nil_r. apply Z.ltb_ge in E. repeat split; auto. lia.
Qed.

Lemma dot_is_end : In c_dot lorem_sentence_ends.
Proof.
  assert (H : existsb (N.eqb c_dot) lorem_sentence_ends = true) by (vm_compute; reflexivity).
  apply existsb_exists in H. destruct H as [x [Hx E]]. apply N.eqb_eq in E. subst x. exact Hx.
Qed.

Lemma py_prefix_spec : forall A (l : list A) n, 1 <= n ->
  zlen (py_prefix l n) = Z.min n (zlen l) /\ (forall x, In x (py_prefix l n) -> In x l).
Proof.
  intros A l n Hn. unfold py_prefix. destruct (n <? 0) eqn:E; [lia|].
  pose proof (zlen_nonneg _ l). split.
  - unfold zlen at 1. rewrite firstn_length. unfold zlen in *. lia.
  - intros x Hx. rewrite <- (firstn_skipn (Z.to_nat (Z.min n (zlen l))) l). apply in_or_app. left. exact Hx.
Qed.

(* paragraph(db, word_count, start_with_common) for word_count >= 1: exactly word_count entries *)
Lemma paragraph_spec : forall db wc common fuel s, db_ok db = true -> 1 <= wc -> (length s < fuel)%nat ->
  lsafe (fun t r => exists sents, t = para_text sents /\ sent_count sents = wc
                                  /\ Forall (sent_ok (db_entries db)) sents /\ (length r <= length s)%nat
                                  /\ (common = true -> forall cm, fst db = Some cm ->
                                      exists ws rest, sents = (ws, c_dot_str) :: rest /\ Forall2 decorated ws (py_prefix cm wc)))
        (paragraph fuel db wc common s).
Proof.
  intros db wc common fuel s Hdb Hwc Hf. unfold paragraph.
  destruct (if common then fst db else None) as [cm|] eqn:Ecm.
  - assert (Hfst : fst db = Some cm /\ common = true) by (destruct common; [auto|discriminate]).
    destruct Hfst as [Hfst Hcommon].
    pose proof Hdb as Hdb'. unfold db_ok in Hdb'. rewrite Hfst in Hdb'.
    apply andb_prop in Hdb'. destruct Hdb' as [_ Hc]. apply andb_prop in Hc. destruct Hc as [Hcg Hcne].
    apply forallb_good in Hcg.
    destruct (py_prefix_spec _ cm wc Hwc) as [Hplen Hpin].
    set (words := py_prefix cm wc) in *.
    assert (Hgw : Forall (fun w => good_word w = true) words).
    { rewrite Forall_forall in *. intros x Hx. auto. }
    eapply lsafe_bind; [apply insert_commas_spec; exact Hgw|]. intros ws s1 [Hdec [Hgws [Hs1 Hlast]]]. cbv beta.
    eapply lsafe_bind; [apply sentence_spec; exact Hgws|]. intros t s2 [e [Ht [Hs2 He]]]. cbv beta.
    unfold c_dot_str in He. subst e.
    assert (Hws : zlen ws = zlen words) by (eapply Forall2_zlen; eassumption).
    change [t] with (map sent_text []  ++ [t]).
    replace (map sent_text [] ++ [t]) with (map sent_text [(ws, [c_dot])]).
    2:{ simpl. unfold sent_text. simpl. rewrite Ht. reflexivity. }
    eapply lsafe_weaken.
    + apply para_loop_spec with (acc := [(ws, [c_dot])]); [exact Hdb|lia| | |].
      * pose proof (zlen_nonneg _ cm). lia.
      * simpl. lia.
      * constructor; [|constructor]. split; [|split].
        -- exists words. split; [exact Hdec|]. split; [|exact Hlast].
           rewrite Forall_forall. intros x Hx. unfold db_entries, db_common. rewrite Hfst. apply in_or_app. left. auto.
        -- simpl. intro Hnil. rewrite Hnil in Hws. unfold zlen at 1 in Hws. simpl in Hws.
           assert (zlen cm <> 0) by (destruct (zlen cm =? 0) eqn:Ez; [discriminate|lia]).
           pose proof (zlen_nonneg _ cm). lia.
        -- exists c_dot. split; [reflexivity|exact dot_is_end].
    + intros t' r' [more [H1 [H2 [H3 H4]]]]. exists ((ws, [c_dot]) :: more). simpl in H1, H2, H3.
      split; [exact H1|]. split; [exact H2|]. split; [exact H3|]. split; [lia|].
      intros _ cm' Hcm'. rewrite Hfst in Hcm'. inversion Hcm'; subst cm'.
      exists ws, more. split; [reflexivity|exact Hdec].
  - eapply lsafe_weaken.
    + apply para_loop_spec with (acc := []); [exact Hdb|exact Hf|lia|reflexivity|constructor].
    + intros t' r' [more [H1 [H2 [H3 H4]]]]. exists more. simpl in *.
      split; [exact H1|]. split; [exact H2|]. split; [exact H3|]. split; [exact H4|].
      intros Hc cm Hcm. rewrite Hc, Hcm in Ecm. discriminate.
Qed.

(* ---------------------------------------------------------------- the generated table: complete sweep *)
Lemma vocabularies_ok : forallb (fun kv => db_ok (snd kv)) lorem_vocabularies = true.
Proof. vm_compute. reflexivity. Qed.

Lemma latin_present : assoc_str s_latin lorem_vocabularies <> None.
Proof. vm_compute. discriminate. Qed.

Lemma assoc_str_in' : forall A k (l : list (str * A)) v, assoc_str k l = Some v -> exists k', In (k', v) l.
Proof.
  intros A k l v. induction l as [|[k' v'] l IH]; simpl; [discriminate|].
  destruct (str_eqb k k'); intros H.
  - inversion H; subst. exists k'. left. reflexivity.
  - destruct (IH H) as [k2 H2]. exists k2. right. exact H2.
Qed.

Lemma lorem_db_ok : forall lang, exists db, lorem_db lang = Some db /\ db_ok db = true.
Proof.
  intros lang. unfold lorem_db.
  assert (Hall : forall k db, assoc_str k lorem_vocabularies = Some db -> db_ok db = true).
  { intros k db H. apply assoc_str_in' in H. destruct H as [k' Hin].
    pose proof vocabularies_ok as Hv. rewrite forallb_forall in Hv. exact (Hv _ Hin). }
  destruct (assoc_str lang lorem_vocabularies) as [db|] eqn:E.
  - exists db. split; [reflexivity|eauto].
  - destruct (assoc_str s_latin lorem_vocabularies) as [db|] eqn:E2.
    + exists db. split; [reflexivity|eauto].
    + exfalso. apply latin_present. exact E2.
Qed.

(* ---------------------------------------------------------------- the header arithmetic *)
Lemma lorem_min_pos : forall minw, 1 <= lorem_min minw.
Proof. intros [n|]; unfold lorem_min; lia. Qed.
Lemma lorem_min_max : forall minw maxw, lorem_min minw <= lorem_max minw maxw.
Proof. intros minw [[n|]|]; unfold lorem_max; lia. Qed.

(* ---------------------------------------------------------------- lorem_text: the generating part of lorem() *)
Definition is_paragraph (db : vocabulary) (wc : Z) (common : bool) (t : str) : Prop :=
  exists sents, t = para_text sents /\ sent_count sents = wc /\ Forall (sent_ok (db_entries db)) sents
                /\ (common = true -> forall cm, fst db = Some cm ->
                    exists ws rest, sents = (ws, c_dot_str) :: rest /\ Forall2 decorated ws (py_prefix cm wc)).

Theorem lorem_text_spec : forall lang minw maxw common s,
  lsafe (fun t r => (length r < length s)%nat /\
                    exists db wc, lorem_db lang = Some db /\ lorem_min minw <= wc <= lorem_max minw maxw
                                  /\ is_paragraph db wc common t)
        (lorem_text lang minw maxw common s).
Proof.
  intros lang minw maxw common s. unfold lorem_text.
  pose proof (lorem_min_pos minw) as Hmin. pose proof (lorem_min_max minw maxw) as Hmm.
  eapply lsafe_bind; [apply randint_shorter; exact Hmm|]. intros wc s1 [Hwc Hs1]. cbv beta.
  destruct (lorem_db_ok lang) as [db [-> Hdb]].
  eapply lsafe_weaken; [apply paragraph_spec; [exact Hdb|lia|lia]|].
  intros t r [sents [H1 [H2 [H3 [H4 H5]]]]]. split; [lia|].
  exists db, wc. split; [reflexivity|]. split; [exact Hwc|]. exists sents. auto.
Qed.

(* safety alone: for every header and every stream the generator returns a text or runs out of draws *)
Corollary lorem_text_safe : forall lang minw maxw common s,
  match lorem_text lang minw maxw common s with
  | LOk _ rest => (length rest < length s)%nat
  | LExhausted => True
  | LFuel => False
  | LInternal _ => False
  end.
Proof.
  intros. pose proof (lorem_text_spec lang minw maxw common s) as H.
  destruct (lorem_text lang minw maxw common s); simpl in *; auto. tauto.
Qed.

(* ---------------------------------------------------------------- the paragraph as a list of WORDS *)
(* The text is the join, by single blanks, of tokens: the entries in order, the first of a sentence capitalised, commas
   and sentence ends attached to their entry.  (For vocabularies whose entries contain no blank -- latin, spanish --
   the tokens are the maximal blank-free runs of the text: see tokens_no_blank.) *)
Fixpoint attach_last (l : list str) (e : str) : list str :=
  match l with
  | [] => []
  | [x] => [x ++ e]
  | x :: r => x :: attach_last r e
  end.
Definition sent_tokens (p : sent) : list str := attach_last (cap_head (fst p)) (snd p).
Definition para_tokens (l : list sent) : list str := concat (map sent_tokens l).

Lemma attach_last_length : forall l e, length (attach_last l e) = length l.
Proof. induction l as [|x [|y r] IH]; intros e; simpl in *; auto. Qed.

Lemma join_attach_last : forall sep l e, l <> [] -> join sep (attach_last l e) = join sep l ++ e.
Proof.
  intros sep. induction l as [|x [|y r] IH]; intros e H; [contradiction|reflexivity|].
  change (attach_last (x :: y :: r) e) with (x :: attach_last (y :: r) e).
  assert (Hne : attach_last (y :: r) e <> []).
  { intro E. apply (f_equal (@length str)) in E. rewrite attach_last_length in E. discriminate. }
  destruct (attach_last (y :: r) e) as [|z t] eqn:Ea; [contradiction|].
  change (join sep (x :: z :: t)) with (x ++ sep ++ join sep (z :: t)). rewrite <- Ea.
  rewrite IH by discriminate. change (join sep (x :: y :: r)) with (x ++ sep ++ join sep (y :: r)).
  rewrite <- !app_assoc. reflexivity.
Qed.

Lemma join_app2 : forall sep (l1 l2 : list str), l1 <> [] -> l2 <> [] ->
  join sep (l1 ++ l2) = join sep l1 ++ sep ++ join sep l2.
Proof.
  intros sep. induction l1 as [|x [|y r] IH]; intros l2 H1 H2; [contradiction| |].
  - destruct l2 as [|z t]; [contradiction|]. reflexivity.
  - change ((x :: y :: r) ++ l2) with (x :: (y :: r) ++ l2).
    change (join sep (x :: (y :: r) ++ l2)) with (x ++ sep ++ join sep ((y :: r) ++ l2)).
    rewrite IH by (try discriminate; assumption).
    change (join sep (x :: y :: r)) with (x ++ sep ++ join sep (y :: r)). rewrite <- !app_assoc. reflexivity.
Qed.

Lemma join_concat : forall sep (ls : list (list str)), Forall (fun l => l <> []) ls ->
  join sep (map (join sep) ls) = join sep (concat ls).
Proof.
  intros sep. induction ls as [|l ls IH]; intros H; [reflexivity|].
  inversion H as [|? ? Hl Hls]; subst. destruct ls as [|l2 ls2].
  - simpl. rewrite app_nil_r. reflexivity.
  - change (map (join sep) (l :: l2 :: ls2)) with (join sep l :: map (join sep) (l2 :: ls2)).
    change (join sep (join sep l :: map (join sep) (l2 :: ls2)))
      with (join sep l ++ sep ++ join sep (map (join sep) (l2 :: ls2))).
    rewrite (IH Hls). change (concat (l :: l2 :: ls2)) with (l ++ concat (l2 :: ls2)).
    rewrite join_app2; [reflexivity|exact Hl|].
    inversion Hls; subst. simpl. destruct l2; [contradiction|discriminate].
Qed.

Lemma sent_tokens_nonempty : forall p, fst p <> [] -> sent_tokens p <> [].
Proof.
  intros [ws e] H. simpl in H. unfold sent_tokens. intro E. apply (f_equal (@length str)) in E.
  rewrite attach_last_length in E. destruct ws; [contradiction|discriminate].
Qed.

Lemma sent_text_tokens : forall p, fst p <> [] -> sent_text p = join [c_space] (sent_tokens p).
Proof.
  intros [ws e] H. simpl in H. unfold sent_text, sent_tokens. cbn [fst snd].
  rewrite join_attach_last; [reflexivity|]. destruct ws; [contradiction|discriminate].
Qed.

Theorem para_text_tokens : forall sents, Forall (fun p => fst p <> []) sents ->
  para_text sents = join [c_space] (para_tokens sents) /\ zlen (para_tokens sents) = sent_count sents.
Proof.
  intros sents H. split.
  - unfold para_text, para_tokens. rewrite <- join_concat.
    + f_equal. rewrite map_map. apply map_ext_in. intros p Hp. rewrite Forall_forall in H. apply sent_text_tokens. auto.
    + apply Forall_map. eapply Forall_impl; [|exact H]. intros p Hp. apply sent_tokens_nonempty. exact Hp.
  - unfold para_tokens. clear H. induction sents as [|[ws e] l IH]; [reflexivity|].
    cbn [map concat sent_count fold_right fst]. rewrite zlen_app. fold (sent_count l). rewrite IH.
    unfold sent_tokens. cbn [fst snd]. unfold zlen. rewrite attach_last_length.
    destruct ws; reflexivity.
Qed.

(* a word of the text: a vocabulary entry w, as it is or capitalised, then an optional comma, then an optional
   sentence end *)
Definition token_ok (voc : list str) (tok : str) : Prop :=
  exists w base d1 d2, In w voc /\ (base = w \/ base = cap w) /\ (d1 = [] \/ d1 = [c_comma]) /\
                       (d2 = [] \/ exists c, d2 = [c] /\ In c lorem_sentence_ends) /\ tok = base ++ d1 ++ d2.

Lemma cap_app : forall w x, good_word w = true -> cap (w ++ x) = cap w ++ x.
Proof.
  intros [|c r] x H; [simpl in H; discriminate|]. unfold cap, capitalize. cbn [good_word] in H. cbn [app].
  destruct (assoc_N c lorem_cap_first); [|discriminate]. rewrite app_assoc. reflexivity.
Qed.

Lemma sent_tokens_ok : forall voc p, Forall (fun w => good_word w = true) voc -> sent_ok voc p ->
  Forall (token_ok voc) (sent_tokens p).
Proof.
  intros voc [ws e] Hgood [[ws0 [Hdec [Hin _]]] [_ [c [He Hc]]]]. cbn [fst snd] in *. subst e.
  (* before the sentence end is attached: entry, as it is or capitalised, optional comma *)
  set (P0 := fun x : str => exists w base d1, In w voc /\ (base = w \/ base = cap w) /\ (d1 = [] \/ d1 = [c_comma]) /\ x = base ++ d1).
  assert (Hrest : forall l l0, Forall2 decorated l l0 -> Forall (fun w => In w voc) l0 -> Forall P0 l).
  { intros l l0 H. induction H as [|a b l l0 Hab _ IH]; intros Hi; [constructor|].
    inversion Hi; subst. constructor; [|apply IH; assumption].
    exists b, b. destruct Hab as [->| ->]; [exists []|exists [c_comma]]; rewrite ?app_nil_r; auto. }
  assert (H0 : Forall P0 (cap_head ws)).
  { destruct Hdec as [|a b l l0 Hab Hl]; [constructor|]. cbn [cap_head].
    inversion Hin as [|? ? Hb Hl0]; subst. constructor; [|eapply Hrest; eassumption].
    assert (Hgb : good_word b = true) by (rewrite Forall_forall in Hgood; auto).
    exists b, (cap b). destruct Hab as [->| ->].
    - exists []. rewrite app_nil_r. auto.
    - exists [c_comma]. rewrite (cap_app b _ Hgb). auto. }
  unfold sent_tokens. cbn [fst snd]. clear - H0 Hc.
  induction (cap_head ws) as [|x [|y r] IH]; [constructor| |].
  - inversion H0 as [|? ? Hx _]; subst. constructor; [|constructor].
    destruct Hx as [w [base [d1 [H1 [H2 [H3 ->]]]]]]. exists w, base, d1, [c].
    rewrite <- app_assoc. repeat split; auto. right. exists c. auto.
  - inversion H0 as [|? ? Hx Hr]; subst.
    change (attach_last (x :: y :: r) [c]) with (x :: attach_last (y :: r) [c]). constructor; [|apply IH; exact Hr].
    destruct Hx as [w [base [d1 [H1 [H2 [H3 ->]]]]]]. exists w, base, d1, []. rewrite app_nil_r. repeat split; auto.
Qed.

(* EXACTLY word_count words *)
Theorem paragraph_tokens : forall db wc common t, db_ok db = true -> is_paragraph db wc common t ->
  exists tokens, t = join [c_space] tokens /\ zlen tokens = wc /\ Forall (token_ok (db_entries db)) tokens.
Proof.
  intros db wc common t Hdb [sents [Ht [Hc [Hok _]]]].
  assert (Hne : Forall (fun p : sent => fst p <> []) sents).
  { eapply Forall_impl; [|exact Hok]. intros p [_ [H _]]. exact H. }
  destruct (para_text_tokens sents Hne) as [H1 H2].
  exists (para_tokens sents). split; [congruence|]. split; [congruence|].
  assert (Hgood : Forall (fun w => good_word w = true) (db_entries db)).
  { unfold db_ok in Hdb. apply andb_prop in Hdb. destruct Hdb as [Hdb Hcm]. apply andb_prop in Hdb. destruct Hdb as [Hg _].
    unfold db_entries, db_common. apply Forall_app. split; [|apply forallb_good; exact Hg].
    destruct (fst db); [|constructor]. apply andb_prop in Hcm. destruct Hcm as [Hcg _]. apply forallb_good. exact Hcg. }
  unfold para_tokens. clear - Hok Hgood. induction Hok as [|p l Hp _ IH]; [constructor|].
  cbn [map concat]. apply Forall_app. split; [apply sent_tokens_ok; assumption|exact IH].
Qed.

(* vocabularies whose entries contain no blank (latin, spanish; not russian): no word of the text contains a blank, so
   the words ARE the maximal blank-free runs of the text *)
Definition no_blank (w : str) : bool := negb (existsb (N.eqb c_space) w).
Definition blank_free (db : vocabulary) : bool := forallb no_blank (db_entries db).

Lemma no_blank_in : forall w, no_blank w = true -> ~ In c_space w.
Proof.
  intros w H Hin. unfold no_blank in H. apply negb_true_iff in H.
  assert (existsb (N.eqb c_space) w = true) by (apply existsb_exists; exists c_space; split; [exact Hin|apply N.eqb_refl]).
  congruence.
Qed.

Lemma cap_table_no_blank : forallb (fun kv => no_blank (snd kv)) lorem_cap_first = true.
Proof. vm_compute. reflexivity. Qed.
Lemma ends_no_blank : no_blank lorem_sentence_ends = true.
Proof. vm_compute. reflexivity. Qed.

Lemma assoc_N_in : forall A k (l : list (N * A)) v, assoc_N k l = Some v -> In (k, v) l.
Proof.
  intros A k l v. induction l as [|[k' v'] l IH]; simpl; [discriminate|].
  destruct (k =? k')%N eqn:E; intros H.
  - inversion H; subst. apply N.eqb_eq in E. subst. left. reflexivity.
  - right. apply IH. exact H.
Qed.

Lemma cap_no_blank : forall w, ~ In c_space w -> ~ In c_space (cap w).
Proof.
  intros [|c r] H; [exact H|]. unfold cap, capitalize.
  destruct (assoc_N c lorem_cap_first) as [u|] eqn:E; [|exact H].
  intro Hin. apply in_app_or in Hin. destruct Hin as [Hu|Hr]; [|apply H; right; exact Hr].
  apply assoc_N_in in E. pose proof cap_table_no_blank as Ht. rewrite forallb_forall in Ht.
  specialize (Ht _ E). cbn [snd] in Ht. exact (no_blank_in u Ht Hu).
Qed.

Theorem token_no_blank : forall db tok, blank_free db = true -> token_ok (db_entries db) tok -> ~ In c_space tok.
Proof.
  intros db tok Hb [w [base [d1 [d2 [Hw [Hbase [Hd1 [Hd2 ->]]]]]]]].
  unfold blank_free in Hb. rewrite forallb_forall in Hb. pose proof (no_blank_in w (Hb w Hw)) as Hnw.
  intro Hin. apply in_app_or in Hin. destruct Hin as [Hin|Hin].
  - destruct Hbase as [->| ->]; [exact (Hnw Hin)|exact (cap_no_blank w Hnw Hin)].
  - apply in_app_or in Hin. destruct Hin as [Hin|Hin].
    + destruct Hd1 as [->| ->]; [destruct Hin|]. destruct Hin as [E|[]]. discriminate.
    + destruct Hd2 as [->|[c [-> Hc]]]; [destruct Hin|]. destruct Hin as [E|[]]. subst c.
      exact (no_blank_in _ ends_no_blank Hc).
Qed.

(* ---------------------------------------------------------------- the statements of props/Lorem.v in match form *)
Lemma randint_outcome : forall a b s, a <= b ->
  match randint a b s with
  | LOk v r => a <= v <= b /\ exists d, s = d :: r /\ v = a + d mod (b - a + 1)
  | LExhausted => s = []
  | LFuel => False
  | LInternal _ => False
  end.
Proof.
  intros a b s H. pose proof (randint_spec a b s H) as Hs. unfold randint in *.
  destruct (b <? a); [destruct Hs|]. destruct s; [reflexivity|exact Hs].
Qed.

Lemma sample_outcome : forall arr count s,
  match sample arr count s with
  | LOk res r => Forall (fun w => In w arr) res /\ zlen res = Z.max (Z.min (zlen arr) count) 0 /\ (length r <= length s)%nat
  | LExhausted => True
  | LFuel => False
  | LInternal _ => False
  end.
Proof. intros. pose proof (sample_spec arr count s) as H. destruct (sample arr count s); exact H. Qed.

Lemma insert_commas_outcome : forall words s, Forall (fun w => good_word w = true) words ->
  match insert_commas words s with
  | LOk ws r => Forall2 decorated ws words /\ (forall d, last ws d = last words d) /\ (length r <= length s)%nat
  | LExhausted => True
  | LFuel => False
  | LInternal _ => False
  end.
Proof.
  intros words s Hg. pose proof (insert_commas_spec words s Hg) as H.
  destruct (insert_commas words s); simpl in *; tauto.
Qed.

Lemma paragraph_outcome : forall db wc common fuel s,
  db_ok db = true -> 1 <= wc -> (length s < fuel)%nat ->
  match paragraph fuel db wc common s with
  | LOk t r => is_paragraph db wc common t /\ (length r <= length s)%nat
  | LExhausted => True
  | LFuel => False
  | LInternal _ => False
  end.
Proof.
  intros db wc common fuel s Hdb Hwc Hf. pose proof (paragraph_spec db wc common fuel s Hdb Hwc Hf) as H.
  destruct (paragraph fuel db wc common s); simpl in *; try tauto.
  destruct H as [sents [H1 [H2 [H3 [H4 H5]]]]]. split; [|exact H4]. exists sents. auto.
Qed.

Lemma vocabularies_sweep :
  forallb (fun kv => db_ok (snd kv)) lorem_vocabularies = true /\ assoc_str s_latin lorem_vocabularies <> None.
Proof. split; [exact vocabularies_ok|exact latin_present]. Qed.

Lemma header_range : forall minw maxw, 1 <= lorem_min minw <= lorem_max minw maxw.
Proof. intros. split; [apply lorem_min_pos|apply lorem_min_max]. Qed.

Lemma lorem_text_result : forall lang minw maxw common s t rest,
  lorem_text lang minw maxw common s = LOk t rest ->
  exists db wc, lorem_db lang = Some db /\ lorem_min minw <= wc <= lorem_max minw maxw /\ is_paragraph db wc common t.
Proof.
  intros lang minw maxw common s t rest E. pose proof (lorem_text_spec lang minw maxw common s) as H.
  rewrite E in H. simpl in H. destruct H as [_ H]. exact H.
Qed.
