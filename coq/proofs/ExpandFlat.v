(* C01, end to end, string level, flat statements: for every text of letter names separated by
   `>`, `+` and runs of `^`, `expand_markup` succeeds and the tag chunks of its output stream nest
   to exactly the (depth, name) list the operators denote.  Composition of TokenizeRender
   (tokenizer), ParserGroups (parser: the concrete tree), ExpandTree (convert, resolve, transform,
   HTML formatter). *)
From Emmet Require Import lib.Base model.MarkupTokenizer model.MarkupParser model.MarkupConvert
     model.MarkupResolve model.OutStream model.FormatHtml model.FormatIndent model.MarkupExpand.
From Emmet Require Import proofs.ParserSpine proofs.ParserGroups proofs.TokenizeRender proofs.NumberingProofs
     proofs.ConvertProofs proofs.HtmlEvents proofs.ExpandJsx proofs.ExpandTree.
Local Open Scope nat_scope.

(* ================================================================ the parser returns the machine's tree *)
Theorem parse_gflat jsx xs toks :
  gflat jsx xs toks ->
  parse jsx toks = POk (closed (grun xs root0)) /\ preML 0 (closed (grun xs root0)) = denoteG 0 0 xs.
Proof.
  intros H. destruct (gflat_parsed jsx xs toks H) as [_ Hp].
  specialize (Hp [] I (TGroup [] None) []). rewrite app_nil_r in Hp.
  split.
  - unfold parse. rewrite Hp. rewrite skipn_all. reflexivity.
  - apply grun_denote. apply (gflat_wf jsx xs toks H).
Qed.

(* ================================================================ reading a tree off its marks *)
Lemma Forall_flat_map_inv {A B} (P : B -> Prop) (f : A -> list B) l :
  Forall P (flat_map f l) -> forall x, In x l -> Forall P (f x).
Proof.
  induction l as [|y l IH]; intros H x Hx; [contradiction|]. cbn [flat_map] in H. apply Forall_app in H.
  destruct H as [H1 H2]. destruct Hx as [->|Hx]; [exact H1|apply IH; assumption].
Qed.

(* marks of a statement without groups and repeaters *)
Definition plain_mark (P : str -> bool) (m : mark) : Prop :=
  match m with
  | MElem _ l => named_leaf P l = true /\ lf_repeat l = None
  | _ => False
  end.
Definition mname (m : mark) : list (nat * str) :=
  match m with MElem d l => [(d, leaf_name l)] | _ => [] end.

Lemma zsum_zero l : Forall (fun z => z = 0%Z) l -> zsum l = 0%Z.
Proof. induction 1 as [|x l Hx _ IH]; [reflexivity|]. cbn [zsum fold_right]. fold (zsum l). rewrite Hx, IH. reflexivity. Qed.

Lemma plain_node P : forall n d,
  Forall (plain_mark P) (preM d n) ->
  named P n = true /\ total n = 0%Z /\ nshape d n = flat_map mname (preM d n).
Proof.
  induction n as [a b c r s els IH|els r IH] using tnode_ind'; intros d H.
  - rewrite preM_elem in *. inversion H as [|m ms Hm Hms]; subst. cbn [plain_mark lf_repeat] in Hm.
    destruct Hm as [Hl ->].
    assert (Hk : forall k, In k els -> named P k = true /\ total k = 0%Z /\ nshape (S d) k = flat_map mname (preM (S d) k)).
    { intros k Hk. rewrite Forall_forall in IH. apply (IH k Hk). apply (Forall_flat_map_inv _ _ _ Hms k Hk). }
    repeat split.
    + cbn [named]. rewrite Hl. cbn [andb]. apply forallb_forall. intros k Hk'. apply (Hk k Hk').
    + rewrite total_unfold. cbn [node_rep]. unfold inner_total. cbn [elements_of']. apply zsum_zero.
      apply Forall_map. apply Forall_forall. intros k Hk'. apply (Hk k Hk').
    + rewrite nshape_unfold. cbn [node_rep nshape_once flat_map mname app]. f_equal.
      unfold preML. rewrite flat_map_flat_map. apply flat_map_ext_Forall. apply Forall_forall. intros k Hk'. apply (Hk k Hk').
  - rewrite preM_group in H. inversion H as [|m ms Hm _]; subst. contradiction.
Qed.

Lemma plain_forest P l d :
  Forall (plain_mark P) (preML d l) ->
  forallb (named P) l = true /\ total_list l = 0%Z /\ flat_map (nshape d) l = flat_map mname (preML d l).
Proof.
  intros H.
  assert (Hk : forall k, In k l -> named P k = true /\ total k = 0%Z /\ nshape d k = flat_map mname (preM d k)).
  { intros k Hk. apply plain_node. apply (Forall_flat_map_inv _ _ _ H k Hk). }
  repeat split.
  - apply forallb_forall. intros k Hk'. apply (Hk k Hk').
  - unfold total_list. apply zsum_zero. apply Forall_map. apply Forall_forall. intros k Hk'. apply (Hk k Hk').
  - unfold preML. rewrite flat_map_flat_map. apply flat_map_ext_Forall. apply Forall_forall. intros k Hk'. apply (Hk k Hk').
Qed.

(* ================================================================ the tokens of a flat text *)
Definition gs (ls : list (leaf * sop)) : gstmt := map (fun x => (GE (fst x), snd x)) ls.

Theorem lay_gflat jsx : forall xs pos, gflat jsx (gs (fst (lay pos xs))) (snd (lay pos xs)).
Proof.
  induction xs as [|[n o] xs' IH]; intros pos; [apply gf_nil|].
  destruct xs' as [|y xs''].
  - cbn [lay fst snd gs map]. apply gf_last. apply ut_elem. unfold name_leaf. eapply gblock_name_j. reflexivity.
  - change (lay pos ((n, o) :: y :: xs'')) with
      (let '(ls, ts) := lay (pos + length n + length (op_text o)) (y :: xs'') in
       ((name_leaf n pos, o) :: ls, name_tok n pos :: op_toks o (pos + length n) ++ ts)).
    specialize (IH (pos + length n + length (op_text o))).
    destruct (lay (pos + length n + length (op_text o)) (y :: xs'')) as [ls ts]. cbn [fst snd gs map] in *.
    change (name_tok n pos :: op_toks o (pos + length n) ++ ts) with ([name_tok n pos] ++ op_toks o (pos + length n) ++ ts).
    apply gf_cons; [apply ut_elem; unfold name_leaf; eapply gblock_name_j; reflexivity|apply op_toks_tokens|discriminate|exact IH].
Qed.

Lemma denoteG_gs : forall ls off d,
  denoteG off d (gs ls) = map (fun x => MElem (off + fst x) (snd x)) (denote d ls).
Proof.
  induction ls as [|[l o] ls IH]; intros off d; [reflexivity|].
  cbn [gs map denoteG denote_with denote fst snd denoteU app]. f_equal. apply IH.
Qed.

Lemma named_name_leaf P n pos : P n = true -> named_leaf P (name_leaf n pos) = true /\ leaf_name (name_leaf n pos) = n.
Proof.
  intros H. unfold named_leaf, leaf_name, name_leaf, lit_name, name_tok. cbn [lf_name lf_attrs lf_value lf_self lf_repeat tk].
  rewrite H. split; reflexivity.
Qed.

Lemma lay_marks P : forall xs pos d,
  Forall (fun n => P n = true) (map fst xs) ->
  Forall (plain_mark P) (map (fun x => MElem (fst x) (snd x)) (denote d (fst (lay pos xs)))) /\
  flat_map mname (map (fun x => MElem (fst x) (snd x)) (denote d (fst (lay pos xs)))) = sdenote d xs.
Proof.
  induction xs as [|[n o] xs' IH]; intros pos d H; [split; [constructor|reflexivity]|].
  cbn [map fst] in H. inversion H as [|x l Hn Hr]; subst.
  destruct (named_name_leaf P n pos Hn) as [Hl Hnm].
  destruct xs' as [|y xs''].
  - cbn [lay fst denote map sdenote snd flat_map mname app]. rewrite Hnm. split; [|reflexivity].
    constructor; [|constructor]. split; [exact Hl|reflexivity].
  - change (lay pos ((n, o) :: y :: xs'')) with
      (let '(ls, ts) := lay (pos + length n + length (op_text o)) (y :: xs'') in
       ((name_leaf n pos, o) :: ls, name_tok n pos :: op_toks o (pos + length n) ++ ts)).
    specialize (IH (pos + length n + length (op_text o)) (next_depth d o) Hr).
    destruct (lay (pos + length n + length (op_text o)) (y :: xs'')) as [ls ts]. cbn [fst snd] in *.
    destruct IH as [IH1 IH2]. cbn [denote map sdenote fst snd flat_map mname app]. rewrite Hnm, IH2. split; [|reflexivity].
    constructor; [split; [exact Hl|reflexivity]|exact IH1].
Qed.

(* ================================================================ C01 for flat statements, end to end *)
(* the decidable domain: configuration side + every written name is fine for it *)
Definition flat_ok (x : xconfig) (xs : list (str * sop)) : bool :=
  cfg_ok x && forallb (name_fine x) (map fst xs).

Lemma budget_nonneg mr : (0 <= budget_of mr)%Z.
Proof. unfold budget_of. destruct mr; lia. Qed.

Theorem expand_tree_flat (x : xconfig) (xs : list (str * sop)) :
  flat_ok x xs = true ->
  exists st,
    expand_markup x (render xs) = Ok st /\
    nestT 0 (tags st) = map (fun p => (fst p, tag_name (xc_o x) (snd p))) (sdenote 0 xs).
Proof.
  intros H. unfold flat_ok in H. apply andb_prop in H. destruct H as [Hc Hn].
  assert (Hfine : Forall (fun n => name_fine x n = true) (map fst xs)) by (apply Forall_forall, forallb_forall; exact Hn).
  assert (Hok : Forall name_ok (map fst xs)).
  { eapply Forall_impl; [|exact Hfine]. intros n Hf. apply good_name_ok. unfold name_fine in Hf.
    apply andb_prop in Hf. destruct Hf as [Hf _]. apply andb_prop in Hf. apply Hf. }
  pose proof (toks_render xs 0 None Hok) as Htok. fold (tokenize (render xs)) in Htok.
  destruct (parse_gflat (mc_jsx (xc_m x)) _ _ (lay_gflat (mc_jsx (xc_m x)) xs 0)) as [Hp Hm].
  rewrite denoteG_gs in Hm.
  destruct (lay_marks (name_fine x) xs 0 0 Hfine) as [Hplain Hden].
  assert (Hm' : preML 0 (closed (grun (gs (fst (lay 0 xs))) root0)) =
                map (fun x0 => MElem (fst x0) (snd x0)) (denote 0 (fst (lay 0 xs)))).
  { rewrite Hm. apply map_ext. intros [d l]. reflexivity. }
  rewrite <- Hm' in Hplain, Hden.
  destruct (plain_forest (name_fine x) _ 0 Hplain) as [Hnamed [Htot Hshape]].
  destruct (expand_tree x (render xs) _ _ Hc Htok Hp Hnamed) as [st [He Hnest]].
  { rewrite Htot. apply budget_nonneg. }
  exists st. split; [exact He|]. rewrite Hnest, Hshape, Hden. reflexivity.
Qed.
