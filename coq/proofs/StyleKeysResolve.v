(* Link between C06's table sweep and C05's end-to-end theorem: every key of a property snippet of the
   regenerated built-in table (except the gradient shortcut) [resolves]: the matcher selects a property
   snippet for it and leaves no unmatched tail.  Complete sweep by vm_compute, lifted with forallb_forall. *)
From Coq Require Import PrimFloat String.
From Emmet Require Import lib.Base lib.StyleLib gen.GenCssSnippets model.CssTokenizer model.CssParser
     model.Score model.Color model.CssSnippets model.CssResolve model.CssFormat run.StyleShow
     proofs.StyleSweep proofs.StyleMultiProofs.

Definition resolves_b (ms : float) (sn : list snippet) (key : str) : bool :=
  negb (str_eqb key gradient_name) &&
  match find_best_match sn_key key sn ms true with
  | Some (SnProp key' _ _ _ _) => match get_unmatched_part key key' 0 with [] => true | _ => false end
  | _ => false
  end.

Lemma resolves_b_ok cfg sn key : resolves_b (c_min_score cfg) sn key = true -> resolves cfg sn key.
Proof.
  unfold resolves_b, resolves. intros H. apply andb_true_iff in H. destruct H as [H1 H2].
  apply negb_true_iff in H1. split; [exact H1|].
  destruct (find_best_match sn_key key sn (c_min_score cfg) true) as [[k v|key' prop value kws deps]|]; try discriminate.
  exists key', prop, value, kws, deps. split; [reflexivity|].
  destruct (get_unmatched_part key key' 0); [reflexivity|discriminate].
Qed.

Definition is_prop_key (sn : list snippet) (k : str) : bool :=
  match find_snippet sn k with Some (SnProp _ _ _ _ _) => true | _ => false end.

Definition sweep_resolves_with (oc : option sconfig) (r : res (list snippet)) : bool :=
  match oc, r with
  | Some cfg, Ok sn =>
      forallb (fun k => negb (is_prop_key sn k) || str_eqb k gradient_name || resolves_b (c_min_score cfg) sn k) table_keys
  | _, _ => false
  end.

Lemma sweep_resolves_true : sweep_resolves_with cfg_plain builtin_converted = true.
Proof. vm_compute. reflexivity. Qed.

Theorem builtin_property_keys_resolve :
  forall cfg0 cfg sn,
    cfg_plain = Some cfg0 -> c_min_score cfg = c_min_score cfg0 -> convert_snippets css_snippets = Ok sn ->
    forall k, In k table_keys -> is_prop_key sn k = true -> str_eqb k gradient_name = false ->
      resolves cfg sn k.
Proof.
  intros cfg0 cfg sn Hc Hms Hs k Hk Hp Hg.
  pose proof sweep_resolves_true as S.
  rewrite builtin_converted_eq in Hs. rewrite Hc, Hs in S. cbn [sweep_resolves_with] in S.
  rewrite forallb_forall in S. specialize (S k Hk). rewrite Hp, Hg in S. cbn [negb orb] in S.
  apply resolves_b_ok. rewrite Hms. exact S.
Qed.

(* how many keys the sweep covers with a non-trivial check *)
Definition property_key_count : nat :=
  match builtin_converted with
  | Ok sn => length (filter (fun k => is_prop_key sn k && negb (str_eqb k gradient_name)) table_keys)
  | _ => O
  end.
Lemma property_key_count_ge : 200 <= property_key_count.
Proof. vm_compute. repeat constructor. Qed.
