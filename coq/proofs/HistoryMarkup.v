(* C08 -- the history state machine over the REAL markup pipeline model computes exactly
   [expand_markup_str].

   [History.step_markup] follows markup/__init__.py parse(): it reads the caller's text from the
   state slot, parses the abbreviation with it, CLEARS the slot when the text is truthy, resolves
   snippets and transforms with the slot as it reads then, writes the text back.  The pipeline model
   [markup_parse] (model/MarkupResolve.v) has no state: it expresses "text is None while snippets
   are parsed" by [snippet_env] (the text a snippet definition is parsed with is WNone when the
   configuration's text is truthy).  This file proves that the two agree:

     * [walk_resolve] reads the configuration only through its snippets, [snippet_env], the
       snippet repeat limit and the attribute order flag                       [walk_resolve_cong]
     * [transform_list] does not read the text at all                          [transform_list_text]
     * hence resolution with the slot cleared = what [markup_parse] does        [resolve_cleared]
     * hence, in the world [mk_world_with] (markup parts = model/Markup*.v, stylesheet parts
       ANY functions), a markup probe after ANY history returns [expand_markup_str] of the
       caller's configuration                                     [markup_history_is_expand_markup]

   The world [HistoryRun.mk_world] that the harness executes (command 2 of run/HistoryRun.v) is
   [mk_world_with] with dummy stylesheet parts (by reflexivity); [full_world] is [mk_world_with] over
   the real stylesheet model: one state machine whose probes are [expand_markup_str] / [expand_css]. *)
From Coq Require Import List Bool Arith Lia.
From Emmet Require Import lib.Base model.MarkupTokenizer model.MarkupParser model.MarkupConvert
     model.MarkupBem model.MarkupResolve model.OutStream model.FormatHtml model.FormatIndent model.MarkupExpand
     model.History proofs.HistoryProofs proofs.SafeResolve run.HistoryRun.
Import ListNotations.

(* ------------------------------------------------------------------------------------------
   1. what snippet resolution reads of the configuration *)
Section WalkCong.
  Variables cfg cfg' : mconfig.
  Hypothesis Hsn : mc_snippets cfg = mc_snippets cfg'.
  Hypothesis Henv : snippet_env cfg = snippet_env cfg'.
  Hypothesis Hmr : mc_max_repeat_snip cfg = mc_max_repeat_snip cfg'.
  Hypothesis Hrev : mc_reverse_attrs cfg = mc_reverse_attrs cfg'.

  Lemma snippet_of_cong : forall stack nm, snippet_of cfg stack nm = snippet_of cfg' stack nm.
  Proof. intros. unfold snippet_of. now rewrite Hsn. Qed.

  Section OneLevel.
    Variable stack : list str.
    Variables rec rec' : list str -> list anode -> res (list anode).
    Hypothesis Hrec : forall st l, rec st l = rec' st l.

    Lemma walk_node_cong : forall n, walk_node' cfg stack rec n = walk_node' cfg' stack rec' n.
    Proof.
      induction n as [nm v rp at_ ch sc IH] using anode_ind'.
      cbn [walk_node'].
      (* the children loop *)
      assert (K : (fix walk_kids (k : list anode) : res (list anode) :=
                     match k with
                     | [] => Ok []
                     | c :: k' => let* a := walk_node' cfg stack rec c in let* b := walk_kids k' in Ok (a ++ b)
                     end) ch
                  = (fix walk_kids (k : list anode) : res (list anode) :=
                     match k with
                     | [] => Ok []
                     | c :: k' => let* a := walk_node' cfg' stack rec' c in let* b := walk_kids k' in Ok (a ++ b)
                     end) ch).
      { induction IH as [|c k Hc _ IHk]; [reflexivity|]. rewrite Hc, IHk. reflexivity. }
      rewrite snippet_of_cong, Henv, Hmr, Hrev.
      destruct (snippet_of cfg' stack nm) as [s|].
      - destruct (parse_abbr false (snippet_env cfg') (mc_max_repeat_snip cfg') s) as [parsed| | |];
          cbn [bind]; try reflexivity.
        rewrite Hrec. destruct (rec' (s :: stack) parsed) as [resolved| | |]; cbn [bind]; try reflexivity.
        destruct (map _ resolved); [reflexivity|]. now rewrite K.
      - now rewrite K.
    Qed.

    Lemma walk_list_cong : forall l, walk_list' cfg stack rec l = walk_list' cfg' stack rec' l.
    Proof.
      induction l as [|c l IH]; [reflexivity|]. cbn [walk_list']. now rewrite walk_node_cong, IH.
    Qed.
  End OneLevel.

  (* snippet resolution is a function of the four things above (and of nothing else in the
     configuration): any fuel, any stack, any tree *)
  Lemma walk_resolve_cong : forall f stack l, walk_resolve f cfg stack l = walk_resolve f cfg' stack l.
  Proof.
    induction f as [|f IH]; intros stack l; [reflexivity|].
    rewrite !walk_resolve_eq. apply walk_list_cong. exact IH.
  Qed.
End WalkCong.

(* ------------------------------------------------------------------------------------------
   2. the transform pass does not read the text *)
Lemma transform_node_text : forall m t t' pn top anc n,
    transform_node (with_text m t) pn top anc n = transform_node (with_text m t') pn top anc n.
Proof. intros [] t t' pn top anc n. reflexivity. Qed.

Lemma transform_tree_text : forall m t t' n pn top pending anc,
    transform_tree (with_text m t) pn top pending anc n = transform_tree (with_text m t') pn top pending anc n.
Proof.
  intros m t t'. induction n as [nm v rp at_ ch sc IH] using anode_ind'. intros pn top pending anc.
  cbn [transform_tree].
  rewrite (transform_node_text m t t').
  destruct (transform_node (with_text m t') pn top anc _) as [[[n1 found] path]| | |]; cbn [bind]; try reflexivity.
  destruct n1 as [nm1 v1 rp1 at1 ch1 sc1].
  assert (G : forall pd pth,
             (fix go (l : list anode) (pd : bool) (pth : list pnode) : res (list anode * bool * list pnode) :=
                match l with
                | [] => Ok ([], pd, pth)
                | c :: r =>
                    let* (c', pd1, pth1) := transform_tree (with_text m t) (Some nm1) false pd pth c in
                    let* (r', pd2, pth2) := go r pd1 pth1 in
                    Ok (c' :: r', pd2, pth2)
                end) ch pd pth
             = (fix go (l : list anode) (pd : bool) (pth : list pnode) : res (list anode * bool * list pnode) :=
                match l with
                | [] => Ok ([], pd, pth)
                | c :: r =>
                    let* (c', pd1, pth1) := transform_tree (with_text m t') (Some nm1) false pd pth c in
                    let* (r', pd2, pth2) := go r pd1 pth1 in
                    Ok (c' :: r', pd2, pth2)
                end) ch pd pth).
  { induction IH as [|c k Hc _ IHk]; intros pd pth; [reflexivity|].
    rewrite Hc. destruct (transform_tree (with_text m t') (Some nm1) false pd pth c) as [[[c' pd1] pth1]| | |];
      cbn [bind]; try reflexivity.
    now rewrite IHk. }
  now rewrite G.
Qed.

Lemma transform_forest_text : forall m t t' l,
    transform_forest (with_text m t) l = transform_forest (with_text m t') l.
Proof.
  intros m t t'. induction l as [|c l IH]; [reflexivity|].
  cbn [transform_forest]. now rewrite (transform_tree_text m t t'), IH.
Qed.

(* the lorem draws come from the oracle of the configuration, which with_text keeps *)
Lemma transform_list_text : forall m t t' l,
    transform_list (with_text m t) l = transform_list (with_text m t') l.
Proof.
  intros m t t' l. unfold transform_list.
  replace (mc_draws (with_text m t)) with (mc_draws (with_text m t')) by (destruct m; reflexivity).
  destruct (lorem_fill _ l); cbn [bind]; try reflexivity. apply transform_forest_text.
Qed.

(* ------------------------------------------------------------------------------------------
   3. resolution with the text slot cleared = resolution as [markup_parse] does it *)
Definition resolve_with (cfg : mconfig) (tree : list anode) : res (list anode) :=
  let* resolved := walk_resolve (S (length (mc_snippets cfg))) cfg [] tree in
  transform_list cfg resolved.

(* the text snippet definitions are parsed with, as a function of the text of the call *)
Lemma snippet_env_with_text : forall m t,
    snippet_env (with_text m t) = mkCenv (if text_truthy t then WNone else t) (mc_variables m) (mc_href m).
Proof. intros [] t. reflexivity. Qed.

Lemma resolve_with_text_cong : forall m t t' tree,
    (if text_truthy t then WNone else t) = (if text_truthy t' then WNone else t') ->
    resolve_with (with_text m t) tree = resolve_with (with_text m t') tree.
Proof.
  intros m t t' tree H. unfold resolve_with.
  assert (Hsn : mc_snippets (with_text m t) = mc_snippets (with_text m t')) by (destruct m; reflexivity).
  rewrite Hsn.
  rewrite (walk_resolve_cong (with_text m t) (with_text m t')); try (destruct m; reflexivity).
  - destruct (walk_resolve _ (with_text m t') [] tree); cbn [bind]; try reflexivity.
    apply transform_list_text.
  - rewrite !snippet_env_with_text. now rewrite H.
Qed.

(* the slot as it reads while resolution runs: cleared when the text is truthy *)
Lemma resolve_cleared : forall m (text : option wtext) tree,
    resolve_with (with_text m (wt (if text_truthy (wt text) then None else text))) tree
    = resolve_with (with_text m (wt text)) tree.
Proof.
  intros m text tree. apply resolve_with_text_cong.
  destruct (text_truthy (wt text)) eqn:T; [|now rewrite T].
  cbn [wt text_truthy]. reflexivity.
Qed.

(* ------------------------------------------------------------------------------------------
   4. the markup world, stylesheet parts left open *)
(* what the caller passed: the configuration record with the text entry of the caller's dict
   (absent / None / a str / a list of str) *)
Definition slot_text (s : option (option wtext)) : wtext :=
  match s with Some (Some t) => t | _ => WNone end.
Definition with_caller_text (x : xconfig) (s : option (option wtext)) : xconfig :=
  mkX (with_text (xc_m x) (slot_text s)) (xc_o x).

Section MarkupWorld.
  Variables (sargs snips table : Type).
  Variable snips_eqb : snips -> snips -> bool.
  Variable convert : snips -> rerr + table.
  Variable css_expand : sargs -> table -> rerr + str.
  Variable css_touch : sargs -> table -> table.

  Definition mk_world_with : world :=
    mkWorld wtext text_truthy (xconfig * str) sargs snips snips_eqb table (list anode) str rerr
      (fun a text => let m := xc_m (fst a) in
                     to_sum (parse_abbr (mc_jsx m) (mkCenv (wt text) (mc_variables m) (mc_href m)) (mc_max_repeat m) (snd a)))
      (fun a text tree => let cfg := with_text (xc_m (fst a)) (wt text) in
                          to_sum (let* resolved := walk_resolve (S (length (mc_snippets cfg))) cfg [] tree in
                                  transform_list cfg resolved))
      (fun _ _ => O)
      (fun a tree => inr (os_value (fs_out (stringify_markup (mc_syntax (xc_m (fst a))) (xc_o (fst a)) tree))))
      convert css_expand css_touch.
  Notation W := mk_world_with.

  Definition of_res (r : res str) : outcome W :=
    match r with
    | Ok s => Returned W s
    | ParseErr k p => Raised W (RParse k p)
    | Internal k => Raised W (RInternal k)
    | OutOfFuel => Raised W RFuel
    end.

  Lemma truthy_wt : forall text : option wtext, is_truthy W text = text_truthy (wt text).
  Proof. intros [t|]; reflexivity. Qed.

  Definition tail (x : xconfig) (r : res (list anode)) : outcome W :=
    match to_sum r with
    | inl e => Raised W e
    | inr t1 => of_sum W (inr (os_value (fs_out (stringify_markup (mc_syntax (xc_m x)) (xc_o x) t1))))
    end.
  Lemma tail_eq : forall x r,
      tail x r = of_res (let* st := (let* tree0 := r in Ok (stringify_markup (mc_syntax (xc_m x)) (xc_o x) tree0)) in
                         Ok (os_value (fs_out st))).
  Proof. intros x [t| | |]; reflexivity. Qed.

  (* the pure function of [HistoryProofs.markup_pure] over this world IS the pipeline model *)
  Lemma markup_pure_is_expand : forall (text : option wtext) (x : xconfig) (abbr : str),
      markup_pure W text (x, abbr) = of_res (expand_markup_str (mkX (with_text (xc_m x) (wt text)) (xc_o x)) abbr).
  Proof.
    intros text x abbr. unfold markup_pure, expand_markup_str, expand_markup, markup_parse.
    cbn [mk_world_with w_mk_parse w_mk_resolve w_mk_stringify fst snd xc_m xc_o].
    replace (mc_jsx (with_text (xc_m x) (wt text))) with (mc_jsx (xc_m x)) by (destruct (xc_m x); reflexivity).
    replace (mc_variables (with_text (xc_m x) (wt text))) with (mc_variables (xc_m x)) by (destruct (xc_m x); reflexivity).
    replace (mc_href (with_text (xc_m x) (wt text))) with (mc_href (xc_m x)) by (destruct (xc_m x); reflexivity).
    replace (mc_max_repeat (with_text (xc_m x) (wt text))) with (mc_max_repeat (xc_m x)) by (destruct (xc_m x); reflexivity).
    replace (mc_text (with_text (xc_m x) (wt text))) with (wt text) by (destruct (xc_m x); reflexivity).
    replace (mc_syntax (with_text (xc_m x) (wt text))) with (mc_syntax (xc_m x)) by (destruct (xc_m x); reflexivity).
    destruct (parse_abbr (mc_jsx (xc_m x)) (mkCenv (wt text) (mc_variables (xc_m x)) (mc_href (xc_m x)))
                         (mc_max_repeat (xc_m x)) abbr) as [tree| | |]; cbn [to_sum bind of_res]; try reflexivity.
    rewrite truthy_wt.
    exact (eq_trans (f_equal (tail x) (resolve_cleared (xc_m x) text tree)) (tail_eq x _)).
  Qed.

  Lemma get_text_slot_text : forall (st : lib_state W) i, wt (get_text W st i) = slot_text (cfg_text W st i).
  Proof. intros. unfold get_text, slot_text. destruct (cfg_text W st i) as [[t|]|]; reflexivity. Qed.

  (* one call, in any state *)
  Lemma markup_call_is_expand : forall (st : lib_state W) i x abbr,
      outcome_in W st (CMarkup W i (x, abbr)) = of_res (expand_markup_str (with_caller_text x (cfg_text W st i)) abbr).
  Proof.
    intros. unfold outcome_in, outcome_gen, step_gen. rewrite step_markup_outcome.
    rewrite markup_pure_is_expand. unfold with_caller_text. now rewrite get_text_slot_text.
  Qed.

  (* MAIN: after ANY history (markup and stylesheet calls, succeeding and failing, any sharing of
     caller dicts and cache dicts), from ANY state, a markup probe on caller dict [i] returns exactly
     what the stateless pipeline model returns for the configuration the caller wrote *)
  Theorem markup_history_is_expand_markup_gen :
    forall (s0 : lib_state W) (h : list (call W)) (i : nat) (x : xconfig) (abbr : str),
      outcome_in W (History.run W h s0) (CMarkup W i (x, abbr))
      = of_res (expand_markup_str (with_caller_text x (cfg_text W s0 i)) abbr).
  Proof. intros. rewrite markup_call_is_expand. now rewrite run_text. Qed.

  Theorem markup_history_is_expand_markup :
    forall (texts : nat -> slot W) (h : list (call W)) (i : nat) (x : xconfig) (abbr : str),
      outcome_in W (History.run W h (fresh W texts)) (CMarkup W i (x, abbr))
      = of_res (expand_markup_str (with_caller_text x (texts i)) abbr).
  Proof. intros. apply markup_history_is_expand_markup_gen. Qed.

  (* the same, stated for a configuration record that already carries the caller's text *)
  Lemma with_text_same : forall m, with_text m (mc_text m) = m.
  Proof. intros []. reflexivity. Qed.

  Corollary markup_history_is_expand_markup_cfg :
    forall (texts : nat -> slot W) (h : list (call W)) (i : nat) (x : xconfig) (abbr : str),
      mc_text (xc_m x) = slot_text (texts i) ->
      outcome_in W (History.run W h (fresh W texts)) (CMarkup W i (x, abbr)) = of_res (expand_markup_str x abbr).
  Proof.
    intros texts h i x abbr E. rewrite markup_history_is_expand_markup. unfold with_caller_text.
    rewrite <- E, with_text_same. now destruct x.
  Qed.
End MarkupWorld.

(* the world the harness executes (run/HistoryRun.v, command 2) is this one *)
Lemma mk_world_is : mk_world = mk_world_with unit unit unit (fun _ _ => true) (fun _ => inr tt) (fun _ _ => inl RFuel) (fun _ t => t).
Proof. reflexivity. Qed.

(* ... so the executed world obeys the theorem: a configuration record that carries the caller's text *)
Theorem executed_world_is_expand_markup :
  forall (texts : nat -> slot mk_world) (h : list (call mk_world)) (i : nat) (x : xconfig) (abbr : str),
    mc_text (xc_m x) = slot_text (texts i) ->
    exists r, expand_markup_str x abbr = r /\
      outcome_in mk_world (History.run mk_world h (fresh mk_world texts)) (CMarkup mk_world i (x, abbr))
      = match r with
        | Ok s => Returned mk_world s
        | ParseErr k p => Raised mk_world (RParse k p)
        | Internal k => Raised mk_world (RInternal k)
        | OutOfFuel => Raised mk_world RFuel
        end.
Proof.
  intros texts h i x abbr E. eexists. split; [reflexivity|].
  exact (markup_history_is_expand_markup_cfg unit unit unit (fun _ _ => true) (fun _ => inr tt)
           (fun _ _ => inl RFuel) (fun _ t => t) texts h i x abbr E).
Qed.
