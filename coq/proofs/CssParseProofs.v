(* C16 (CSS half), value splitter: every token range of split_value lies inside the
   value (shifted by the offset), is not empty, and the tokens are reported in order. *)
From Coq Require Import ZArith List Bool Lia ZifyBool.
From Emmet Require Import lib.Base model.CssScan model.CssMatch model.CssParse proofs.CssScanProofs.
Import ListNotations.
Local Open Scope Z_scope.

(* token [r] lies in [lo, hi] and is not empty *)
Definition tok_in (lo hi : Z) (r : range) : Prop := lo <= fst r /\ fst r < snd r /\ snd r <= hi.

(* tokens are ordered: each starts at or after [lo] and the next one after its end *)
Fixpoint toks_ordered (lo hi : Z) (l : list range) : Prop :=
  match l with
  | [] => True
  | r :: l' => tok_in lo hi r /\ toks_ordered (snd r) hi l'
  end.

Lemma toks_ordered_weaken l : forall lo lo' hi, lo' <= lo -> toks_ordered lo hi l -> toks_ordered lo' hi l.
Proof.
  destruct l as [|r l']; intros lo lo' hi H Ho; [exact I|].
  destruct Ho as [[H1 [H2 H3]] H4]. split; [unfold tok_in; lia|exact H4].
Qed.

Definition vs_inv (lo p : Z) (st : vstate) : Prop :=
  vs_start st = -1 \/ (lo <= vs_start st /\ vs_start st < p).

Lemma split_round_ok st pos s lo k st' out :
  s <> [] -> 0 <= lo -> lo <= pos -> vs_inv lo pos st ->
  split_round st pos s = (k, st', out) ->
  (1 <= k <= length s)%nat /\
  exists lo', lo <= lo' /\ lo' <= pos + Z.of_nat k /\ vs_inv lo' (pos + Z.of_nat k) st' /\
              (forall hi rest, pos + Z.of_nat k <= hi -> toks_ordered lo' hi rest -> toks_ordered lo hi (out ++ rest)).
Proof.
  intros Hs Hlo Hpos Hinv E. destruct s as [|c r]; [exfalso; apply Hs; reflexivity|].
  unfold split_round in E.
  set (delim := if is_space c then Some 1%nat
                else if negb (Nat.eqb (comment_len (c :: r)) 0) then Some (comment_len (c :: r))
                else if is_operator c then Some 1%nat
                else if (c =? c_dash)%N then
                  match r with
                  | c2 :: _ => if is_space c2 then Some 2%nat else None
                  | [] => None
                  end
                else None) in E.
  assert (Hd : match delim with Some d => (1 <= d <= length (c :: r))%nat | None => True end).
  { unfold delim. destruct (is_space c); [cbn [length]; lia|].
    destruct (Nat.eqb (comment_len (c :: r)) 0) eqn:Ec; cbn [negb].
    2:{ pose proof (comment_len_le (c :: r)). apply Nat.eqb_neq in Ec. lia. }
    destruct (is_operator c); [cbn [length]; lia|].
    destruct (c =? c_dash)%N; [|exact I].
    destruct r as [|c2 r']; [exact I|]. destruct (is_space c2); [cbn [length]; lia|exact I]. }
  destruct delim as [d|].
  - pose proof (cspan_le is_space (skipn d (c :: r))) as Hsp.
    rewrite skipn_length in Hsp.
    destruct (negb (truthyZ (vs_expr st)) && negb (vs_start st =? -1)) eqn:Eb.
    + inversion E; subst k st' out; clear E. split; [lia|].
      destruct Hinv as [Hinv|Hinv]; [lia|].
      exists pos. split; [lia|split; [lia|split; [left; reflexivity|]]].
      intros hi rest Hhi Hrest. cbn [app toks_ordered]. split; [unfold tok_in; cbn; lia|exact Hrest].
    + inversion E; subst k st' out; clear E. split; [lia|].
      exists lo. split; [lia|split; [lia|split]].
      * destruct Hinv as [Hinv|Hinv]; [left; exact Hinv|right; lia].
      * intros hi rest _ Hrest. exact Hrest.
  - set (start := if vs_start st =? -1 then pos else vs_start st) in E.
    assert (Hst : forall kk ex, (1 <= kk)%nat -> vs_inv lo (pos + Z.of_nat kk) (mkVs start ex)).
    { intros kk ex Hkk. unfold vs_inv, start; cbn.
      destruct (vs_start st =? -1) eqn:Es; [right; lia|].
      destruct Hinv as [Hinv|Hinv]; [lia|right; lia]. }
    assert (Hfin : forall kk ex, (1 <= kk <= length (c :: r))%nat ->
              (1 <= kk <= length (c :: r))%nat /\
              exists lo', lo <= lo' /\ lo' <= pos + Z.of_nat kk /\ vs_inv lo' (pos + Z.of_nat kk) (mkVs start ex) /\
                (forall hi rest, pos + Z.of_nat kk <= hi -> toks_ordered lo' hi rest -> toks_ordered lo hi ([] ++ rest))).
    { intros kk ex Hkk. split; [exact Hkk|]. exists lo. split; [lia|split; [lia|split; [apply Hst; lia|]]].
      intros hi rest _ Hrest. exact Hrest. }
    destruct (c =? c_lparen)%N; [inversion E; subst; apply Hfin; cbn [length]; lia|].
    destruct (c =? c_rparen)%N; [inversion E; subst; apply Hfin; cbn [length]; lia|].
    destruct (is_quote c) eqn:Q.
    + inversion E; subst. apply Hfin.
      split; [exact (literal_len_pos c r Q)|exact (literal_len_le (c :: r))].
    + inversion E; subst. apply Hfin. cbn [length]; lia.
Qed.

Lemma split_go_ok : forall s skip st pos lo n,
  n = pos + Z.of_nat (length s) -> (skip <= length s)%nat ->
  0 <= lo -> lo <= pos + Z.of_nat skip -> vs_inv lo (pos + Z.of_nat skip) st ->
  toks_ordered lo n (split_go skip st pos s).
Proof.
  induction s as [|c r IH]; intros skip st pos lo n Hn Hskip Hlo Hpos Hinv.
  - cbn [length] in *. assert (skip = O) by lia. subst skip. cbn [split_go].
    destruct (negb (vs_start st =? -1) && negb (vs_start st =? pos)) eqn:E; [|exact I].
    cbn [toks_ordered]. split; [|exact I].
    destruct Hinv as [Hinv|Hinv]; [lia|]. unfold tok_in; cbn. lia.
  - cbn [split_go]. destruct skip as [|k].
    + destruct (split_round st pos (c :: r)) as [[nn st'] out] eqn:E.
      replace (pos + Z.of_nat 0) with pos in * by lia.
      eapply split_round_ok in E; eauto; [|discriminate].
      destruct E as (Hk & lo' & Hl1 & Hl2 & Hinv' & Happ).
      apply Happ; [cbn [length] in *; lia|].
      apply IH.
      * cbn [length] in Hn. lia.
      * cbn [length] in Hk. lia.
      * lia.
      * replace (pos + 1 + Z.of_nat (Nat.pred nn)) with (pos + Z.of_nat nn) by lia. exact Hl2.
      * replace (pos + 1 + Z.of_nat (Nat.pred nn)) with (pos + Z.of_nat nn) by lia. exact Hinv'.
    + apply IH.
      * cbn [length] in Hn. lia.
      * cbn [length] in Hskip. lia.
      * exact Hlo.
      * replace (pos + 1 + Z.of_nat k) with (pos + Z.of_nat (S k)) by lia. exact Hpos.
      * replace (pos + 1 + Z.of_nat k) with (pos + Z.of_nat (S k)) by lia. exact Hinv.
Qed.

Lemma toks_ordered_shift l : forall lo hi off,
  toks_ordered lo hi l -> toks_ordered (off + lo) (off + hi) (map (fun r => (off + fst r, off + snd r)) l).
Proof.
  induction l as [|r l' IH]; intros lo hi off H; [exact I|].
  destruct H as [[H1 [H2 H3]] H4]. cbn [map toks_ordered]. split; [unfold tok_in; cbn; lia|].
  cbn [snd]. apply IH. exact H4.
Qed.

Lemma toks_ordered_forall l : forall lo hi, toks_ordered lo hi l -> Forall (tok_in lo hi) l.
Proof.
  induction l as [|r l' IH]; intros lo hi H; [constructor|].
  destruct H as [H1 H2]. constructor; [exact H1|].
  apply IH. eapply toks_ordered_weaken; [|exact H2]. unfold tok_in in H1. lia.
Qed.

(* C16 (CSS, value splitter) *)
Theorem split_value_ordered v off :
  toks_ordered off (off + Z.of_nat (length v)) (split_value v off).
Proof.
  unfold split_value.
  replace off with (off + 0) at 1 by lia.
  apply toks_ordered_shift. apply split_go_ok; try lia. left. reflexivity.
Qed.

Theorem split_value_wf v off :
  Forall (fun r => off <= fst r /\ fst r < snd r /\ snd r <= off + Z.of_nat (length v)) (split_value v off).
Proof. apply (toks_ordered_forall _ _ _ (split_value_ordered v off)). Qed.
