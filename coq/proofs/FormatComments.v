(* C12 comments_additive, with the positions: the text items of the comment-on run are those of the comment-off run
   with, for elements that satisfy should_comment, the instantiated comment.before template inserted directly before
   the element's opening tag and the instantiated comment.after template directly after its closing tag -- and nothing
   else.  For ALL trees and ALL option records (any templates, triggers, formatting options).
   Built on the two-run framework of FormatCosmetic.v (contents of the two streams, blanks removed); the element
   blocks that write the comments are redone here with the position-aware relation. *)
From Coq Require Import ZArith List Bool Lia ZifyBool.
From Emmet Require Import lib.Base model.MarkupTokenizer model.MarkupParser model.MarkupConvert
     model.OutStream model.FormatHtml model.FormatIndent proofs.OutStreamProofs proofs.FormatSteps
     proofs.FormatReach proofs.FormatProofs proofs.FormatChunks proofs.FormatCosmetic.
Import ListNotations.

(* ================================================================ SPEC *)
(* the attributes a comment template may refer to: NAME -> value, later attributes first (as the dict of output()) *)
Definition comment_attrs (n : anode) : list (str * list vtok) :=
  rev (flat_map (fun a => match aa_name a, aa_value a with
                          | Some ((_ :: _) as nm), Some ((_ :: _) as v) => [(upper nm, v)]
                          | _, _ => []
                          end)
                (match an_attrs n with Some l => l | None => [] end)).
(* the text items an instantiated template writes (blank-only lines dropped, leading blanks removed) *)
Definition tpl_texts (n : anode) (toks : list tpl) : list str :=
  flat_map (fun t => match t with
                     | TStr s => texts (canon_str s)
                     | TPh before after name =>
                         match assoc_str name (comment_attrs n) with
                         | Some v => texts (canon_str before) ++ texts (canon_tokens 0 v) ++ texts (canon_str after)
                         | None => []
                         end
                     end) toks.
Definition comment_texts (text : str) (n : anode) : list str :=
  match text with [] => [] | _ => tpl_texts n (template text) end.

Section CommentsFull.
Variable c : oconfig.
Let c1 := with_comment true c.
Let c2 := with_comment false c.

Definition open_texts (n : anode) : list str :=
  texts (canon_str (c_lt :: tag_name c (match an_name n with Some x => x | None => [] end))).
Definition close_texts (n : anode) : list str :=
  texts (canon_str ([c_lt; c_slash] ++ tag_name c (match an_name n with Some x => x | None => [] end) ++ [c_gt])).

(* [CIns on off]: on is off with comment blocks inserted, each directly before the opening tag / directly after the
   closing tag of an element n that satisfies should_comment *)
Inductive CIns : list str -> list str -> Prop :=
| ci_nil : CIns [] []
| ci_same on off z : CIns on off -> CIns (on ++ z) (off ++ z)
| ci_before on off n :
    CIns on off -> should_comment c1 n = true ->
    CIns (on ++ comment_texts (oc_comment_before c) n ++ open_texts n) (off ++ open_texts n)
| ci_after on off n :
    CIns on off -> should_comment c1 n = true ->
    CIns (on ++ close_texts n ++ comment_texts (oc_comment_after c) n) (off ++ close_texts n).

(* erasing what was inserted gives the other list: off is a subsequence of on *)
Lemma CIns_Sub on off : CIns on off -> Sub off on.
Proof.
  induction 1 as [|on off z H IH|on off n H IH Hs|on off n H IH Hs].
  - constructor.
  - apply Sub_app, IH.
  - rewrite app_assoc. apply Sub_app. apply Sub_more, IH.
  - rewrite app_assoc. apply Sub_more. apply Sub_app, IH.
Qed.

(* ================================================================ proof *)
Hypothesis Hf : ws_fmt (oc_fmt c).

Definition RelC (x y : list citem) : Prop := CIns (texts x) (texts y).
Definition FT (_ _ : N) : Prop := True.
Notation SimC := (Sim RelC FT).

Lemma texts_app x y : texts (x ++ y) = texts x ++ texts y.
Proof. unfold texts. apply map_app. Qed.
Lemma RelC_app x y z1 z2 : RelC x y -> EqvT z1 z2 -> RelC (x ++ z1) (y ++ z2).
Proof. unfold RelC, EqvT. intros H E. rewrite !texts_app, E. apply ci_same, H. Qed.
Lemma EqvT_refl z : EqvT z z. Proof. reflexivity. Qed.
Lemma FT_tokens (F1 F2 : N) v : FT F1 F2 -> EqvT (canon_tokens F1 v) (canon_tokens F2 v) /\ FT (next_field F1 v) (next_field F2 v).
Proof. intros _. split; [apply texts_tokens|exact I]. Qed.

Lemma S_push_str s a b : SimC a b -> SimC (push_str c1 s a) (push_str c2 s b).
Proof. apply (Sim_push_str c1 c2 Hf Hf RelC EqvT FT RelC_app EqvT_refl). Qed.
Lemma S_push_tokens v a b : SimC a b -> SimC (push_tokens c1 v a) (push_tokens c2 v b).
Proof. apply (Sim_push_tokens c1 c2 Hf Hf RelC EqvT FT RelC_app FT_tokens). Qed.
Lemma S_push_attribute x a b : SimC a b -> SimC (push_attribute c1 x a) (push_attribute c2 x b).
Proof.
  intros H. apply (Sim_push_attribute_same c1 c2 Hf Hf RelC EqvT FT RelC_app EqvT_refl FT_tokens x a b); try reflexivity;
    [right; reflexivity|exact H].
Qed.

(* what a comment writes, as text items *)
Lemma comment_output_texts n toks : forall a,
  texts (content (comment_output c1 n toks a)) = texts (content a) ++ tpl_texts n toks.
Proof.
  unfold comment_output. fold (comment_attrs n).
  induction toks as [|t toks IH]; intros a; cbn [fold_left tpl_texts flat_map]; [rewrite app_nil_r; reflexivity|].
  fold (tpl_texts n toks). rewrite IH. destruct t as [s|bf af nm].
  - rewrite (ct_push_str c1 Hf), texts_app, <- app_assoc. reflexivity.
  - destruct (assoc_str nm (comment_attrs n)) as [v|]; [|reflexivity].
    rewrite (ct_push_str c1 Hf), (ct_push_tokens c1 Hf), (ct_push_str c1 Hf), fld_push_str, !texts_app, <- !app_assoc.
    rewrite (texts_tokens (fs_field a) 0 v). reflexivity.
Qed.

Lemma comment_node_on text n a :
  should_comment c1 n = true ->
  texts (content (comment_node c1 text n a)) = texts (content a) ++ comment_texts text n.
Proof.
  intros Hs. unfold comment_node, comment_texts. destruct text as [|t0 text0]; [rewrite app_nil_r; reflexivity|].
  rewrite Hs. apply comment_output_texts.
Qed.
Lemma comment_node_not text n a : should_comment c1 n = false -> comment_node c1 text n a = a.
Proof. intros Hs. unfold comment_node. destruct text; [reflexivity|]. rewrite Hs. reflexivity. Qed.
Lemma comment_node_off text n b : comment_node c2 text n b = b.
Proof. unfold comment_node. destruct text; reflexivity. Qed.

(* "<name" with the comment before it *)
Lemma S_open_tag nm node a b :
  an_name node = Some nm -> SimC a b ->
  SimC (push_str c1 (c_lt :: tag_name c1 nm) (comment_node c1 (oc_comment_before c1) node a))
       (push_str c2 (c_lt :: tag_name c2 nm) (comment_node c2 (oc_comment_before c2) node b)).
Proof.
  intros En [Hc _]. rewrite comment_node_off. split; [|exact I].
  change (tag_name c1 nm) with (tag_name c nm). change (tag_name c2 nm) with (tag_name c nm).
  change (oc_comment_before c1) with (oc_comment_before c).
  unfold RelC in *. rewrite (ct_push_str c1 Hf), (ct_push_str c2 Hf), !texts_app.
  destruct (should_comment c1 node) eqn:Es.
  - rewrite (comment_node_on _ node a Es), <- app_assoc.
    pose proof (ci_before _ _ node Hc Es) as G. unfold open_texts in G. rewrite En in G. exact G.
  - rewrite (comment_node_not _ node a Es). apply ci_same, Hc.
Qed.

(* "</name>" with the comment after it *)
Lemma S_el_close nm node a b :
  an_name node = Some nm -> SimC a b -> SimC (el_close c1 nm node a) (el_close c2 nm node b).
Proof.
  intros En [Hc _]. unfold el_close. rewrite comment_node_off. split; [|exact I].
  change (tag_name c1 nm) with (tag_name c nm). change (tag_name c2 nm) with (tag_name c nm).
  change (oc_comment_after c1) with (oc_comment_after c).
  unfold RelC in *. rewrite (ct_push_str c2 Hf), !texts_app.
  destruct (should_comment c1 node) eqn:Es.
  - rewrite (comment_node_on _ node _ Es), (ct_push_str c1 Hf), texts_app, <- app_assoc.
    pose proof (ci_after _ _ node Hc Es) as G. unfold close_texts in G. rewrite En in G. exact G.
  - rewrite (comment_node_not _ node _ Es), (ct_push_str c1 Hf), texts_app. apply ci_same, Hc.
Qed.

Lemma S_el_open nm node a b :
  an_name node = Some nm -> SimC a b -> SimC (el_open c1 nm node a) (el_open c2 nm node b).
Proof.
  intros En H. unfold el_open, el_attrs. pose proof (S_open_tag nm node a b En H) as H'.
  destruct (an_attrs node) as [[|x l]|]; try exact H'.
  apply (Sim_fold RelC FT); [|exact H']. intros a' b' y Hy. destruct (should_output_attribute y); [apply S_push_attribute|]; exact Hy.
Qed.

Notation nextC := (next_sim RelC FT).

Lemma S_el_snippet node n1 n2 a b :
  nextC n1 n2 -> SimC a b -> SimO RelC FT (el_snippet c1 node n1 a) (el_snippet c2 node n2 b).
Proof. apply (Sim_el_snippet c1 c2 Hf Hf RelC EqvT FT RelC_app EqvT_refl FT_tokens). Qed.
Lemma S_el_value node a b : SimC a b -> SimC (el_value c1 node a) (el_value c2 node b).
Proof. apply (Sim_el_value c1 c2 Hf Hf RelC EqvT FT RelC_app FT_tokens). Qed.
Lemma S_el_leaf nm node a b : SimC a b -> SimC (el_leaf c1 nm node a) (el_leaf c2 nm node b).
Proof. apply (Sim_el_leaf c1 c2 Hf Hf RelC EqvT FT RelC_app FT_tokens). Qed.

Lemma S_el_body node n1 n2 a b :
  nextC n1 n2 -> SimC a b -> SimC (el_body c1 node n1 a) (el_body c2 node n2 b).
Proof.
  intros Hn H. unfold el_body.
  assert (Hun : SimC (el_unnamed c1 node n1 a) (el_unnamed c2 node n2 b)).
  { unfold el_unnamed. pose proof (S_el_snippet node n1 n2 a b Hn H) as Hs.
    destruct (el_snippet c1 node n1 a); destruct (el_snippet c2 node n2 b); cbn [SimO] in Hs; try contradiction; [exact Hs|].
    apply Hn. destruct (an_value node) as [[|v0 v]|]; try exact H. apply S_push_tokens, H. }
  destruct (an_name node) as [[|x nm]|] eqn:En; try exact Hun.
  unfold el_named.
  destruct (an_self node && match an_children node with [] => true | _ => false end && negb (truthy_l (an_value node))).
  - change (self_close c2) with (self_close c1). apply S_push_str, S_el_open; assumption.
  - apply S_el_close; [exact En|]. unfold el_content.
    pose proof (S_el_snippet node n1 n2 _ _ Hn (S_push_str [c_gt] _ _ (S_el_open (x :: nm) node a b En H))) as Hs.
    destruct (el_snippet c1 node n1 _); destruct (el_snippet c2 node n2 _); cbn [SimO] in Hs; try contradiction; [exact Hs|].
    apply S_el_leaf, Hn, S_el_value, S_push_str, S_el_open; assumption.
Qed.

Lemma S_html_step p node i it n1 n2 a b :
  nextC n1 n2 -> SimC a b ->
  SimC (html_element_step c1 p node i it n1 a) (html_element_step c2 p node i it n2 b).
Proof.
  intros Hn H. unfold html_element_step.
  apply Sim_level. apply (Sim_el_tail c1 c2 Hf Hf). apply S_el_body; [exact Hn|].
  apply (Sim_opt_newline c1 c2 Hf Hf). apply Sim_level, H.
Qed.

Lemma S_html_walk p it : forall l i a b,
  Forall (fun n => forall p i it a b, SimC a b -> SimC (html_element c1 p n i it a) (html_element c2 p n i it b)) l ->
  SimC a b -> SimC (html_walk c1 p it i l a) (html_walk c2 p it i l b).
Proof.
  induction l as [|x l IH]; intros i a b HF H; cbn [html_walk]; [exact H|].
  inversion HF as [|y z Hx HF']; subst. apply IH; [exact HF'|]. apply Hx, H.
Qed.

Theorem S_html_element : forall node p i it a b,
  SimC a b -> SimC (html_element c1 p node i it a) (html_element c2 p node i it b).
Proof.
  induction node as [nm v rp at_ ch sc IHch] using anode_ind'. intros p i it a b H.
  rewrite !html_element_unfold. apply S_html_step; [|exact H].
  intros a' b' H'. rewrite !html_children_walk. apply S_html_walk; [exact IHch|exact H'].
Qed.

Theorem comments_positions_lemma children :
  CIns (texts (content (html_format c1 children))) (texts (content (html_format c2 children))).
Proof.
  rewrite !html_format_walk.
  destruct (S_html_walk None children children 0 (mkFs os_empty 1) (mkFs os_empty 1)) as [H _].
  - apply Forall_forall. intros n _. apply S_html_element.
  - split; [constructor|exact I].
  - exact H.
Qed.
End CommentsFull.
