(* C03 / C04: convert_attribute on the written attributes, and the end-to-end theorem
   tokenize + parse + convert of the TEXT of an element with `#id`, `.class` and `[ ... ]` sets:
   ONE node whose attribute list (before merging) is exactly the written mentions, in order, with the
   right name, value, value type and boolean / implied flags. *)
From Coq Require Import ZArith List Bool Lia.
From Emmet Require Import lib.Base model.MarkupTokenizer model.MarkupParser model.MarkupConvert model.MarkupResolve
     proofs.ParserSpine proofs.ParserGroups proofs.TextSpec proofs.TextProofs proofs.TextParse proofs.TextLiteral
     proofs.AttrParseProofs proofs.AttrText proofs.AttrTextParse.
Local Open Scope nat_scope.

(* ================================================================ SPEC: the mentions an element's text denotes *)
(* value of a quoted / braced payload: the text with escapes resolved; nothing for an empty payload *)
Definition payload_value (T : str) : list vtok := match T with [] => [] | _ => [VStr (unescape T)] end.

Definition attr_mention (a : sattr) : aattr :=
  let '(v, ty) :=
    match sa_value a with
    | SNone | SEmpty => (None, VRaw)
    | SUnq v => (Some [VStr v], VRaw)
    | SQuo s q => (Some (payload_value q), if s then VSingle else VDouble)
    | SBrace e => (Some (payload_value e), VExpr)
    end in
  mkAAttr (Some (sa_name a)) v ty (sa_boolean a) (sa_implied a) false.

Definition short_mention (nm v : str) (multiple : bool) : aattr := mkAAttr (Some nm) (Some [VStr v]) VRaw false false multiple.

Definition part_mentions (p : spart) : list aattr :=
  match p with
  | PId k v => [short_mention s_id v (Nat.ltb 1 (S k))]          (* `##v`: a "multiple" mention *)
  | PClass k v => [short_mention s_class v (Nat.ltb 1 (S k))]
  | PSet _ l => map attr_mention (map fst l)
  end.
Definition written_mentions (e : selem) : list aattr := flat_map part_mentions (se_parts e).

(* ================================================================ convert_attribute *)
(* the name / flag computation of convert_attribute, named *)
Definition name_flags (name0 : option str) : option str * bool * bool :=
  match name0 with
  | Some ((_ :: _) as n) =>
      let '(n1, b) := match last_opt n with
                      | Some c => if (c =? c_dot)%N then (drop_last n, true) else (n, false)
                      | None => (n, false)
                      end in
      match n1 with
      | c :: n2 => if (c =? c_excl)%N then (Some n2, b, true) else (Some n1, b, false)
      | [] => (Some n1, b, false)
      end
  | other => (other, false, false)
  end.

Lemma last_opt_snoc {A} (l : list A) x : last_opt (l ++ [x]) = Some x.
Proof. unfold last_opt. rewrite rev_app_distr. reflexivity. Qed.
Lemma drop_last_snoc {A} (l : list A) x : drop_last (l ++ [x]) = l.
Proof.
  unfold drop_last. rewrite app_length. cbn [length]. replace (length l + 1 - 1) with (length l) by lia.
  rewrite firstn_app, firstn_all, Nat.sub_diag. cbn [firstn]. apply app_nil_r.
Qed.

Lemma last_opt_is (c : char) (s : str) :
  s <> [] -> last_is c s = false -> exists x, last_opt s = Some x /\ (x =? c)%N = false.
Proof.
  unfold last_is, last_opt. intros Hne H. destruct (rev s) as [|x l] eqn:E.
  - apply (f_equal (@rev _)) in E. rewrite rev_involutive in E. cbn in E. congruence.
  - exists x. split; [reflexivity|exact H].
Qed.

Lemma name_flags_attr a :
  sattr_ok a -> name_flags (Some (aname_text a)) = (Some (sa_name a), sa_boolean a, sa_implied a).
Proof.
  intros [Hne [_ [Hb [Hi _]]]].
  (* first the trailing dot *)
  assert (Hstep : match last_opt (aname_text a) with
                  | Some c => if (c =? c_dot)%N then (drop_last (aname_text a), true) else (aname_text a, false)
                  | None => (aname_text a, false)
                  end = ((if sa_implied a then [c_excl] else []) ++ sa_name a, sa_boolean a)).
  { destruct (sa_boolean a) eqn:Eb.
    - unfold aname_text. rewrite Eb. rewrite app_assoc. rewrite last_opt_snoc, drop_last_snoc. reflexivity.
    - destruct (last_opt_is c_dot (aname_text a) Hne (Hb eq_refl)) as [x [Hx Hd]]. rewrite Hx, Hd.
      unfold aname_text. rewrite Eb, app_nil_r. reflexivity. }
  unfold name_flags. destruct (aname_text a) as [|c0 r0] eqn:En; [congruence|].
  rewrite Hstep.
  destruct (sa_implied a) eqn:Ei.
  - cbn [app]. reflexivity.
  - cbn [app]. specialize (Hi eq_refl). unfold head_is in Hi.
    destruct (sa_name a) as [|c n2]; [reflexivity|]. rewrite Hi. reflexivity.
Qed.

Lemma convert_attribute_unfold env a st :
  convert_attribute env a st =
    (let* (name0, st1) :=
       match nonempty (ta_name a) with
       | Some toks => match stringify_name env toks st with
                      | Ok (s, st') => Ok (Some s, st')
                      | ParseErr k p => ParseErr k p | Internal k => Internal k | OutOfFuel => OutOfFuel
                      end
       | None => Ok (None, st)
       end in
     let vtype0 := if ta_expression a then VExpr else VRaw in
     let '(name, boolean, implied) := name_flags name0 in
     match nonempty (ta_value a) with
     | None => Ok (mkAAttr name None vtype0 boolean implied (ta_multiple a), st1)
     | Some toks =>
         let '(toks', vtype) :=
           match toks with
           | t0 :: rest =>
               match tk t0 with
               | TQuote single =>
                   let rest' := match last_opt rest with
                                | Some l => if is_quote_tok l None then drop_last rest else rest
                                | None => rest
                                end in
                   (rest', if single then VSingle else VDouble)
               | TBracket true BExpr =>
                   let rest' := match last_opt rest with
                                | Some l => if is_bracket l (Some BExpr) (Some false) then drop_last rest else rest
                                | None => rest
                                end in
                   (rest', VExpr)
               | _ => (toks, vtype0)
               end
           | [] => (toks, vtype0)
           end in
         let* (v, st2) := stringify_value env toks' st1 in
         Ok (mkAAttr name (Some v) vtype boolean implied (ta_multiple a), st2)
     end).
Proof. reflexivity. Qed.

Lemma stringify_name_lit env t v st : tk t = TLiteral v -> stringify_name env [t] st = Ok (v, st).
Proof. intros H. cbn [stringify_name]. unfold stringify. rewrite H. rewrite app_nil_r. reflexivity. Qed.

Lemma stringify_value_lit env t v st : tk t = TLiteral v -> stringify_value env [t] st = Ok ([VStr v], st).
Proof. intros H. unfold stringify_value. cbn [stringify_value_acc]. rewrite H. unfold stringify. rewrite H. reflexivity. Qed.

Lemma stringify_payload env pos T st : stringify_value env (text_tokens pos T) st = Ok (payload_value T, st).
Proof. apply stringify_text. Qed.

(* the tokens of an unquoted value are glued back to the written text, parentheses included *)
Definition cat (acc : option str) (s : str) : option str :=
  match s with [] => acc | _ => Some (match acc with Some a => a ++ s | None => s end) end.

Lemma cat_app acc a b : cat (cat acc a) b = cat acc (a ++ b).
Proof.
  destruct a as [|x a]; [reflexivity|]. destruct b as [|y b]; [cbn [cat app]; rewrite app_nil_r; reflexivity|].
  cbn [cat app]. destruct acc as [s|]; [|reflexivity]. rewrite <- app_assoc. reflexivity.
Qed.

Lemma stringify_acc_step env t r acc st s :
  (forall i n, tk t <> TField n (Some i)) -> stringify env t st = Ok (s, st) -> s <> [] ->
  stringify_value_acc env (t :: r) acc st = stringify_value_acc env r (cat acc s) st.
Proof.
  intros Hnf Hs Hne. cbn [stringify_value_acc]. rewrite Hs.
  destruct s as [|x s']; [congruence|]. cbn [cat].
  destruct (tk t) as [| | | | | | | |nm [i|]]; try reflexivity. exfalso. exact (Hnf i nm eq_refl).
Qed.

Lemma stringify_uq env : forall n v, length v <= n -> forallb usafe v = true ->
  forall pos acc st,
  stringify_value_acc env (uq_toks n pos v) acc st = stringify_value_acc env [] (cat acc v) st.
Proof.
  induction n as [|n IH]; intros v Hlen Hsafe pos acc st.
  - destruct v; [reflexivity|cbn [length] in Hlen; lia].
  - destruct v as [|c r]; [reflexivity|].
    cbn [length] in Hlen. pose proof Hsafe as Hsafe0.
    cbn [forallb] in Hsafe. apply andb_true_iff in Hsafe. destruct Hsafe as [Hc Hr].
    cbn [uq_toks].
    destruct (c =? c_lparen)%N eqn:E1.
    { apply N.eqb_eq in E1. subst c.
      rewrite (stringify_acc_step env _ _ acc st [c_lparen]); [|intros; discriminate|reflexivity|discriminate].
      rewrite (IH r ltac:(lia) Hr). rewrite cat_app. reflexivity. }
    destruct (c =? c_rparen)%N eqn:E2.
    { apply N.eqb_eq in E2. subst c.
      rewrite (stringify_acc_step env _ _ acc st [c_rparen]); [|intros; discriminate|reflexivity|discriminate].
      rewrite (IH r ltac:(lia) Hr). rewrite cat_app. reflexivity. }
    assert (Hca : asafe c = true).
    { unfold usafe, is_paren in Hc. rewrite E1, E2 in Hc. cbn [orb] in Hc. rewrite orb_false_r in Hc. exact Hc. }
    set (v := c :: r) in *.
    set (k := span asafe v).
    set (w := firstn k v). set (v' := skipn k v).
    assert (HT : w ++ v' = v) by apply firstn_skipn.
    assert (Hwne : w <> []).
    { unfold w, k, v. cbn [span]. rewrite Hca. cbn [firstn]. discriminate. }
    assert (Hv'safe : forallb usafe v' = true) by (apply forallb_skipn; exact Hsafe0).
    assert (Hlen' : length v' <= n).
    { assert (length v = length w + length v') by (rewrite <- HT, app_length; reflexivity).
      destruct w; [congruence|]. cbn [length] in *. unfold v in H. cbn [length] in H. lia. }
    clearbody w v' k.
    rewrite (stringify_acc_step env _ _ acc st w); [|intros; discriminate|reflexivity|exact Hwne].
    rewrite (IH v' Hlen' Hv'safe). rewrite cat_app, HT. reflexivity.
Qed.

Lemma stringify_value_uq env v pos st :
  uq_ok v -> stringify_value env (uq_toks (length v) pos v) st = Ok ([VStr v], st).
Proof.
  intros [Hne [Hsafe _]]. unfold stringify_value. rewrite (stringify_uq env (length v) v (le_n _) Hsafe).
  destruct v; [congruence|]. reflexivity.
Qed.

(* a written attribute converts to its mention; the converter state is left alone *)
Lemma convert_attribute_wat env pos a st :
  sattr_ok a -> convert_attribute env (attr_tattr pos a) st = Ok (attr_mention a, st).
Proof.
  intros Hok. rewrite convert_attribute_unfold.
  unfold attr_tattr. cbn [ta_name ta_expression ta_multiple ta_value nonempty].
  rewrite (stringify_name_lit env (aname_tok pos a) (aname_text a) st eq_refl). cbn [bind].
  rewrite (name_flags_attr a Hok).
  destruct Hok as [_ [_ [_ [_ Hv]]]].
  unfold attr_mention. set (p := pos + length (aname_text a)).
  destruct (sa_value a) as [| |v|s q|e]; cbn [nonempty sval_ok] in *.
  - reflexivity.
  - reflexivity.
  - pose proof Hv as [Hne [Hsafe _]].
    destruct (uq_toks_head v (p + 1) Hne Hsafe) as [t [r [EU Hk]]].
    rewrite EU. cbn [nonempty].
    destruct Hk as [[w Hk]|[o Hk]]; rewrite Hk; [|destruct o]; cbv beta iota zeta; rewrite <- EU;
      rewrite (stringify_value_uq env v (p + 1) st Hv); reflexivity.
  - cbn [tk tk1]. rewrite last_opt_snoc. cbn [is_quote_tok tk tk1]. rewrite drop_last_snoc.
    rewrite stringify_payload. reflexivity.
  - cbn [tk tk1]. rewrite last_opt_snoc. cbn [is_bracket tk tk1 bctx_eqb Bool.eqb andb]. rewrite drop_last_snoc.
    rewrite stringify_payload. reflexivity.
Qed.

Lemma convert_short env nm pos v m st :
  (nm = s_id \/ nm = s_class) ->
  convert_attribute env (short_tattr nm pos v m) st = Ok (short_mention nm v m, st).
Proof.
  intros Hn. rewrite convert_attribute_unfold. unfold short_tattr. cbn [ta_name ta_value ta_expression ta_multiple nonempty].
  rewrite (stringify_name_lit env (literal_tok nm) nm st eq_refl). cbn [bind].
  assert (Hf : name_flags (Some nm) = (Some nm, false, false)) by (destruct Hn as [->| ->]; reflexivity).
  rewrite Hf. cbn [tk word_tok]. erewrite stringify_value_lit by reflexivity. reflexivity.
Qed.

(* every attribute converts without touching the converter state *)
Definition quiet_attrs (env : cenv) (l : list tattr) (m : list aattr) : Prop :=
  forall st, convert_attributes env l st = Ok (m, st).

Definition pointwise (env : cenv) (l : list tattr) (m : list aattr) : Prop :=
  Forall2 (fun a a' => forall st, convert_attribute env a st = Ok (a', st)) l m.

Lemma pointwise_quiet env l m : pointwise env l m -> quiet_attrs env l m.
Proof.
  intros H. induction H as [|a a' l m Ha _ IH]; intros st; [reflexivity|].
  cbn [convert_attributes]. rewrite Ha. cbn [bind]. rewrite IH. reflexivity.
Qed.

Lemma pointwise_set env : forall l pos,
  Forall (fun aw => sattr_ok (fst aw) /\ ws_ok (snd aw)) l ->
  pointwise env (set_tattrs pos l) (map attr_mention (map fst l)).
Proof.
  induction l as [|[a w] l IH]; intros pos HF; [constructor|].
  inversion HF as [|x y [Ha _] HF']; subst. cbn [fst] in Ha. unfold set_tattrs.
  cbn [lay map fst snd]. constructor; [intros st; apply convert_attribute_wat; exact Ha|].
  apply (IH _ HF').
Qed.

Lemma pointwise_part env pos p : spart_ok p -> pointwise env (part_tattrs pos p) (part_mentions p).
Proof.
  destruct p as [k v|k v|lead l]; cbn [spart_ok part_tattrs part_mentions]; intros Hok.
  - constructor; [intros st; apply convert_short; auto|constructor].
  - constructor; [intros st; apply convert_short; auto|constructor].
  - apply pointwise_set. apply Hok.
Qed.

Lemma pointwise_parts env : forall ps pos,
  Forall spart_ok ps -> pointwise env (parts_tattrs pos ps) (flat_map part_mentions ps).
Proof.
  induction ps as [|p ps IH]; intros pos HF; [constructor|].
  inversion HF as [|x y Hp HF']; subst. cbn [parts_tattrs flat_map].
  apply Forall2_app; [apply pointwise_part; exact Hp|apply IH; exact HF'].
Qed.

Lemma Forall2_len {A B} (R : A -> B -> Prop) l m : Forall2 R l m -> length l = length m.
Proof. intros H. induction H; cbn [length]; congruence. Qed.

(* ================================================================ the element node *)
Definition attrs_opt (l : list aattr) : option (list aattr) := match l with [] => None | _ => Some l end.

(* value of the element: its text with escapes resolved (nothing for `{}`) *)
Definition elem_text_value (e : selem) : option (list vtok) :=
  match se_text e with None => None | Some T => text_value T end.

Definition elem_node (e : selem) : anode :=
  ANode (Some (se_name e)) (elem_text_value e) None (attrs_opt (written_mentions e)) [] (se_close e).

Lemma conv_elem env pos e st :
  selem_ok e -> conv_stmt env (leaf_node (elem_leaf pos e)) st = Ok ([elem_node e], st).
Proof.
  intros [[Hne _] [Hp _]]. unfold leaf_node, elem_leaf. cbn [lf_name lf_attrs lf_value lf_repeat lf_self].
  cbn [conv_stmt nonempty].
  rewrite (stringify_name_lit env (word_tok pos (se_name e)) (se_name e) st eq_refl). cbn [bind].
  (* the value *)
  assert (Hval : (match nonempty (elem_value pos e) with
                  | Some toks => let* (v, s') := stringify_value env toks st in Ok (Some v, s')
                  | None => Ok (None, st)
                  end) = Ok (elem_text_value e, st)).
  { unfold elem_value, elem_text_value. destruct (se_text e) as [T|]; [|reflexivity].
    set (p := pos + length (se_name e) + length (parts_text (se_parts e)) + 1).
    destruct T as [|t0 T']; [reflexivity|].
    destruct (text_tokens_nonempty p (t0 :: T') ltac:(discriminate)) as [t [l E]].
    rewrite E. cbn [nonempty]. rewrite <- E. rewrite stringify_text. reflexivity. }
  rewrite Hval. cbn [bind].
  pose proof (pointwise_parts env (se_parts e) (pos + length (se_name e)) Hp) as Hpw.
  pose proof (pointwise_quiet env _ _ Hpw st) as Hq.
  unfold elem_node, written_mentions, elem_tattrs.
  assert (Hlen := Forall2_len _ _ _ Hpw).
  destruct (se_parts e) as [|p ps] eqn:Eps.
  - cbn [nonempty bind flat_map attrs_opt]. destruct (se_name e); [congruence|]. reflexivity.
  - rewrite <- Eps in *. clear Eps.
    destruct (parts_tattrs (pos + length (se_name e)) (se_parts e)) as [|x l] eqn:El.
    + destruct (flat_map part_mentions (se_parts e)); [|discriminate].
      cbn [nonempty bind attrs_opt]. destruct (se_name e); [congruence|]. reflexivity.
    + cbn [nonempty]. rewrite Hq. cbn [bind].
      destruct (flat_map part_mentions (se_parts e)) as [|m ms]; [discriminate|].
      cbn [attrs_opt]. destruct (se_name e); [congruence|]. reflexivity.
Qed.

(* ================================================================ end to end *)
Theorem element_attributes_text jsx env mr e :
  selem_ok e -> jsx_ok jsx e -> ce_text env = WNone ->
  parse_abbr jsx env mr (elem_text e) = Ok [elem_node e].
Proof.
  intros Hok Hj Htext. unfold parse_abbr.
  rewrite (tokenize_elem e Hok).
  rewrite (parse_single jsx _ _ (elem_block jsx 0 e Hok Hj)).
  unfold convert. cbn [conv_list]. rewrite (conv_elem env 0 e _ Hok). cbn [bind app]. rewrite Htext. reflexivity.
Qed.

(* ================================================================ corollaries *)
(* one attribute with a plainly written name, any value form *)
Definition plain_attr_name (n : str) : Prop :=
  n <> [] /\ forallb asafe n = true /\ last_is c_dot n = false /\ head_is c_excl n = false.

Definition written_value (v : sval) : option (list vtok) :=
  match v with
  | SNone | SEmpty => None
  | SUnq v => Some [VStr v]
  | SQuo _ q => Some (payload_value q)
  | SBrace e => Some (payload_value e)
  end.
Definition written_type (v : sval) : vtype :=
  match v with
  | SNone | SEmpty | SUnq _ => VRaw
  | SQuo s _ => if s then VSingle else VDouble
  | SBrace _ => VExpr
  end.

Theorem attr_value_literal jsx env mr (name n : str) (v : sval) :
  word_ok name -> (jsx = false \/ head_upper name = false) -> plain_attr_name n -> sval_ok v ->
  ce_text env = WNone ->
  parse_abbr jsx env mr (name ++ c_lbrack :: n ++ val_text v ++ [c_rbrack]) =
    Ok [ANode (Some name) None None
              (Some [mkAAttr (Some n) (written_value v) (written_type v) false false false]) [] false].
Proof.
  intros Hname Hj [Hne [Hsafe [Hdot Hexcl]]] Hv Htext.
  pose (a := mkSAttr false n false v).
  pose (e := mkSElem name [PSet [] [(a, [])]] None false).
  assert (Han : aname_text a = n) by (unfold aname_text, a; cbn; apply app_nil_r).
  assert (Hok : selem_ok e).
  { split; [exact Hname|]. split; [|exact I]. constructor; [|constructor]. cbn [spart_ok].
    split; [constructor|]. split; [|split; [intros H0; exfalso; apply H0; reflexivity|exact I]].
    constructor; [|constructor]. cbn [fst snd]. split; [|constructor].
    unfold sattr_ok. rewrite Han. cbn [sa_name sa_boolean sa_implied sa_value a]. repeat split; auto. }
  pose proof (element_attributes_text jsx env mr e Hok Hj Htext) as H.
  unfold elem_text, e in H. cbn [se_name se_parts se_text se_close close_text tail_text parts_text part_text attrs_text] in H.
  unfold attr_text in H. rewrite Han in H. cbn [sa_value a] in H.
  rewrite !app_nil_r in H. rewrite <- app_assoc in H. cbn [app] in H.
  rewrite H. unfold elem_node, written_mentions, elem_text_value. cbn [se_text se_close]. cbn [se_name se_parts flat_map part_mentions map app attrs_opt].
  unfold attr_mention. cbn [sa_value sa_name sa_boolean sa_implied a].
  destruct v; reflexivity.
Qed.

(* a payload without backslashes is its own value, character for character *)
Lemma unescape_plain : forall s, forallb (fun c => negb (c =? c_bslash)%N) s = true -> unescape s = s.
Proof.
  induction s as [|c s IH]; [reflexivity|]. cbn [forallb unescape]. intros H.
  apply andb_true_iff in H. destruct H as [Hc Hs]. apply negb_true_iff in Hc. rewrite Hc, IH by exact Hs. reflexivity.
Qed.

(* text between quotes without `\`, `$` and that quote: a quoted payload that is kept verbatim *)
Definition qverbatim (q : char) (s : str) : bool :=
  forallb (fun c => negb (c =? c_bslash)%N && negb (c =? c_dollar)%N && negb (c =? q)%N) s.

Lemma qverbatim_payload q : forall s, qverbatim q s = true -> qpayload q s = true /\ unescape s = s.
Proof.
  induction s as [|c s IH]; [split; reflexivity|]. unfold qverbatim. cbn [forallb]. intros H.
  apply andb_true_iff in H. destruct H as [Hc Hs]. apply andb_true_iff in Hc. destruct Hc as [Hc H3].
  apply andb_true_iff in Hc. destruct Hc as [H1 H2].
  apply negb_true_iff in H1. apply negb_true_iff in H2. apply negb_true_iff in H3.
  destruct (IH Hs) as [Hp Hu]. cbn [qpayload unescape]. rewrite H1, H2, H3, Hu. cbn [orb]. split; [exact Hp|reflexivity].
Qed.

(* quoted value without `\`, `$` and that quote (everything else free: brackets, braces, operators, `*`,
   parentheses, the other quote, white space, line breaks, unicode): the value is the text between
   the quotes, character for character *)
Theorem quoted_value_verbatim jsx env mr (name n : str) (s : bool) (q : str) :
  word_ok name -> (jsx = false \/ head_upper name = false) -> plain_attr_name n ->
  qverbatim (qchar s) q = true -> ce_text env = WNone ->
  parse_abbr jsx env mr (name ++ c_lbrack :: n ++ c_eq :: qchar s :: q ++ [qchar s; c_rbrack]) =
    Ok [ANode (Some name) None None
              (Some [mkAAttr (Some n) (Some (match q with [] => [] | _ => [VStr q] end))
                             (if s then VSingle else VDouble) false false false]) [] false].
Proof.
  intros Hname Hj Hn Hq Htext. destruct (qverbatim_payload _ _ Hq) as [Hp Hu].
  pose proof (attr_value_literal jsx env mr name n (SQuo s q) Hname Hj Hn Hp Htext) as H.
  cbn [val_text written_value written_type] in H. unfold payload_value in H. rewrite Hu in H.
  replace (n ++ c_eq :: qchar s :: q ++ [qchar s; c_rbrack]) with (n ++ (c_eq :: qchar s :: q ++ [qchar s]) ++ [c_rbrack]).
  - exact H.
  - cbn [app]. rewrite <- app_assoc. reflexivity.
Qed.

(* `(` / `)` inside an unquoted attribute value, end to end: the value is the text as written *)
Theorem group_bracket_attr jsx env mr (name n v : str) :
  word_ok name -> (jsx = false \/ head_upper name = false) -> plain_attr_name n -> uq_ok v ->
  ce_text env = WNone ->
  parse_abbr jsx env mr (name ++ c_lbrack :: n ++ c_eq :: v ++ [c_rbrack]) =
    Ok [ANode (Some name) None None (Some [mkAAttr (Some n) (Some [VStr v]) VRaw false false false]) [] false].
Proof.
  intros Hname Hj Hn Hv Htext.
  exact (attr_value_literal jsx env mr name n (SUnq v) Hname Hj Hn Hv Htext).
Qed.
