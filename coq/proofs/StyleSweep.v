(* C06: complete sweeps over the REGENERATED built-in stylesheet snippet table
   (gen/GenCssSnippets.v), by vm_compute, lifted to "for every key / keyword of the
   table" with forallb_forall.  Re-proved whenever the table changes. *)
From Coq Require Import PrimFloat String.
From Emmet Require Import lib.Base lib.StyleLib gen.GenCssSnippets model.CssTokenizer model.CssParser
     model.Score model.Color model.CssSnippets model.CssResolve model.CssFormat run.StyleShow.
Local Open Scope N_scope.

(* ------------------------------------------------------------------ configurations of the sweep *)
(* Config({'type': 'stylesheet', 'syntax': 'css'}) with output.field rendering tabstops as
   ${index:placeholder} (so that tabstops are visible) ... *)
Definition cfg_tab : option sconfig := mk_cfg (lit "css") [] [] None true.
(* ... and with the library's default field callback (placeholder text only) *)
Definition cfg_plain : option sconfig := mk_cfg (lit "css") [] [] None false.

Definition res_str_eqb (a b : res str) : bool :=
  match a, b with
  | Ok x, Ok y => str_eqb x y
  | _, _ => false
  end.

(* ------------------------------------------------------------------ SPEC: what a snippet, selected by its own key, prints *)
(* the value a property snippet inserts: nothing (-> a tabstop), its first listed
   alternative, wrapped in tabstops when there are several alternatives and the first
   has no tabstop of its own *)
Definition own_value (cfg : sconfig) (value : list (list cssvalue)) : list cssvalue :=
  match value with
  | [] => []
  | [d] => d
  | d :: _ => if existsb has_field d then d else map (wrap_with_field cfg) d
  end.

(* the line of a snippet selected by its own key: "<property><between><value><after>"
   (numbers get their units by the C05 rule); a raw snippet prints its body, tabstops
   included (field callback = ${index:placeholder}) *)
Definition own_line (cfg : sconfig) (s : snippet) : str :=
  match s with
  | SnProp _ prop value _ _ =>
      css_property cfg (resolve_numeric_value cfg (mkProp (Some prop) (own_value cfg value) false true))
  | SnRaw _ body => body
  end.

Definition find_snippet (sn : list snippet) (k : str) : option snippet :=
  find (fun s => str_eqb (sn_key s) k) sn.

(* ------------------------------------------------------------------ keys_reach_self *)
Definition key_line_ok (cfg : sconfig) (sn : list snippet) (k : str) : bool :=
  match find_snippet sn k with
  | Some s => res_str_eqb (expand_with cfg sn k) (Ok (own_line cfg s))
  | None => false
  end.

(* the matcher itself: the best match of a key is the snippet under that key *)
Definition key_selects_self (cfg : sconfig) (sn : list snippet) (k : str) : bool :=
  match find_best_match sn_key k sn (c_min_score cfg) true with
  | Some s => str_eqb (sn_key s) k
  | None => false
  end.

Definition table_keys : list str := map fst css_snippets.

(* the gradient shortcut `lg` is resolved before the table is consulted (resolve_gradient);
   it prints its snippet's line with the tabstop numbered 0 instead of 1 *)
Definition not_gradient (k : str) : bool := negb (str_eqb k gradient_name).

Definition sweep_keys_with (oc : option sconfig) (r : res (list snippet)) : bool :=
  match oc, r with
  | Some cfg, Ok sn =>
      forallb (fun k => (negb (not_gradient k) || key_line_ok cfg sn k) && key_selects_self cfg sn k) table_keys
  | _, _ => false
  end.

(* stated on [cfg_tab] / [builtin_converted] as ARGUMENTS so that instantiating the sweep never
   makes the kernel re-evaluate it outside the VM *)
Lemma sweep_keys_true : sweep_keys_with cfg_tab builtin_converted = true.
Proof. vm_compute. reflexivity. Qed.

Lemma str_eqb_eq : forall a b, str_eqb a b = true <-> a = b.
Proof.
  induction a as [|x a IH]; destruct b as [|y b]; cbn [str_eqb]; split; intros H; try discriminate; try reflexivity.
  - apply andb_true_iff in H. destruct H as [H1 H2]. apply N.eqb_eq in H1. apply IH in H2. subst. reflexivity.
  - inversion H; subst. rewrite N.eqb_refl. cbn. apply IH. reflexivity.
Qed.

Lemma res_str_eqb_eq a b : res_str_eqb a b = true -> exists x, a = Ok x /\ b = Ok x.
Proof.
  destruct a as [x| | |], b as [y| | |]; cbn; intros H; try discriminate.
  apply str_eqb_eq in H. subst. eexists; split; reflexivity.
Qed.

Theorem keys_reach_self :
  forall cfg sn,
    cfg_tab = Some cfg -> convert_snippets css_snippets = Ok sn ->
    forall k, In k table_keys ->
      (exists s, find_best_match sn_key k sn (c_min_score cfg) true = Some s /\ sn_key s = k) /\
      (k <> gradient_name ->
       exists s, find_snippet sn k = Some s /\ sn_key s = k /\ expand_with cfg sn k = Ok (own_line cfg s)).
Proof.
  intros cfg sn Hc Hs k Hk.
  pose proof sweep_keys_true as S.
  rewrite builtin_converted_eq in Hs. rewrite Hc, Hs in S. cbn [sweep_keys_with] in S.
  rewrite forallb_forall in S. specialize (S k Hk).
  apply andb_true_iff in S. destruct S as [S1 S2]. split.
  - unfold key_selects_self in S2.
    destruct (find_best_match sn_key k sn (c_min_score cfg) true) as [s|]; [|discriminate].
    exists s. split; [reflexivity|]. apply str_eqb_eq. exact S2.
  - intros Hg. unfold not_gradient in S1.
    destruct (str_eqb k gradient_name) eqn:Eg; [apply str_eqb_eq in Eg; contradiction|].
    cbn [negb orb] in S1. unfold key_line_ok in S1.
    destruct (find_snippet sn k) as [s|] eqn:Ef; [|discriminate].
    exists s. split; [reflexivity|]. split.
    + unfold find_snippet in Ef. apply find_some in Ef. destruct Ef as [_ Ef]. apply str_eqb_eq. exact Ef.
    + apply res_str_eqb_eq in S1. destruct S1 as [x [H1 H2]]. inversion H2; subst. exact H1.
Qed.

(* the hypotheses are satisfiable: the table converts, the configuration exists *)
Definition is_ok {A} (r : res A) : bool := match r with Ok _ => true | _ => false end.
Lemma is_ok_ex {A} (r : res A) : is_ok r = true -> exists a, r = Ok a.
Proof. destruct r; cbn; intros H; try discriminate. eexists; reflexivity. Qed.
Definition is_some {A} (o : option A) : bool := match o with Some _ => true | None => false end.
Lemma is_some_ex {A} (o : option A) : is_some o = true -> exists a, o = Some a.
Proof. destruct o; cbn; intros H; try discriminate. eexists; reflexivity. Qed.

Lemma sweep_inhabited :
  (exists cfg, cfg_tab = Some cfg) /\ (exists sn, convert_snippets css_snippets = Ok sn).
Proof.
  split.
  - apply is_some_ex. vm_compute. reflexivity.
  - rewrite builtin_converted_eq. apply is_ok_ex. vm_compute. reflexivity.
Qed.

(* the gradient key: its snippet's line, tabstop index 0 *)
Lemma gradient_key_line :
  match cfg_tab, cfg_plain, builtin_converted with
  | Some ct, Some cp, Ok sn =>
      expand_with ct sn gradient_name = Ok (lit "background-image: linear-gradient(${0});") /\
      match find_snippet sn gradient_name with
      | Some s => own_line ct s = lit "background-image: linear-gradient(${1});" /\
                  expand_with cp sn gradient_name = Ok (own_line cp s)
      | None => False
      end
  | _, _, _ => False
  end.
Proof. vm_compute. repeat split; reflexivity. Qed.

(* ------------------------------------------------------------------ keywords_resolve *)
(* a keyword made of letters and _ only (dash-free, digit-free): the tokenizer reads it as ONE
   literal.  Keywords containing a digit are NOT covered: in property mode the tokenizer ends a
   literal at a digit (that is what makes `p10` work), so `trf:scale3d` reads scale + 3d --
   see [keyword_with_digit_refuted]. *)
Definition plain_keyword (kw : str) : bool :=
  match kw with
  | _ :: _ => forallb is_alpha_word kw
  | [] => false
  end.

(* alternating case: aBcD... *)
Fixpoint alt_case (up : bool) (s : str) : str :=
  match s with
  | [] => []
  | c :: r => (if up then upper_c c else lower_c c) :: alt_case (negb up) r
  end.

Definition kw_variants (kw : str) : list str := [kw; lower kw; upper kw; alt_case false kw; alt_case true kw].

(* "<key>:<KEYWORD>" and "<key>-<KEYWORD>" print "<property>: <the listed keyword>;" *)
Definition kw_line (cfg : sconfig) (prop : str) (tok : cval) : str :=
  css_property cfg (resolve_numeric_value cfg (mkProp (Some prop) [[tok]] false true)).

Definition keyword_ok (cfg : sconfig) (sn : list snippet) (key prop : str) (kw : str) (tok : cval) : bool :=
  forallb (fun v =>
             res_str_eqb (expand_with cfg sn (key ++ c_colon :: v)) (Ok (kw_line cfg prop tok)) &&
             res_str_eqb (expand_with cfg sn (key ++ c_dash :: v)) (Ok (kw_line cfg prop tok)))
          (kw_variants kw).

Definition snippet_keywords_ok (cfg : sconfig) (sn : list snippet) (s : snippet) : bool :=
  match s with
  | SnProp key prop _ kws _ =>
      forallb (fun kv => negb (plain_keyword (fst kv)) || keyword_ok cfg sn key prop (fst kv) (snd kv)) kws
  | SnRaw _ _ => true
  end.

Definition sweep_keywords_with (oc : option sconfig) (r : res (list snippet)) : bool :=
  match oc, r with
  | Some cfg, Ok sn => forallb (snippet_keywords_ok cfg sn) sn
  | _, _ => false
  end.

(* how many (snippet, keyword) pairs the sweep covers *)
Definition keyword_pairs : nat :=
  match builtin_converted with
  | Ok sn => fold_right (fun s n => match s with
                                    | SnProp _ _ _ kws _ => (length (filter (fun kv => plain_keyword (fst kv)) kws) + n)%nat
                                    | SnRaw _ _ => n
                                    end) O sn
  | _ => O
  end.



Lemma sweep_keywords_true : sweep_keywords_with cfg_tab builtin_converted = true.
Proof. vm_compute. reflexivity. Qed.

Theorem keywords_resolve :
  forall cfg sn,
    cfg_tab = Some cfg -> convert_snippets css_snippets = Ok sn ->
    forall key prop value kws deps kw tok v,
      In (SnProp key prop value kws deps) sn -> In (kw, tok) kws -> plain_keyword kw = true ->
      In v (kw_variants kw) ->
      expand_with cfg sn (key ++ c_colon :: v) = Ok (kw_line cfg prop tok) /\
      expand_with cfg sn (key ++ c_dash :: v) = Ok (kw_line cfg prop tok).
Proof.
  intros cfg sn Hc Hs key prop value kws deps kw tok v Hin Hkw Hp Hv.
  pose proof sweep_keywords_true as S.
  rewrite builtin_converted_eq in Hs. rewrite Hc, Hs in S. cbn [sweep_keywords_with] in S.
  rewrite forallb_forall in S. specialize (S _ Hin). cbn [snippet_keywords_ok] in S.
  rewrite forallb_forall in S. specialize (S _ Hkw). cbn [fst snd] in S.
  rewrite Hp in S. cbn [negb orb] in S. unfold keyword_ok in S.
  rewrite forallb_forall in S. specialize (S _ Hv).
  apply andb_true_iff in S. destruct S as [S1 S2].
  apply res_str_eqb_eq in S1. destruct S1 as [x [H1 H2]]. inversion H2; subst.
  apply res_str_eqb_eq in S2. destruct S2 as [y [H3 H4]]. inversion H4; subst.
  split; assumption.
Qed.

(* the sweep is not vacuous: number of (snippet, keyword) pairs covered *)
Lemma keyword_pairs_count : (300 <= keyword_pairs)%nat.
Proof. vm_compute. repeat constructor. Qed.

(* REFUTED for keywords containing a digit (confirmed on the implementation; recorded as a
   known finding): `trf:scale3d` prints scale(x, y) 3d, not the listed keyword scale3d(...) *)
Lemma keyword_with_digit_refuted :
  match cfg_plain, builtin_converted with
  | Some cfg, Ok sn =>
      expand_with cfg sn (lit "trf:scale3d") = Ok (lit "transform: scale(x, y) 3d;") /\
      expand_with cfg sn (lit "trf:scale3d(") = Ok (lit "transform: scale3d(x, y, z);")
  | _, _ => False
  end.
Proof. vm_compute. split; reflexivity. Qed.
