(* C07, composition of the stages for the markup pipeline. *)
From Coq Require Import List Bool Lia Arith ZArith.
From Emmet Require Import lib.Base model.MarkupTokenizer model.MarkupParser model.MarkupConvert model.MarkupResolve
     model.OutStream model.FormatHtml model.FormatIndent model.MarkupExpand gen.GenMarkupSnippets
     proofs.MarkupTokenizerProofs proofs.SafeTokenizer proofs.SafeParser proofs.SafeConvert proofs.SafeResolve
     model.MarkupLorem proofs.BemProofs proofs.LoremProofs proofs.LoremFill proofs.SafeFormat.
Import ListNotations.

(* tokenize + parse: the only failures are the two parse errors, position inside the input *)
Theorem tokenize_parse_safe : forall jsx s,
  match tokenize s with
  | TErr p => p <= length s
  | TOk toks =>
      match parse jsx toks with
      | POk _ => True
      | PErr None => True
      | PErr (Some p) => p < length s
      end
  end.
Proof.
  intros jsx s. destruct (tokenize s) as [toks|p] eqn:E.
  - pose proof (parser_safe jsx toks) as H.
    destruct (parse jsx toks) as [x|[p|]]; auto.
    destruct H as [t [Hi He]]. subst p. eapply token_starts_inside; eauto.
  - apply tokenize_error_inside. exact E.
Qed.

(* the statement of C07 on a model result: a value, or one of the two parse errors with its
   position (when present) inside an input of length [len]; never Internal, never OutOfFuel *)
Definition safe_outcome {A} (len : nat) (r : res A) : Prop :=
  match r with
  | Ok _ => True
  | ParseErr k None => k = EK_Token
  | ParseErr k (Some p) => (k = EK_Scanner \/ k = EK_Token) /\ (0 <= p <= Z.of_nat len)%Z
  | Internal _ => False
  | OutOfFuel => False
  end.

(* what the tokenizer hands to the parser never puts a Repeater token (or an operator outside the
   table) inside a name or value -- the link between tokenizer and converter *)
Definition abbr_wf (jsx : bool) (s : str) : Prop :=
  forall toks root, tokenize s = TOk toks -> parse jsx toks = POk root -> forallb tnode_ok root = true.

Theorem parse_abbr_safe : forall jsx env mr s, abbr_wf jsx s -> safe_outcome (length s) (parse_abbr jsx env mr s).
Proof.
  intros jsx env mr s Hwf. unfold parse_abbr.
  pose proof (tokenize_parse_safe jsx s) as H.
  destruct (tokenize s) as [toks|p] eqn:ET.
  - destruct (parse jsx toks) as [root|[p|]] eqn:EP.
    + destruct (convert_safe env mr root (Hwf toks root ET EP)) as [r Er]. rewrite Er. exact I.
    + simpl. split; [right; reflexivity|lia].
    + reflexivity.
  - simpl. split; [left; reflexivity|lia].
Qed.

(* the lorem oracle: the stream of draws of the configuration ran out while the lorem pass was writing the paragraphs
   of the resolved forest of this abbreviation *)
Definition draws_exhausted (cfg : mconfig) (s : str) : Prop :=
  exists tree resolved,
    parse_abbr (mc_jsx cfg) (mkCenv (mc_text cfg) (mc_variables cfg) (mc_href cfg)) (mc_max_repeat cfg) s = Ok tree /\
    walk_resolve (S (length (mc_snippets cfg))) cfg [] tree = Ok resolved /\
    lorem_fill_list resolved (mc_draws cfg) = LExhausted.
(* the statement of C07 with the oracle: as [safe_outcome], and OutOfFuel only for an exhausted stream *)
Definition safe_or_exhausted {A} (cfg : mconfig) (s : str) (r : res A) : Prop :=
  match r with
  | OutOfFuel => draws_exhausted cfg s
  | _ => safe_outcome (length s) r
  end.

Theorem markup_parse_safe : forall cfg s, wf_cfg cfg -> abbr_wf (mc_jsx cfg) s ->
  safe_or_exhausted cfg s (markup_parse cfg s).
Proof.
  intros cfg s Hcfg Hwf. unfold markup_parse.
  pose proof (parse_abbr_safe (mc_jsx cfg) (mkCenv (mc_text cfg) (mc_variables cfg) (mc_href cfg)) (mc_max_repeat cfg) s Hwf) as H.
  destruct (parse_abbr _ _ _ s) as [tree|k p| |] eqn:EP; try exact H; [|destruct H].
  cbn [bind]. destruct (resolve_safe cfg tree Hcfg) as [r Er]. rewrite Er. cbn [bind].
  (* the transform pass: lorem draws (LoremFill), then the rest, BEM addon included (BemProofs) *)
  pose proof (transform_total cfg r) as Ht.
  destruct (transform_list cfg r) as [t|k p| |]; [exact I|destruct Ht|destruct Ht|].
  unfold safe_or_exhausted, draws_exhausted. exists tree, r. auto.
Qed.

(* expand(): the formatter (html / haml / pug / slim, comments, JSX attribute renaming, context) is a
   total function by construction (`stringify_markup` returns a plain state, no `res`) *)
Theorem expand_safe_under_wf : forall x s, wf_cfg (xc_m x) -> abbr_wf (mc_jsx (xc_m x)) s ->
  safe_or_exhausted (xc_m x) s (expand_markup_str x s).
Proof.
  intros x s Hcfg Hwf. unfold expand_markup_str, expand_markup.
  pose proof (markup_parse_safe (xc_m x) s Hcfg Hwf) as H.
  destruct (markup_parse (xc_m x) s) as [tree|k p| |]; exact H.
Qed.

(* the built-in configurations are well-formed (sweeps of SafeResolve), and stay so when
   well-formed user snippets are put in front (merged_data: user snippets override) *)
Theorem builtin_tables_wf :
  table_good markup_snippets = true /\ table_good (xsl_snippets ++ markup_snippets) = true
  /\ table_good (pug_snippets ++ markup_snippets) = true.
Proof.
  pose proof markup_snippets_good. pose proof xsl_snippets_good. pose proof pug_snippets_good.
  repeat split; auto using table_good_app.
Qed.
