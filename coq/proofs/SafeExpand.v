(* C07, composition of the stages for the markup pipeline. *)
From Coq Require Import List Bool Lia Arith ZArith.
From Emmet Require Import lib.Base model.MarkupTokenizer model.MarkupParser
     proofs.MarkupTokenizerProofs proofs.SafeTokenizer proofs.SafeParser.
Import ListNotations.

(* tokenize + parse: the only failures are the two parse errors, position inside the input *)
Theorem tokenize_parse_safe : forall jsx s,
  match tokenize s with
  | TErr p => p <= length s
  | TOk toks =>
      match parse jsx toks with
      | POk _ => True
      | PErr None => True
      | PErr (Some p) => p < length s
      end
  end.
Proof.
  intros jsx s. destruct (tokenize s) as [toks|p] eqn:E.
  - pose proof (parser_safe jsx toks) as H.
    destruct (parse jsx toks) as [x|[p|]]; auto.
    destruct H as [t [Hi He]]. subst p. eapply token_starts_inside; eauto.
  - apply tokenize_error_inside. exact E.
Qed.
