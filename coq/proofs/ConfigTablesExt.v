(* C20 on the GENERATED tables, beyond the (type, syntax) pairs of SYNTAXES
   (proofs/ConfigTables.v): the same complete sweep for EVERY syntax name the check
   distinguishes, under both abbreviation types:
     - every listed syntax under the other type too ("cross"),
     - every key of SYNTAX_CONFIG that no SYNTAXES list names ("pseudo": markup,
       stylesheet, xhtml),
     - a name without any table entry ("zzz"), and a theorem that every other such
       name gives the same cells as "zzz" (unknown syntax).
   When type and syntax name coincide the type layers and the syntax layers are one
   and the same dict; the documented value is then computed by [expected_same]. *)
From Emmet Require Import lib.Base lib.ConfigLib gen.GenLayerOrder gen.GenConfig model.Config
  proofs.ConfigProofs proofs.ConfigTables.
Local Open Scope Z_scope.

Definition type_names : list str := map fst syntaxes.
Definition listed_syntaxes : list str := flat_map snd syntaxes.
Definition table_keys : list str := map fst syntax_config.
Definition pseudo_names : list str := filter (fun k => negb (mem_str k listed_syntaxes)) table_keys.
Definition unknown_sample : str := [122; 122; 122]%N.   (* "zzz" *)
Definition all_names : list str := listed_syntaxes ++ pseudo_names ++ [unknown_sample].

Definition ext_pairs : list (str * str) := flat_map (fun ty => map (fun s => (ty, s)) all_names) type_names.
Definition same_name (p : str * str) : bool := str_eqb (fst p) (snd p).
Definition distinct_pairs : list (str * str) := filter (fun p => negb (same_name p)) ext_pairs.
Definition same_pairs : list (str * str) := filter same_name ext_pairs.

(* ---------------------------------------------------------------- type <> syntax *)
Lemma sweep_ext_ok :
  forallb (fun p => forallb (fun sec => forallb (cell_ok p sec) all_subsets) init_sections) distinct_pairs = true.
Proof. vm_cast_no_check (eq_refl true). Qed.

Theorem tables_for_all_names :
  forall ty syn, In (ty, syn) distinct_pairs ->
  forall sec, In sec init_sections ->
  forall bits, In bits all_subsets ->
    dget probe (planted_result ty syn sec bits) = expected (subset_of_bits bits) /\
    forall k, k <> probe -> dget k (planted_result ty syn sec bits) = dget k (plain_result ty syn sec).
Proof.
  intros ty syn Hp sec Hsec bits Hb. apply cell_ok_sound.
  exact (forallb3 cell_ok distinct_pairs init_sections all_subsets sweep_ext_ok (ty, syn) Hp sec Hsec bits Hb).
Qed.

(* ---------------------------------------------------------------- type = syntax *)
(* one dict serves as type layer and as syntax layer: the syntax planting overwrites
   the type planting in the same place *)
Definition expected_same (s : subset) : option Z :=
  if s User then Some (marker User)
  else if s SyntaxOverride then Some (marker SyntaxOverride)
  else if s TypeOverride then Some (marker TypeOverride)
  else if s SyntaxDefaults then Some (marker SyntaxDefaults)
  else if s TypeDefaults then Some (marker TypeDefaults)
  else if s Default then Some (marker Default)
  else None.

Definition check_cell_same (ty syn sec : str) (r0 : dict Z) (bits : list bool) : bool :=
  let s := subset_of_bits bits in
  let r := merged_data (planted_env ty syn sec s) ty syn sec in
  optZ_eqb (dget probe r) (expected_same s) && dict_eqb (remove_key probe r) r0.
Definition cell_ok_same (p : str * str) (sec : str) : list bool -> bool :=
  let r0 := plain_result (fst p) (snd p) sec in
  fun bits => check_cell_same (fst p) (snd p) sec r0 bits.

Lemma sweep_same_ok :
  forallb (fun p => forallb (fun sec => forallb (cell_ok_same p sec) all_subsets) init_sections) same_pairs = true.
Proof. vm_cast_no_check (eq_refl true). Qed.

Theorem tables_for_type_named_syntax :
  forall ty syn, In (ty, syn) same_pairs ->
  forall sec, In sec init_sections ->
  forall bits, In bits all_subsets ->
    dget probe (planted_result ty syn sec bits) = expected_same (subset_of_bits bits) /\
    forall k, k <> probe -> dget k (planted_result ty syn sec bits) = dget k (plain_result ty syn sec).
Proof.
  intros ty syn Hp sec Hsec bits Hb.
  pose proof (forallb3 cell_ok_same same_pairs init_sections all_subsets sweep_same_ok (ty, syn) Hp sec Hsec bits Hb) as H.
  apply (cell_sound _ _ _ H).
Qed.

(* the two sweeps together cover every (type, name) combination *)
Lemma ext_pairs_covered :
  forall ty syn, In ty type_names -> In syn all_names ->
    In (ty, syn) distinct_pairs \/ In (ty, syn) same_pairs.
Proof.
  intros ty syn Hty Hsyn.
  assert (Hin : In (ty, syn) ext_pairs).
  { unfold ext_pairs. apply in_flat_map. exists ty. split; [exact Hty|]. apply in_map. exact Hsyn. }
  unfold distinct_pairs, same_pairs. destruct (same_name (ty, syn)) eqn:E.
  - right. apply filter_In. split; assumption.
  - left. apply filter_In. split; [assumption|]. rewrite E. reflexivity.
Qed.

(* the sweep is not empty (no sizes are fixed here: adding a syntax to SYNTAXES must not break a proof) *)
Lemma ext_pairs_nonempty : distinct_pairs <> [].
Proof. vm_compute. discriminate. Qed.

(* ---------------------------------------------------------------- unknown names *)
(* Every name without a table entry gives, cell for cell, the result of "zzz" (the
   syntax layers cannot be planted for a name the tables do not know: bits sd = so = false). *)
Lemma planted_env_no_syntax ty syn1 syn2 sec d td to u :
  planted_env ty syn1 sec (subset_of_bits [d; td; false; to; false; u]) =
  planted_env ty syn2 sec (subset_of_bits [d; td; false; to; false; u]).
Proof. reflexivity. Qed.

Lemma dget_plant_table_other (on : bool) (name sec : str) (v : Z) (t : cfg_table Z) (k : str) :
  k <> name -> dget k (plant_table on name sec v t) = dget k t.
Proof. intros H. unfold plant_table. destruct on; [apply dget_dset_other; exact H|reflexivity]. Qed.

Theorem unknown_names_like_sample :
  forall ty syn sec d td to u,
    ~ In syn table_keys -> syn <> ty -> unknown_sample <> ty ->
    planted_result ty syn sec [d; td; false; to; false; u] =
    planted_result ty unknown_sample sec [d; td; false; to; false; u].
Proof.
  intros ty syn sec d td to u Hk Hne Hz. unfold planted_result.
  rewrite (planted_env_no_syntax ty syn unknown_sample).
  assert (Hu : forall name, ~ In name table_keys -> name <> ty ->
             unknown_name (planted_env ty unknown_sample sec (subset_of_bits [d; td; false; to; false; u])) name).
  { intros name Hn Hnt. split; cbn [planted_env e_syntax_config e_global subset_of_bits].
    - cbn [plant_table]. rewrite dget_plant_table_other; [|exact Hnt]. apply dget_none_iff. exact Hn.
    - cbn [plant_table]. rewrite dget_plant_table_other; [reflexivity|exact Hnt]. }
  apply unknown_syntax_any; apply Hu; try assumption.
  intros Hin. revert Hin. vm_compute. intuition discriminate.
Qed.
