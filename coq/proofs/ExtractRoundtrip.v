(* Round trip of extract_abbreviation (C11): an abbreviation of the stated
   grammar, embedded after a start of line / whitespace / complete HTML tag, is
   extracted exactly when the caret is at its end. *)
From Coq Require Import ZArith List Bool Lia ZifyBool.
From Emmet Require Import lib.Base lib.ExtractLib model.Extract proofs.ExtractProofs proofs.ExtractHtml.
Import ListNotations.
Local Open Scope N_scope.

(* ------------------------------------------------------------------ characters *)
Lemma special_chars_ok :
  ex_special_chars = [35; 46; 42; 58; 36; 45; 95; 33; 64; 37; 94; 43; 62; 47].
Proof. reflexivity. Qed.

Lemma abbr_char_is_abbreviation : forall c, abbr_char c = true -> is_abbreviation c = true.
Proof. intros c H. unfold is_abbreviation. rewrite special_chars_ok. exact H. Qed.

Lemma abbr_char_not : forall c, abbr_char c = true ->
  plain c = true /\ is_bracket c = false.
Proof.
  intros c H. split.
  - apply (plain_by abbr_char); auto; vm_compute; reflexivity.
  - destruct (is_bracket c) eqn:B; [|reflexivity]. unfold is_bracket in B.
    repeat (apply orb_true_iff in B; destruct B as [B|B]); apply N.eqb_eq in B; subst c; vm_compute in H; discriminate.
Qed.

Lemma not_bracket : forall c, is_bracket c = false ->
  c <> c_lparen /\ c <> c_rparen /\ c <> c_lbrack /\ c <> c_rbrack /\ c <> c_lbrace /\ c <> c_rbrace.
Proof. intros c H. repeat split; intros ->; vm_compute in H; discriminate. Qed.

Lemma not_bracket_braces : forall mk c, is_bracket c = false ->
  is_close_brace mk c = false /\ is_open_brace mk c = false.
Proof.
  intros mk c H. destruct (not_bracket c H) as [H1 [H2 [H3 [H4 [H5 H6]]]]].
  apply N.eqb_neq in H1, H2, H3, H4, H5, H6. unfold is_close_brace, is_open_brace.
  rewrite H1, H2, H3, H4, H5, H6. destruct mk; split; reflexivity.
Qed.

Lemma ws_char_facts : forall w, ws_char w = true ->
  is_abbreviation w = false /\ is_bracket w = false /\ plain w = true.
Proof.
  intros w H. unfold ws_char, is_space, is_white_space in H.
  repeat (apply orb_true_iff in H; destruct H as [H|H]); apply N.eqb_eq in H; subst w;
    repeat split; vm_compute; reflexivity.
Qed.

Lemma not_dangling_trim : forall c, ~ dangling c -> is_trim c = false.
Proof.
  intros c H. unfold is_trim. rewrite (proj2 (proj2 (proj2 (proj2 (proj2 (proj2 (proj2 tables_ok))))))).
  unfold dangling in H. cbn [existsb In] in *.
  destruct (N.eqb_spec c c_star); [exfalso; apply H; auto 6|].
  destruct (N.eqb_spec c c_plus); [exfalso; apply H; auto 6|].
  destruct (N.eqb_spec c c_gt); [exfalso; apply H; auto 6|].
  destruct (N.eqb_spec c c_caret); [exfalso; apply H; auto 6|]. reflexivity.
Qed.

(* ------------------------------------------------------------------ quote structure *)
Lemma items_app : forall a b, items a -> items b -> items (a ++ b).
Proof.
  intros a b Ha Hb. induction Ha as [|c r P _ IH|q mid r Q NI _ IH].
  - exact Hb.
  - cbn [app]. apply it_char; assumption.
  - replace ((q :: mid ++ q :: r) ++ b) with (q :: mid ++ q :: (r ++ b))
      by (cbn [app]; rewrite <- app_assoc; reflexivity).
    apply it_quoted; assumption.
Qed.

Lemma items_rev : forall s, items s -> items (rev s).
Proof.
  intros s H. induction H as [|c r P _ IH|q mid r Q NI _ IH].
  - exact it_nil.
  - cbn [rev]. apply items_app; [exact IH|]. apply it_char; [exact P|exact it_nil].
  - replace (rev (q :: mid ++ q :: r)) with (rev r ++ (q :: rev mid ++ q :: []))
      by (cbn [rev]; rewrite rev_app_distr; cbn [rev app]; rewrite <- !app_assoc; reflexivity).
    apply items_app; [exact IH|]. apply it_quoted; [exact Q| |exact it_nil].
    intros I. apply NI. apply in_rev. exact I.
Qed.

Lemma items_safe : forall a b, items a -> safe b -> safe (a ++ b).
Proof.
  intros a b Ha Hb. induction Ha as [|c r P _ IH|q mid r Q NI _ IH].
  - exact Hb.
  - cbn [app]. apply sf_char; assumption.
  - replace ((q :: mid ++ q :: r) ++ b) with (q :: mid ++ q :: (r ++ b))
      by (cbn [app]; rewrite <- app_assoc; reflexivity).
    apply sf_quoted; assumption.
Qed.

Lemma items_bracketed : forall o C c, plain o = true -> plain c = true -> items C -> items (o :: C ++ [c]).
Proof.
  intros o C c Po Pc HC. apply it_char; [exact Po|]. apply items_app; [exact HC|].
  apply it_char; [exact Pc|exact it_nil].
Qed.

Lemma abbr_items : forall mk A, abbr mk A -> items A.
Proof.
  intros mk A H. induction H as [|P c _ IH HC|P G _ IHP _ IHG|P C _ _ IHP _ HI|P C _ _ IHP _ HI].
  - exact it_nil.
  - apply items_app; [exact IH|]. apply it_char; [exact (proj1 (abbr_char_not _ HC))|exact it_nil].
  - apply items_app; [exact IHP|]. apply items_bracketed; [reflexivity|reflexivity|exact IHG].
  - apply items_app; [exact IHP|]. apply items_bracketed; [reflexivity|reflexivity|exact HI].
  - apply items_app; [exact IHP|]. apply items_bracketed; [reflexivity|reflexivity|exact HI].
Qed.

(* ------------------------------------------------------------------ one step of the main loop *)
Lemma scan_cons : forall mk lb ch r st,
  scan mk lb (ch :: r) st =
  match scan_step mk lb (ch :: r) ch st with
  | SBreak st' => (ch :: r, st')
  | SNext st' => scan mk lb r st'
  end.
Proof. reflexivity. Qed.

Lemma rev_bracket : forall (P C rest : str) o c,
  rev (P ++ o :: C ++ [c]) ++ rest = c :: rev C ++ o :: rev P ++ rest.
Proof.
  intros. rewrite rev_app_distr. cbn [rev]. rewrite rev_app_distr. cbn [rev app].
  rewrite <- !app_assoc. reflexivity.
Qed.

Lemma rev_snoc : forall (P rest : str) c, rev (P ++ [c]) ++ rest = c :: rev P ++ rest.
Proof. intros. rewrite rev_app_distr. reflexivity. Qed.

Lemma paren_facts : forall mk,
  is_close_brace mk c_rparen = true /\ is_close_brace mk c_lparen = false /\ is_open_brace mk c_lparen = true.
Proof. intros [|]; repeat split; reflexivity. Qed.

Section Scan.
Variable mk : bool.
Let lb := false.

(* inside {...}: only curly braces count *)
Lemma step_curly_skip : forall rl ch st,
  mem c_rbrace st = true -> ch <> c_rbrace -> ch <> c_lbrace -> scan_step mk lb rl ch st = SNext st.
Proof.
  intros rl ch st M H1 H2. unfold scan_step. rewrite M.
  apply N.eqb_neq in H1, H2. rewrite H1, H2. reflexivity.
Qed.

Lemma step_curly_push : forall rl st,
  mem c_rbrace st = true -> scan_step mk lb rl c_rbrace st = SNext (c_rbrace :: st).
Proof. intros rl st M. unfold scan_step. rewrite M. reflexivity. Qed.

Lemma step_curly_pop : forall rl st,
  mk = true -> scan_step mk lb rl c_lbrace (c_rbrace :: st) = SNext st.
Proof. intros rl st M. unfold scan_step. rewrite M. reflexivity. Qed.

Lemma scan_cu : forall C, cu C -> forall st rest,
  mk = true -> mem c_rbrace st = true -> scan mk lb (rev C ++ rest) st = scan mk lb rest st.
Proof.
  intros C H. induction H as [|P c _ IH N1 N2|P C _ IHP _ IHC]; intros st rest MK M.
  - reflexivity.
  - rewrite rev_snoc, scan_cons, step_curly_skip by assumption. apply IH; assumption.
  - rewrite rev_bracket, scan_cons, step_curly_push by assumption.
    rewrite IHC by (try assumption; reflexivity).
    rewrite scan_cons, step_curly_pop by assumption. apply IHP; assumption.
Qed.

(* a closing bracket outside {...} is pushed *)
Lemma step_close : forall rl ch st,
  mem c_rbrace st = false -> is_close_brace mk ch = true -> scan_step mk lb rl ch st = SNext (ch :: st).
Proof. intros rl ch st M H. unfold scan_step. rewrite M, H. reflexivity. Qed.

(* the matching opening bracket pops it *)
Lemma step_open : forall rl ch st,
  mem c_rbrace st = false -> ch <> c_lbrace ->
  is_close_brace mk ch = false -> is_open_brace mk ch = true ->
  scan_step mk lb rl ch (brace_pair ch :: st) = SNext st.
Proof.
  intros rl ch st M N HC HO. unfold scan_step. rewrite HC, HO, N.eqb_refl.
  assert (E : mem c_rbrace (brace_pair ch :: st) = false).
  { cbn [mem existsb]. fold (mem c_rbrace st). rewrite M. unfold brace_pair.
    destruct (ch =? c_lbrack) eqn:E1; [reflexivity|]. destruct (ch =? c_lparen) eqn:E; [reflexivity|].
    (* ch is an opening bracket other than [ and ( : it is { *)
    exfalso. unfold is_open_brace in HO. rewrite E, E1 in HO. cbn [orb] in HO.
    apply andb_true_iff in HO. destruct HO as [_ HO]. apply N.eqb_eq in HO. contradiction. }
  rewrite E. reflexivity.
Qed.

(* inside [...]: everything but brackets is skipped *)
Lemma step_square_skip : forall rl ch st,
  mem c_rbrace st = false -> mem c_rbrack st = true -> is_bracket ch = false ->
  scan_step mk lb rl ch st = SNext st.
Proof.
  intros rl ch st M1 M2 B. unfold scan_step.
  destruct (not_bracket_braces mk ch B) as [H1 H2]. rewrite M1, M2, H1, H2. reflexivity.
Qed.

Lemma scan_sq : forall C, sq C -> forall st rest,
  mk = true -> mem c_rbrace st = false -> mem c_rbrack st = true ->
  scan mk lb (rev C ++ rest) st = scan mk lb rest st.
Proof.
  intros C H. induction H as [|P c _ IH B|P C _ IHP _ IHC|P C _ IHP _ IHC|P C _ IHP HC]; intros st rest MK M1 M2.
  - reflexivity.
  - rewrite rev_snoc, scan_cons, step_square_skip by assumption. apply IH; assumption.
  - rewrite rev_bracket, scan_cons, step_close by (try assumption; subst mk; reflexivity).
    rewrite IHC; [|assumption|cbn [mem existsb]; fold (mem c_rbrace st); rewrite M1; reflexivity
                  |cbn [mem existsb]; fold (mem c_rbrack st); rewrite M2; reflexivity].
    rewrite scan_cons. change c_rparen with (brace_pair c_lparen).
    rewrite step_open by (try assumption; try discriminate; subst mk; reflexivity). apply IHP; assumption.
  - rewrite rev_bracket, scan_cons, step_close by (try assumption; subst mk; reflexivity).
    rewrite IHC; [|assumption|cbn [mem existsb]; fold (mem c_rbrace st); rewrite M1; reflexivity
                  |reflexivity].
    rewrite scan_cons. change c_rbrack with (brace_pair c_lbrack).
    rewrite step_open by (try assumption; try discriminate; subst mk; reflexivity). apply IHP; assumption.
  - rewrite rev_bracket, scan_cons, step_close by (try assumption; subst mk; reflexivity).
    rewrite scan_cu by (try assumption; reflexivity).
    rewrite scan_cons, step_curly_pop by assumption. apply IHP; assumption.
Qed.

(* outside [...] and {...}: an abbreviation character is consumed unless an HTML tag ends there *)
Lemma step_top : forall r ch st,
  mem c_rbrace st = false -> mem c_rbrack st = false -> abbr_char ch = true -> safe r ->
  scan_step mk lb (ch :: r) ch st = SNext st.
Proof.
  intros r ch st M1 M2 HC HS. unfold scan_step.
  destruct (abbr_char_not _ HC) as [_ B]. destruct (not_bracket_braces mk ch B) as [H1 H2].
  rewrite M1, M2, H1, H2. cbn [andb orb]. unfold lb.
  rewrite (is_html_safe ch r HS), (abbr_char_is_abbreviation _ HC). reflexivity.
Qed.

Lemma scan_abbr : forall A, abbr mk A -> forall st rest,
  mem c_rbrace st = false -> mem c_rbrack st = false -> safe rest ->
  scan mk lb (rev A ++ rest) st = scan mk lb rest st.
Proof.
  intros A H.
  induction H as [|P c HP IH HC|P G HP IHP HG IHG|P C MK HP IHP HC HI|P C MK HP IHP HC HI]; intros st rest M1 M2 HS.
  - reflexivity.
  - assert (S1 : safe (rev P ++ rest)).
    { apply items_safe; [apply items_rev; exact (abbr_items _ _ HP)|exact HS]. }
    rewrite rev_snoc, scan_cons, step_top by assumption. apply IH; assumption.
  - assert (S1 : safe (rev P ++ rest)).
    { apply items_safe; [apply items_rev; exact (abbr_items _ _ HP)|exact HS]. }
    destruct (paren_facts mk) as [PF1 [PF2 PF3]].
    rewrite rev_bracket, scan_cons, step_close by assumption.
    rewrite IHG; [|cbn [mem existsb]; fold (mem c_rbrace st); rewrite M1; reflexivity
                  |cbn [mem existsb]; fold (mem c_rbrack st); rewrite M2; reflexivity
                  |apply sf_char; [reflexivity|exact S1]].
    rewrite scan_cons. change c_rparen with (brace_pair c_lparen).
    rewrite step_open by (try assumption; discriminate). apply IHP; assumption.
  - rewrite rev_bracket, scan_cons, step_close by (try assumption; subst mk; reflexivity).
    rewrite scan_sq; [|assumption|assumption|cbn [mem existsb]; fold (mem c_rbrace st); rewrite M1; reflexivity|reflexivity].
    rewrite scan_cons. change c_rbrack with (brace_pair c_lbrack).
    rewrite step_open by (try assumption; try discriminate; subst mk; reflexivity). apply IHP; assumption.
  - rewrite rev_bracket, scan_cons, step_close by (try assumption; subst mk; reflexivity).
    rewrite scan_cu by (try assumption; reflexivity).
    rewrite scan_cons, step_curly_pop by assumption. apply IHP; assumption.
Qed.
End Scan.

(* ------------------------------------------------------------------ contexts *)
Lemma closing_not_quote : forall mk c, closing mk c = true -> is_quote c = false.
Proof.
  intros mk c H. unfold closing in H. apply orb_true_iff in H. destruct H as [H|H].
  - apply N.eqb_eq in H. subst c. reflexivity.
  - apply andb_true_iff in H. destruct H as [_ H]. apply orb_true_iff in H.
    destruct H as [H|H]; apply N.eqb_eq in H; subst c; reflexivity.
Qed.

Lemma past_auto_closed_exact : forall mk C R,
  right_ctx mk true C R -> past_auto_closed mk (C ++ R) = length C.
Proof.
  intros mk C R [HT HR]. unfold past_auto_closed.
  assert (SP : forall C', all (closing mk) C' -> span (is_close_brace mk) (C' ++ R) = length C').
  { intros C' HC. apply span_app_exact; [exact HC|]. destruct R as [|r R']; [exact I|exact (proj1 HR)]. }
  destruct HT as [HC|[q [C' [E [Q HC]]]]].
  - destruct C as [|c C'].
    + cbn [app length]. destruct R as [|r R']; [reflexivity|]. destruct HR as [H1 H2].
      rewrite (H2 eq_refl). change (r :: R') with ([] ++ r :: R'). apply (SP [] HC).
    + cbn [app]. rewrite (closing_not_quote mk c (HC c (or_introl eq_refl))).
      change (c :: C' ++ R) with ((c :: C') ++ R). apply SP. exact HC.
  - subst C. cbn [app length]. rewrite Q. f_equal. apply SP. exact HC.
Qed.

Lemma scan_stop : forall mk L, left_ctx L -> scan mk false (rev L) [] = (rev L, []) /\ safe (rev L).
Proof.
  intros mk L H. destruct H as [|L w W HS|L t OK].
  - split; [reflexivity|exact sf_nil].
  - destruct (ws_char_facts _ W) as [NA [NB PL]]. destruct (not_bracket_braces mk w NB) as [B1 B2].
    rewrite rev_app_distr. cbn [rev app]. split; [|apply sf_char; assumption].
    rewrite scan_cons. unfold scan_step. cbn [mem existsb andb orb].
    rewrite B1, B2, NA, orb_true_r. reflexivity.
  - pose proof (is_html_tag L t OK) as HT.
    destruct (rev (L ++ render_tag t)) as [|ch r] eqn:E; [discriminate|].
    assert (G : ch = c_gt).
    { unfold is_html in HT. destruct (ch =? c_gt) eqn:EG; [apply N.eqb_eq; exact EG|discriminate]. }
    subst ch. split; [|apply sf_gt].
    rewrite scan_cons. unfold scan_step. cbn [mem existsb andb orb]. rewrite HT.
    destruct mk; reflexivity.
Qed.

Lemma clamp_pos_inside : forall line n, (n <= length line)%nat -> clamp_pos line (Some (Z.of_nat n)) = n.
Proof. intros line n H. cbn [clamp_pos]. lia. Qed.

Lemma lstrip_keep : forall p s, (forall c r, s = c :: r -> p c = false) -> lstrip_by p s = s.
Proof. intros p [|c r] H; [reflexivity|]. cbn [lstrip_by]. rewrite (H c r eq_refl). reflexivity. Qed.

(* ------------------------------------------------------------------ the theorem *)
Theorem extract_roundtrip : forall (o : opts) (L A1 C R : str),
  let mk := is_markup o in
  let A := A1 ++ C in
  o_prefix o = [] ->
  abbr mk A -> A <> [] -> (forall c r, A = c :: r -> ~ dangling c) ->
  left_ctx L -> right_ctx mk (o_look o) C R ->
  extract_abbreviation (L ++ A ++ R) (Some (Z.of_nat (length L + length A1))) o =
  Some (mkExtracted A (Z.of_nat (length L)) (Z.of_nat (length L)) (Z.of_nat (length L + length A))).
Proof.
  intros o L A1 C R mk A HP HA HN HD HL HR.
  set (line := L ++ A ++ R). set (p0 := (length L + length A1)%nat). set (p := (length L + length A)%nat).
  assert (LA : length A = (length A1 + length C)%nat) by (unfold A; apply app_length).
  assert (LL : length line = (length L + length A + length R)%nat).
  { unfold line. rewrite !app_length. lia. }
  assert (E1 : clamp_pos line (Some (Z.of_nat p0)) = p0) by (apply clamp_pos_inside; unfold p0; lia).
  assert (E2 : skipn p0 line = C ++ R).
  { unfold line, A, p0. rewrite <- app_assoc, app_assoc, <- app_length. apply skipn_exact. }
  assert (E3 : (if o_look o then (p0 + past_auto_closed mk (C ++ R))%nat else p0) = p).
  { unfold p, p0. destruct (o_look o) eqn:LK.
    - rewrite (past_auto_closed_exact mk C R HR). lia.
    - cbn in HR. subst C. cbn [length] in LA. lia. }
  assert (E5 : rev (slice line 0 p) = rev A ++ rev L).
  { unfold slice, line, p. cbn [skipn]. rewrite Nat.sub_0_r, app_assoc, <- app_length, firstn_app.
    rewrite Nat.sub_diag, firstn_O, app_nil_r, firstn_all. apply rev_app_distr. }
  destruct (scan_stop mk L HL) as [E8 SL].
  assert (E9 : slice line (length L) p = A).
  { unfold slice, line, p. rewrite skipn_exact. replace (length L + length A - length L)%nat with (length A) by lia.
    rewrite firstn_app, Nat.sub_diag, firstn_O, app_nil_r. apply firstn_all. }
  assert (E10 : Nat.eqb (length L) p = false).
  { apply Nat.eqb_neq. unfold p. destruct A; [contradiction HN; reflexivity|cbn [length]; lia]. }
  assert (E11 : lstrip_by is_trim A = A).
  { apply lstrip_keep. intros c r E. apply not_dangling_trim. exact (HD c r E). }
  unfold extract_abbreviation. fold mk. fold line. fold p0. rewrite E1, E2, E3.
  unfold get_start_offset. rewrite HP. cbn [bslash_before]. rewrite E5.
  rewrite (scan_abbr mk A HA [] (rev L)) by (try reflexivity; exact SL).
  rewrite E8. cbn [Nat.add]. rewrite rev_length, E10, E9, E11.
  f_equal. unfold p. f_equal; lia.
Qed.
