(* Round trip of extract_abbreviation (C11): an abbreviation of the stated
   grammar, embedded after a start of line / whitespace / complete HTML tag, is
   extracted exactly when the caret is at its end. *)
From Coq Require Import ZArith List Bool Lia ZifyBool.
From Emmet Require Import lib.Base lib.ExtractLib model.Extract proofs.ExtractProofs proofs.ExtractHtml.
Import ListNotations.
Local Open Scope N_scope.

(* ------------------------------------------------------------------ characters *)
Lemma special_chars_ok :
  ex_special_chars = [35; 46; 42; 58; 36; 45; 95; 33; 64; 37; 94; 43; 62; 47].
Proof. reflexivity. Qed.

Lemma abbr_char_is_abbreviation : forall c, abbr_char c = true -> is_abbreviation c = true.
Proof. intros c H. unfold is_abbreviation. rewrite special_chars_ok. exact H. Qed.

Lemma abbr_char_not : forall c, abbr_char c = true ->
  plain c = true /\ is_bracket c = false.
Proof.
  intros c H. split.
  - apply (plain_by abbr_char); auto; vm_compute; reflexivity.
  - destruct (is_bracket c) eqn:B; [|reflexivity]. unfold is_bracket in B.
    repeat (apply orb_true_iff in B; destruct B as [B|B]); apply N.eqb_eq in B; subst c; vm_compute in H; discriminate.
Qed.

Lemma not_bracket : forall c, is_bracket c = false ->
  c <> c_lparen /\ c <> c_rparen /\ c <> c_lbrack /\ c <> c_rbrack /\ c <> c_lbrace /\ c <> c_rbrace.
Proof. intros c H. repeat split; intros ->; vm_compute in H; discriminate. Qed.

Lemma not_bracket_braces : forall mk c, is_bracket c = false ->
  is_close_brace mk c = false /\ is_open_brace mk c = false.
Proof.
  intros mk c H. destruct (not_bracket c H) as [H1 [H2 [H3 [H4 [H5 H6]]]]].
  apply N.eqb_neq in H1, H2, H3, H4, H5, H6. unfold is_close_brace, is_open_brace.
  rewrite H1, H2, H3, H4, H5, H6. destruct mk; split; reflexivity.
Qed.

Lemma ws_char_facts : forall w, ws_char w = true ->
  is_abbreviation w = false /\ is_bracket w = false /\ plain w = true.
Proof.
  intros w H. unfold ws_char, is_space, is_white_space in H.
  repeat (apply orb_true_iff in H; destruct H as [H|H]); apply N.eqb_eq in H; subst w;
    repeat split; vm_compute; reflexivity.
Qed.

Lemma not_dangling_trim : forall c, ~ dangling c -> is_trim c = false.
Proof.
  intros c H. unfold is_trim. rewrite (proj2 (proj2 (proj2 (proj2 (proj2 (proj2 (proj2 tables_ok))))))).
  unfold dangling in H. cbn [existsb In] in *.
  destruct (N.eqb_spec c c_star); [exfalso; apply H; auto 6|].
  destruct (N.eqb_spec c c_plus); [exfalso; apply H; auto 6|].
  destruct (N.eqb_spec c c_gt); [exfalso; apply H; auto 6|].
  destruct (N.eqb_spec c c_caret); [exfalso; apply H; auto 6|]. reflexivity.
Qed.

(* ------------------------------------------------------------------ quote structure *)
Lemma items_app : forall a b, items a -> items b -> items (a ++ b).
Proof.
  intros a b Ha Hb. induction Ha as [|c r P _ IH|q mid r Q NI _ IH].
  - exact Hb.
  - cbn [app]. apply it_char; assumption.
  - replace ((q :: mid ++ q :: r) ++ b) with (q :: mid ++ q :: (r ++ b))
      by (cbn [app]; rewrite <- app_assoc; reflexivity).
    apply it_quoted; assumption.
Qed.

Lemma items_rev : forall s, items s -> items (rev s).
Proof.
  intros s H. induction H as [|c r P _ IH|q mid r Q NI _ IH].
  - exact it_nil.
  - cbn [rev]. apply items_app; [exact IH|]. apply it_char; [exact P|exact it_nil].
  - replace (rev (q :: mid ++ q :: r)) with (rev r ++ (q :: rev mid ++ q :: []))
      by (cbn [rev]; rewrite rev_app_distr; cbn [rev app]; rewrite <- !app_assoc; reflexivity).
    apply items_app; [exact IH|]. apply it_quoted; [exact Q| |exact it_nil].
    intros I. apply NI. apply in_rev. exact I.
Qed.

Lemma items_safe : forall a b, items a -> safe b -> safe (a ++ b).
Proof.
  intros a b Ha Hb. induction Ha as [|c r P _ IH|q mid r Q NI _ IH].
  - exact Hb.
  - cbn [app]. apply sf_char; assumption.
  - replace ((q :: mid ++ q :: r) ++ b) with (q :: mid ++ q :: (r ++ b))
      by (cbn [app]; rewrite <- app_assoc; reflexivity).
    apply sf_quoted; assumption.
Qed.

Lemma items_bracketed : forall o C c, plain o = true -> plain c = true -> items C -> items (o :: C ++ [c]).
Proof.
  intros o C c Po Pc HC. apply it_char; [exact Po|]. apply items_app; [exact HC|].
  apply it_char; [exact Pc|exact it_nil].
Qed.

Lemma abbr_items : forall mk A, abbr mk A -> items A.
Proof.
  intros mk A H. induction H as [|P c _ IH HC|P G _ IHP _ IHG|P C _ _ IHP _ HI|P C _ _ IHP _ HI].
  - exact it_nil.
  - apply items_app; [exact IH|]. apply it_char; [exact (proj1 (abbr_char_not _ HC))|exact it_nil].
  - apply items_app; [exact IHP|]. apply items_bracketed; [reflexivity|reflexivity|exact IHG].
  - apply items_app; [exact IHP|]. apply items_bracketed; [reflexivity|reflexivity|exact HI].
  - apply items_app; [exact IHP|]. apply items_bracketed; [reflexivity|reflexivity|exact HI].
Qed.

(* ------------------------------------------------------------------ one step of the main loop *)
Lemma scan_cons : forall mk lb ch r st,
  scan mk lb (ch :: r) st =
  match scan_step mk lb (ch :: r) ch st with
  | SBreak st' => (ch :: r, st')
  | SNext st' => scan mk lb r st'
  end.
Proof. reflexivity. Qed.

Lemma rev_bracket : forall (P C rest : str) o c,
  rev (P ++ o :: C ++ [c]) ++ rest = c :: rev C ++ o :: rev P ++ rest.
Proof.
  intros. rewrite rev_app_distr. cbn [rev]. rewrite rev_app_distr. cbn [rev app].
  rewrite <- !app_assoc. reflexivity.
Qed.

Lemma rev_snoc : forall (P rest : str) c, rev (P ++ [c]) ++ rest = c :: rev P ++ rest.
Proof. intros. rewrite rev_app_distr. reflexivity. Qed.

Lemma paren_facts : forall mk,
  is_close_brace mk c_rparen = true /\ is_close_brace mk c_lparen = false /\ is_open_brace mk c_lparen = true.
Proof. intros [|]; repeat split; reflexivity. Qed.

Section Scan.
Variable mk : bool.
Let lb := false.

(* inside {...}: only curly braces count *)
Lemma step_curly_skip : forall rl ch st,
  mem c_rbrace st = true -> ch <> c_rbrace -> ch <> c_lbrace -> scan_step mk lb rl ch st = SNext st.
Proof.
  intros rl ch st M H1 H2. unfold scan_step. rewrite M.
  apply N.eqb_neq in H1, H2. rewrite H1, H2. reflexivity.
Qed.

Lemma step_curly_push : forall rl st,
  mem c_rbrace st = true -> scan_step mk lb rl c_rbrace st = SNext (c_rbrace :: st).
Proof. intros rl st M. unfold scan_step. rewrite M. reflexivity. Qed.

Lemma step_curly_pop : forall rl st,
  mk = true -> scan_step mk lb rl c_lbrace (c_rbrace :: st) = SNext st.
Proof. intros rl st M. unfold scan_step. rewrite M. reflexivity. Qed.

Lemma scan_cu : forall C, cu C -> forall st rest,
  mk = true -> mem c_rbrace st = true -> scan mk lb (rev C ++ rest) st = scan mk lb rest st.
Proof.
  intros C H. induction H as [|P c _ IH N1 N2|P C _ IHP _ IHC]; intros st rest MK M.
  - reflexivity.
  - rewrite rev_snoc, scan_cons, step_curly_skip by assumption. apply IH; assumption.
  - rewrite rev_bracket, scan_cons, step_curly_push by assumption.
    rewrite IHC by (try assumption; reflexivity).
    rewrite scan_cons, step_curly_pop by assumption. apply IHP; assumption.
Qed.

(* a closing bracket outside {...} is pushed *)
Lemma step_close : forall rl ch st,
  mem c_rbrace st = false -> is_close_brace mk ch = true -> scan_step mk lb rl ch st = SNext (ch :: st).
Proof. intros rl ch st M H. unfold scan_step. rewrite M, H. reflexivity. Qed.

(* the matching opening bracket pops it *)
Lemma step_open : forall rl ch st,
  mem c_rbrace st = false -> ch <> c_lbrace ->
  is_close_brace mk ch = false -> is_open_brace mk ch = true ->
  scan_step mk lb rl ch (brace_pair ch :: st) = SNext st.
Proof.
  intros rl ch st M N HC HO. unfold scan_step. rewrite HC, HO, N.eqb_refl.
  assert (E : mem c_rbrace (brace_pair ch :: st) = false).
  { cbn [mem existsb]. fold (mem c_rbrace st). rewrite M. unfold brace_pair.
    destruct (ch =? c_lbrack) eqn:E1; [reflexivity|]. destruct (ch =? c_lparen) eqn:E; [reflexivity|].
    (* ch is an opening bracket other than [ and ( : it is { *)
    exfalso. unfold is_open_brace in HO. rewrite E, E1 in HO. cbn [orb] in HO.
    apply andb_true_iff in HO. destruct HO as [_ HO]. apply N.eqb_eq in HO. contradiction. }
  rewrite E. reflexivity.
Qed.

(* inside [...]: everything but brackets is skipped *)
Lemma step_square_skip : forall rl ch st,
  mem c_rbrace st = false -> mem c_rbrack st = true -> is_bracket ch = false ->
  scan_step mk lb rl ch st = SNext st.
Proof.
  intros rl ch st M1 M2 B. unfold scan_step.
  destruct (not_bracket_braces mk ch B) as [H1 H2]. rewrite M1, M2, H1, H2. reflexivity.
Qed.

Lemma scan_sq : forall C, sq C -> forall st rest,
  mk = true -> mem c_rbrace st = false -> mem c_rbrack st = true ->
  scan mk lb (rev C ++ rest) st = scan mk lb rest st.
Proof.
  intros C H. induction H as [|P c _ IH B|P C _ IHP _ IHC|P C _ IHP _ IHC|P C _ IHP HC]; intros st rest MK M1 M2.
  - reflexivity.
  - rewrite rev_snoc, scan_cons, step_square_skip by assumption. apply IH; assumption.
  - rewrite rev_bracket, scan_cons, step_close by (try assumption; subst mk; reflexivity).
    rewrite IHC; [|assumption|cbn [mem existsb]; fold (mem c_rbrace st); rewrite M1; reflexivity
                  |cbn [mem existsb]; fold (mem c_rbrack st); rewrite M2; reflexivity].
    rewrite scan_cons. change c_rparen with (brace_pair c_lparen).
    rewrite step_open by (try assumption; try discriminate; subst mk; reflexivity). apply IHP; assumption.
  - rewrite rev_bracket, scan_cons, step_close by (try assumption; subst mk; reflexivity).
    rewrite IHC; [|assumption|cbn [mem existsb]; fold (mem c_rbrace st); rewrite M1; reflexivity
                  |reflexivity].
    rewrite scan_cons. change c_rbrack with (brace_pair c_lbrack).
    rewrite step_open by (try assumption; try discriminate; subst mk; reflexivity). apply IHP; assumption.
  - rewrite rev_bracket, scan_cons, step_close by (try assumption; subst mk; reflexivity).
    rewrite scan_cu by (try assumption; reflexivity).
    rewrite scan_cons, step_curly_pop by assumption. apply IHP; assumption.
Qed.

(* outside [...] and {...}: an abbreviation character is consumed unless an HTML tag ends there *)
Lemma step_top : forall r ch st,
  mem c_rbrace st = false -> mem c_rbrack st = false -> abbr_char ch = true -> safe r ->
  scan_step mk lb (ch :: r) ch st = SNext st.
Proof.
  intros r ch st M1 M2 HC HS. unfold scan_step.
  destruct (abbr_char_not _ HC) as [_ B]. destruct (not_bracket_braces mk ch B) as [H1 H2].
  rewrite M1, M2, H1, H2. cbn [andb orb]. unfold lb.
  rewrite (is_html_safe ch r HS), (abbr_char_is_abbreviation _ HC). reflexivity.
Qed.

Lemma scan_abbr : forall A, abbr mk A -> forall st rest,
  mem c_rbrace st = false -> mem c_rbrack st = false -> safe rest ->
  scan mk lb (rev A ++ rest) st = scan mk lb rest st.
Proof.
  intros A H.
  induction H as [|P c HP IH HC|P G HP IHP HG IHG|P C MK HP IHP HC HI|P C MK HP IHP HC HI]; intros st rest M1 M2 HS.
  - reflexivity.
  - assert (S1 : safe (rev P ++ rest)).
    { apply items_safe; [apply items_rev; exact (abbr_items _ _ HP)|exact HS]. }
    rewrite rev_snoc, scan_cons, step_top by assumption. apply IH; assumption.
  - assert (S1 : safe (rev P ++ rest)).
    { apply items_safe; [apply items_rev; exact (abbr_items _ _ HP)|exact HS]. }
    destruct (paren_facts mk) as [PF1 [PF2 PF3]].
    rewrite rev_bracket, scan_cons, step_close by assumption.
    rewrite IHG; [|cbn [mem existsb]; fold (mem c_rbrace st); rewrite M1; reflexivity
                  |cbn [mem existsb]; fold (mem c_rbrack st); rewrite M2; reflexivity
                  |apply sf_char; [reflexivity|exact S1]].
    rewrite scan_cons. change c_rparen with (brace_pair c_lparen).
    rewrite step_open by (try assumption; discriminate). apply IHP; assumption.
  - rewrite rev_bracket, scan_cons, step_close by (try assumption; subst mk; reflexivity).
    rewrite scan_sq; [|assumption|assumption|cbn [mem existsb]; fold (mem c_rbrace st); rewrite M1; reflexivity|reflexivity].
    rewrite scan_cons. change c_rbrack with (brace_pair c_lbrack).
    rewrite step_open by (try assumption; try discriminate; subst mk; reflexivity). apply IHP; assumption.
  - rewrite rev_bracket, scan_cons, step_close by (try assumption; subst mk; reflexivity).
    rewrite scan_cu by (try assumption; reflexivity).
    rewrite scan_cons, step_curly_pop by assumption. apply IHP; assumption.
Qed.
End Scan.

(* ------------------------------------------------------------------ contexts *)
Lemma closing_not_quote : forall mk c, closing mk c = true -> is_quote c = false.
Proof.
  intros mk c H. unfold closing in H. apply orb_true_iff in H. destruct H as [H|H].
  - apply N.eqb_eq in H. subst c. reflexivity.
  - apply andb_true_iff in H. destruct H as [_ H]. apply orb_true_iff in H.
    destruct H as [H|H]; apply N.eqb_eq in H; subst c; reflexivity.
Qed.

Lemma past_auto_closed_exact : forall mk C R,
  right_ctx mk true C R -> past_auto_closed mk (C ++ R) = length C.
Proof.
  intros mk C R [HT HR]. unfold past_auto_closed.
  assert (SP : forall C', all (closing mk) C' -> span (is_close_brace mk) (C' ++ R) = length C').
  { intros C' HC. apply span_app_exact; [exact HC|]. destruct R as [|r R']; [exact I|exact (proj1 HR)]. }
  destruct HT as [HC|[q [C' [E [Q HC]]]]].
  - destruct C as [|c C'].
    + cbn [app length]. destruct R as [|r R']; [reflexivity|]. destruct HR as [H1 H2].
      rewrite (H2 eq_refl). change (r :: R') with ([] ++ r :: R'). apply (SP [] HC).
    + cbn [app]. rewrite (closing_not_quote mk c (HC c (or_introl eq_refl))).
      change (c :: C' ++ R) with ((c :: C') ++ R). apply SP. exact HC.
  - subst C. cbn [app length]. rewrite Q. f_equal. apply SP. exact HC.
Qed.

Lemma scan_stop : forall mk L, left_ctx L -> scan mk false (rev L) [] = (rev L, []) /\ safe (rev L).
Proof.
  intros mk L H. destruct H as [|L w W HS|L t OK].
  - split; [reflexivity|exact sf_nil].
  - destruct (ws_char_facts _ W) as [NA [NB PL]]. destruct (not_bracket_braces mk w NB) as [B1 B2].
    rewrite rev_app_distr. cbn [rev app]. split; [|apply sf_char; assumption].
    rewrite scan_cons. unfold scan_step. cbn [mem existsb andb orb].
    rewrite B1, B2, NA, orb_true_r. reflexivity.
  - pose proof (is_html_tag L t OK) as HT.
    destruct (rev (L ++ render_tag t)) as [|ch r] eqn:E; [discriminate|].
    assert (G : ch = c_gt).
    { unfold is_html in HT. destruct (ch =? c_gt) eqn:EG; [apply N.eqb_eq; exact EG|discriminate]. }
    subst ch. split; [|apply sf_gt].
    rewrite scan_cons. unfold scan_step. cbn [mem existsb andb orb]. rewrite HT.
    destruct mk; reflexivity.
Qed.

Lemma clamp_pos_inside : forall line n, (n <= length line)%nat -> clamp_pos line (Some (Z.of_nat n)) = n.
Proof. intros line n H. cbn [clamp_pos]. lia. Qed.

Lemma lstrip_keep : forall p s, (forall c r, s = c :: r -> p c = false) -> lstrip_by p s = s.
Proof. intros p [|c r] H; [reflexivity|]. cbn [lstrip_by]. rewrite (H c r eq_refl). reflexivity. Qed.

(* ------------------------------------------------------------------ the theorem *)
Theorem extract_roundtrip : forall (o : opts) (L A1 C R : str),
  let mk := is_markup o in
  let A := A1 ++ C in
  o_prefix o = [] ->
  abbr mk A -> A <> [] -> (forall c r, A = c :: r -> ~ dangling c) ->
  left_ctx L -> right_ctx mk (o_look o) C R ->
  extract_abbreviation (L ++ A ++ R) (Some (Z.of_nat (length L + length A1))) o =
  Some (mkExtracted A (Z.of_nat (length L)) (Z.of_nat (length L)) (Z.of_nat (length L + length A))).
Proof.
  intros o L A1 C R mk A HP HA HN HD HL HR.
  set (line := L ++ A ++ R). set (p0 := (length L + length A1)%nat). set (p := (length L + length A)%nat).
  assert (LA : length A = (length A1 + length C)%nat) by (unfold A; apply app_length).
  assert (LL : length line = (length L + length A + length R)%nat).
  { unfold line. rewrite !app_length. lia. }
  assert (E1 : clamp_pos line (Some (Z.of_nat p0)) = p0) by (apply clamp_pos_inside; unfold p0; lia).
  assert (E2 : skipn p0 line = C ++ R).
  { unfold line, A, p0. rewrite <- app_assoc, app_assoc, <- app_length. apply skipn_exact. }
  assert (E3 : (if o_look o then (p0 + past_auto_closed mk (C ++ R))%nat else p0) = p).
  { unfold p, p0. destruct (o_look o) eqn:LK.
    - rewrite (past_auto_closed_exact mk C R HR). lia.
    - cbn in HR. subst C. cbn [length] in LA. lia. }
  assert (E5 : rev (slice line 0 p) = rev A ++ rev L).
  { unfold slice, line, p. cbn [skipn]. rewrite Nat.sub_0_r, app_assoc, <- app_length, firstn_app.
    rewrite Nat.sub_diag, firstn_O, app_nil_r, firstn_all. apply rev_app_distr. }
  destruct (scan_stop mk L HL) as [E8 SL].
  assert (E9 : slice line (length L) p = A).
  { unfold slice, line, p. rewrite skipn_exact. replace (length L + length A - length L)%nat with (length A) by lia.
    rewrite firstn_app, Nat.sub_diag, firstn_O, app_nil_r. apply firstn_all. }
  assert (E10 : Nat.eqb (length L) p = false).
  { apply Nat.eqb_neq. unfold p. destruct A; [contradiction HN; reflexivity|cbn [length]; lia]. }
  assert (E11 : lstrip_by is_trim A = A).
  { apply lstrip_keep. intros c r E. apply not_dangling_trim. exact (HD c r E). }
  unfold extract_abbreviation. fold mk. fold line. fold p0. rewrite E1, E2, E3.
  unfold get_start_offset. rewrite HP. cbn [bslash_before]. rewrite E5.
  rewrite (scan_abbr mk A HA [] (rev L)) by (try reflexivity; exact SL).
  rewrite E8. cbn [Nat.add]. rewrite rev_length, E10, E9, E11.
  f_equal. unfold p. f_equal; lia.
Qed.

(* ================================================================== *)
(* Round trip with a configured prefix                                  *)
(* ================================================================== *)
Lemma start_loop_skip : forall rp rl k, start_loop rp k rl = start_loop rp 0 (skipn k rl).
Proof.
  induction rl as [|c r IH]; intros k.
  - destruct k; reflexivity.
  - destruct k as [|k]; [reflexivity|]. cbn [start_loop skipn]. apply IH.
Qed.

(* find_open finds the nearest opener; if there is one in X it stays inside X *)
Lemma find_open_in : forall op (X B : str), In op X ->
  exists m X1 X2, find_open op (X ++ B) = Some (S m) /\ X = X1 ++ op :: X2 /\ length X1 = m.
Proof.
  induction X as [|x X IH]; intros B HI; [destruct HI|].
  cbn [app find_open]. destruct (x =? op) eqn:E.
  - apply N.eqb_eq in E. subst x. exists O, [], X. repeat split.
  - destruct HI as [HI|HI]; [subst x; rewrite N.eqb_refl in E; discriminate|].
    destruct (IH B HI) as [m [X1 [X2 [F [EX L]]]]]. rewrite F.
    exists (S m), (x :: X1), X2. repeat split; [rewrite EX; reflexivity|cbn [length]; f_equal; exact L].
Qed.


Section PrefixSearch.
Variable pf L1 : str.
Variable x : char.
Variable pf0 : str.
Hypothesis Hpf : pf = pf0 ++ [x].
Hypothesis Hx1 : x <> c_rbrack.
Hypothesis Hx2 : x <> c_rbrace.

Let B := rev pf ++ rev L1.

Lemma B_head : B = x :: rev pf0 ++ rev L1.
Proof. unfold B. rewrite Hpf, rev_app_distr. reflexivity. Qed.

Lemma start_at_prefix : start_loop (rev pf) 0 B = Some (length B).
Proof.
  rewrite B_head. cbn [start_loop consume_pair].
  apply N.eqb_neq in Hx1, Hx2. rewrite Hx1, Hx2.
  assert (E : consume_list (rev pf) (x :: rev pf0 ++ rev L1) = true).
  { rewrite Hpf, rev_app_distr. cbn [rev app consume_list starts_with]. rewrite N.eqb_refl. cbn [andb].
    clear. induction (rev pf0) as [|y l IH]; [reflexivity|]. cbn [app starts_with]. rewrite N.eqb_refl. exact IH. }
  rewrite E. reflexivity.
Qed.

Lemma start_loop_abbr : forall n A',
  (length A' <= n)%nat -> ~ In x A' ->
  opener_left c_rbrack c_lbrack A' -> opener_left c_rbrace c_lbrace A' ->
  start_loop (rev pf) 0 (rev A' ++ B) = Some (length B).
Proof.
  induction n as [|n IH]; intros A' Ln NX O1 O2.
  - destruct A'; [apply start_at_prefix|cbn in Ln; lia].
  - destruct A' as [|c0 A0'] using rev_ind; [apply start_at_prefix|]. clear IHA0'.
    rename A0' into A0. rename c0 into c.
    rewrite app_length in Ln. cbn [length] in Ln.
    rewrite rev_app_distr. cbn [rev app].
    (* prefixes of A0 inherit the hypotheses *)
    assert (SUB : forall X1 X2, A0 = X1 ++ X2 ->
              (length X1 <= n)%nat /\ ~ In x X1 /\
              opener_left c_rbrack c_lbrack X1 /\ opener_left c_rbrace c_lbrace X1).
    { intros X1 X2 E. subst A0. rewrite app_length in Ln. split; [lia|]. split.
      - intros I. apply NX. apply in_or_app. left. apply in_or_app. left. exact I.
      - split; intros P S E; [apply (O1 P (S ++ X2 ++ [c]))|apply (O2 P (S ++ X2 ++ [c]))];
          rewrite E, <- !app_assoc; reflexivity. }
    assert (JUMP : forall cl op, opener_left cl op (A0 ++ [c]) -> c = cl ->
              exists m X1 X2, find_open op (rev A0 ++ B) = Some (S m) /\ A0 = X1 ++ op :: X2 /\
                              skipn (S m) (rev A0 ++ B) = rev X1 ++ B).
    { intros cl op OO EC. subst c.
      assert (I : In op (rev A0)) by (apply in_rev; rewrite rev_involutive; apply (OO A0 []); reflexivity).
      destruct (find_open_in op (rev A0) B I) as [m [Y1 [Y2 [F [EY LY]]]]].
      exists m, (rev Y2), (rev Y1). split; [exact F|]. split.
      - rewrite <- (rev_involutive A0), EY, rev_app_distr. cbn [rev]. rewrite <- app_assoc. reflexivity.
      - rewrite EY, <- app_assoc. cbn [app]. rewrite rev_involutive.
        replace (S m) with (length Y1 + 1)%nat by lia. rewrite <- skipn_skipn', skipn_exact. reflexivity. }
    cbn [start_loop]. unfold consume_pair at 1.
    destruct (c =? c_rbrack) eqn:E1.
    { apply N.eqb_eq in E1. destruct (JUMP _ _ O1 E1) as [m [X1 [X2 [F [EA SK]]]]].
      rewrite F, start_loop_skip. change (skipn (S m) (rev A0 ++ B)) with (skipn (S m) (rev A0 ++ B)) in SK.
      destruct (SUB X1 (c_lbrack :: X2) EA) as [S1 [S2 [S3 S4]]].
      assert (SK' : skipn m (skipn 1 (c :: rev A0 ++ B)) = skipn (S m) (c :: rev A0 ++ B)) by (rewrite skipn_skipn'; reflexivity).
      (* after consuming c and S m more characters *)
      replace (skipn (S m) (rev A0 ++ B)) with (rev X1 ++ B) by (symmetry; exact SK).
      apply IH; assumption. }
    unfold consume_pair.
    destruct (c =? c_rbrace) eqn:E2.
    { apply N.eqb_eq in E2. destruct (JUMP _ _ O2 E2) as [m [X1 [X2 [F [EA SK]]]]].
      rewrite F, start_loop_skip.
      destruct (SUB X1 (c_lbrace :: X2) EA) as [S1 [S2 [S3 S4]]].
      replace (skipn (S m) (rev A0 ++ B)) with (rev X1 ++ B) by (symmetry; exact SK).
      apply IH; assumption. }
    assert (CL : consume_list (rev pf) (c :: rev A0 ++ B) = false).
    { rewrite Hpf, rev_app_distr. cbn [rev app consume_list starts_with].
      assert (x <> c) by (intros ->; apply NX; apply in_or_app; right; left; reflexivity).
      apply N.eqb_neq in H. rewrite H. reflexivity. }
    rewrite CL.
    destruct (SUB A0 [] (eq_sym (app_nil_r A0))) as [S1 [S2 [S3 S4]]]. apply IH; assumption.
Qed.
End PrefixSearch.

Lemma get_start_offset_ne : forall line p pf, pf <> [] ->
  get_start_offset line p pf = start_loop (rev pf) 0 (rev (firstn p line)).
Proof. intros line p [|y pf] N; [contradiction|reflexivity]. Qed.

Lemma match_ne : forall {A B} (l : list A) (a b : B), l <> [] -> match l with [] => a | _ :: _ => b end = b.
Proof. intros A B [|y l] a b N; [contradiction|reflexivity]. Qed.

Theorem extract_roundtrip_prefix : forall (o : opts) (L1 pf0 : str) (x : char) (A1 C R : str),
  let mk := is_markup o in
  let A := A1 ++ C in
  let pf := pf0 ++ [x] in
  o_prefix o = pf ->
  x <> c_rbrack -> x <> c_rbrace -> x <> c_bslash -> ~ In x A ->
  opener_left c_rbrack c_lbrack A -> opener_left c_rbrace c_lbrace A ->
  abbr mk A -> A <> [] -> (forall c r, A = c :: r -> ~ dangling c) ->
  right_ctx mk (o_look o) C R ->
  extract_abbreviation (L1 ++ pf ++ A ++ R) (Some (Z.of_nat (length L1 + length pf + length A1))) o =
  Some (mkExtracted A (Z.of_nat (length L1 + length pf)) (Z.of_nat (length L1))
                    (Z.of_nat (length L1 + length pf + length A))).
Proof.
  intros o L1 pf0 x A1 C R mk A pf HP X1 X2 X3 NX O1 O2 HA HN HD HR.
  set (L := L1 ++ pf).
  set (line := L1 ++ pf ++ A ++ R).
  assert (EL : line = L ++ A ++ R) by (unfold line, L; rewrite <- app_assoc; reflexivity).
  assert (LLen : length L = (length L1 + length pf)%nat) by (unfold L; apply app_length).
  set (p0 := (length L1 + length pf + length A1)%nat). set (p := (length L + length A)%nat).
  assert (LA : length A = (length A1 + length C)%nat) by (unfold A; apply app_length).
  assert (LL : length line = (length L + length A + length R)%nat).
  { rewrite EL, !app_length. lia. }
  assert (E1 : clamp_pos line (Some (Z.of_nat p0)) = p0) by (apply clamp_pos_inside; unfold p0; lia).
  assert (E2 : skipn p0 line = C ++ R).
  { rewrite EL. unfold A, p0. rewrite <- LLen, <- app_assoc, app_assoc, <- app_length. apply skipn_exact. }
  assert (E3 : (if o_look o then (p0 + past_auto_closed mk (C ++ R))%nat else p0) = p).
  { unfold p, p0. destruct (o_look o) eqn:LK.
    - rewrite (past_auto_closed_exact mk C R HR). lia.
    - cbn in HR. subst C. cbn [length] in LA. lia. }
  assert (F : firstn p line = L ++ A).
  { rewrite EL. unfold p. rewrite app_assoc, <- app_length, firstn_app.
    rewrite Nat.sub_diag, firstn_O, app_nil_r. apply firstn_all. }
  assert (E4 : get_start_offset line p pf = Some (length L)).
  { rewrite get_start_offset_ne by (unfold pf; destruct pf0; discriminate).
    rewrite F. unfold L. rewrite !rev_app_distr.
    rewrite (start_loop_abbr pf L1 x pf0 eq_refl X1 X2 (length A) A (le_n _) NX O1 O2).
    rewrite !app_length, !rev_length. f_equal. apply Nat.add_comm. }
  assert (E5 : rev (slice line (length L) p) = rev A ++ []).
  { rewrite app_nil_r. f_equal. rewrite EL. unfold slice, p. rewrite skipn_exact.
    replace (length L + length A - length L)%nat with (length A) by lia.
    rewrite firstn_app, Nat.sub_diag, firstn_O, app_nil_r. apply firstn_all. }
  assert (E6 : bslash_before line (length L) = false).
  { rewrite LLen. unfold pf at 1. rewrite app_length. cbn [length].
    replace (length L1 + (length pf0 + 1))%nat with (S (length (L1 ++ pf0))) by (rewrite app_length; lia).
    cbn [bslash_before]. unfold line, pf. rewrite <- app_assoc, app_assoc.
    rewrite nth_error_app2 by lia. rewrite Nat.sub_diag. cbn [app nth_error].
    apply N.eqb_neq. exact X3. }
  assert (E9 : slice line (length L) p = A).
  { rewrite <- (rev_involutive (slice line (length L) p)), E5, app_nil_r. apply rev_involutive. }
  assert (E10 : Nat.eqb (length L + 0) p = false).
  { apply Nat.eqb_neq. unfold p. destruct A; [contradiction HN; reflexivity|cbn [length]; lia]. }
  assert (E11 : lstrip_by is_trim A = A).
  { apply lstrip_keep. intros c r E. apply not_dangling_trim. exact (HD c r E). }
  unfold extract_abbreviation. fold mk. fold line. fold p0. rewrite E1, E2, E3, HP, E4, E5, E6.
  rewrite (scan_abbr mk A HA [] []) by (try reflexivity; exact sf_nil).
  cbn [scan length]. rewrite E10. rewrite Nat.add_0_r, E9, E11.
  rewrite match_ne by (unfold pf; destruct pf0; discriminate).
  f_equal. unfold p. f_equal; lia.
Qed.

(* ------------------------------------------------------------------ building grammar derivations *)
Lemma abbr_app_chars : forall mk P s, abbr mk P -> forallb abbr_char s = true -> abbr mk (P ++ s).
Proof.
  intros mk P s. revert P. induction s as [|c s IH]; intros P HP H.
  - rewrite app_nil_r. exact HP.
  - cbn [forallb] in H. apply andb_true_iff in H. destruct H as [H1 H2].
    replace (P ++ c :: s) with ((P ++ [c]) ++ s) by (rewrite <- app_assoc; reflexivity).
    apply IH; [apply ab_char; assumption|exact H2].
Qed.

Lemma sq_chars : forall s, forallb (fun c => negb (is_bracket c)) s = true -> sq s.
Proof.
  induction s as [|c s IH] using rev_ind; intros H; [exact sq_nil|].
  rewrite forallb_app in H. apply andb_true_iff in H. destruct H as [H1 H2].
  cbn [forallb] in H2. rewrite andb_true_r in H2. apply negb_true_iff in H2.
  apply sq_char; [apply IH; exact H1|exact H2].
Qed.

Lemma cu_chars : forall s, forallb (fun c => negb (c =? c_lbrace) && negb (c =? c_rbrace)) s = true -> cu s.
Proof.
  induction s as [|c s IH] using rev_ind; intros H; [exact cu_nil|].
  rewrite forallb_app in H. apply andb_true_iff in H. destruct H as [H1 H2].
  cbn [forallb] in H2. rewrite andb_true_r in H2. apply andb_true_iff in H2. destruct H2 as [H2 H3].
  apply negb_true_iff, N.eqb_neq in H2, H3. apply cu_char; [apply IH; exact H1|exact H2|exact H3].
Qed.

Lemma items_plain : forall s, forallb plain s = true -> items s.
Proof.
  induction s as [|c s IH]; intros H; [exact it_nil|].
  cbn [forallb] in H. apply andb_true_iff in H. destruct H as [H1 H2]. apply it_char; [exact H1|exact (IH H2)].
Qed.
