(* C02, numbering half: the value a `$` run prints, its zero padding, and the
   tokens of the numbering forms `$...$`, `$@M`, `$@-`, `$@-M`. *)
From Emmet Require Import lib.Base model.MarkupTokenizer model.MarkupParser model.MarkupConvert.
Local Open Scope nat_scope.

(* ---------------------------------------------------------------- spec *)
(* copy [i] (1-based) of [n], numbering that starts at [start]:
   counting up, copy i gets start+i-1; counting down, the LAST copy gets start *)
Definition counter_value (reverse : bool) (start : N) (i n : N) : Z :=
  if reverse then (Z.of_N start + Z.of_N n - Z.of_N i)%Z
  else (Z.of_N start + Z.of_N i - 1)%Z.

(* the counter in force: that of the innermost active repeater (head of the stack),
   whose 0-based [rvalue] is copy rvalue+1 of rcount; 1 when no repeater is active *)
Definition counter_in_force (reverse : bool) (start : N) (reps : list rep) : Z :=
  match reps with
  | [] => 1%Z
  | r :: _ => counter_value reverse start (rvalue r + 1) (rcount r)
  end.

(* zero padding to [w] characters *)
Definition pad (w : nat) (s : str) : str := repeat c_0 (w - length s) ++ s.

(* ---------------------------------------------------------------- padding *)
Lemma repeat_str_one (c : char) n : repeat_str [c] n = repeat c n.
Proof. induction n as [|n IH]; [reflexivity|]. cbn [repeat_str repeat app]. rewrite IH. reflexivity. Qed.

Lemma zero_pad_pad size s : zero_pad size s = pad (N.to_nat size) s.
Proof. unfold zero_pad, pad. rewrite repeat_str_one. reflexivity. Qed.

Lemma pad_length w s : length (pad w s) = Nat.max w (length s).
Proof. unfold pad. rewrite app_length, repeat_length. lia. Qed.

Lemma pad_wide w s : w <= length s -> pad w s = s.
Proof. intros H. unfold pad. replace (w - length s) with 0 by lia. reflexivity. Qed.

Lemma pad_suffix w s : exists z, pad w s = z ++ s /\ Forall (fun c => c = c_0) z /\ length z = w - length s.
Proof.
  exists (repeat c_0 (w - length s)). split; [reflexivity|]. split; [|apply repeat_length].
  apply Forall_forall. intros x Hx. apply repeat_spec in Hx. exact Hx.
Qed.

(* ---------------------------------------------------------------- value of a numbering token *)
Lemma counter_in_force_model reverse base r rs :
  counter_in_force reverse base (r :: rs) =
  if reverse then (Z.of_N base + Z.of_N (rcount r) - Z.of_N (rvalue r) - 1)%Z
  else (Z.of_N base + Z.of_N (rvalue r))%Z.
Proof. unfold counter_in_force, counter_value. destruct reverse; lia. Qed.

(* stringify.RepeaterNumber without the `^` modifier: the counter in force, zero-padded to the
   width of the `$` run; the state is not touched *)
Theorem numbering_value env t size reverse base st :
  tk t = TRepeaterNumber size reverse base 0 ->
  stringify env t st =
    Ok (pad (N.to_nat size) (str_of_Z (counter_in_force reverse base (cs_repeaters st))), st).
Proof.
  intros Ht. unfold stringify. rewrite Ht. cbn [N.ltb N.compare].
  rewrite zero_pad_pad. f_equal. f_equal. f_equal. f_equal.
  destruct (cs_repeaters st) as [|r rs]; [reflexivity|].
  rewrite counter_in_force_model. reflexivity.
Qed.

(* ---------------------------------------------------------------- decimal digits *)
(* str_of_N is the decimal numeral: reading it back with int() gives the number *)
Lemma digit_value_ascii d : (d < 10)%N -> digit_value (c_0 + d)%N = Some d.
Proof.
  intros H. assert (Hc : In d [0;1;2;3;4;5;6;7;8;9]%N).
  { cbn [In]. lia. }
  cbn [In] in Hc. repeat (destruct Hc as [<-|Hc]; [vm_compute; reflexivity|]). destruct Hc.
Qed.

Lemma int_of_digits_acc_app a s1 s2 :
  int_of_digits_acc a (s1 ++ s2) =
  match int_of_digits_acc a s1 with Some b => int_of_digits_acc b s2 | None => None end.
Proof.
  revert a. induction s1 as [|c s1 IH]; intros a; cbn [app int_of_digits_acc]; [reflexivity|].
  destruct (digit_value c); [apply IH|reflexivity].
Qed.

(* value of a digit string read after an accumulator *)
Lemma digits_fuel_value : forall fuel n acc a,
  (n < 2 ^ N.of_nat fuel)%N ->
  (0 < fuel)%nat ->
  int_of_digits_acc a (digits_fuel fuel n acc) =
  int_of_digits_acc (a * 10 ^ N.of_nat (length (digits_fuel fuel n acc) - length acc) + n) acc
  /\ length acc < length (digits_fuel fuel n acc).
Proof.
  induction fuel as [|f IH]; intros n acc a Hn Hf; [lia|].
  cbn [digits_fuel].
  destruct (n <? 10)%N eqn:E.
  - apply N.ltb_lt in E. rewrite N.mod_small by exact E.
    cbn [length]. replace (S (length acc) - length acc) with 1 by lia.
    cbn [int_of_digits_acc]. rewrite digit_value_ascii by exact E.
    split; [|lia]. f_equal.
  - apply N.ltb_ge in E.
    destruct f as [|f'].
    { change (N.of_nat 1) with 1%N in Hn. change (2 ^ 1)%N with 2%N in Hn. lia. }
    assert (Hdiv : (n / 10 < 2 ^ N.of_nat (S f'))%N).
    { apply N.div_lt_upper_bound; [lia|].
      rewrite Nat2N.inj_succ, N.pow_succ_r' in Hn. lia. }
    specialize (IH (n / 10)%N ((c_0 + n mod 10)%N :: acc) a Hdiv ltac:(lia)).
    destruct IH as [IH Hlen]. split; [|cbn [length] in Hlen; lia].
    rewrite IH. cbn [length int_of_digits_acc].
    rewrite digit_value_ascii by (apply N.mod_lt; lia).
    f_equal.
    set (L := length (digits_fuel (S f') (n / 10) ((c_0 + n mod 10)%N :: acc))) in *.
    cbn [length] in Hlen.
    replace (L - length acc) with (S (L - S (length acc))) by lia.
    rewrite Nat2N.inj_succ, N.pow_succ_r'.
    pose proof (N.div_mod n 10 ltac:(lia)) as Hdm. lia.
Qed.

Lemma str_of_N_fuel n : (n < 2 ^ N.of_nat (S (N.to_nat (N.log2 n))))%N.
Proof.
  rewrite Nat2N.inj_succ, N2Nat.id.
  destruct n as [|p]; [reflexivity|].
  apply N.log2_spec. reflexivity.
Qed.

Theorem str_of_N_decimal n : int_of_str (str_of_N n) = Some n.
Proof.
  unfold str_of_N.
  pose proof (digits_fuel_value (S (N.to_nat (N.log2 n))) n [] 0%N (str_of_N_fuel n) ltac:(lia)) as [H Hl].
  unfold int_of_str.
  destruct (digits_fuel (S (N.to_nat (N.log2 n))) n []) as [|c s] eqn:E; [cbn [length] in Hl; lia|].
  rewrite H. cbn [int_of_digits_acc]. f_equal; lia.
Qed.

(* ---------------------------------------------------------------- tokens of the numbering forms *)
Definition dollars (n : nat) : str := repeat c_dollar n.

(* the modifier written after the `$` run *)
Definition modifier (at_sign reverse : bool) (digits : str) : str :=
  if at_sign then c_at :: (if reverse then [c_dash] else []) ++ digits else [].

Definition all_digits (s : str) : Prop := Forall (fun c => is_number c = true) s.

Lemma span_dollars n rest :
  peek_is c_dollar rest = false -> span (N.eqb c_dollar) (dollars n ++ rest) = n.
Proof.
  intros H. induction n as [|n IH]; cbn [dollars repeat app span].
  - destruct rest as [|c r]; [reflexivity|]. cbn [peek_is] in H. cbn [span].
    rewrite N.eqb_sym, H. reflexivity.
  - change (c_dollar =? c_dollar)%N with true. cbn iota. f_equal. exact IH.
Qed.

Lemma skipn_dollars n rest : skipn n (dollars n ++ rest) = rest.
Proof.
  unfold dollars. rewrite skipn_app, skipn_all2 by (rewrite repeat_length; lia).
  rewrite repeat_length, Nat.sub_diag. reflexivity.
Qed.

Lemma span_digits ds rest :
  all_digits ds -> peek_p is_number rest = false -> span is_number (ds ++ rest) = length ds.
Proof.
  intros H Hr. induction H as [|c ds Hc _ IH]; cbn [app span length].
  - destruct rest as [|c r]; [reflexivity|]. cbn [peek_p] in Hr. cbn [span]. rewrite Hr. reflexivity.
  - rewrite Hc. f_equal. exact IH.
Qed.

Lemma is_number_not_special c :
  is_number c = true -> (c =? c_dash)%N = false /\ (c =? c_caret)%N = false /\ (c =? c_dollar)%N = false.
Proof.
  intros H. repeat split; apply N.eqb_neq; intros ->; vm_compute in H; discriminate.
Qed.

(* what may follow a numbering form without being read as part of it *)
Definition ends_form (at_sign reverse : bool) (digits rest : str) : Prop :=
  peek_p is_number rest = false /\
  (at_sign = false -> peek_is c_dollar rest = false /\ peek_is c_at rest = false) /\
  (at_sign = true -> digits = [] -> reverse = false -> peek_is c_caret rest = false /\ peek_is c_dash rest = false) /\
  (at_sign = false -> reverse = false /\ digits = []).

(* repeater_number on `$`*n modifier: (size, reverse, base), base = int(digits), 1 when no digits are written *)
Theorem repeater_number_form n at_sign reverse digits rest :
  0 < n -> all_digits digits -> ends_form at_sign reverse digits rest ->
  repeater_number (dollars n ++ modifier at_sign reverse digits ++ rest) =
  CTok (TRepeaterNumber (N.of_nat n) reverse
          (match digits with [] => 1%N | _ => opt_default 1%N (int_of_str digits) end) 0)
       (n + length (modifier at_sign reverse digits)).
Proof.
  intros Hn Hd [Hrest [Hplain [Hbare Hno]]].
  unfold repeater_number.
  assert (Hsp : span (N.eqb c_dollar) (dollars n ++ modifier at_sign reverse digits ++ rest) = n).
  { apply span_dollars. unfold modifier. destruct at_sign; [reflexivity|].
    cbn [app]. apply Hplain. reflexivity. }
  rewrite Hsp. destruct n as [|n']; [lia|]. rewrite skipn_dollars.
  destruct at_sign.
  - cbn [modifier app peek_is]. change (c_at =? c_at)%N with true. cbn iota. cbn [tl].
    assert (Hpar : span (N.eqb c_caret) ((if reverse then [c_dash] else []) ++ digits ++ rest) = 0).
    { destruct reverse; [reflexivity|]. cbn [app].
      destruct digits as [|d ds].
      - cbn [app]. destruct rest as [|c r]; [reflexivity|]. cbn [span].
        destruct (Hbare eq_refl eq_refl eq_refl) as [Hc _]. cbn [peek_is] in Hc. rewrite N.eqb_sym, Hc. reflexivity.
      - cbn [app span]. inversion Hd as [|x y Hx _]; subst.
        destruct (is_number_not_special d Hx) as [_ [Hc _]]. rewrite N.eqb_sym, Hc. reflexivity. }
    rewrite <- app_assoc. rewrite Hpar. cbn [skipn].
    destruct reverse.
    + cbn [app peek_is]. change (c_dash =? c_dash)%N with true. cbn iota. cbn [tl].
      rewrite (span_digits digits rest Hd Hrest).
      rewrite firstn_app, firstn_all, Nat.sub_diag. cbn [firstn]. rewrite app_nil_r.
      cbn [length app].
      destruct digits as [|d ds]; cbn [length N.of_nat]; f_equal; lia.
    + cbn [app].
      assert (Hdash : peek_is c_dash (digits ++ rest) = false).
      { destruct digits as [|d ds].
        - cbn [app]. apply (Hbare eq_refl eq_refl eq_refl).
        - cbn [app peek_is]. inversion Hd as [|x y Hx _]; subst.
          apply (is_number_not_special d Hx). }
      rewrite Hdash. rewrite (span_digits digits rest Hd Hrest).
      rewrite firstn_app, firstn_all, Nat.sub_diag. cbn [firstn]. rewrite app_nil_r.
      cbn [length app].
      destruct digits as [|d ds]; cbn [length N.of_nat]; f_equal; lia.
  - destruct (Hno eq_refl) as [-> ->]. cbn [modifier app].
    destruct (Hplain eq_refl) as [_ Hat]. rewrite Hat. cbn [length]. f_equal. lia.
Qed.

(* the base of `@M` written as the decimal numeral of M is M *)
Corollary repeater_number_base n reverse m rest :
  0 < n -> all_digits (str_of_N m) -> peek_p is_number rest = false ->
  repeater_number (dollars n ++ modifier true reverse (str_of_N m) ++ rest) =
  CTok (TRepeaterNumber (N.of_nat n) reverse m 0) (n + length (modifier true reverse (str_of_N m))).
Proof.
  intros Hn Hd Hr.
  rewrite repeater_number_form; try assumption.
  - rewrite str_of_N_decimal. cbn [opt_default].
    destruct (str_of_N m) eqn:E; [|reflexivity].
    pose proof (str_of_N_decimal m) as H. rewrite E in H. discriminate.
  - split; [exact Hr|]. split; [discriminate|]. split; [|discriminate].
    intros _ E. pose proof (str_of_N_decimal m) as H. rewrite E in H. discriminate.
Qed.

(* ---------------------------------------------------------------- the whole tokenizer on a numbering form *)
Lemma toks_skip_all : forall s skip ctx prev pos, length s <= skip -> toks skip ctx prev pos s = TOk [].
Proof.
  induction s as [|c r IH]; intros skip ctx prev pos H; [reflexivity|].
  destruct skip as [|k]; [cbn [length] in H; lia|]. cbn [toks]. apply IH. cbn [length] in H. lia.
Qed.

Definition form_base (digits : str) : N :=
  match digits with [] => 1%N | _ => opt_default 1%N (int_of_str digits) end.

(* every numbering form, written alone, is ONE RepeaterNumber token spanning it, with the written
   width, direction and start value *)
Theorem tokenize_numbering_form n at_sign reverse digits :
  0 < n -> all_digits digits -> (at_sign = false -> reverse = false /\ digits = []) ->
  tokenize (dollars n ++ modifier at_sign reverse digits) =
  TOk [mkTok (TRepeaterNumber (N.of_nat n) reverse (form_base digits) 0)
             0 (n + length (modifier at_sign reverse digits))].
Proof.
  intros Hn Hd Hno.
  pose proof (repeater_number_form n at_sign reverse digits [] Hn Hd) as Hrn.
  rewrite app_nil_r in Hrn.
  assert (He : ends_form at_sign reverse digits []).
  { repeat split; try reflexivity; apply Hno; assumption. }
  specialize (Hrn He).
  unfold tokenize.
  destruct n as [|n']; [lia|].
  remember (dollars (S n') ++ modifier at_sign reverse digits) as s eqn:Es.
  assert (Hs : exists r, s = c_dollar :: r /\ peek_is c_hash r = false).
  { subst s. cbn [dollars repeat app]. eexists. split; [reflexivity|].
    destruct n' as [|n'']; cbn [repeat app].
    - unfold modifier. destruct at_sign; reflexivity.
    - reflexivity. }
  destruct Hs as [r [Hs Hhash]].
  assert (Hlen : length s = S n' + length (modifier at_sign reverse digits)).
  { subst s. rewrite app_length. unfold dollars. rewrite repeat_length. reflexivity. }
  rewrite Hs. cbn [toks].
  assert (Hcons : consume ctx0 None (c_dollar :: r) =
                  (CTok (TRepeaterNumber (N.of_nat (S n')) reverse (form_base digits) 0)
                        (S n' + length (modifier at_sign reverse digits)), ctx0)).
  { unfold consume.
    assert (Hf : field ctx0 (c_dollar :: r) = CNone) by reflexivity.
    rewrite Hf. cbn [orelse].
    assert (Hp : repeater_placeholder (c_dollar :: r) = CNone).
    { unfold repeater_placeholder. destruct r as [|c2 r2]; [reflexivity|].
      cbn [peek_is] in Hhash. change (c_dollar =? c_dollar)%N with true. cbn [andb]. rewrite Hhash. reflexivity. }
    rewrite Hp. cbn [orelse]. rewrite <- Hs, Hrn. cbn [orelse]. reflexivity. }
  rewrite Hcons.
  rewrite toks_skip_all.
  - reflexivity.
  - rewrite Hs in Hlen. cbn [length] in Hlen. cbn [pred Nat.add]. lia.
Qed.

(* instances: `$$$` is width 3 counting up from 1; `$$@-` counts down to 1; `$@-12` counts down to 12 *)
Example tokenize_numbering_examples :
  tokenize [36;36;36]%N = TOk [mkTok (TRepeaterNumber 3 false 1 0) 0 3] /\
  tokenize [36;36;64;45]%N = TOk [mkTok (TRepeaterNumber 2 true 1 0) 0 4] /\
  tokenize [36;64;45;49;50]%N = TOk [mkTok (TRepeaterNumber 1 true 12 0) 0 5] /\
  tokenize [36;64;51]%N = TOk [mkTok (TRepeaterNumber 1 false 3 0) 0 3].
Proof. repeat split; vm_compute; reflexivity. Qed.
