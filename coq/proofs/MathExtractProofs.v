(* C19, extract clause: Math.extract returns None or a well-formed range. *)
From Coq Require Import ZArith List Bool Lia ZifyBool.
From Emmet Require Import lib.Base model.Math proofs.MathSpec.
Local Open Scope nat_scope.

(* ------------------------------------------------------------------ small facts *)
Lemma Forall_firstn {A} (P : A -> Prop) n (l : list A) : Forall P l -> Forall P (firstn n l).
Proof.
  intros H. revert n. induction H as [|x l Hx Hl IH]; intros [|n]; cbn; constructor; auto.
Qed.

Lemma Forall_skipn {A} (P : A -> Prop) n (l : list A) : Forall P l -> Forall P (skipn n l).
Proof.
  intros H. revert n. induction H as [|x l Hx Hl IH]; intros [|n]; cbn; try constructor; auto.
Qed.

Lemma skipn_skipn' {A} a : forall b (l : list A), skipn a (skipn b l) = skipn (b + a) l.
Proof.
  intros b. induction b as [|b IH]; intros l; cbn [skipn Nat.add]; [reflexivity|].
  destruct l as [|x l]; [destruct a; reflexivity|]. apply IH.
Qed.

(* characters taken by number(): decimal digits and dots *)
Definition numch (c : char) : bool := is_number c || (c =? c_dot)%N.

Lemma is_number_not_lparen c : is_number c = true -> (c =? c_lparen)%N = false.
Proof.
  intros H. destruct (c =? c_lparen)%N eqn:E; [|reflexivity].
  apply N.eqb_eq in E. subst c. vm_compute in H. discriminate.
Qed.
Lemma is_number_not_rparen c : is_number c = true -> (c =? c_rparen)%N = false.
Proof.
  intros H. destruct (c =? c_rparen)%N eqn:E; [|reflexivity].
  apply N.eqb_eq in E. subst c. vm_compute in H. discriminate.
Qed.

Lemma numch_not_paren c : numch c = true -> (c =? c_lparen)%N = false /\ (c =? c_rparen)%N = false.
Proof.
  unfold numch. intros H. apply orb_true_iff in H. destruct H as [H|H].
  - split; [apply is_number_not_lparen|apply is_number_not_rparen]; exact H.
  - apply N.eqb_eq in H. subst c. split; reflexivity.
Qed.

Lemma numch_math c : numch c = true -> math_char c = true.
Proof.
  unfold numch, math_char. intros H. apply orb_true_iff in H. destruct H as [H|H]; rewrite H; cbn.
  - reflexivity.
  - rewrite orb_true_r. reflexivity.
Qed.

Lemma number_tail_le r : forall dot, number_tail r dot <= length r.
Proof.
  induction r as [|c r IH]; intros dot; cbn [number_tail length]; [lia|].
  destruct (c =? c_dot)%N.
  - destruct dot; [lia|]. specialize (IH true). lia.
  - destruct (is_number c); [specialize (IH dot)|]; lia.
Qed.

Lemma number_tail_numch r : forall dot, Forall (fun c => numch c = true) (firstn (number_tail r dot) r).
Proof.
  induction r as [|c r IH]; intros dot; cbn [number_tail]; [constructor|].
  destruct (c =? c_dot)%N eqn:Ed.
  - destruct dot; [constructor|]. cbn [firstn]. constructor; [|apply IH].
    unfold numch. rewrite Ed. apply orb_true_r.
  - destruct (is_number c) eqn:En; [|constructor]. cbn [firstn]. constructor; [|apply IH].
    unfold numch. rewrite En. reflexivity.
Qed.

(* ------------------------------------------------------------------ the backward loop *)
(* parenthesis count as the backward scan keeps it: ')' opens, '(' closes *)
Fixpoint back_depth (e : N) (r : str) : option N :=
  match r with
  | [] => Some e
  | c :: r' =>
      if (c =? c_rparen)%N then back_depth (e + 1) r'
      else if (c =? c_lparen)%N then (if (e =? 0)%N then None else back_depth (e - 1) r')
      else back_depth e r'
  end.

Lemma back_loop_spec ws : forall r skip braces nleft b,
  back_loop skip ws r braces = (nleft, b) ->
  Forall (fun c => numch c = true) (firstn skip r) -> skip <= length r ->
  nleft <= length r - skip /\
  Forall (fun c => math_char c = true) (firstn (length r - nleft) r) /\
  back_depth braces (firstn (length r - nleft) r) = Some b.
Proof.
  induction r as [|c r IH]; intros skip braces nleft b H Hnum Hlen.
  - cbn in H. inversion H; subst. cbn. repeat split; [lia|constructor].
  - cbn [length] in *.
    assert (GO : forall k br, back_loop k ws r br = (nleft, b) ->
              Forall (fun c => numch c = true) (firstn k r) -> k <= length r ->
              skip <= S k ->
              math_char c = true ->
              (forall t, back_depth braces (c :: t) = back_depth br t) ->
              nleft <= S (length r) - skip /\
              Forall (fun c => math_char c = true) (firstn (S (length r) - nleft) (c :: r)) /\
              back_depth braces (firstn (S (length r) - nleft) (c :: r)) = Some b).
    { intros k br Hk Hnk Hlk Hsk Hm Hd.
      destruct (IH k br nleft b Hk Hnk Hlk) as (L1 & L2 & L3).
      replace (S (length r) - nleft) with (S (length r - nleft)) by lia.
      cbn [firstn]. split; [lia|]. split; [constructor; assumption|].
      rewrite Hd. exact L3. }
    cbn [back_loop] in H.
    destruct skip as [|k].
    + destruct (is_number c) eqn:En.
      { apply (GO _ _ H).
        - apply number_tail_numch.
        - apply number_tail_le.
        - lia.
        - apply numch_math. unfold numch. rewrite En. reflexivity.
        - intros t. cbn [back_depth]. rewrite (is_number_not_rparen _ En), (is_number_not_lparen _ En). reflexivity. }
      destruct (c =? c_rparen)%N eqn:Er.
      { apply (GO _ _ H); [constructor|lia|lia| |].
        - unfold math_char. rewrite Er. rewrite !orb_true_r. reflexivity.
        - intros t. cbn [back_depth]. rewrite Er. reflexivity. }
      destruct (c =? c_lparen)%N eqn:El.
      { destruct (braces =? 0)%N eqn:Eb.
        - inversion H; subst. cbn [length]. replace (S (length r) - S (length r)) with 0 by lia.
          cbn. repeat split; [lia|constructor].
        - apply (GO _ _ H); [constructor|lia|lia| |].
          + unfold math_char. rewrite El. rewrite !orb_true_r. reflexivity.
          + intros t. cbn [back_depth]. rewrite Er, El, Eb. reflexivity. }
      destruct (negb ((ws && is_space c) || is_sign c || is_operator c)) eqn:Eo.
      { inversion H; subst. cbn [length]. replace (S (length r) - S (length r)) with 0 by lia.
        cbn. repeat split; [lia|constructor]. }
      apply (GO _ _ H); [constructor|lia|lia| |].
      * apply negb_false_iff in Eo. unfold math_char.
        apply orb_true_iff in Eo. destruct Eo as [Eo|Eo].
        -- apply orb_true_iff in Eo. destruct Eo as [Eo|Eo].
           ++ apply andb_true_iff in Eo. destruct Eo as [_ Eo]. rewrite Eo. rewrite !orb_true_r. reflexivity.
           ++ assert (is_operator c = true) as ->.
              { unfold is_sign, is_positive_sign, is_negative_sign in Eo. unfold is_operator.
                apply orb_true_iff in Eo. destruct Eo as [Eo|Eo]; rewrite Eo; rewrite ?orb_true_r; reflexivity. }
              rewrite !orb_true_r. reflexivity.
        -- rewrite Eo. rewrite !orb_true_r. reflexivity.
      * intros t. cbn [back_depth]. rewrite Er, El. reflexivity.
    + cbn [firstn] in Hnum. inversion Hnum as [|x l Hc Hrest]; subst.
      destruct (numch_not_paren _ Hc) as [Hl Hr].
      apply (GO _ _ H); [assumption|lia|lia| |].
      * apply numch_math; assumption.
      * intros t. cbn [back_depth]. rewrite Hr, Hl. reflexivity.
Qed.

(* backward count and forward balance agree *)
Lemma back_depth_balanced : forall r e d tail,
  back_depth e r = Some d -> balanced_from (N.to_nat e) tail -> balanced_from (N.to_nat d) (rev r ++ tail).
Proof.
  induction r as [|c r IH]; intros e d tail H Ht; cbn [back_depth rev] in *.
  - inversion H; subst. exact Ht.
  - rewrite <- app_assoc. cbn [app].
    destruct (c =? c_rparen)%N eqn:Er.
    + apply (IH _ _ _ H). cbn [balanced_from].
      assert ((c =? c_lparen)%N = false) as ->.
      { apply N.eqb_eq in Er. subst c. reflexivity. }
      rewrite Er. replace (N.to_nat (e + 1)) with (S (N.to_nat e)) by lia. exact Ht.
    + destruct (c =? c_lparen)%N eqn:El.
      * destruct (e =? 0)%N eqn:Ee; [discriminate|].
        apply (IH _ _ _ H). cbn [balanced_from]. rewrite El.
        replace (S (N.to_nat (e - 1))) with (N.to_nat e) by lia. exact Ht.
      * apply (IH _ _ _ H). cbn [balanced_from]. rewrite El, Er. exact Ht.
Qed.

Lemma balanced_drop_spaces : forall s d,
  balanced_from d s -> balanced_from d (skipn (spanw is_space s) s).
Proof.
  induction s as [|c s IH]; intros d H; cbn [spanw]; [exact H|].
  destruct (is_space c) eqn:Es; [|exact H].
  cbn [skipn]. apply IH. cbn [balanced_from] in H.
  assert ((c =? c_lparen)%N = false) as El.
  { destruct (c =? c_lparen)%N eqn:E; [|reflexivity]. apply N.eqb_eq in E. subst c. discriminate. }
  assert ((c =? c_rparen)%N = false) as Er.
  { destruct (c =? c_rparen)%N eqn:E; [|reflexivity]. apply N.eqb_eq in E. subst c. discriminate. }
  rewrite El, Er in H. exact H.
Qed.

Lemma spanw_le p s : spanw p s <= length s.
Proof. induction s as [|c s IH]; cbn; [lia|]. destruct (p c); cbn; lia. Qed.

Lemma la_loop_run ws s : la_loop ws s = run_length (la_char ws) s.
Proof.
  induction s as [|c s IH]; cbn [la_loop run_length]; [reflexivity|].
  unfold la_char. destruct (c =? c_rparen)%N; cbn; [rewrite IH; reflexivity|].
  destruct (ws && is_space c); cbn; [rewrite IH|]; reflexivity.
Qed.

(* ------------------------------------------------------------------ the theorem *)
Definition text_slice (text : str) (a b : Z) : str := slice text (Z.to_nat a) (Z.to_nat b).

Theorem extract_wf : forall (text : str) (pos : option Z) (look_ahead whitespace : bool) (a b : Z),
  extract text pos look_ahead whitespace = Some (a, b) ->
  (0 <= a <= b)%Z /\ (b <= Z.of_nat (length text))%Z /\
  b = lookahead_end text (match pos with Some p => p | None => Z.of_nat (length text) end) look_ahead whitespace /\
  Forall (fun c => math_char c = true) (text_slice text a b) /\
  balanced (text_slice text a b).
Proof.
  intros text pos la ws a b H. unfold extract in H.
  set (len := Z.of_nat (length text)) in *.
  set (pos0 := match pos with Some p => p | None => len end) in *.
  set (pos1 := if la && opt_is (fun c => (c =? c_rparen)%N) (cur text pos0)
               then (pos0 + 1 + Z.of_nat (la_loop ws (skipn (Z.to_nat (pos0 + 1)) text)))%Z else pos0) in *.
  assert (Hla : pos1 = lookahead_end text pos0 la ws).
  { unfold pos1, lookahead_end, cur. fold len.
    destruct la; cbn [andb]; [|reflexivity].
    destruct ((0 <=? pos0)%Z && (pos0 <? len)%Z) eqn:Er; cbn [andb].
    - destruct (0 <=? pos0)%Z, (pos0 <? len)%Z; try discriminate. cbn [andb].
      destruct (nth_error text (Z.to_nat pos0)) as [c|]; cbn [opt_is]; [|reflexivity].
      destruct (c =? c_rparen)%N; [|reflexivity]. rewrite la_loop_run. reflexivity.
    - cbn [opt_is]. destruct (0 <=? pos0)%Z; cbn [andb]; [|reflexivity].
      destruct (pos0 <? len)%Z; [discriminate|reflexivity]. }
  destruct ((0 <=? pos1)%Z && (pos1 <=? len)%Z) eqn:Ein.
  2:{ rewrite Z.eqb_refl in H. cbn in H. discriminate. }
  destruct (back_loop 0 ws (rev (firstn (Z.to_nat pos1) text)) 0) as [nleft br] eqn:Eb.
  destruct (negb (Z.of_nat nleft =? pos1)%Z && (br =? 0)%N) eqn:Ec; [|discriminate].
  apply andb_true_iff in Ec. destruct Ec as [Ene Ebr]. apply N.eqb_eq in Ebr. subst br.
  inversion H; subst a b. clear H.
  set (p1 := Z.to_nat pos1) in *.
  assert (Hp1 : p1 <= length text) by (unfold p1, len in *; lia).
  assert (Hlenr : length (rev (firstn p1 text)) = p1).
  { rewrite rev_length. apply firstn_length_le. exact Hp1. }
  destruct (back_loop_spec ws _ 0 0%N nleft 0%N Eb) as (L1 & L2 & L3); [constructor|lia|].
  rewrite Hlenr in *.
  (* the characters taken, in text order, are the slice [nleft, p1) *)
  assert (Hslice : rev (firstn (p1 - nleft) (rev (firstn p1 text))) = slice text nleft p1).
  { rewrite firstn_rev, rev_involutive. rewrite firstn_length_le by exact Hp1.
    replace (p1 - (p1 - nleft)) with nleft by lia.
    unfold slice. rewrite skipn_firstn_comm. reflexivity. }
  assert (Hbal : balanced (slice text nleft p1)).
  { rewrite <- Hslice. unfold balanced.
    pose proof (back_depth_balanced _ _ _ [] L3) as Hb. rewrite app_nil_r in Hb. apply Hb. reflexivity. }
  assert (Hall : Forall (fun c => math_char c = true) (slice text nleft p1)).
  { rewrite <- Hslice. apply Forall_rev. exact L2. }
  set (sl := firstn (Z.to_nat (pos1 - Z.of_nat nleft)) (skipn (Z.to_nat (Z.of_nat nleft)) text)) in *.
  assert (Hsl : sl = slice text nleft p1).
  { unfold sl, slice, p1. f_equal; [lia|]. f_equal. lia. }
  pose proof (spanw_le is_space sl) as Hsp.
  assert (Hsll : length sl = p1 - nleft).
  { rewrite Hsl. unfold slice. rewrite firstn_length, skipn_length. lia. }
  set (k := spanw is_space sl) in *.
  assert (Hres : text_slice text (Z.of_nat nleft + Z.of_nat k) pos1 = skipn k sl).
  { unfold text_slice. rewrite Hsl. unfold slice. fold p1.
    replace (Z.to_nat (Z.of_nat nleft + Z.of_nat k)) with (nleft + k) by lia.
    rewrite skipn_firstn_comm. rewrite skipn_skipn'. f_equal. lia. }
  split; [unfold p1 in *; lia|]. split; [unfold len in *; lia|]. split; [exact Hla|].
  rewrite Hres. split.
  - apply Forall_skipn. rewrite Hsl. exact Hall.
  - unfold balanced, k. apply balanced_drop_spaces. rewrite Hsl. exact Hbal.
Qed.
