(* C06 user value snippets, source level, part 2: the tokenizer on a WRITTEN value.

   SPEC: a written value is a list of [stok] -- keyword, number, colour, quoted string, or a call with a name and
   comma-separated arguments (each a non-empty list of tokens, any nesting depth).  [written] reads it as the
   [wtok] tree of its source texts, so [render v = wprint (map written v)]: tokens separated by one blank, arguments
   by ", ".  [kinds_list v] is the sequence of token kinds the tokenizer must produce for it.

   THEOREM value_tokenize: ctokenize true (render v) = CTOk toks with map ck toks = kinds_list v, for every
   well-formed written value (induction over the nesting; the loop lemmas thread "the rest of the source at the
   current position" because merge_tokens re-slices the name of a top-level call out of the source). *)
From Coq Require Import ZArith List Bool Lia ZifyBool String.
From Emmet Require Import lib.Base lib.StyleLib gen.GenChars model.CssTokenizer
     proofs.CssTokenizerProofs proofs.StyleTokProofs proofs.CssValuePrint proofs.CssValueLex.
Import ListNotations.
Local Open Scope nat_scope.

(* ================================================================== SPEC *)
Inductive stok :=
| SKw (w : str)
| SNum (n : numv)
| SCol (c : colv)
| SStr (single : bool) (body : str)
| SCall (name : str) (args : list (list stok)).

Definition q_text (single : bool) : str := [quote_char single].
Fixpoint written (t : stok) : wtok :=
  match t with
  | SKw w => WLeaf w
  | SNum n => WLeaf (num_text n)
  | SCol c => WLeaf (col_text c)
  | SStr single body => WLeaf (q_text single ++ body ++ q_text single)
  | SCall name args => WCall name (map (map written) args)
  end.
Definition render_tok (t : stok) : str := wprint_tok (written t).
Definition render (v : list stok) : str := wprint (map written v).

(* the token kind of a leaf / of the name of a call *)
Definition head_kind (t : stok) : ckind :=
  match t with
  | SKw w => CLiteral w
  | SNum n => num_kind n
  | SCol c => col_kind c
  | SStr single body => CString body single
  | SCall name _ => CLiteral name
  end.

Fixpoint joinl {A} (sep : list A) (l : list (list A)) : list A :=
  match l with
  | [] => []
  | [x] => x
  | x :: r => x ++ sep ++ joinl sep r
  end.

Fixpoint kinds_tok (t : stok) : list ckind :=
  match t with
  | SCall name args =>
      CLiteral name :: CBracket true ::
      joinl [COperator c_comma; CWhiteSpace] (map (fun a => joinl [CWhiteSpace] (map kinds_tok a)) args)
      ++ [CBracket false]
  | _ => [head_kind t]
  end.
Definition kinds_list (v : list stok) : list ckind := joinl [CWhiteSpace] (map kinds_tok v).

(* well-formed: keywords and names start with a letter and run over keyword characters; numbers and colours as
   in C05 (numv_ok, colv_ok); a string body does not contain its own quote; arguments are not empty *)
Fixpoint stok_ok (t : stok) : Prop :=
  match t with
  | SKw w => kw_ok w
  | SNum n => numv_ok n
  | SCol c => colv_ok c
  | SStr single body => Forall (fun c => (c =? quote_char single)%N = false) body
  | SCall name args =>
      kw_ok name /\
      (fix all_args (l : list (list stok)) : Prop :=
         match l with
         | [] => True
         | a :: r => a <> [] /\
                     (fix all_toks (l : list stok) : Prop :=
                        match l with [] => True | x :: xs => stok_ok x /\ all_toks xs end) a /\
                     all_args r
         end) args
  end.
Fixpoint toks_ok (l : list stok) : Prop := match l with [] => True | x :: xs => stok_ok x /\ toks_ok xs end.
Fixpoint args_ok (l : list (list stok)) : Prop :=
  match l with [] => True | a :: r => a <> [] /\ toks_ok a /\ args_ok r end.
Lemma stok_ok_call name args : stok_ok (SCall name args) <-> kw_ok name /\ args_ok args.
Proof.
  cbn [stok_ok]. split; intros [H1 H2]; (split; [exact H1|]); clear H1.
  - induction args as [|a r IH]; [exact I|]. destruct H2 as [Hn [Ha Hr]]. split; [exact Hn|]. split; [|apply IH, Hr].
    clear IH Hr Hn. induction a as [|x xs IHa]; [exact I|]. destruct Ha as [Hx Hxs]. split; [exact Hx|apply IHa, Hxs].
  - induction args as [|a r IH]; [exact I|]. destruct H2 as [Hn [Ha Hr]]. split; [exact Hn|]. split; [|apply IH, Hr].
    clear IH Hr Hn. induction a as [|x xs IHa]; [exact I|]. destruct Ha as [Hx Hxs]. split; [exact Hx|apply IHa, Hxs].
Qed.

(* induction over nested written values *)
Fixpoint stok_ind2 (P : stok -> Prop)
  (Hkw : forall w, P (SKw w)) (Hnum : forall n, P (SNum n)) (Hcol : forall c, P (SCol c))
  (Hstr : forall q b, P (SStr q b))
  (Hcall : forall name args, Forall (Forall P) args -> P (SCall name args))
  (t : stok) {struct t} : P t :=
  match t with
  | SKw w => Hkw w
  | SNum n => Hnum n
  | SCol c => Hcol c
  | SStr q b => Hstr q b
  | SCall name args =>
      Hcall name args
        ((fix go (l : list (list stok)) : Forall (Forall P) l :=
            match l with
            | [] => Forall_nil _
            | a :: r =>
                Forall_cons a
                  ((fix go2 (vs : list stok) : Forall P vs :=
                      match vs with
                      | [] => Forall_nil _
                      | x :: xs => Forall_cons x (stok_ind2 P Hkw Hnum Hcol Hstr Hcall x) (go2 xs)
                      end) a) (go r)
            end) args)
  end.

(* ================================================================== the loop on one lexeme *)
Lemma skipn_add {A} (a b : nat) (l : list A) : skipn (a + b) l = skipn b (skipn a l).
Proof.
  revert l. induction a as [|a IH]; intros l; [reflexivity|]. destruct l as [|x l]; [destruct b; reflexivity|].
  cbn [Nat.add skipn]. apply IH.
Qed.
(* the source from the current position on is [text ++ post]: after [text] it is [post] *)
Lemma src_advance (src text post : str) pos :
  skipn pos src = text ++ post -> skipn (pos + length text) src = post.
Proof. intros H. rewrite skipn_add, H. apply skipn_app_exact. Qed.

(* what may follow a token of a written value: nothing, a blank, a comma, a closing parenthesis *)
Definition post_ok (post : str) : Prop :=
  match post with [] => True | c :: _ => c = c_space \/ c = c_comma \/ c = c_rparen end.

Lemma value_mode_short br : (Nat.eqb br 0 && negb true) = false.
Proof. apply andb_false_r. Qed.

(* a non-bracket token followed by [post]: one round, whether or not the comma after a colour / unit-less number
   is consumed together with it *)
Lemma lex_leaf src br acc pos (text post : str) k :
  (forall at_start, cconsume false at_start (text ++ post) = CTok k (length text)) -> not_bracket k ->
  post_ok post ->
  ctoks src true 0 br acc pos (text ++ post) =
  ctoks src true 0 br (mkCTok k pos (pos + length text) :: acc) (pos + length text) post.
Proof.
  intros Hc Hk Hp.
  rewrite (ctoks_round src true br acc pos (text ++ post) k (length text)); [|rewrite value_mode_short; apply Hc|exact Hk].
  rewrite skipn_app_exact.
  destruct (should_consume_dash_after k); [|reflexivity].
  destruct post as [|c post']; [reflexivity|].
  destruct Hp as [-> | [-> | ->]]; try reflexivity.
  rewrite coperator_comma.
  rewrite (ctoks_round src true br _ (pos + length text) (c_comma :: post') (COperator c_comma) 1);
    [|rewrite value_mode_short; apply cconsume_comma|exact I].
  cbn [should_consume_dash_after]. rewrite skipn_add, skipn_app_exact. reflexivity.
Qed.

(* the three characters that may follow a token end every lexeme *)
Lemma post_not_keyword post : post_ok post -> cpeek_p is_keyword post = false.
Proof. destruct post as [|c r]; [reflexivity|]. intros [-> | [-> | ->]]; reflexivity. Qed.
Lemma post_num_after n post : post_ok post -> num_after_ok n post.
Proof. destruct post as [|c r]; [exact (fun _ => I)|]. intros [-> | [-> | ->]]; cbn; repeat split; reflexivity. Qed.
Lemma post_col_after post : post_ok post -> col_after_ok post.
Proof. destruct post as [|c r]; [exact (fun _ => I)|]. intros [-> | [-> | ->]]; cbn; repeat split; reflexivity. Qed.

Lemma num_kind_not_bracket n : not_bracket (num_kind n). Proof. exact I. Qed.
Lemma col_kind_facts c : colv_ok c -> exists r g b a, col_kind c = CColor r g b a (col_raw c).
Proof.
  intros [Hne [Hhex Ha]]. unfold col_kind.
  destruct (parse_color_ok (cv_hex c) (alpha_txt (cv_alpha c)) Hhex (alpha_txt_ok _ Ha)) as [[[[rv gv] bv] a] Hp].
  rewrite Hp. do 4 eexists. reflexivity.
Qed.

(* a leaf of the written value followed by [post] *)
Lemma lex_leaf_tok t src br acc pos post :
  match t with SCall _ _ => False | _ => stok_ok t end -> post_ok post ->
  ctoks src true 0 br acc pos (render_tok t ++ post) =
  ctoks src true 0 br (mkCTok (head_kind t) pos (pos + length (render_tok t)) :: acc) (pos + length (render_tok t)) post.
Proof.
  intros Hok Hp. destruct t as [w|n|c|single body|name args]; cbn [render_tok written wprint_tok head_kind]; try contradiction.
  - apply lex_leaf; [|exact I|exact Hp]. intros at_start. apply cconsume_keyword; [exact Hok|apply post_not_keyword, Hp].
  - apply lex_leaf; [|exact I|exact Hp]. intros at_start. apply cconsume_number; [exact Hok|apply post_num_after, Hp].
  - destruct (col_kind_facts c Hok) as [r [g [b [a E]]]].
    apply lex_leaf; [|rewrite E; exact I|exact Hp]. intros at_start. apply cconsume_color; [exact Hok|apply post_col_after, Hp].
  - apply lex_leaf; [|exact I|exact Hp]. intros at_start. unfold q_text. cbn [app].
    rewrite <- app_assoc. cbn [app]. rewrite (cconsume_string false at_start single body post Hok).
    f_equal. cbn [length]. rewrite app_length. cbn [length]. lia.
Qed.

(* one blank followed by a token *)
Lemma lex_blank src br acc pos (rest : str) :
  cpeek_p is_space rest = false ->
  ctoks src true 0 br acc pos (c_space :: rest) =
  ctoks src true 0 br (mkCTok CWhiteSpace pos (pos + 1) :: acc) (pos + 1) rest.
Proof.
  intros H.
  rewrite (ctoks_round src true br acc pos (c_space :: rest) CWhiteSpace 1);
    [|rewrite value_mode_short; apply cconsume_blank, H|exact I].
  reflexivity.
Qed.
Lemma lex_comma src br acc pos (rest : str) :
  ctoks src true 0 br acc pos (c_comma :: rest) =
  ctoks src true 0 br (mkCTok (COperator c_comma) pos (pos + 1) :: acc) (pos + 1) rest.
Proof.
  rewrite (ctoks_round src true br acc pos (c_comma :: rest) (COperator c_comma) 1);
    [|rewrite value_mode_short; apply cconsume_comma|exact I].
  reflexivity.
Qed.

(* parentheses *)
Lemma lex_open src br acc pos (rest : str) :
  ctoks src true 0 br acc pos (c_lparen :: rest) =
  ctoks src true 0 (S br) (mkCTok (CBracket true) pos (pos + 1) :: (if Nat.eqb br 0 then merge_tokens src acc else acc))
        (pos + 1) rest.
Proof.
  cbn [ctoks]. rewrite value_mode_short, cconsume_open. cbn [pred]. rewrite andb_true_r.
  replace (S pos) with (pos + 1) by lia. destruct br; reflexivity.
Qed.
Lemma lex_close src br acc pos (rest : str) :
  ctoks src true 0 (S br) acc pos (c_rparen :: rest) =
  ctoks src true 0 br (mkCTok (CBracket false) pos (pos + 1) :: acc) (pos + 1) rest.
Proof.
  cbn [ctoks]. rewrite value_mode_short, cconsume_close. cbn [pred andb].
  replace (S pos) with (pos + 1) by lia. rewrite andb_false_r. reflexivity.
Qed.

(* merge_tokens at the opening parenthesis of a top-level call: the name literal is re-sliced out of the source *)
Definition acc_ok (acc : list ctoken) : Prop :=
  match acc with t :: _ => is_lit_or_num (ck t) = false | [] => True end.
Lemma merge_name src acc pos (name rest : str) :
  name <> [] -> acc_ok acc -> skipn pos src = name ++ rest ->
  merge_tokens src (mkCTok (CLiteral name) pos (pos + length name) :: acc) =
  mkCTok (CLiteral name) pos (pos + length name) :: acc.
Proof.
  intros Hne Hacc Hsrc. unfold merge_tokens. cbn [merge_pop ck is_lit_or_num cstart cend].
  assert (Hpop : merge_pop acc pos (pos + length name) = (acc, pos, pos + length name)).
  { destruct acc as [|t r]; [reflexivity|]. cbn [merge_pop]. cbn [acc_ok] in Hacc. rewrite Hacc. reflexivity. }
  rewrite Hpop.
  destruct (Nat.eqb pos (pos + length name)) eqn:E.
  - apply Nat.eqb_eq in E. destruct name; [contradiction|cbn [length] in E; lia].
  - unfold slice. replace (pos + length name - pos) with (length name) by lia. rewrite Hsrc, firstn_app_exact. reflexivity.
Qed.

(* ================================================================== the loop on a written value *)
Lemma joinl_concat {A} (sep : list A) x l : joinl sep (x :: l) = x ++ concat (map (fun y => sep ++ y) l).
Proof.
  revert x. induction l as [|a l IH]; intros x; [cbn; symmetry; apply app_nil_r|].
  change (joinl sep (x :: a :: l)) with (x ++ sep ++ joinl sep (a :: l)). rewrite IH. cbn [map concat].
  rewrite <- app_assoc. reflexivity.
Qed.

Definition tail_src (l : list stok) : str := tail_toks (map written l).
Definition tail_kinds (l : list stok) : list ckind := concat (map (fun t => CWhiteSpace :: kinds_tok t) l).
Definition args_src (args : list (list stok)) : str := tail_args (map (map written) args).
Definition args_kinds (args : list (list stok)) : list ckind :=
  concat (map (fun a => COperator c_comma :: CWhiteSpace :: kinds_list a) args).

Lemma render_cons x xs : render (x :: xs) = render_tok x ++ tail_src xs.
Proof. unfold render, wprint. cbn [map]. fold (aprint (written x :: map written xs)). apply aprint_cons. Qed.
Lemma kinds_list_cons x xs : kinds_list (x :: xs) = kinds_tok x ++ tail_kinds xs.
Proof.
  unfold kinds_list, tail_kinds. cbn [map]. rewrite joinl_concat, map_map. reflexivity.
Qed.
Lemma tail_src_cons x xs : tail_src (x :: xs) = c_space :: render_tok x ++ tail_src xs.
Proof. reflexivity. Qed.
Lemma tail_kinds_cons x xs : tail_kinds (x :: xs) = CWhiteSpace :: kinds_tok x ++ tail_kinds xs.
Proof. reflexivity. Qed.
Lemma args_src_cons a r : args_src (a :: r) = c_comma :: c_space :: render a ++ args_src r.
Proof. reflexivity. Qed.
Lemma args_kinds_cons a r : args_kinds (a :: r) = COperator c_comma :: CWhiteSpace :: kinds_list a ++ args_kinds r.
Proof. reflexivity. Qed.
Lemma render_call name args :
  render_tok (SCall name args) =
  name ++ c_lparen :: match args with [] => [] | a :: r => render a ++ args_src r end ++ [c_rparen].
Proof.
  unfold render_tok. cbn [written wprint_tok]. f_equal. cbn [app]. f_equal.
  destruct args as [|a r]; [reflexivity|]. cbn [map]. f_equal.
  change (fun a0 : list wtok => join [c_space] (map wprint_tok a0)) with aprint.
  change (join [c_space] (map wprint_tok (map written a))) with (aprint (map written a)).
  exact (args_print_cons (map written a) (map (map written) r)).
Qed.
Lemma kinds_call name args :
  kinds_tok (SCall name args) =
  CLiteral name :: CBracket true :: match args with [] => [] | a :: r => kinds_list a ++ args_kinds r end ++ [CBracket false].
Proof.
  cbn [kinds_tok]. do 2 f_equal. destruct args as [|a r]; [reflexivity|]. cbn [map]. f_equal.
  rewrite joinl_concat, map_map. reflexivity.
Qed.

(* the first character of a token is not a blank *)
Lemma number_not_space c : is_number c = true -> is_space c = false.
Proof.
  intros H. destruct (is_space c) eqn:E; [|reflexivity]. unfold is_space, is_white_space in E.
  repeat (apply orb_prop in E; destruct E as [E|E]); apply N.eqb_eq in E; subst; vm_compute in H; discriminate.
Qed.
Lemma render_head t rest : stok_ok t -> cpeek_p is_space (render_tok t ++ rest) = false.
Proof.
  destruct t as [w|n|c|single body|name args]; intros Hok.
  - unfold render_tok. cbn [written wprint_tok]. destruct w as [|c0 tl]; [destruct Hok|]. destruct Hok as [Ha _].
    cbn [app cpeek_p]. apply alpha_facts_of in Ha. tauto.
  - destruct (val_text_head (VNum n) rest Hok) as [c [tl [E S]]]. unfold render_tok. cbn [written wprint_tok].
    cbn [val_text] in E. rewrite E. cbn [cpeek_p].
    destruct S as [-> | [S | [-> | ->]]]; try reflexivity. apply number_not_space, S.
  - reflexivity.
  - destruct single; reflexivity.
  - rewrite stok_ok_call in Hok. destruct Hok as [Hn _]. rewrite render_call.
    destruct name as [|c0 tl]; [destruct Hn|]. destruct Hn as [Ha _]. cbn [app cpeek_p]. apply alpha_facts_of in Ha. tauto.
Qed.

Lemma post_ok_tail xs post : post_ok post -> post_ok (tail_src xs ++ post).
Proof. destruct xs; [exact (fun H => H)|]. intros _. left. reflexivity. Qed.
Lemma post_ok_args r post : post_ok (args_src r ++ c_rparen :: post).
Proof. destruct r; [right; right; reflexivity|right; left; reflexivity]. Qed.

Definition lexes (t : stok) : Prop :=
  stok_ok t -> forall src br acc pos post,
    skipn pos src = render_tok t ++ post -> post_ok post -> (br = 0 -> acc_ok acc) ->
    exists toks, map ck toks = kinds_tok t /\
      ctoks src true 0 br acc pos (render_tok t ++ post) =
      ctoks src true 0 br (rev toks ++ acc) (pos + length (render_tok t)) post.

Lemma lex_tail l : Forall lexes l -> toks_ok l -> forall src br acc pos post,
  skipn pos src = tail_src l ++ post -> post_ok post ->
  exists toks, map ck toks = tail_kinds l /\
    ctoks src true 0 br acc pos (tail_src l ++ post) =
    ctoks src true 0 br (rev toks ++ acc) (pos + length (tail_src l)) post.
Proof.
  induction 1 as [|x xs Hx _ IH]; intros Hok src br acc pos post Hsrc Hp.
  - exists []. split; [reflexivity|]. cbn [tail_src tail_toks map concat app length rev]. rewrite Nat.add_0_r. reflexivity.
  - destruct Hok as [Hokx Hokxs]. rewrite tail_src_cons in *. cbn [app] in *. rewrite <- app_assoc in *.
    rewrite lex_blank by (apply render_head, Hokx).
    assert (Hsrc1 : skipn (pos + 1) src = render_tok x ++ tail_src xs ++ post).
    { apply (src_advance src [c_space] _ pos). exact Hsrc. }
    destruct (Hx Hokx src br (mkCTok CWhiteSpace pos (pos + 1) :: acc) (pos + 1) (tail_src xs ++ post) Hsrc1
                 (post_ok_tail xs post Hp) (fun _ => eq_refl)) as [t1 [K1 E1]].
    rewrite E1.
    destruct (IH Hokxs src br (rev t1 ++ mkCTok CWhiteSpace pos (pos + 1) :: acc) (pos + 1 + length (render_tok x)) post
                 (src_advance _ _ _ _ Hsrc1) Hp) as [t2 [K2 E2]].
    rewrite E2. exists (mkCTok CWhiteSpace pos (pos + 1) :: t1 ++ t2). split.
    + cbn [map]. rewrite map_app, K1, K2. reflexivity.
    + cbn [length rev]. rewrite app_length, !rev_app_distr, <- !app_assoc. cbn [app].
      replace (pos + 1 + length (render_tok x) + length (tail_src xs)) with (pos + S (length (render_tok x) + length (tail_src xs))) by lia.
      reflexivity.
Qed.

Lemma lex_list l : Forall lexes l -> toks_ok l -> l <> [] -> forall src br acc pos post,
  skipn pos src = render l ++ post -> post_ok post -> (br = 0 -> acc_ok acc) ->
  exists toks, map ck toks = kinds_list l /\
    ctoks src true 0 br acc pos (render l ++ post) =
    ctoks src true 0 br (rev toks ++ acc) (pos + length (render l)) post.
Proof.
  intros HF Hok Hne src br acc pos post Hsrc Hp Hacc. destruct HF as [|x xs Hx HF]; [contradiction|].
  destruct Hok as [Hokx Hokxs]. rewrite render_cons in *. rewrite <- app_assoc in *.
  destruct (Hx Hokx src br acc pos (tail_src xs ++ post) Hsrc (post_ok_tail xs post Hp) Hacc) as [t1 [K1 E1]].
  rewrite E1.
  destruct (lex_tail xs HF Hokxs src br (rev t1 ++ acc) (pos + length (render_tok x)) post (src_advance _ _ _ _ Hsrc) Hp) as [t2 [K2 E2]].
  rewrite E2. exists (t1 ++ t2). split.
  - rewrite map_app, K1, K2, kinds_list_cons. reflexivity.
  - rewrite app_length, rev_app_distr, <- app_assoc, Nat.add_assoc. reflexivity.
Qed.

(* further arguments: ", " and a token list, inside the parentheses (bracket depth >= 1) *)
Lemma lex_args r : Forall (Forall lexes) r -> args_ok r -> forall src br acc pos post,
  skipn pos src = args_src r ++ c_rparen :: post ->
  exists toks, map ck toks = args_kinds r /\
    ctoks src true 0 (S br) acc pos (args_src r ++ c_rparen :: post) =
    ctoks src true 0 (S br) (rev toks ++ acc) (pos + length (args_src r)) (c_rparen :: post).
Proof.
  induction 1 as [|a r Ha _ IH]; intros Hok src br acc pos post Hsrc.
  - exists []. split; [reflexivity|]. cbn. rewrite Nat.add_0_r. reflexivity.
  - destruct Hok as [Hne [Hoka Hokr]]. rewrite args_src_cons in *. cbn [app] in *. rewrite <- app_assoc in *.
    rewrite lex_comma.
    assert (Hsrc1 : skipn (pos + 1) src = c_space :: render a ++ args_src r ++ c_rparen :: post).
    { apply (src_advance src [c_comma] _ pos). exact Hsrc. }
    assert (Hh : cpeek_p is_space (render a ++ args_src r ++ c_rparen :: post) = false).
    { destruct a as [|x xs]; [contradiction|]. rewrite render_cons, <- app_assoc. apply render_head. destruct Hoka. assumption. }
    rewrite lex_blank by exact Hh.
    assert (Hsrc2 : skipn (pos + 1 + 1) src = render a ++ args_src r ++ c_rparen :: post).
    { apply (src_advance src [c_space] _ (pos + 1)). exact Hsrc1. }
    destruct (lex_list a Ha Hoka Hne src (S br)
                (mkCTok CWhiteSpace (pos + 1) (pos + 1 + 1) :: mkCTok (COperator c_comma) pos (pos + 1) :: acc)
                (pos + 1 + 1) _ Hsrc2 (post_ok_args r post) ltac:(discriminate)) as [t1 [K1 E1]].
    rewrite E1.
    destruct (IH Hokr src br (rev t1 ++ mkCTok CWhiteSpace (pos + 1) (pos + 1 + 1) :: mkCTok (COperator c_comma) pos (pos + 1) :: acc)
                 (pos + 1 + 1 + length (render a)) post (src_advance _ _ _ _ Hsrc2)) as [t2 [K2 E2]].
    rewrite E2.
    exists (mkCTok (COperator c_comma) pos (pos + 1) :: mkCTok CWhiteSpace (pos + 1) (pos + 1 + 1) :: t1 ++ t2). split.
    + cbn [map]. rewrite map_app, K1, K2. reflexivity.
    + cbn [length rev]. rewrite app_length, !rev_app_distr, <- !app_assoc. cbn [app].
      replace (pos + 1 + 1 + length (render a) + length (args_src r))
        with (pos + S (S (length (render a) + length (args_src r)))) by lia.
      reflexivity.
Qed.

Lemma lex_name src br acc pos (name rest : str) :
  kw_ok name -> cpeek_p is_keyword rest = false ->
  ctoks src true 0 br acc pos (name ++ rest) =
  ctoks src true 0 br (mkCTok (CLiteral name) pos (pos + length name) :: acc) (pos + length name) rest.
Proof.
  intros Hn Hr.
  rewrite (ctoks_round src true br acc pos (name ++ rest) (CLiteral name) (length name));
    [|rewrite value_mode_short; apply cconsume_keyword; assumption|exact I].
  cbn [should_consume_dash_after]. rewrite skipn_app_exact. reflexivity.
Qed.

Lemma lexes_leaf t : match t with SCall _ _ => False | _ => True end -> lexes t.
Proof.
  intros Hl Hok src br acc pos post Hsrc Hp Hacc.
  exists [mkCTok (head_kind t) pos (pos + length (render_tok t))]. split; [destruct t; try reflexivity; contradiction|].
  cbn [rev app]. apply lex_leaf_tok; [destruct t; try exact Hok; contradiction|exact Hp].
Qed.

Lemma lexes_all t : lexes t.
Proof.
  induction t as [w|n|c|q b|name args IH] using stok_ind2; try (apply lexes_leaf; exact I).
  unfold lexes; intros Hok src br acc pos post Hsrc Hp Hacc.
  rewrite stok_ok_call in Hok. destruct Hok as [Hn Hargs].
  rewrite render_call, kinds_call in *. rewrite <- app_assoc in *. cbn [app] in *.
  rewrite (lex_name src br acc pos name
             (c_lparen :: (match args with [] => [] | a :: r => render a ++ args_src r end ++ [c_rparen]) ++ post) Hn eq_refl).
  assert (Hsrc1 : skipn (pos + length name) src =
                  c_lparen :: (match args with [] => [] | a :: r => render a ++ args_src r end ++ [c_rparen]) ++ post).
  { apply (src_advance src name _ pos). exact Hsrc. }
  rewrite lex_open.
  assert (Hm : (if Nat.eqb br 0 then merge_tokens src (mkCTok (CLiteral name) pos (pos + length name) :: acc)
                else mkCTok (CLiteral name) pos (pos + length name) :: acc)
               = mkCTok (CLiteral name) pos (pos + length name) :: acc).
  { destruct br; [|reflexivity]. cbn [Nat.eqb]. eapply merge_name; [|apply Hacc; reflexivity|exact Hsrc].
    destruct name; [destruct Hn|discriminate]. }
  rewrite Hm.
  assert (Hsrc2 : skipn (pos + length name + 1) src =
                  (match args with [] => [] | a :: r => render a ++ args_src r end ++ [c_rparen]) ++ post).
  { apply (src_advance src [c_lparen] _ (pos + length name)). exact Hsrc1. }
  destruct args as [|a r].
  - cbn [app] in *. rewrite lex_close.
    exists [mkCTok (CLiteral name) pos (pos + length name); mkCTok (CBracket true) (pos + length name) (pos + length name + 1);
            mkCTok (CBracket false) (pos + length name + 1) (pos + length name + 1 + 1)].
    split; [reflexivity|]. cbn [rev app]. rewrite app_length. cbn [length].
    replace (pos + (length name + 2)) with (pos + length name + 1 + 1) by lia. reflexivity.
  - inversion IH as [|? ? Ha Hr]; subst. destruct Hargs as [Hne [Hoka Hokr]].
    rewrite <- !app_assoc in *. cbn [app] in *.
    destruct (lex_list a Ha Hoka Hne src (S br)
                (mkCTok (CBracket true) (pos + length name) (pos + length name + 1)
                 :: mkCTok (CLiteral name) pos (pos + length name) :: acc)
                (pos + length name + 1) _ Hsrc2 (post_ok_args r post) ltac:(discriminate))
      as [t1 [K1 E1]].
    rewrite E1.
    destruct (lex_args r Hr Hokr src br
                (rev t1 ++ mkCTok (CBracket true) (pos + length name) (pos + length name + 1)
                 :: mkCTok (CLiteral name) pos (pos + length name) :: acc)
                (pos + length name + 1 + length (render a)) post (src_advance _ _ _ _ Hsrc2)) as [t2 [K2 E2]].
    rewrite E2, lex_close.
    exists (mkCTok (CLiteral name) pos (pos + length name) :: mkCTok (CBracket true) (pos + length name) (pos + length name + 1)
            :: t1 ++ t2 ++ [mkCTok (CBracket false) (pos + length name + 1 + length (render a) + length (args_src r))
                                   (pos + length name + 1 + length (render a) + length (args_src r) + 1)]).
    split.
    + cbn [map]. rewrite !map_app, K1, K2. reflexivity.
    + cbn [rev]. rewrite !rev_app_distr. cbn [rev app]. rewrite <- !app_assoc. cbn [app].
      rewrite !app_length. cbn [length]. rewrite !app_length. cbn [length].
      replace (pos + (length name + S (length (render a) + (length (args_src r) + 1))))
        with (pos + length name + 1 + length (render a) + length (args_src r) + 1) by lia.
      reflexivity.
Qed.

Lemma Forall_every {A} (P : A -> Prop) (H : forall a, P a) l : Forall P l.
Proof. induction l; constructor; auto. Qed.

(* THEOREM: the tokenizer, value mode, on a written value *)
Theorem value_tokenize v : toks_ok v -> v <> [] ->
  exists toks, ctokenize true (render v) = CTOk toks /\ map ck toks = kinds_list v.
Proof.
  intros Hok Hne. unfold ctokenize.
  destruct (lex_list v (Forall_every _ lexes_all v) Hok Hne (render v) 0 [] 0 []) as [toks [K E]];
    [rewrite app_nil_r; reflexivity|exact I|intros _; exact I|].
  rewrite app_nil_r in E. rewrite E, ctoks_nil, app_nil_r, rev_involutive. exists toks. split; [reflexivity|exact K].
Qed.
