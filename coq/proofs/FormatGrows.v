(* The chunk list of the HTML formatter only grows: every block of element() appends chunks to the stream it is
   given.  Used to locate the opening tag chunk of an element in the stream at the time its closing tag is written. *)
From Coq Require Import ZArith List Bool Lia.
From Emmet Require Import lib.Base model.MarkupTokenizer model.MarkupParser model.MarkupConvert
     model.OutStream model.FormatHtml proofs.OutStreamProofs proofs.FormatSteps
     proofs.FormatReach proofs.FormatProofs proofs.FormatChunks.
Import ListNotations.

Definition grows (st st' : fstate) : Prop := exists Y, fchunks st' = fchunks st ++ Y.

Lemma grows_refl st : grows st st.
Proof. exists []. rewrite app_nil_r. reflexivity. Qed.
Lemma grows_trans a b d : grows a b -> grows b d -> grows a d.
Proof. intros [Y1 E1] [Y2 E2]. exists (Y1 ++ Y2). rewrite E2, E1, app_assoc. reflexivity. Qed.
Lemma grows_push_str c s st : grows st (push_str c s st).
Proof. eexists. apply ch_push_str. Qed.
Lemma grows_push_tokens c v st : grows st (push_tokens c v st).
Proof. eexists. apply (proj1 (push_tokens_spec c v st)). Qed.
Lemma grows_level d st : grows st (map_out (fun o => os_add_level o d) st).
Proof. exists []. rewrite app_nil_r. reflexivity. Qed.
Lemma grows_newline c ind st : grows st (map_out (fun o => os_push_newline (oc_fmt c) o ind) st).
Proof. eexists. apply ch_map_newline. Qed.
Lemma grows_level_newline c d st : grows st (level_newline c d st).
Proof. eexists. apply ch_level_newline. Qed.
Lemma grows_newline_int c (g : ostream -> Z) st : grows st (map_out (fun o => os_push_newline_int (oc_fmt c) o (g o)) st).
Proof. eexists. unfold fchunks, map_out, os_push_newline_int. cbn [fs_out]. apply ch_push_newline. Qed.
Lemma grows_fold {A} (g : fstate -> A -> fstate) (l : list A) :
  (forall st a, grows st (g st a)) -> forall st, grows st (fold_left g l st).
Proof.
  intros Hg. induction l as [|a l IH]; intros st; cbn [fold_left]; [apply grows_refl|].
  eapply grows_trans; [apply Hg|apply IH].
Qed.

#[local] Hint Resolve grows_refl grows_push_str grows_push_tokens grows_level grows_newline grows_level_newline : growdb.

Lemma grows_push_attribute c a st : grows st (push_attribute c a st).
Proof.
  unfold push_attribute.
  repeat match goal with
         | |- grows _ (match ?x with _ => _ end) => destruct x
         | |- grows _ (if ?x then _ else _) => destruct x
         end;
    repeat first [apply grows_refl | eapply grows_trans; [|apply grows_push_str] | eapply grows_trans; [|apply grows_push_tokens]].
Qed.

Lemma grows_comment_node c text n st : grows st (comment_node c text n st).
Proof.
  unfold comment_node. destruct text; [apply grows_refl|]. destruct (should_comment c n); [|apply grows_refl].
  unfold comment_output. apply grows_fold. intros st' t. destruct t as [s|b a nm]; [apply grows_push_str|].
  destruct (assoc_str nm _); [|apply grows_refl].
  eapply grows_trans; [apply grows_push_str|]. eapply grows_trans; [apply grows_push_tokens|apply grows_push_str].
Qed.

Lemma grows_el_attrs c node st : grows st (el_attrs c node st).
Proof.
  unfold el_attrs. destruct (an_attrs node) as [[|a l]|]; try apply grows_refl.
  apply grows_fold. intros st' x. destruct (should_output_attribute x); [apply grows_push_attribute|apply grows_refl].
Qed.

Definition grows_fn (next : fstate -> fstate) : Prop := forall st, grows st (next st).

Lemma grows_el_snippet c node next st st' : grows_fn next -> el_snippet c node next st = Some st' -> grows st st'.
Proof.
  intros Hn. unfold el_snippet.
  destruct (an_value node) as [[|v0 value]|]; try discriminate.
  destruct (an_children node) as [|c0 ch]; try discriminate.
  destruct (find_field_ix (v0 :: value)) as [ix|]; try discriminate.
  set (st1 := push_tokens c (firstn ix (v0 :: value)) st).
  assert (H2 : grows st (next st1)) by (eapply grows_trans; [apply grows_push_tokens|apply Hn]).
  destruct (nth_error (v0 :: value) (S ix)) as [[s|i nm]|].
  - destruct (negb _); intros E; injection E as <-.
    + eapply grows_trans; [exact H2|]. eapply grows_trans; [apply grows_push_str|apply grows_push_tokens].
    + eapply grows_trans; [exact H2|apply grows_push_tokens].
  - intros E; injection E as <-. eapply grows_trans; [exact H2|apply grows_push_tokens].
  - intros E; injection E as <-. eapply grows_trans; [exact H2|apply grows_push_tokens].
Qed.

Lemma grows_el_value c node st : grows st (el_value c node st).
Proof.
  unfold el_value. destruct (an_value node) as [[|v0 value]|]; try apply grows_refl.
  destruct (existsb has_newline (v0 :: value) || starts_with_block_tag c (v0 :: value)).
  - eapply grows_trans; [apply grows_level_newline|]. eapply grows_trans; [apply grows_push_tokens|].
    destruct (an_children node); [apply grows_level_newline|apply grows_level].
  - apply grows_push_tokens.
Qed.

Lemma grows_el_leaf c nm node st : grows st (el_leaf c nm node st).
Proof.
  unfold el_leaf.
  destruct (negb (truthy_l (an_value node)) && match an_children node with [] => true | _ => false end); [|apply grows_refl].
  destruct (oc_format_leaf c || mem_str nm (oc_format_force c)).
  - eapply grows_trans; [apply grows_level_newline|]. eapply grows_trans; [apply grows_push_tokens|apply grows_level_newline].
  - apply grows_push_tokens.
Qed.

Lemma grows_el_content c nm node next st : grows_fn next -> grows st (el_content c nm node next st).
Proof.
  intros Hn. unfold el_content. destruct (el_snippet c node next st) as [st'|] eqn:E.
  - eapply grows_el_snippet; eassumption.
  - eapply grows_trans; [apply grows_el_value|]. eapply grows_trans; [apply Hn|apply grows_el_leaf].
Qed.

Lemma grows_el_body c node next st : grows_fn next -> grows st (el_body c node next st).
Proof.
  intros Hn. unfold el_body.
  assert (Hun : grows st (el_unnamed c node next st)).
  { unfold el_unnamed. destruct (el_snippet c node next st) as [st'|] eqn:E.
    - eapply grows_el_snippet; eassumption.
    - eapply grows_trans; [|apply Hn].
      destruct (an_value node) as [[|v0 value]|]; try apply grows_refl. apply grows_push_tokens. }
  destruct (an_name node) as [[|x nm]|]; try exact Hun.
  unfold el_named, el_open, el_close.
  assert (Ho : grows st (el_attrs c node (push_str c (c_lt :: tag_name c (x :: nm)) (comment_node c (oc_comment_before c) node st)))).
  { eapply grows_trans; [apply grows_comment_node|]. eapply grows_trans; [apply grows_push_str|apply grows_el_attrs]. }
  destruct (an_self node && _ && _).
  - eapply grows_trans; [exact Ho|apply grows_push_str].
  - eapply grows_trans; [exact Ho|]. eapply grows_trans; [apply grows_push_str|].
    eapply grows_trans; [apply grows_el_content, Hn|]. eapply grows_trans; [apply grows_push_str|apply grows_comment_node].
Qed.

Lemma grows_html_step c parent node index items next st :
  grows_fn next -> grows st (html_element_step c parent node index items next st).
Proof.
  intros Hn. unfold html_element_step. cbv zeta.
  eapply grows_trans; [|apply grows_level]. unfold el_tail.
  assert (Hb : forall s, grows st s -> grows st (el_body c node next s)) by (intros s Hs; eapply grows_trans; [exact Hs|apply grows_el_body, Hn]).
  assert (H1 : grows st (el_body c node next (if should_format c parent node index items
                 then map_out (fun o => os_push_newline (oc_fmt c) o (Some None)) (map_out (fun o => os_add_level o (get_indent c parent)) st)
                 else map_out (fun o => os_add_level o (get_indent c parent)) st))).
  { apply Hb. destruct (should_format c parent node index items); [|apply grows_level].
    eapply grows_trans; [apply grows_level|apply grows_newline]. }
  destruct (tail_newline c _ parent index items); [|exact H1].
  eapply grows_trans; [exact H1|]. apply (grows_newline_int c (fun o => os_level o - (if is_snippet_opt parent then 0 else 1))%Z).
Qed.

Lemma grows_html_walk c parent items : forall l i st,
  Forall (fun n => forall parent index items st, grows st (html_element c parent n index items st)) l ->
  grows st (html_walk c parent items i l st).
Proof.
  induction l as [|x l IH]; intros i st HF; cbn [html_walk]; [apply grows_refl|].
  inversion HF as [|y z Hx HF']; subst. eapply grows_trans; [apply Hx|apply IH, HF'].
Qed.

Theorem grows_html_element c : forall node parent index items st, grows st (html_element c parent node index items st).
Proof.
  induction node as [nm v rp at_ ch sc IHch] using anode_ind'. intros parent index items st.
  rewrite html_element_unfold. apply grows_html_step.
  intros st'. rewrite html_children_walk. apply grows_html_walk. exact IHch.
Qed.

Lemma grows_html_children c node : grows_fn (html_children c node).
Proof.
  intros st. rewrite html_children_walk. apply grows_html_walk. apply Forall_forall. intros n _. apply grows_html_element.
Qed.
