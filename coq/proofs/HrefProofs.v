(* markup.href (model/MarkupHref.v, insert_href / insert_wrap of model/MarkupConvert.v).

   A. the hand-compiled matchers ARE the regular expressions: each is shown equivalent to the denotation of
      its pattern over the generated tables (every string; both directions).  They are total boolean
      functions: there is no error outcome (no Internal, no fuel) to exclude.
   B. the value insert_href computes: `http://` is put in front exactly of `www.` / `ftp.` texts, the
      value is never the empty string.
   C. what insert_href does to the attributes: nothing but one appended `href`, or the value of the FIRST
      attribute named href when that value is None / empty; an attribute with a non-empty value is never touched.
   D. the converter: with markup.href off it equals the href-free converter (the PORTING LEMMA); with it on
      the two differ at most in the attributes of the deepest last node; same outcome class always. *)
From Coq Require Import ZArith List Bool Lia ZifyBool.
From Emmet Require Import lib.Base gen.GenHref model.MarkupHref model.MarkupTokenizer model.MarkupParser model.MarkupConvert.
From Emmet Require Import proofs.TextForest.
Local Open Scope nat_scope.

(* ================================================================ A. matchers *)
Lemma starts_with_iff p : forall s, starts_with p s = true <-> exists r, s = p ++ r.
Proof.
  induction p as [|x p IH]; intros s.
  - cbn. split; [intros _; exists s; reflexivity|reflexivity].
  - destruct s as [|y s]; cbn [starts_with].
    + split; [discriminate|intros [r H]; discriminate].
    + rewrite andb_true_iff, N.eqb_eq, IH. split.
      * intros [-> [r ->]]. exists r. reflexivity.
      * intros [r H]. inversion H; subst. split; [reflexivity|exists r; reflexivity].
Qed.

(* re_url.match(text): one of the words of the pattern's language is a prefix of the text *)
Theorem url_match_spec t :
  url_match t = true <-> exists w r : str, In w href_url_words /\ t = w ++ r.
Proof.
  unfold url_match. rewrite existsb_exists. split.
  - intros [w [Hin H]]. apply starts_with_iff in H. destruct H as [r ->]. exists w, r. split; [exact Hin|reflexivity].
  - intros [w [r [Hin ->]]]. exists w. split; [exact Hin|]. apply starts_with_iff. exists r. reflexivity.
Qed.

(* C+ l K *)
Lemma plus_lit_spec cls lit k : forall s seen,
  plus_lit cls lit k seen s = true <->
  exists w rest, s = w ++ lit :: rest /\ forallb cls w = true /\ (seen = true \/ w <> []) /\ k rest = true.
Proof.
  induction s as [|c s IH]; intros seen; cbn [plus_lit].
  - split; [discriminate|]. intros [w [rest [H _]]]. destruct w; discriminate.
  - rewrite orb_true_iff, !andb_true_iff, N.eqb_eq, IH. split.
    + intros [[[Hs ->] Hk]|[Hc [w [rest [-> [Hw [_ Hk]]]]]]].
      * exists [], s. cbn. repeat split; try assumption. left; exact Hs.
      * exists (c :: w), rest. cbn [app forallb]. rewrite Hc, Hw. repeat split; try assumption. right; discriminate.
    + intros [w [rest [E [Hw [Hs Hk]]]]]. destruct w as [|x w].
      * cbn in E. inversion E; subst. left. destruct Hs as [Hs|Hs]; [|congruence]. repeat split; assumption.
      * cbn [app] in E. inversion E; subst. cbn [forallb] in Hw. apply andb_prop in Hw. destruct Hw as [Hx Hw].
        right. split; [exact Hx|]. exists w, rest. repeat split; try assumption. left; reflexivity.
Qed.

(* `$`: the end of the text, or one tolerated character (a line feed) that ends the text *)
Definition email_end (e : str) : Prop := e = [] \/ exists c, e = [c] /\ mem_N c href_email_end = true.
Lemma email_at_end_spec e : email_at_end e = true <-> email_end e.
Proof.
  unfold email_end. destruct e as [|c [|d e]]; cbn [email_at_end].
  - split; [left; reflexivity|reflexivity].
  - split; [intros H; right; exists c; split; [reflexivity|exact H]|].
    intros [H|[c' [H Hm]]]; [discriminate|]. inversion H; subst. exact Hm.
  - split; [discriminate|]. intros [H|[c' [H _]]]; discriminate.
Qed.

Definition all_in (tbl : list N) (s : str) : Prop := forallb (fun c => mem_N c tbl) s = true.

Lemma email_tld_eq k r :
  email_tld k r =
  (Nat.leb href_email_tld_min k && email_at_end r) ||
  match r with
  | c :: r' => Nat.ltb k href_email_tld_max && mem_N c href_email_tld && email_tld (S k) r'
  | [] => false
  end.
Proof. destruct r; reflexivity. Qed.

(* T{lo,hi} $  with k repetitions done *)
Lemma email_tld_spec : forall r k,
  email_tld k r = true <->
  exists tl e, r = tl ++ e /\ all_in href_email_tld tl /\ href_email_tld_min <= k + length tl /\
               (tl = [] \/ k + length tl <= href_email_tld_max) /\ email_end e.
Proof.
  induction r as [|c r IH]; intros k; rewrite email_tld_eq.
  - rewrite orb_false_r, andb_true_iff, Nat.leb_le, email_at_end_spec. split.
    + intros [Hk He]. exists [], []. cbn. repeat split; try assumption; [lia|left; reflexivity].
    + intros [tl [e [E [_ [Hk [_ He]]]]]]. destruct tl; [|discriminate]. cbn in E. subst e. cbn in Hk. split; [lia|exact He].
  - rewrite orb_true_iff, !andb_true_iff, Nat.leb_le, Nat.ltb_lt, email_at_end_spec, IH. split.
    + intros [[Hk He]|[[Hlt Hc] [tl [e [-> [Ht [Hmin [Hmax He]]]]]]]].
      * exists [], (c :: r). cbn. repeat split; try assumption; [lia|left; reflexivity].
      * exists (c :: tl), e. unfold all_in. cbn [app forallb length]. rewrite Hc, Ht. repeat split; try assumption; [lia|].
        right. destruct Hmax as [->|Hmax]; cbn [length]; lia.
    + intros [tl [e [E [Ht [Hmin [Hmax He]]]]]]. destruct tl as [|x tl].
      * left. cbn in E. subst e. cbn in Hmin. split; [lia|exact He].
      * right. cbn [app] in E. inversion E; subst. unfold all_in in Ht. cbn [forallb] in Ht. apply andb_prop in Ht. destruct Ht as [Hx Ht].
        cbn [length] in Hmin, Hmax. destruct Hmax as [Hmax|Hmax]; [discriminate|].
        split; [split; [lia|exact Hx]|]. exists tl, e. repeat split; try assumption; [lia|]. right. lia.
Qed.

(* the denotation of  L+ @ D+ . T{lo,hi} $  *)
Definition email_shape (t : str) : Prop :=
  exists l d tl e,
    t = l ++ href_email_at :: d ++ href_email_dot :: tl ++ e /\
    l <> [] /\ all_in href_email_local l /\
    d <> [] /\ all_in href_email_domain d /\
    all_in href_email_tld tl /\ href_email_tld_min <= length tl <= href_email_tld_max /\
    email_end e.

Theorem email_match_spec t : email_match t = true <-> email_shape t.
Proof.
  unfold email_match, email_shape. rewrite plus_lit_spec. split.
  - intros [l [rest [-> [Hl [Hs Hk]]]]]. apply plus_lit_spec in Hk. destruct Hk as [d [rest2 [-> [Hd [Hs2 Hk]]]]].
    apply email_tld_spec in Hk. destruct Hk as [tl [e [-> [Ht [Hmin [Hmax He]]]]]].
    exists l, d, tl, e. repeat split; try assumption.
    + destruct Hs as [Hs|Hs]; [discriminate|exact Hs].
    + destruct Hs2 as [Hs2|Hs2]; [discriminate|exact Hs2].
    + destruct Hmax as [->|Hmax]; [apply Nat.le_0_l|exact Hmax].
  - intros [l [d [tl [e [-> [Hl [Hal [Hd [Had [Hat [[Hmin Hmax] He]]]]]]]]]]].
    exists l, (d ++ href_email_dot :: tl ++ e). repeat split; try assumption; [right; exact Hl|].
    apply plus_lit_spec. exists d, (tl ++ e). repeat split; try assumption; [right; exact Hd|].
    apply email_tld_spec. exists tl, e. repeat split; try assumption. right. exact Hmax.
Qed.

(* re.match(r'\w+:', s): a non-empty run of word characters, then the colon *)
Definition all_word (w : str) : Prop := forallb (fun c => in_ranges c href_proto_word) w = true.
Theorem proto_match_spec s :
  proto_match s = true <-> exists w rest, w <> [] /\ all_word w /\ s = w ++ href_proto_colon :: rest.
Proof.
  unfold proto_match. rewrite plus_lit_spec. split.
  - intros [w [rest [-> [Hw [Hs _]]]]]. exists w, rest. destruct Hs as [Hs|Hs]; [discriminate|]. repeat split; assumption.
  - intros [w [rest [Hne [Hw ->]]]]. exists w, rest. repeat split; try assumption. right; exact Hne.
Qed.

(* ================================================================ B. the value *)
(* a prefix that decides `\w+:` / a startswith test whatever follows it *)
Fixpoint proto_decide (seen : bool) (w : str) : option bool :=
  match w with
  | [] => None
  | c :: w' => if seen && (c =? href_proto_colon)%N then Some true
               else if in_ranges c href_proto_word then proto_decide true w' else Some false
  end.
Lemma proto_decide_sound : forall w seen b, proto_decide seen w = Some b ->
  forall rest, plus_lit (fun c => in_ranges c href_proto_word) href_proto_colon (fun _ => true) seen (w ++ rest) = b.
Proof.
  induction w as [|c w IH]; intros seen b H rest; [discriminate|].
  cbn [proto_decide] in H. cbn [app plus_lit].
  destruct (seen && (c =? href_proto_colon)%N) eqn:E1.
  - inversion H; subst. reflexivity.
  - cbn [andb orb]. destruct (in_ranges c href_proto_word) eqn:E2.
    + cbn [andb]. apply IH. exact H.
    + inversion H; subst. reflexivity.
Qed.

Fixpoint sw_decide (p w : str) : option bool :=
  match p, w with
  | [], _ => Some true
  | x :: p', y :: w' => if (x =? y)%N then sw_decide p' w' else Some false
  | _ :: _, [] => None
  end.
Lemma sw_decide_sound : forall p w b, sw_decide p w = Some b -> forall rest, starts_with p (w ++ rest) = b.
Proof.
  induction p as [|x p IH]; intros w b H rest.
  - cbn in H. inversion H. reflexivity.
  - destruct w as [|y w]; [discriminate|]. cbn [sw_decide] in H. cbn [app starts_with].
    destruct (x =? y)%N; [cbn [andb]; apply IH; exact H|inversion H; reflexivity].
Qed.

Definition s_www : str := [119; 119; 119; 46]%N.      (* 'www.' *)
Definition s_ftpdot : str := [102; 116; 112; 46]%N.   (* 'ftp.' *)

(* every word of re_url decides all four tests, and `not \w+: and not startswith('//')` is `www.` or `ftp.` *)
Definition word_ok (w : str) : bool :=
  match proto_decide false w, sw_decide s_dslash w, sw_decide s_www w, sw_decide s_ftpdot w with
  | Some bp, Some bd, Some bw, Some bf => Bool.eqb (negb bp && negb bd) (bw || bf) && negb (match w with [] => true | _ => false end)
  | _, _, _, _ => false
  end.
Lemma words_ok : forallb word_ok href_url_words = true.
Proof. vm_compute. reflexivity. Qed.

Lemma url_word_facts (w r : str) :
  In w href_url_words ->
  (negb (proto_match (w ++ r)) && negb (starts_with s_dslash (w ++ r))) =
  (starts_with s_www (w ++ r) || starts_with s_ftpdot (w ++ r)) /\ w <> [].
Proof.
  intros Hin. pose proof (proj1 (forallb_forall _ _) words_ok w Hin) as H. unfold word_ok in H.
  destruct (proto_decide false w) as [bp|] eqn:E1; [|discriminate].
  destruct (sw_decide s_dslash w) as [bd|] eqn:E2; [|discriminate].
  destruct (sw_decide s_www w) as [bw|] eqn:E3; [|discriminate].
  destruct (sw_decide s_ftpdot w) as [bf|] eqn:E4; [|discriminate].
  apply andb_prop in H. destruct H as [H Hne]. apply eqb_prop in H.
  unfold proto_match. rewrite (proto_decide_sound w false bp E1 r).
  rewrite (sw_decide_sound _ w bd E2 r), (sw_decide_sound _ w bw E3 r), (sw_decide_sound _ w bf E4 r).
  split; [exact H|]. destruct w; [discriminate|discriminate].
Qed.

(* insert_href's `href`, in words: a URL is taken as it is, with http:// in front when it starts with www. or
   ftp. ; an e-mail address gets mailto: ; anything else gives nothing *)
Theorem href_value_spec t :
  href_value t =
    if url_match t then Some (if starts_with s_www t || starts_with s_ftpdot t then s_http ++ t else t)
    else if email_match t then Some (s_mailto ++ t)
    else None.
Proof.
  unfold href_value. destruct (url_match t) eqn:Eu; [|reflexivity].
  apply url_match_spec in Eu. destruct Eu as [w [r [Hin ->]]].
  destruct (url_word_facts w r Hin) as [H _]. rewrite H. reflexivity.
Qed.

Theorem href_value_cases t h :
  href_value t = Some h -> h = t \/ h = s_http ++ t \/ h = s_mailto ++ t.
Proof.
  rewrite href_value_spec. destruct (url_match t).
  - destruct (_ || _); intros H; inversion H; auto.
  - destruct (email_match t); intros H; inversion H; auto.
Qed.

(* `if href:` -- the value is never the empty string *)
Theorem href_value_nonempty t h : href_value t = Some h -> h <> [].
Proof.
  rewrite href_value_spec. destruct (url_match t) eqn:Eu.
  - apply url_match_spec in Eu. destruct Eu as [w [r [Hin ->]]]. destruct (url_word_facts w r Hin) as [_ Hne].
    destruct (_ || _); intros H; inversion H; [discriminate|]. destruct w; [congruence|discriminate].
  - destruct (email_match t); intros H; inversion H. discriminate.
Qed.

Theorem href_value_empty : href_value [] = None.
Proof. reflexivity. Qed.

(* ================================================================ C. the attributes *)
Definition named_href (a : aattr) : bool := name_is (aa_name a) s_href.
Definition value_empty (a : aattr) : bool := match aa_value a with None | Some [] => true | Some (_ :: _) => false end.
Definition with_value (a : aattr) (h : str) : aattr :=
  mkAAttr (aa_name a) (Some (str_value h)) (aa_vtype a) (aa_boolean a) (aa_implied a) (aa_multiple a).
Definition fresh_href (h : str) : aattr := mkAAttr (Some s_href) (Some (str_value h)) VRaw false false false.
Definition no_href (l : list aattr) : Prop := forallb (fun a => negb (named_href a)) l = true.
Definition attr_list (o : option (list aattr)) : list aattr := match o with Some l => l | None => [] end.

Lemma set_first_href_none h : forall l, set_first_href h l = None <-> no_href l.
Proof.
  unfold no_href. induction l as [|a l IH]; cbn [set_first_href forallb]; [split; reflexivity|].
  unfold named_href at 1. destruct (name_is (aa_name a) s_href); cbn [negb andb].
  - split; discriminate.
  - destruct (set_first_href h l); [split; [discriminate|]|split; [|reflexivity]].
    + intros H. apply IH in H. discriminate.
    + intros _. apply IH. reflexivity.
Qed.

Lemma set_first_href_some h : forall l l', set_first_href h l = Some l' ->
  exists pre a post, l = pre ++ a :: post /\ no_href pre /\ named_href a = true /\
                     l' = pre ++ (if value_empty a then with_value a h else a) :: post.
Proof.
  induction l as [|a l IH]; intros l' H; [discriminate|].
  cbn [set_first_href] in H. destruct (name_is (aa_name a) s_href) eqn:En.
  - inversion H; subst. exists [], a, l. repeat split; try assumption.
    cbn [app]. f_equal. unfold value_empty, with_value. destruct (aa_value a) as [[|x v]|]; reflexivity.
  - destruct (set_first_href h l) as [r'|] eqn:Er; [|discriminate]. inversion H; subst.
    destruct (IH r' eq_refl) as [pre [b [post [-> [Hp [Hb ->]]]]]].
    exists (a :: pre), b, post. repeat split; try assumption.
    unfold no_href. cbn [forallb]. unfold named_href at 1. rewrite En. exact Hp.
Qed.

(* insert_href touches nothing but the attribute list *)
Lemma insert_href_fields n t :
  an_name (insert_href n t) = an_name n /\ an_value (insert_href n t) = an_value n /\
  an_repeat (insert_href n t) = an_repeat n /\ an_children (insert_href n t) = an_children n /\
  an_self (insert_href n t) = an_self n /\ an_attrs (insert_href n t) = href_attrs t (an_attrs n).
Proof. destruct n. cbn. repeat split. Qed.

(* SPEC of insert_href on the attributes.  With l the attributes of the node (none = []):
   no URL / e-mail address: unchanged;
   no attribute named href: a fresh raw attribute href is appended;
   otherwise the FIRST attribute named href receives the value iff its own is None or empty -- every other
   attribute, and that one when it has a value, stays as it is. *)
Theorem href_attrs_spec t at_ :
  match href_value t with
  | None => href_attrs t at_ = at_
  | Some h =>
      let l := attr_list (nonempty at_) in
      (no_href l /\ href_attrs t at_ = Some (l ++ [fresh_href h])) \/
      (exists pre a post, l = pre ++ a :: post /\ no_href pre /\ named_href a = true /\
                          href_attrs t at_ = Some (pre ++ (if value_empty a then with_value a h else a) :: post))
  end.
Proof.
  unfold href_attrs. destruct (href_value t) as [h|] eqn:Eh; [|reflexivity].
  pose proof (href_value_nonempty t h Eh) as Hne. destruct h as [|c h]; [congruence|].
  cbn zeta. destruct (nonempty at_) as [l|] eqn:En; cbn [attr_list].
  - destruct (set_first_href (c :: h) l) as [l'|] eqn:Es.
    + right. destruct (set_first_href_some _ _ _ Es) as [pre [a [post [-> [Hp [Ha ->]]]]]].
      exists pre, a, post. repeat split; assumption.
    + left. split; [apply (set_first_href_none (c :: h)); exact Es|reflexivity].
  - left. split; reflexivity.
Qed.

(* a written value is never replaced: every attribute with a non-empty value is still there afterwards *)
Theorem href_never_overwrites t at_ a :
  In a (attr_list (nonempty at_)) -> value_empty a = false -> In a (attr_list (href_attrs t at_)).
Proof.
  intros Hin Hv. pose proof (href_attrs_spec t at_) as H. destruct (href_value t) as [h|].
  - cbn zeta in H. destruct H as [[_ ->]|[pre [b [post [E [_ [_ ->]]]]]]]; cbn [attr_list].
    + apply in_or_app. left. exact Hin.
    + rewrite E in Hin. apply in_app_or in Hin. apply in_or_app. destruct Hin as [Hin|[<-|Hin]].
      * left; exact Hin.
      * right. rewrite Hv. left; reflexivity.
      * right. right. exact Hin.
  - rewrite H. destruct at_ as [[|x l]|]; cbn in Hin |- *; try contradiction. exact Hin.
Qed.

(* the value is only ever written into an attribute named href whose value was None or empty, or into a fresh
   attribute when no attribute is named href: every attribute of the result is an old one, or one of those two *)
Theorem href_written_only_when_empty t at_ a' :
  In a' (attr_list (href_attrs t at_)) ->
  In a' (attr_list at_) \/
  exists h, href_value t = Some h /\
    ((a' = fresh_href h /\ no_href (attr_list (nonempty at_))) \/
     (exists a, In a (attr_list (nonempty at_)) /\ named_href a = true /\ value_empty a = true /\ a' = with_value a h)).
Proof.
  intros Hin. pose proof (href_attrs_spec t at_) as H. destruct (href_value t) as [h|].
  - assert (Hsub : forall x, In x (attr_list (nonempty at_)) -> In x (attr_list at_)).
    { destruct at_ as [[|y l]|]; cbn; auto. }
    cbn zeta in H. destruct H as [[Hn E]|[pre [b [post [E [Hp [Hb E2]]]]]]].
    + rewrite E in Hin. cbn [attr_list] in Hin. apply in_app_or in Hin. destruct Hin as [Hin|[<-|[]]].
      * left. apply Hsub, Hin.
      * right. exists h. split; [reflexivity|]. left. split; [reflexivity|exact Hn].
    + rewrite E2 in Hin. cbn [attr_list] in Hin. apply in_app_or in Hin.
      assert (Hb_in : In b (attr_list (nonempty at_))) by (rewrite E; apply in_or_app; right; left; reflexivity).
      destruct Hin as [Hin|[<-|Hin]].
      * left. apply Hsub. rewrite E. apply in_or_app. left; exact Hin.
      * destruct (value_empty b) eqn:Ev.
        -- right. exists h. split; [reflexivity|]. right. exists b. repeat split; assumption.
        -- left. apply Hsub, Hb_in.
      * left. apply Hsub. rewrite E. apply in_or_app. right; right; exact Hin.
  - rewrite H in Hin. left. exact Hin.
Qed.

(* ---- insert_wrap = insert_text + (on an `a`, under markup.href) insert_href *)
Lemma insert_text_name n t : an_name (insert_text n t) = an_name n.
Proof. destruct n; reflexivity. Qed.
Lemma insert_text_children n t : an_children (insert_text n t) = an_children n.
Proof. destruct n; reflexivity. Qed.

(* the text lands in the element exactly as insert_text puts it; only the attributes may differ *)
Theorem insert_wrap_fields env n t :
  an_value (insert_wrap env n t) = an_value (insert_text n t) /\
  an_name (insert_wrap env n t) = an_name n /\ an_repeat (insert_wrap env n t) = an_repeat n /\
  an_children (insert_wrap env n t) = an_children n /\ an_self (insert_wrap env n t) = an_self n /\
  an_attrs (insert_wrap env n t) =
    if name_is (an_name n) s_a && ce_href env then href_attrs t (an_attrs n) else an_attrs n.
Proof.
  unfold insert_wrap. rewrite insert_text_name.
  destruct (name_is (an_name n) s_a && ce_href env); destruct n; cbn; repeat split.
Qed.

Theorem insert_wrap_off env n t : ce_href env = false -> insert_wrap env n t = insert_text n t.
Proof. intros H. unfold insert_wrap. rewrite H, andb_false_r. reflexivity. Qed.

Theorem insert_wrap_not_a env n t : name_is (an_name n) s_a = false -> insert_wrap env n t = insert_text n t.
Proof. intros H. unfold insert_wrap. rewrite insert_text_name, H. reflexivity. Qed.

Theorem insert_wrap_no_match env n t : href_value t = None -> insert_wrap env n t = insert_text n t.
Proof.
  intros H. unfold insert_wrap. destruct (_ && _); [|reflexivity].
  destruct (insert_text n t) as [nm v rp at_ ch sc]. cbn [insert_href]. unfold href_attrs. rewrite H. reflexivity.
Qed.

(* ================================================================ D. the converter *)
(* the converter without the markup.href step (convert() of the model before the extension) *)
Definition convert_nohref (env : cenv) (max_repeat : option N) (root : list tnode) : res (list anode) :=
  let st0 := mkCst false (match max_repeat with Some m => Z.of_N m | None => 1000000%Z end) [] false in
  let* (children, st) := conv_list env root st0 in
  match ce_text env with
  | WNone => Ok children
  | _ =>
      if cs_text_inserted st then Ok children
      else
        let tx := match ce_text env with
                  | WList l => strip (join [c_nl] l)
                  | WStr s => strip s
                  | WNone => []
                  end in
        Ok (on_last_deepest (fun n => insert_text n tx) children)
  end.

Lemma on_last_deepest_ext f g l : (forall n, f n = g n) -> on_last_deepest f l = on_last_deepest g l.
Proof.
  intros H. rewrite !on_last_deepest_map_last.
  assert (Hd : forall n, on_deepest f n = on_deepest g n).
  { induction n as [nm v rp at_ ch sc IH] using anode_ind'. rewrite !on_deepest_node.
    destruct ch as [|c r]; [apply H|]. f_equal.
    remember (c :: r) as l0 eqn:El. clear El c r. induction l0 as [|x l0 IHl]; [reflexivity|].
    inversion IH as [|y z Hx Hl]; subst. destruct l0 as [|x2 l0']; [cbn [map_last]; rewrite Hx; reflexivity|].
    rewrite !(map_last_cons _ x) by discriminate. rewrite IHl by exact Hl. reflexivity. }
  induction l as [|x l IHl]; [reflexivity|]. destruct l as [|x2 l']; [cbn [map_last]; rewrite Hd; reflexivity|].
  rewrite !(map_last_cons _ x) by discriminate. rewrite IHl. reflexivity.
Qed.

(* PORTING LEMMA: with markup.href off the converter is the href-free converter -- every theorem about the
   converter that assumes ce_href env = false, or was proved for the converter before this extension, holds *)
Theorem convert_href_off env mr root :
  ce_href env = false -> convert env mr root = convert_nohref env mr root.
Proof.
  intros H. unfold convert, convert_nohref.
  destruct (conv_list env root _) as [[children st]| | |]; cbn [bind]; try reflexivity.
  destruct (ce_text env); [reflexivity| |]; destruct (cs_text_inserted st); try reflexivity; f_equal;
    apply on_last_deepest_ext; intros n; apply insert_wrap_off; exact H.
Qed.

(* the href step alone, applied to a node that already holds the text *)
Definition href_step (env : cenv) (tx : str) (n : anode) : anode :=
  if name_is (an_name n) s_a && ce_href env then insert_href n tx else n.

Lemma on_deepest_comp f g : (forall n, an_children (g n) = an_children n) ->
  forall n, on_deepest f (on_deepest g n) = on_deepest (fun x => f (g x)) n.
Proof.
  intros Hg. induction n as [nm v rp at_ ch sc IH] using anode_ind'.
  rewrite (on_deepest_node g), (on_deepest_node (fun x => f (g x))). destruct ch as [|c r].
  - pose proof (Hg (ANode nm v rp at_ [] sc)) as Hc. cbn [an_children] in Hc.
    destruct (g (ANode nm v rp at_ [] sc)) as [nm' v' rp' at' ch' sc'] eqn:Eg. cbn [an_children] in Hc. subst ch'.
    rewrite on_deepest_node. reflexivity.
  - rewrite on_deepest_node.
    assert (Hm : forall l, Forall (fun n => on_deepest f (on_deepest g n) = on_deepest (fun x => f (g x)) n) l ->
                 map_last (on_deepest f) (map_last (on_deepest g) l) = map_last (on_deepest (fun x => f (g x))) l).
    { induction l as [|x l IHl]; intros HF; [reflexivity|]. inversion HF as [|y z Hx Hl]; subst.
      destruct l as [|x2 l']; [cbn [map_last]; rewrite Hx; reflexivity|].
      rewrite (map_last_cons (on_deepest g) x) by discriminate.
      rewrite (map_last_cons (on_deepest (fun x0 => f (g x0))) x) by discriminate.
      assert (Hne : map_last (on_deepest g) (x2 :: l') <> []).
      { destruct l'; cbn [map_last]; discriminate. }
      rewrite (map_last_cons (on_deepest f) x) by exact Hne. rewrite IHl by exact Hl. reflexivity. }
    destruct (map_last (on_deepest g) (c :: r)) as [|c' r'] eqn:Em.
    + destruct r; cbn [map_last] in Em; discriminate.
    + rewrite <- Em. rewrite Hm by exact IH. reflexivity.
Qed.

Lemma on_last_deepest_comp f g l : (forall n, an_children (g n) = an_children n) ->
  on_last_deepest f (on_last_deepest g l) = on_last_deepest (fun x => f (g x)) l.
Proof.
  intros Hg. rewrite !on_last_deepest_map_last.
  induction l as [|x l IHl]; [reflexivity|]. destruct l as [|x2 l'].
  - cbn [map_last]. rewrite on_deepest_comp by exact Hg. reflexivity.
  - rewrite (map_last_cons (on_deepest g) x) by discriminate.
    rewrite (map_last_cons (on_deepest (fun x0 => f (g x0))) x) by discriminate.
    assert (Hne : map_last (on_deepest g) (x2 :: l') <> []) by (destruct l'; cbn [map_last]; discriminate).
    rewrite (map_last_cons (on_deepest f) x) by exact Hne. rewrite IHl. reflexivity.
Qed.

Definition wrap_whole (t : wtext) : str :=
  match t with
  | WList l => strip (join [c_nl] l)
  | WStr s => strip s
  | WNone => []
  end.

(* for EVERY configuration: the converter is the href-free converter, possibly followed by the href step on the
   deepest last node (which changes attributes only: insert_href_fields) *)
Theorem convert_href_cases env mr root :
  convert env mr root = convert_nohref env mr root \/
  exists l, convert_nohref env mr root = Ok l /\
            convert env mr root = Ok (on_last_deepest (href_step env (wrap_whole (ce_text env))) l).
Proof.
  unfold convert, convert_nohref.
  destruct (conv_list env root _) as [[children st]| | |]; cbn [bind]; try (left; reflexivity).
  destruct (ce_text env) as [|s|ls] eqn:Et; [left; reflexivity| |];
    (destruct (cs_text_inserted st); [left; reflexivity|]); right; eexists; (split; [reflexivity|]); f_equal;
    rewrite on_last_deepest_comp by (intros n; apply insert_text_children); reflexivity.
Qed.

Definition same_outcome {A} (a b : res A) : Prop :=
  match a, b with
  | Ok _, Ok _ => True
  | ParseErr k p, ParseErr k' p' => k = k' /\ p = p'
  | Internal k, Internal k' => k = k'
  | OutOfFuel, OutOfFuel => True
  | _, _ => False
  end.

(* markup.href adds no failure and hides none: same outcome class, same error *)
Theorem convert_href_same_outcome env mr root :
  same_outcome (convert env mr root) (convert_nohref env mr root).
Proof.
  destruct (convert_href_cases env mr root) as [->|[l [-> ->]]]; [|exact I].
  destruct (convert_nohref env mr root); cbn; auto.
Qed.

(* ---- "the deepest last element", with the href step: in document order every node keeps its depth and payload,
   except the node visited last: its value receives the text at its end (as by insert_text) and, when it is an
   `a` and markup.href is on, its attributes go through href_attrs *)
Definition pl_wrap (env : cenv) (text : str) (x : nat * payload) : nat * payload :=
  let '(d, p) := x in
  (d, mkPl (pl_name p) (Some (value_insert (pl_value p) text)) (pl_repeat p)
           (if name_is (pl_name p) s_a && ce_href env then href_attrs text (pl_attrs p) else pl_attrs p)
           (pl_self p)).

Lemma on_deepest_flat_gen (f : anode -> anode) (g : nat * payload -> nat * payload) :
  (forall nm v rp at_ sc d, flat d (f (ANode nm v rp at_ [] sc)) = [g (d, mkPl nm v rp at_ sc)]) ->
  forall n d, flat d (on_deepest f n) = map_last g (flat d n).
Proof.
  intros H. induction n as [nm v rp at_ ch sc IH] using anode_ind'. intros d.
  rewrite on_deepest_node. destruct ch as [|c r].
  - rewrite H, flat_node. reflexivity.
  - rewrite !flat_node.
    rewrite (flatL_map_last (S d) _ g).
    + rewrite map_last_cons by (apply flatL_nonempty; discriminate). reflexivity.
    + eapply Forall_impl; [|exact IH]. intros a Ha. apply Ha.
Qed.

Theorem insert_wrap_into_deepest_last env text items d :
  flatL d (on_last_deepest (fun n => insert_wrap env n text) items) = map_last (pl_wrap env text) (flatL d items).
Proof.
  rewrite on_last_deepest_map_last. apply flatL_map_last.
  apply Forall_forall. intros n _. apply on_deepest_flat_gen.
  intros nm v rp at_ sc d'. unfold insert_wrap. cbn [insert_text an_name].
  unfold pl_wrap. cbn [pl_name pl_value pl_repeat pl_attrs pl_self].
  destruct (name_is nm s_a && ce_href env); cbn [insert_href]; rewrite flat_node; reflexivity.
Qed.
