(* C14: when does the text `d>c` read as the forest of `d` with `c` hung below find_deepest?
   (the hypothesis [child_reads_below] of SnippetChildString.v)

   Parser + converter part, for every definition whose tokens form a statement WITHOUT GROUPS
   (ParserSpine.flat: element blocks separated by `>`, `+`, `^`) that ends with an element block:
   if the tokenizer reads `d>c` as the tokens of d followed by `>` and the name c, and
     - no element on the open spine at the end of d (the ancestors of its last element) and not the
       last element itself carries a repeater   (`x*2>b` repeats b),
     - the last element is not a text node        (the children of a text-only node become its siblings),
   then parse_abbr (d>c) = attach_deepest (parse_abbr d) [c].
   The tokenizer part (that `>c` appended to d does not change the tokens of d) is the hypothesis
   [tok_ext]; it is not proved here. *)
From Coq Require Import List NArith ZArith Bool Lia.
From Emmet Require Import lib.Base model.MarkupTokenizer model.MarkupParser model.MarkupConvert
     model.MarkupResolve.
From Emmet Require Import proofs.ParserSpine proofs.AttrProofs proofs.SnippetProofs proofs.SnippetAcyclic
     proofs.SnippetAliasParse proofs.SnippetAliasForms proofs.SnippetDecorate proofs.SnippetChildString.
Import ListNotations.

(* ================================================================== converter *)
Section Conv.
  Variable env : cenv.
  Variable Y : list anode.

  Definition lift_attach (r : res (list anode * cst)) : res (list anode * cst) :=
    match r with
    | Ok (kx, s) => Ok (attach_deepest kx Y, s)
    | ParseErr k p => ParseErr k p
    | Internal k => Internal k
    | OutOfFuel => OutOfFuel
    end.

  (* X' converts like X with Y hung below the deepest node of the result, in every state *)
  Definition ext (X X' : tnode) : Prop :=
    (forall st, conv_stmt env X' st = lift_attach (conv_stmt env X st)) /\
    (forall st kx s, conv_stmt env X st = Ok (kx, s) -> kx <> []).

  Lemma clist_snoc : forall els X st,
    clist env (els ++ [X]) st =
    let* (a, s1) := clist env els st in
    let* (b, s2) := conv_stmt env X s1 in Ok (a ++ b, s2).
  Proof.
    induction els as [|e els IH]; intros X st.
    - cbn [app]. change (clist env [X] st) with
        (let* (a, s1) := conv_stmt env X st in let* (b, s2) := clist env [] s1 in Ok (a ++ b, s2)).
      change (clist env [] st) with (Ok (@nil anode, st)). cbn [bind].
      destruct (conv_stmt env X st) as [[a s1]| | |]; try reflexivity. cbn [bind].
      change (clist env [] s1) with (Ok (@nil anode, s1)). cbn [bind]. rewrite app_nil_r. reflexivity.
    - cbn [app].
      change (clist env (e :: els ++ [X]) st) with
        (let* (a, s1) := conv_stmt env e st in let* (b, s2) := clist env (els ++ [X]) s1 in Ok (a ++ b, s2)).
      change (clist env (e :: els) st) with
        (let* (a, s1) := conv_stmt env e st in let* (b, s2) := clist env els s1 in Ok (a ++ b, s2)).
      destruct (conv_stmt env e st) as [[a s1]| | |]; try reflexivity. cbn [bind].
      rewrite IH. destruct (clist env els s1) as [[b s2]| | |]; try reflexivity.
      all: cbn [bind]; match goal with |- context [conv_stmt env ?x ?s] => destruct (conv_stmt env x s) as [[c s3]| | |] end;
        try reflexivity; cbn [bind]; rewrite app_assoc; reflexivity.
  Qed.

  Lemma clist_ext : forall X X', ext X X' -> forall els st,
    clist env (els ++ [X']) st = lift_attach (clist env (els ++ [X]) st).
  Proof.
    intros X X' [H1 H2] els st. rewrite !clist_snoc.
    destruct (clist env els st) as [[a s1]| | |]; try reflexivity. cbn [bind].
    rewrite H1. pose proof (H2 s1) as H2'.
    destruct (conv_stmt env X s1) as [[b s2]| | |]; try reflexivity. cbn [bind lift_attach].
    rewrite (attach_deepest_app a b Y (H2' b s2 eq_refl)). reflexivity.
  Qed.

  Lemma clist_snoc_nonempty : forall X, (forall st kx s, conv_stmt env X st = Ok (kx, s) -> kx <> []) ->
    forall els st k s, clist env (els ++ [X]) st = Ok (k, s) -> k <> [].
  Proof.
    intros X H els st k s E. rewrite clist_snoc in E.
    destruct (clist env els st) as [[a s1]| | |]; try discriminate. cbn [bind] in E.
    destruct (conv_stmt env X s1) as [[b s2]| | |] eqn:EX; try discriminate. cbn [bind] in E.
    pose proof (H s1 b s2 EX) as Hb. inversion E; subst.
    intro Z. apply app_eq_nil in Z. destruct Z as [_ Z]. exact (Hb Z).
  Qed.

  (* one level up: an element WITHOUT repeater whose last child is X *)
  Lemma ext_up_elem : forall X X', ext X X' -> forall name attrs value sc els,
    ext (TElem name attrs value None sc (els ++ [X])) (TElem name attrs value None sc (els ++ [X'])).
  Proof.
    intros X X' HX name attrs value sc els. split.
    - intro st. rewrite !conv_stmt_eq. cbn [node_rep_of]. unfold once_of.
      destruct (match nonempty name with
                | Some toks => let* (s, s') := stringify_name env toks st in Ok (Some s, s')
                | None => Ok (None, st)
                end) as [[nm st1]| | |]; try reflexivity. cbn [bind].
      destruct (match nonempty value with
                | Some toks => let* (v, s') := stringify_value env toks st1 in Ok (Some v, s')
                | None => Ok (None, st1)
                end) as [[val st2]| | |]; try reflexivity. cbn [bind].
      rewrite (clist_ext X X' HX els st2).
      pose proof (clist_snoc_nonempty X (proj2 HX) els st2) as NE.
      destruct (clist env (els ++ [X]) st2) as [[kids st3]| | |]; try reflexivity. cbn [bind lift_attach].
      specialize (NE kids st3 eq_refl).
      destruct (match nonempty attrs with
                | Some l => let* (l', s') := convert_attributes env l st3 in Ok (Some l', s')
                | None => Ok (None, st3)
                end) as [[ats st4]| | |]; try reflexivity. cbn [bind]. cbv zeta.
      destruct (match nm with Some [] => _ | _ => _ end).
      + cbn [lift_attach]. f_equal. f_equal.
        change (ANode nm val None ats [] sc :: kids) with ([ANode nm val None ats [] sc] ++ kids).
        rewrite (attach_deepest_app _ kids Y NE). reflexivity.
      + cbn [lift_attach]. f_equal. f_equal.
        rewrite (attach_deepest_Fk [ANode nm val None ats kids sc] Y).
        change [ANode nm val None ats kids sc] with ([] ++ [ANode nm val None ats kids sc]).
        rewrite on_last_deepest_snoc. cbn [app]. rewrite (on_deepest_node (Fk Y) nm val None ats kids sc NE). reflexivity.
    - intros st kx s E. rewrite conv_stmt_eq in E. cbn [node_rep_of] in E. unfold once_of in E.
      destruct (match nonempty name with Some toks => _ | None => _ end) as [[nm st1]| | |]; try discriminate. cbn [bind] in E.
      destruct (match nonempty value with Some toks => _ | None => _ end) as [[val st2]| | |]; try discriminate. cbn [bind] in E.
      destruct (clist env (els ++ [X]) st2) as [[kids st3]| | |]; try discriminate. cbn [bind] in E.
      destruct (match nonempty attrs with Some l => _ | None => _ end) as [[ats st4]| | |]; try discriminate. cbn [bind] in E.
      cbv zeta in E. destruct (match nm with Some [] => _ | _ => _ end); inversion E; discriminate.
  Qed.
End Conv.

(* ------------------------------------------------------------------ the base: the last element gets the child *)
Definition elementish (l : leaf) : Prop :=
  nonempty (lf_value l) = None \/
  (exists la, nonempty (lf_attrs l) = Some la) \/
  (exists t x xs, lf_name l = Some [t] /\ tk t = TLiteral (x :: xs)).

Lemma conv_bare : forall env ct x xs st, tk ct = TLiteral (x :: xs) ->
  conv_stmt env (TElem (Some [ct]) None None None false []) st = Ok ([bare (x :: xs)], st).
Proof.
  intros env ct x xs st Hct. rewrite conv_stmt_eq. cbn [node_rep_of]. unfold once_of.
  cbn [nonempty stringify_name]. unfold stringify. rewrite Hct. cbn [bind]. rewrite app_nil_r. reflexivity.
Qed.

Lemma ext_base : forall env l ct x xs,
  lf_repeat l = None -> elementish l -> tk ct = TLiteral (x :: xs) ->
  ext env [bare (x :: xs)] (leaf_node l) (add_child (leaf_node l) (TElem (Some [ct]) None None None false [])).
Proof.
  intros env l ct x xs Hr He Hct. destruct l as [name attrs value rp sc]. unfold elementish in He. cbn [lf_repeat lf_name lf_attrs lf_value lf_self] in *.
  subst rp. unfold leaf_node. cbn [lf_repeat lf_name lf_attrs lf_value lf_self add_child app].
  split.
  - intro st. rewrite !conv_stmt_eq. cbn [node_rep_of]. unfold once_of.
    destruct (match nonempty name with
              | Some toks => let* (s, s') := stringify_name env toks st in Ok (Some s, s')
              | None => Ok (None, st)
              end) as [[nm st1]| | |] eqn:EN; try reflexivity. cbn [bind].
    destruct (match nonempty value with
              | Some toks => let* (v, s') := stringify_value env toks st1 in Ok (Some v, s')
              | None => Ok (None, st1)
              end) as [[val st2]| | |] eqn:EV; try reflexivity. cbn [bind].
    change (clist env [TElem (Some [ct]) None None None false []] st2) with
      (let* (a, s1) := conv_stmt env (TElem (Some [ct]) None None None false []) st2 in
       let* (b, s2) := clist env [] s1 in Ok (a ++ b, s2)).
    rewrite (conv_bare env ct x xs st2 Hct). cbn [bind].
    change (clist env [] st2) with (Ok (@nil anode, st2)). cbn [bind app].
    destruct (match nonempty attrs with
              | Some l => let* (l', s') := convert_attributes env l st2 in Ok (Some l', s')
              | None => Ok (None, st2)
              end) as [[ats st4]| | |] eqn:EA; try reflexivity. cbn [bind]. cbv zeta.
    assert (Hb : match nm, ats, val with
                 | None, None, Some ((_ :: _) as v) => negb (existsb is_vfield v)
                 | Some [], None, Some ((_ :: _) as v) => negb (existsb is_vfield v)
                 | _, _, _ => false
                 end = false).
    { destruct He as [Ha|[[la Hb]|[t [y [ys [Hc1 Hc2]]]]]].
      - rewrite Ha in EV. inversion EV; subst. destruct nm as [[|]|]; destruct ats; reflexivity.
      - rewrite Hb in EA. destruct (convert_attributes env la st2) as [[l' s']| | |]; try discriminate.
        cbn [bind] in EA. inversion EA; subst. destruct nm as [[|]|]; reflexivity.
      - inversion Hc1; subst name. cbn [nonempty stringify_name] in EN. unfold stringify in EN. rewrite Hc2 in EN.
        cbn [bind] in EN. inversion EN; subst. reflexivity. }
    rewrite Hb. reflexivity.
  - intros st kx s E. rewrite conv_stmt_eq in E. cbn [node_rep_of] in E. unfold once_of in E.
    destruct (match nonempty name with Some toks => _ | None => _ end) as [[nm st1]| | |]; try discriminate. cbn [bind] in E.
    destruct (match nonempty value with Some toks => _ | None => _ end) as [[val st2]| | |]; try discriminate. cbn [bind] in E.
    change (clist env [] st2) with (Ok (@nil anode, st2)) in E. cbn [bind] in E.
    destruct (match nonempty attrs with Some l => _ | None => _ end) as [[ats st4]| | |]; try discriminate. cbn [bind] in E.
    cbv zeta in E. destruct (match nm with Some [] => _ | _ => _ end); inversion E; discriminate.
Qed.

(* ------------------------------------------------------------------ up the open spine *)
Definition elem_norep (n : tnode) : Prop := match n with TElem _ _ _ None _ _ => True | _ => False end.
(* every node of the open spine but the bottom one (the root) is an element without repeater *)
Fixpoint spine_norep (cur : tnode) (st : list tnode) : Prop :=
  match st with [] => True | p :: st' => elem_norep cur /\ spine_norep p st' end.

Lemma ext_add_child : forall env Y cur X X', ext env Y X X' -> elem_norep cur ->
  ext env Y (add_child cur X) (add_child cur X').
Proof.
  intros env Y cur X X' H Hc. destruct cur as [a b c [r|] e els|els r]; try contradiction.
  cbn [add_child]. apply ext_up_elem. exact H.
Qed.

Lemma ext_close : forall env Y st cur X X', ext env Y X X' -> spine_norep cur st ->
  exists els Z Z', elements_of (close_all (add_child cur X) st) = els ++ [Z] /\
                    elements_of (close_all (add_child cur X') st) = els ++ [Z'] /\ ext env Y Z Z'.
Proof.
  intros env Y. induction st as [|p st IH]; intros cur X X' H Hs.
  - exists (elements_of cur), X, X'. cbn [close_all]. rewrite !elements_add_child. repeat split; try reflexivity; apply H.
  - cbn [close_all]. cbn [spine_norep] in Hs. destruct Hs as [Hc Hs].
    apply (IH p (add_child cur X) (add_child cur X') (ext_add_child env Y cur X X' H Hc) Hs).
Qed.

Lemma conv_list_clist : forall env l st, conv_list env l st = clist env l st.
Proof.
  intros env. induction l as [|c l IH]; intro st; [reflexivity|].
  change (clist env (c :: l) st) with
    (let* (a, s1) := conv_stmt env c st in let* (b, s2) := clist env l s1 in Ok (a ++ b, s2)).
  cbn [conv_list]. destruct (conv_stmt env c st) as [[a s1]| | |]; try reflexivity. cbn [bind]. rewrite IH. reflexivity.
Qed.

(* ================================================================== parser: a statement without groups
   that ends with an element block *)
Inductive flat1 (jsx : bool) : list (leaf * sop) -> leaf -> list token -> Prop :=
| f1_last : forall b l, block_ok jsx b l -> flat1 jsx [] l b
| f1_cons : forall b l0 o ots ys l rest,
    block_ok jsx b l0 -> op_tokens o ots -> flat1 jsx ys l rest -> flat1 jsx ((l0, o) :: ys) l (b ++ ots ++ rest).

Lemma flat1_flat : forall jsx ys l toks, flat1 jsx ys l toks -> flat jsx (ys ++ [(l, SSibling)]) toks.
Proof.
  intros jsx ys l toks H. induction H as [b l Hb|b l0 o ots ys l rest Hb Ho _ IH].
  - apply flat_last. exact Hb.
  - cbn [app]. apply flat_cons; assumption.
Qed.

Lemma flat1_child : forall jsx ys l toks gt bc lc, flat1 jsx ys l toks -> op_tok OpChild gt -> block_ok jsx bc lc ->
  flat jsx (ys ++ [(l, SChild); (lc, SSibling)]) (toks ++ [gt] ++ bc).
Proof.
  intros jsx ys l toks gt bc lc H Hg Hc. induction H as [b l Hb|b l0 o ots ys l rest Hb Ho _ IH].
  - cbn [app]. apply (flat_cons jsx b l SChild [gt] [(lc, SSibling)] bc Hb (ot_child gt Hg)). apply flat_last. exact Hc.
  - cbn [app]. rewrite <- !app_assoc. apply flat_cons; [exact Hb|exact Ho|]. exact IH.
Qed.

Lemma fold_left_snoc {A B} : forall (f : A -> B -> A) l x a, fold_left f (l ++ [x]) a = f (fold_left f l a) x.
Proof. intros. rewrite fold_left_app. reflexivity. Qed.

(* ================================================================== the reading of `d>c` *)
(* the tokenizer hypothesis: appending `>c` leaves the tokens of d as they are *)
Definition tok_ext (d c : str) (toks : list token) (gt ct : token) : Prop :=
  tokenize d = TOk toks /\ tokenize (d ++ c_gt :: c) = TOk (toks ++ [gt] ++ [ct]) /\
  tk gt = TOperator OpChild /\ tk ct = TLiteral c.

Theorem child_reads_below_flat : forall cfg d x xs ys l toks gt ct D,
  tok_ext d (x :: xs) toks gt ct ->
  flat1 false ys l toks ->
  (let '(cur, st) := fold_left ParserSpine.step ys (TGroup [] None, []) in spine_norep cur st) ->
  lf_repeat l = None -> elementish l ->
  mc_text cfg = WNone ->
  parse_def cfg d = Ok D ->
  child_reads_below cfg d (x :: xs) D.
Proof.
  intros cfg d x xs ys l toks gt ct D [T1 [T2 [Hg Hc]]] HF HS Hr He Ht EP.
  split; [exact EP|].
  unfold parse_def, parse_abbr in *. rewrite T1 in EP. rewrite T2.
  pose proof (flat1_flat false ys l toks HF) as F1.
  pose proof (flat1_child false ys l toks gt [ct] (mkLeaf (Some [ct]) None None None false) HF Hg
                (block_key false ct (x :: xs) Hc)) as F2.
  unfold parse in *. rewrite (stmts_flat false _ _ F1) in EP. rewrite (stmts_flat false _ _ F2).
  rewrite fold_left_snoc in EP.
  change (ys ++ [(l, SChild); (mkLeaf (Some [ct]) None None None false, SSibling)])
    with (ys ++ [(l, SChild)] ++ [(mkLeaf (Some [ct]) None None None false, SSibling)]).
  rewrite app_assoc, !fold_left_snoc.
  destruct (fold_left ParserSpine.step ys (TGroup [] None, [])) as [cur st].
  cbn [ParserSpine.step] in *. rewrite !skipn_all in *.
  set (lc := leaf_node (mkLeaf (Some [ct]) None None None false)) in *.
  cbn [close_all].
  destruct (ext_close (snippet_env cfg) [bare (x :: xs)] st cur (leaf_node l) (add_child (leaf_node l) lc)
              (ext_base (snippet_env cfg) l ct x xs Hr He Hc) HS) as [els [Z [Z' [E1 [E2 HZ]]]]].
  rewrite E1 in EP. rewrite E2. unfold convert in *.
  rewrite conv_list_clist in *. rewrite (clist_ext (snippet_env cfg) [bare (x :: xs)] Z Z' HZ els).
  destruct (clist (snippet_env cfg) (els ++ [Z]) _) as [[children s]| | |]; try discriminate. cbn [bind lift_attach] in *.
  assert (Htx : ce_text (snippet_env cfg) = WNone) by (unfold snippet_env; rewrite Ht; reflexivity).
  rewrite Htx in *. inversion EP. reflexivity.
Qed.

(* non-vacuity: d = `div>em`, c = `b`: the hypotheses hold, hence `div>em>b` reads as div[em[b]] *)
Example child_reads_below_flat_nonvacuous :
  exists ys l toks gt ct D,
    tok_ext [100;105;118;62;101;109]%N [98]%N toks gt ct /\
    flat1 false ys l toks /\
    (let '(cur, st) := fold_left ParserSpine.step ys (TGroup [] None, []) in spine_norep cur st) /\
    lf_repeat l = None /\ elementish l /\
    parse_def chs_cfg [100;105;118;62;101;109]%N = Ok D /\
    child_reads_below chs_cfg [100;105;118;62;101;109]%N [98]%N D.
Proof.
  set (t1 := mkTok (TLiteral [100;105;118]%N) 0 3). set (t2 := mkTok (TOperator OpChild) 3 4).
  set (t3 := mkTok (TLiteral [101;109]%N) 4 6).
  set (l1 := mkLeaf (Some [t1]) None None None false). set (l3 := mkLeaf (Some [t3]) None None None false).
  exists [(l1, SChild)], l3, [t1; t2; t3], (mkTok (TOperator OpChild) 6 7), (mkTok (TLiteral [98]%N) 7 8).
  eexists.
  assert (T : tok_ext [100;105;118;62;101;109]%N [98]%N [t1; t2; t3] (mkTok (TOperator OpChild) 6 7) (mkTok (TLiteral [98]%N) 7 8)).
  { repeat split; vm_compute; reflexivity. }
  assert (F : flat1 false [(l1, SChild)] l3 [t1; t2; t3]).
  { change [t1; t2; t3] with ([t1] ++ [t2] ++ [t3]).
    apply f1_cons; [exact (block_key false t1 _ eq_refl)|apply ot_child; reflexivity|apply f1_last; exact (block_key false t3 _ eq_refl)]. }
  assert (S : let '(cur, st) := fold_left ParserSpine.step [(l1, SChild)] (TGroup [] None, []) in spine_norep cur st).
  { cbn. split; exact I. }
  assert (E : elementish l3) by (left; reflexivity).
  assert (P : parse_def chs_cfg [100;105;118;62;101;109]%N = Ok [ANode (Some [100;105;118]%N) None None None [bare [101;109]%N] false]).
  { vm_compute. reflexivity. }
  split; [exact T|]. split; [exact F|]. split; [exact S|]. split; [reflexivity|]. split; [exact E|]. split; [exact P|].
  exact (child_reads_below_flat chs_cfg _ 98%N [] _ l3 _ _ _ _ T F S eq_refl E eq_refl P).
Qed.
