(* C03, whole pipeline for ONE element written with `#id`, `.class` and `[ ... ]` sets:
   markup.parse (tokenize, parse, convert, snippet resolution, transform = merge) yields the node with
   the merged mentions; the HTML formatter writes  <name attr...></name>  where every attribute is
   written by the decision table [attr_out_spec].  So expand(text) is determined by the SPEC functions
   [written_mentions], [merge_spec] and [attr_out_spec] alone. *)
From Coq Require Import ZArith List Bool Lia.
From Emmet Require Import lib.Base model.MarkupTokenizer model.MarkupParser model.MarkupConvert model.MarkupResolve
     model.OutStream model.FormatHtml model.FormatIndent model.MarkupExpand
     proofs.TextSpec proofs.TextProofs proofs.TextLiteral proofs.AttrProofs proofs.AttrText proofs.AttrTextParse proofs.AttrTextConvert.
From Emmet Require proofs.ExpandTree.
Local Open Scope nat_scope.

(* ================================================================ markup.parse *)
Definition merged_mentions (rev_attrs : bool) (e : selem) : option (list aattr) :=
  match written_mentions e with [] => None | m => Some (merge_spec rev_attrs [] m) end.

Definition resolved_node (rev_attrs : bool) (e : selem) : anode :=
  ANode (Some (se_name e)) (elem_text_value e) None (merged_mentions rev_attrs e) [] (se_close e).

(* the xsl addon drops `select` from xsl:variable / xsl:with-param that have content: not our subject *)
Definition xsl_rule_applies (cfg : mconfig) (e : selem) : bool :=
  str_eqb (mc_syntax cfg) s_xsl
  && (str_eqb (se_name e) s_xsl_variable || str_eqb (se_name e) s_xsl_with_param)
  && match elem_text_value e with Some (_ :: _) => true | _ => false end.

(* the steps of transform before the BEM addon, on the node of a written element *)
Lemma transform_pre_elem cfg pn top e :
  se_name e <> [] -> match_lorem (se_name e) = LNo -> xsl_rule_applies cfg e = false ->
  transform_node_pre cfg pn top (elem_node e) = (resolved_node (mc_reverse_attrs cfg) e, false).
Proof.
  intros Hne Hlorem Hxsl. unfold elem_node. unfold xsl_rule_applies in Hxsl.
  unfold resolved_node, merged_mentions.
  set (V := elem_text_value e) in *. set (M := written_mentions e) in *. clearbody V M.
  destruct (se_name e) as [|c0 nm] eqn:En; [congruence|].
  unfold transform_node_pre. cbn [nonempty]. rewrite Hlorem.
  replace (opt_str_eqb (Some (c0 :: nm)) s_label && has_input _) with false
    by (cbn [has_input]; rewrite andb_false_r; reflexivity).
  cbn [opt_str_eqb orb].
  rewrite merge_attributes_spec. unfold attrs_opt.
  assert (EV : match nonempty V with Some _ => true | None => false end =
               match V with Some (_ :: _) => true | _ => false end) by (destruct V as [[|]|]; reflexivity).
  rewrite EV.
  destruct M as [|a0 M']; cbn [nonempty].
  - rewrite andb_false_r. reflexivity.
  - destruct (str_eqb (mc_syntax cfg) s_xsl && (str_eqb (c0 :: nm) s_xsl_variable || str_eqb (c0 :: nm) s_xsl_with_param));
      cbn [andb] in Hxsl |- *; [|reflexivity].
    rewrite Hxsl, andb_false_r. reflexivity.
Qed.

(* BEM off ([mc_bem cfg = false]: the BEM addon rewrites class values -- `-`/`_` prefixes, block names from
   the ancestors -- and is not the subject here) *)
Theorem markup_parse_elem cfg e :
  selem_ok e -> jsx_ok (mc_jsx cfg) e -> mc_text cfg = WNone ->
  assoc_str (se_name e) (mc_snippets cfg) = None ->        (* the name is not a snippet *)
  match_lorem (se_name e) = LNo ->                         (* ... and not lorem / loremN *)
  xsl_rule_applies cfg e = false ->
  mc_bem cfg = false ->
  markup_parse cfg (elem_text e) = Ok [resolved_node (mc_reverse_attrs cfg) e].
Proof.
  intros Hok Hj Htext Hsnip Hlorem Hxsl Hbem. unfold markup_parse.
  rewrite (element_attributes_text (mc_jsx cfg) (mkCenv (mc_text cfg) (mc_variables cfg) (mc_href cfg)) (mc_max_repeat cfg) e Hok Hj Htext). cbn [bind].
  destruct Hok as [[Hne _] _].
  assert (Hw : walk_resolve (S (length (mc_snippets cfg))) cfg [] [elem_node e] = Ok [elem_node e]).
  { unfold elem_node. destruct (se_name e) as [|c0 nm] eqn:En; [congruence|].
    cbn [walk_resolve]. rewrite Hsnip. reflexivity. }
  rewrite Hw. cbn [bind].
  rewrite LoremFill.transform_list_free.
  2:{ unfold elem_node. cbn [forallb]. rewrite LoremFill.lorem_free_eq. unfold lorem_header.
      destruct (se_name e) as [|c0 nm] eqn:En; [congruence|]. rewrite Hlorem. reflexivity. }
  cbn [transform_forest].
  assert (Ht : transform_tree cfg None true false [] (elem_node e) =
               Ok (resolved_node (mc_reverse_attrs cfg) e, false, [])).
  { unfold elem_node at 1. rewrite ExpandTree.transform_tree_eq. cbv zeta. cbn [andb].
    fold (elem_node e). unfold transform_node. rewrite (transform_pre_elem cfg None true e Hne Hlorem Hxsl). rewrite Hbem.
    cbn [bind]. unfold resolved_node. cbn [ExpandTree.tt_kids bind length firstn]. reflexivity. }
  rewrite Ht. reflexivity.
Qed.

(* ================================================================ the HTML formatter on a leaf element *)
Lemma map_out_value f st : (forall o, os_value (f o) = os_value o) -> os_value (fs_out (map_out f st)) = os_value (fs_out st).
Proof. intros H. unfold map_out. cbn [fs_out]. apply H. Qed.

Lemma add_level_value o d : os_value (os_add_level o d) = os_value o.
Proof. reflexivity. Qed.

Definition attrs_text_out (c : oconfig) (l : list aattr) : str :=
  concat (map (fun a => form_text (attr_out_spec c a)) (filter should_output_attribute l)).

Lemma push_attributes_value c : forall l st,
  Forall (fun a => form_nl_free (attr_out_spec c a)) l ->
  os_value (fs_out (fold_left (fun s a => if should_output_attribute a then push_attribute c a s else s) l st)) =
    os_value (fs_out st) ++ attrs_text_out c l.
Proof.
  induction l as [|a l IH]; intros st H.
  - cbn. rewrite app_nil_r. reflexivity.
  - inversion H as [|x y Ha Hl]; subst. cbn [fold_left]. rewrite IH by exact Hl.
    unfold attrs_text_out. cbn [filter]. destruct (should_output_attribute a).
    + rewrite attr_out_text by exact Ha. cbn [map concat]. rewrite app_assoc. reflexivity.
    + reflexivity.
Qed.

Lemma comment_off c text n st : oc_comment_enabled c = false -> comment_node c text n st = st.
Proof. intros H. unfold comment_node, should_comment. rewrite H. destruct text; reflexivity. Qed.

Lemma should_format_top c n items : should_format c None n 0 items = false.
Proof. destruct n. unfold should_format. destruct (negb (oc_format c)); reflexivity. Qed.

Definition value_text (v : option (list vtok)) : str :=
  match v with Some l => concat (map tok_text l) | None => [] end.
(* a value the formatter writes on the same line: no line break, not starting with a block-level tag *)
Definition value_inline (c : oconfig) (v : option (list vtok)) : Prop :=
  match v with
  | Some ((_ :: _) as l) => toks_nl_free l /\ existsb has_newline l = false /\ starts_with_block_tag c l = false
  | _ => True
  end.

Lemma self_close_nl_free c : nl_free (self_close c).
Proof. unfold self_close. destruct (str_eqb _ s_xhtml); [reflexivity|]. destruct (str_eqb _ s_xml); reflexivity. Qed.

(* what follows the attributes of a childless node: ` />` (by selfClosingStyle) for a self-closing node
   without text, otherwise `>` text `</name>` *)
Definition leaf_tail (c : oconfig) (tag : str) (sc : bool) (value : option (list vtok)) : str :=
  if sc && negb (truthy_l value) then self_close c ++ [c_gt]
  else [c_gt] ++ value_text (nonempty value) ++ [c_lt; c_slash] ++ tag ++ [c_gt].

Theorem html_leaf_value c (name : str) (value : option (list vtok)) (attrs : option (list aattr)) (sc : bool) :
  name <> [] -> oc_comment_enabled c = false ->
  oc_format_leaf c = false -> mem_str name (oc_format_force c) = false ->
  nl_free (tag_name c name) ->
  Forall (fun a => form_nl_free (attr_out_spec c a)) (match attrs with Some l => l | None => [] end) ->
  value_inline c value ->
  os_value (fs_out (html_format c [ANode (Some name) value None attrs [] sc])) =
    c_lt :: tag_name c name ++ attrs_text_out c (match attrs with Some l => l | None => [] end)
    ++ leaf_tail c (tag_name c name) sc value.
Proof.
  intros Hne Hcom Hleaf Hforce Htag Hattrs Hval.
  destruct name as [|c0 nm]; [congruence|].
  unfold html_format. cbn [html_element an_name an_attrs an_self an_children an_value andb negb].
  rewrite !should_format_top. cbn [get_indent andb]. rewrite !(comment_off c _ _ _ Hcom).
  rewrite Hleaf, Hforce. cbn [orb].
  assert (Hfold : forall st,
            os_value (fs_out (match attrs with
                              | Some ((_ :: _) as l) =>
                                  fold_left (fun s a => if should_output_attribute a then push_attribute c a s else s) l st
                              | _ => st
                              end)) = os_value (fs_out st) ++ attrs_text_out c (match attrs with Some l => l | None => [] end)).
  { intros st. destruct attrs as [[|a l]|]; try (cbn; rewrite app_nil_r; reflexivity).
    apply push_attributes_value. exact Hattrs. }
  rewrite map_out_value by (intros; apply add_level_value).
  unfold leaf_tail.
  destruct sc; destruct value as [[|v0 V']|]; cbn [truthy_l negb andb nonempty value_text value_inline] in *.
  - rewrite push_str_value by (apply nl_free_app; [apply self_close_nl_free|reflexivity]). rewrite Hfold.
    rewrite push_str_value by (apply nl_free_cons; [reflexivity|exact Htag]).
    rewrite map_out_value by (intros; apply add_level_value).
    cbn [fs_out os_value os_empty os_events rev map concat app]. rewrite <- !app_assoc. reflexivity.
  - rewrite push_str_value by (repeat (apply nl_free_cons; [reflexivity|]); apply nl_free_app; [exact Htag|reflexivity]).
    destruct Hval as [Hv1 [Hv2 Hv3]]. rewrite Hv2, Hv3. cbn [orb].
    rewrite push_tokens_value by exact Hv1. rewrite push_str_value by reflexivity. rewrite Hfold.
    rewrite push_str_value by (apply nl_free_cons; [reflexivity|exact Htag]).
    rewrite map_out_value by (intros; apply add_level_value).
    cbn [fs_out os_value os_empty os_events rev map concat app].
    rewrite <- !app_assoc. reflexivity.
  - rewrite push_str_value by (apply nl_free_app; [apply self_close_nl_free|reflexivity]). rewrite Hfold.
    rewrite push_str_value by (apply nl_free_cons; [reflexivity|exact Htag]).
    rewrite map_out_value by (intros; apply add_level_value).
    cbn [fs_out os_value os_empty os_events rev map concat app]. rewrite <- !app_assoc. reflexivity.
  - rewrite push_str_value by (repeat (apply nl_free_cons; [reflexivity|]); apply nl_free_app; [exact Htag|reflexivity]).
    rewrite push_tokens_value by (repeat constructor). rewrite push_str_value by reflexivity. rewrite Hfold.
    rewrite push_str_value by (apply nl_free_cons; [reflexivity|exact Htag]).
    rewrite map_out_value by (intros; apply add_level_value).
    cbn [fs_out os_value os_empty os_events rev map concat app tok_text caret].
    rewrite app_nil_r. rewrite <- !app_assoc. reflexivity.
  - rewrite push_str_value by (repeat (apply nl_free_cons; [reflexivity|]); apply nl_free_app; [exact Htag|reflexivity]).
    destruct Hval as [Hv1 [Hv2 Hv3]]. rewrite Hv2, Hv3. cbn [orb].
    rewrite push_tokens_value by exact Hv1. rewrite push_str_value by reflexivity. rewrite Hfold.
    rewrite push_str_value by (apply nl_free_cons; [reflexivity|exact Htag]).
    rewrite map_out_value by (intros; apply add_level_value).
    cbn [fs_out os_value os_empty os_events rev map concat app].
    rewrite <- !app_assoc. reflexivity.
  - rewrite push_str_value by (repeat (apply nl_free_cons; [reflexivity|]); apply nl_free_app; [exact Htag|reflexivity]).
    rewrite push_tokens_value by (repeat constructor). rewrite push_str_value by reflexivity. rewrite Hfold.
    rewrite push_str_value by (apply nl_free_cons; [reflexivity|exact Htag]).
    rewrite map_out_value by (intros; apply add_level_value).
    cbn [fs_out os_value os_empty os_events rev map concat app tok_text caret].
    rewrite app_nil_r. rewrite <- !app_assoc. reflexivity.
Qed.

(* ================================================================ names are free of line breaks *)
Lemma linebreaks_not_names : forallb (fun k => negb (is_element_name k)) py_linebreaks = true.
Proof. vm_compute. reflexivity. Qed.

Lemma name_char_not_linebreak ch : name_char ch -> is_linebreak ch = false.
Proof.
  unfold name_char. intros H. destruct (is_linebreak ch) eqn:E; [|reflexivity].
  unfold is_linebreak in E. apply existsb_exists in E. destruct E as [k [Hin Hk]].
  apply N.eqb_eq in Hk. subst k.
  pose proof linebreaks_not_names as F. rewrite forallb_forall in F. specialize (F ch Hin).
  rewrite H in F. discriminate.
Qed.

Lemma upper_lower_not_linebreak ch : is_linebreak ch = false ->
  is_linebreak (upper_c ch) = false /\ is_linebreak (lower_c ch) = false.
Proof.
  intros H. unfold upper_c, lower_c. split.
  - destruct (in_range c_a c_z ch) eqn:E; [|exact H].
    unfold in_range in E. apply andb_true_iff in E. destruct E as [E1 E2].
    apply N.leb_le in E1. apply N.leb_le in E2. unfold c_a, c_z in *.
    unfold is_linebreak. apply not_true_is_false. intros Hx. apply existsb_exists in Hx.
    destruct Hx as [k [Hin Hk]]. apply N.eqb_eq in Hk.
    cbn in Hin. repeat (destruct Hin as [Hin|Hin]; [subst k; lia|]). exact Hin.
  - destruct (in_range c_A c_Z ch) eqn:E; [|exact H].
    unfold in_range in E. apply andb_true_iff in E. destruct E as [E1 E2].
    apply N.leb_le in E1. apply N.leb_le in E2. unfold c_A, c_Z in *.
    unfold is_linebreak. apply not_true_is_false. intros Hx. apply existsb_exists in Hx.
    destruct Hx as [k [Hin Hk]]. apply N.eqb_eq in Hk.
    cbn in Hin. repeat (destruct Hin as [Hin|Hin]; [subst k; lia|]). exact Hin.
Qed.

Lemma tag_name_nl_free c w : Forall name_char w -> nl_free (tag_name c w).
Proof.
  intros HF. unfold tag_name, str_case, nl_free.
  assert (H0 : forall f : char -> char, (forall ch, is_linebreak ch = false -> is_linebreak (f ch) = false) ->
               forallb (fun ch => negb (is_linebreak ch)) (map f w) = true).
  { intros f Hf. induction HF as [|ch l Hc _ IH]; [reflexivity|]. cbn [map forallb].
    rewrite (Hf ch (name_char_not_linebreak ch Hc)), IH. reflexivity. }
  destruct (oc_tag_case c) as [|x y].
  - rewrite <- (map_id w). apply H0. auto.
  - destruct (str_eqb (x :: y) s_upper); [apply (H0 upper_c)|apply (H0 lower_c)];
      intros ch Hc; apply (upper_lower_not_linebreak ch Hc).
Qed.

(* ================================================================ expand *)
(* the syntaxes that use the HTML formatter (html, xml, xsl, jsx, vue, ...): all but haml / slim / pug *)
Definition html_family (syntax : str) : Prop :=
  str_eqb syntax s_haml = false /\ str_eqb syntax s_slim = false /\ str_eqb syntax s_pug = false.

(* the text the element's `{...}` contributes *)
Definition elem_out_text (e : selem) : str :=
  match se_text e with Some T => unescape T | None => [] end.

Lemma elem_value_text e : value_text (nonempty (elem_text_value e)) = elem_out_text e.
Proof.
  unfold elem_text_value, elem_out_text, text_value. destruct (se_text e) as [[|t0 T]|]; try reflexivity.
  cbn [nonempty value_text map concat tok_text]. apply app_nil_r.
Qed.

Theorem expand_element_text x e :
  let m := xc_m x in
  let c := xc_o x in
  selem_ok e -> jsx_ok (mc_jsx m) e -> mc_text m = WNone ->
  assoc_str (se_name e) (mc_snippets m) = None -> match_lorem (se_name e) = LNo ->
  xsl_rule_applies m e = false -> mc_bem m = false ->
  html_family (mc_syntax m) -> oc_comment_enabled c = false ->
  oc_format_leaf c = false -> mem_str (se_name e) (oc_format_force c) = false ->
  let attrs := merge_spec (mc_reverse_attrs m) [] (written_mentions e) in
  Forall (fun a => form_nl_free (attr_out_spec c a)) attrs ->
  value_inline c (elem_text_value e) ->
  expand_markup_str x (elem_text e) =
    Ok (c_lt :: tag_name c (se_name e) ++ attrs_text_out c attrs
        ++ leaf_tail c (tag_name c (se_name e)) (se_close e) (elem_text_value e)).
Proof.
  cbv zeta. intros Hok Hj Htext Hsnip Hlorem Hxsl Hbem [Hs1 [Hs2 Hs3]] Hcom Hleaf Hforce Hattrs Hval.
  unfold expand_markup_str, expand_markup.
  rewrite (markup_parse_elem (xc_m x) e Hok Hj Htext Hsnip Hlorem Hxsl Hbem). cbn [bind].
  unfold stringify_markup. rewrite Hs1, Hs2, Hs3. unfold resolved_node.
  pose proof Hok as [[Hne HF] _].
  rewrite (html_leaf_value (xc_o x) (se_name e) (elem_text_value e) (merged_mentions (mc_reverse_attrs (xc_m x)) e)
             (se_close e) Hne Hcom Hleaf Hforce (tag_name_nl_free _ _ HF)).
  - unfold merged_mentions. destruct (written_mentions e) as [|a l] eqn:Em; reflexivity.
  - unfold merged_mentions. destruct (written_mentions e) as [|a l] eqn:Em; [constructor|]. exact Hattrs.
  - exact Hval.
Qed.

(* the tail without the self-closing mark is `>` text `</name>` *)
Lemma leaf_tail_open c tag v : leaf_tail c tag false v = [c_gt] ++ value_text (nonempty v) ++ [c_lt; c_slash] ++ tag ++ [c_gt].
Proof. reflexivity. Qed.

(* an element WITH text keeps it, self-closing mark or not *)
Lemma leaf_tail_text c tag sc v0 v :
  leaf_tail c tag sc (Some (v0 :: v)) = [c_gt] ++ concat (map tok_text (v0 :: v)) ++ [c_lt; c_slash] ++ tag ++ [c_gt].
Proof. unfold leaf_tail. cbn [truthy_l negb]. rewrite andb_false_r. reflexivity. Qed.
