(* C13: every stream produced by the HTML and indent formatters is built from the stream
   primitives only (OutStreamProofs.reach), for ALL trees and option records; hence it
   satisfies the position invariants of OutStreamProofs. *)
From Emmet Require Import lib.Base model.MarkupTokenizer model.MarkupParser model.MarkupConvert
     model.OutStream model.FormatHtml model.FormatIndent proofs.OutStreamProofs proofs.FormatSteps.

Definition R (c : oconfig) (st : fstate) : Prop := reach (oc_fmt c) (fs_out st).

Lemma R_map_level c st d : R c st -> R c (map_out (fun o => os_add_level o d) st).
Proof. unfold R, map_out, os_add_level. cbn [fs_out]. apply r_level. Qed.
Lemma R_newline c st ind : R c st -> R c (map_out (fun o => os_push_newline (oc_fmt c) o ind) st).
Proof. unfold R, map_out. cbn [fs_out]. apply r_newline. Qed.
Lemma R_level_newline c st d : R c st -> R c (level_newline c d st).
Proof. unfold R, level_newline, map_out, os_push_newline_int, os_add_level. cbn [fs_out]. intros H. apply r_newline, r_level, H. Qed.
Lemma R_newline_int c st (g : ostream -> Z) :
  R c st -> R c (map_out (fun o => os_push_newline_int (oc_fmt c) o (g o)) st).
Proof. unfold R, map_out, os_push_newline_int. cbn [fs_out]. apply r_newline. Qed.
Lemma R_push_str c s st : R c st -> R c (push_str c s st).
Proof. unfold R, push_str. cbn [fs_out]. apply r_string. Qed.
Lemma R_push_raw c s st : lf_count s = 0 -> R c st -> R c (push_raw s st).
Proof. unfold R, push_raw. cbn [fs_out]. intros. apply r_push; assumption. Qed.

Lemma R_push_tokens c toks st : R c st -> R c (push_tokens c toks st).
Proof.
  unfold R, push_tokens. intros H.
  assert (G : forall toks o lg, reach (oc_fmt c) o ->
            reach (oc_fmt c) (fst (fold_left (fun '(o, lg) t =>
                 match t with
                 | VStr s => (os_push_string (oc_fmt c) o s, lg)
                 | VField i nm => (os_push_field o (fs_field st + i)%N nm,
                                   match lg with Some l => Some (N.max l i) | None => Some i end)
                 end) toks (o, lg)))).
  { induction toks0 as [|t ts IH]; intros o lg Ho; cbn [fold_left fst]; [exact Ho|].
    destruct t as [s|i nm]; apply IH; [apply r_string|apply r_field]; exact Ho. }
  specialize (G toks (fs_out st) None H).
  destruct (fold_left _ toks (fs_out st, None)) as [out largest]. cbn [fst] in G. cbn [fs_out]. exact G.
Qed.

#[export] Hint Resolve R_map_level R_newline R_level_newline R_newline_int R_push_str R_push_tokens : reachdb.

Lemma R_fold_left {A} c (f : fstate -> A -> fstate) (l : list A) :
  (forall st a, R c st -> R c (f st a)) -> forall st, R c st -> R c (fold_left f l st).
Proof. intros Hf. induction l as [|a l IH]; intros st H; cbn [fold_left]; [exact H|]. apply IH, Hf, H. Qed.

Lemma R_push_attribute c a st : R c st -> R c (push_attribute c a st).
Proof.
  intros H. unfold push_attribute.
  repeat match goal with
         | |- R _ (match ?x with _ => _ end) => destruct x
         | |- R _ (if ?x then _ else _) => destruct x
         end; auto 10 with reachdb.
Qed.
#[export] Hint Resolve R_push_attribute : reachdb.

Lemma R_comment_output c n toks st : R c st -> R c (comment_output c n toks st).
Proof.
  intros H. unfold comment_output. apply R_fold_left; [|exact H].
  intros st' t H'. destruct t as [s|b a nm]; [auto with reachdb|].
  destruct (assoc_str nm _); auto 10 with reachdb.
Qed.
Lemma R_comment_node c text n st : R c st -> R c (comment_node c text n st).
Proof.
  intros H. unfold comment_node. destruct text; [exact H|].
  destruct (should_comment c n); [apply R_comment_output|]; exact H.
Qed.
#[export] Hint Resolve R_comment_node : reachdb.

(* ---------------------------------------------------------------- blocks of element() *)
Definition keeps (c : oconfig) (f : fstate -> fstate) : Prop := forall st, R c st -> R c (f st).

Lemma R_el_attrs c node st : R c st -> R c (el_attrs c node st).
Proof.
  intros H. unfold el_attrs. destruct (an_attrs node) as [[|a l]|]; try exact H.
  apply R_fold_left; [|exact H]. intros st' x H'. destruct (should_output_attribute x); auto with reachdb.
Qed.

Lemma R_el_open c nm node st : R c st -> R c (el_open c nm node st).
Proof. intros H. unfold el_open. apply R_el_attrs. auto with reachdb. Qed.

Lemma R_el_snippet c node next st st' :
  keeps c next -> R c st -> el_snippet c node next st = Some st' -> R c st'.
Proof.
  intros Hn H. unfold el_snippet.
  destruct (an_value node) as [[|v0 value]|]; try discriminate.
  destruct (an_children node) as [|c0 ch]; try discriminate.
  destruct (find_field_ix (v0 :: value)) as [ix|]; try discriminate.
  set (st1 := push_tokens c (firstn ix (v0 :: value)) st).
  assert (H1 : R c st1) by (apply R_push_tokens, H).
  assert (H2 : R c (next st1)) by (apply Hn, H1).
  destruct (nth_error (v0 :: value) (S ix)) as [[s|i nm]|].
  - destruct (negb (Nat.eqb (os_line (fs_out (next st1))) (os_line (fs_out st1)))); intros E; injection E as <-;
      auto with reachdb.
  - intros E; injection E as <-. auto with reachdb.
  - intros E; injection E as <-. auto with reachdb.
Qed.

Lemma R_el_value c node st : R c st -> R c (el_value c node st).
Proof.
  intros H. unfold el_value. destruct (an_value node) as [[|v0 value]|]; try exact H.
  destruct (existsb has_newline (v0 :: value) || starts_with_block_tag c (v0 :: value)).
  - destruct (an_children node); auto 6 with reachdb.
  - auto with reachdb.
Qed.

Lemma R_el_leaf c nm node st : R c st -> R c (el_leaf c nm node st).
Proof.
  intros H. unfold el_leaf.
  destruct (negb (truthy_l (an_value node)) && match an_children node with [] => true | _ => false end); [|exact H].
  destruct (oc_format_leaf c || mem_str nm (oc_format_force c)); auto 6 with reachdb.
Qed.

Lemma R_el_content c nm node next st : keeps c next -> R c st -> R c (el_content c nm node next st).
Proof.
  intros Hn H. unfold el_content. destruct (el_snippet c node next st) as [st'|] eqn:E.
  - eapply R_el_snippet; eassumption.
  - apply R_el_leaf, Hn, R_el_value, H.
Qed.

Lemma R_el_close c nm node st : R c st -> R c (el_close c nm node st).
Proof. intros H. unfold el_close. auto with reachdb. Qed.

Lemma R_el_named c nm node next st : keeps c next -> R c st -> R c (el_named c nm node next st).
Proof.
  intros Hn H. unfold el_named.
  destruct (an_self node && match an_children node with [] => true | _ => false end && negb (truthy_l (an_value node))).
  - apply R_push_str, R_el_open, H.
  - apply R_el_close, R_el_content; [exact Hn|]. apply R_push_str, R_el_open, H.
Qed.

Lemma R_el_unnamed c node next st : keeps c next -> R c st -> R c (el_unnamed c node next st).
Proof.
  intros Hn H. unfold el_unnamed. destruct (el_snippet c node next st) as [st'|] eqn:E.
  - eapply R_el_snippet; eassumption.
  - apply Hn. destruct (an_value node) as [[|v0 value]|]; try exact H. apply R_push_tokens, H.
Qed.

Lemma R_el_body c node next st : keeps c next -> R c st -> R c (el_body c node next st).
Proof.
  intros Hn H. unfold el_body. destruct (an_name node) as [[|x nm]|].
  - apply R_el_unnamed; assumption.
  - apply R_el_named; assumption.
  - apply R_el_unnamed; assumption.
Qed.

Lemma R_el_tail c fmt parent index items st : R c st -> R c (el_tail c fmt parent index items st).
Proof. intros H. unfold el_tail. destruct (tail_newline c fmt parent index items); [apply R_newline_int|]; exact H. Qed.

Lemma R_html_step c parent node index items next st :
  keeps c next -> R c st -> R c (html_element_step c parent node index items next st).
Proof.
  intros Hn H. unfold html_element_step.
  apply R_map_level, R_el_tail, R_el_body; [exact Hn|].
  destruct (should_format c parent node index items); auto with reachdb.
Qed.

Lemma R_html_walk c parent items : forall l i st,
  Forall (fun n => forall parent index items st, R c st -> R c (html_element c parent n index items st)) l ->
  R c st -> R c (html_walk c parent items i l st).
Proof.
  induction l as [|x l IH]; intros i st HF H; cbn [html_walk]; [exact H|].
  inversion HF as [|y z Hx HF']; subst. apply IH; [exact HF'|]. apply Hx, H.
Qed.

Theorem R_html_element c : forall node parent index items st,
  R c st -> R c (html_element c parent node index items st).
Proof.
  induction node as [nm v rp at_ ch sc IHch] using anode_ind'. intros parent index items st H.
  rewrite html_element_unfold. apply R_html_step; [|exact H].
  intros st' H'. rewrite html_children_walk. apply R_html_walk; [exact IHch|exact H'].
Qed.

Theorem R_html_format c children : R c (html_format c children).
Proof.
  rewrite html_format_walk. apply R_html_walk.
  - apply Forall_forall. intros n _. apply R_html_element.
  - unfold R. cbn [fs_out]. apply r_empty.
Qed.

(* ---------------------------------------------------------------- indent formatter *)
Definition iopts_lf (o : iopts) : Prop :=
  lf_count (io_before_text o) = 0 /\ lf_count (io_after_text o) = 0.

Lemma R_push_primary c attrs st : R c st -> R c (push_primary_attributes c attrs st).
Proof.
  intros H. unfold push_primary_attributes. apply R_fold_left; [|exact H].
  intros st' a H'. destruct (aa_value a); [|exact H']. destruct (name_is a s_class); auto with reachdb.
Qed.

Lemma R_secondary_go c o n : forall l i st, R c st ->
  R c ((fix go (i : nat) (l : list aattr) (st : fstate) : fstate :=
           match l with
           | [] => st
           | a :: r =>
               let st := push_str c (attr_name c (match aa_name a with Some x => x | None => [] end)) st in
               let st :=
                 if is_boolean_attribute c a && negb (truthy_l (aa_value a)) then
                   if negb (oc_compact_boolean c) && negb (match io_boolean_value o with [] => true | _ => false end)
                   then push_str c (c_eq :: io_boolean_value o) st
                   else st
                 else
                   let st := push_str c (c_eq :: attr_quote c a true) st in
                   let st := push_tokens c (match aa_value a with Some ((_ :: _) as v) => v | _ => caret end) st in
                   push_str c (attr_quote c a false) st in
               let st := if negb (Nat.eqb i (n - 1)) then push_str c (io_glue_attr o) st else st in
               go (S i) r st
           end) i l st).
Proof.
  induction l as [|a l IH]; intros i st H; [exact H|].
  apply IH. cbv zeta.
  destruct (negb (Nat.eqb i (n - 1))); [apply R_push_str|];
    (destruct (is_boolean_attribute c a && negb (truthy_l (aa_value a)));
     [destruct (negb (oc_compact_boolean c) && negb match io_boolean_value o with [] => true | _ => false end)|]);
    auto 8 with reachdb.
Qed.

Lemma R_push_secondary c o attrs st : R c st -> R c (push_secondary_attributes c o attrs st).
Proof.
  intros H. unfold push_secondary_attributes. generalize (length attrs) as n. intros n.
  destruct attrs as [|a0 attrs0]; [exact H|].
  apply R_push_str. apply (R_secondary_go c o n (a0 :: attrs0) 0). apply R_push_str, H.
Qed.

Lemma R_ind_head c o node st : R c st -> R c (ind_head c o node st).
Proof.
  intros H. unfold ind_head. apply R_push_secondary, R_push_primary.
  destruct (an_name node) as [[|x nm]|]; try exact H.
  destruct (negb (str_eqb (x :: nm) s_div) || _); auto with reachdb.
Qed.

Lemma lf_spaces n : lf_count (repeat_str [c_space] n) = 0.
Proof. apply lf_count_repeat. reflexivity. Qed.

Lemma R_push_value c o node st : iopts_lf o -> R c st -> R c (push_value c o node st).
Proof.
  intros [Hb Ha] H. unfold push_value.
  destruct (negb (truthy_l (an_value node)) && match an_children node with [] => false | _ => true end); [exact H|].
  assert (Hmulti : forall lines maxl field acc, R c (fst acc) ->
            R c (fst (fold_left (pv_line c o maxl field) lines acc))).
  { intros lines maxl field. induction lines as [|line lines IHl]; intros [st' nf] H'; cbn [fold_left]; [exact H'|].
    apply IHl. cbn [fst] in H'. unfold pv_line. cbv zeta.
    assert (H1 : R c (match io_before_text o with [] => map_out (fun os => os_push_newline (oc_fmt c) os (Some None)) st'
                      | b => push_raw b (map_out (fun os => os_push_newline (oc_fmt c) os (Some None)) st') end)).
    { destruct (io_before_text o) eqn:E; [auto with reachdb|]. apply R_push_raw; [exact Hb|auto with reachdb]. }
    set (stb := match io_before_text o with [] => map_out (fun os => os_push_newline (oc_fmt c) os (Some None)) st'
                | b => push_raw b (map_out (fun os => os_push_newline (oc_fmt c) os (Some None)) st') end) in *.
    assert (H3 : R c (push_tokens c line (mkFs (fs_out stb) field))) by (apply R_push_tokens; exact H1).
    destruct (io_after_text o) eqn:Ea; cbn [fst]; [exact H3|].
    apply R_push_raw; [exact Ha|]. apply R_push_raw; [apply lf_spaces|]. exact H3. }
  destruct (split_by_lines _) as [|l0 [|l1 ls]].
  - cbn [fold_left]. apply R_map_level. unfold R. cbn [fs_out]. apply (R_map_level c st 1 H).
  - destruct (truthy_s (an_name node) || truthy_l (an_attrs node)); [apply R_push_tokens, R_push_raw; [reflexivity|exact H]|].
    apply R_push_tokens, H.
  - match goal with |- context [fold_left (pv_line c o ?m ?f) ?ls ?acc] =>
      pose proof (Hmulti ls m f acc) as Hm; destruct (fold_left (pv_line c o m f) ls acc) as [stf nff] end.
    apply R_map_level. apply Hm. cbn [fst]. apply R_map_level, H.
Qed.

Lemma R_indent_step c o parent node index next st :
  iopts_lf o -> keeps c next -> R c st -> R c (indent_element_step c o parent node index next st).
Proof.
  intros Ho Hn H. unfold indent_element_step. apply R_map_level.
  set (st1 := ind_head c o node _).
  assert (H1 : R c st1).
  { apply R_ind_head. destruct (negb _ && negb (is_snippet node)); auto with reachdb. }
  destruct (an_self node && negb (truthy_l (an_value node)) && match an_children node with [] => true | _ => false end).
  - destruct (io_self_close o); auto with reachdb.
  - apply Hn, R_push_value; assumption.
Qed.

Lemma R_indent_walk c o parent : forall l i st,
  Forall (fun n => forall parent index st, R c st -> R c (indent_element c o parent n index st)) l ->
  R c st -> R c (indent_walk c o parent i l st).
Proof.
  induction l as [|x l IH]; intros i st HF H; cbn [indent_walk]; [exact H|].
  inversion HF as [|y z Hx HF']; subst. apply IH; [exact HF'|]. apply Hx, H.
Qed.

Theorem R_indent_element c o : iopts_lf o -> forall node parent index st,
  R c st -> R c (indent_element c o parent node index st).
Proof.
  intros Ho. induction node as [nm v rp at_ ch sc IHch] using anode_ind'. intros parent index st H.
  rewrite indent_element_unfold. apply R_indent_step; [exact Ho| |exact H].
  intros st' H'. rewrite indent_children_walk. apply R_indent_walk; [exact IHch|exact H'].
Qed.

Theorem R_indent_format c o children : iopts_lf o -> R c (indent_format c o children).
Proof.
  intros Ho. rewrite indent_format_walk. apply R_indent_walk.
  - apply Forall_forall. intros n _. apply R_indent_element, Ho.
  - unfold R. cbn [fs_out]. apply r_empty.
Qed.

Lemma haml_lf : iopts_lf haml_opts. Proof. split; reflexivity. Qed.
Lemma slim_lf : iopts_lf slim_opts. Proof. split; reflexivity. Qed.
Lemma pug_lf c : iopts_lf (pug_opts c). Proof. split; reflexivity. Qed.

(* the whole markup formatter, every syntax *)
Theorem R_stringify_markup syntax c children : R c (stringify_markup syntax c children).
Proof.
  unfold stringify_markup.
  destruct (str_eqb syntax s_haml); [apply R_indent_format, haml_lf|].
  destruct (str_eqb syntax s_slim); [apply R_indent_format, slim_lf|].
  destruct (str_eqb syntax s_pug); [apply R_indent_format, pug_lf|].
  apply R_html_format.
Qed.
