(* C13: every stream produced by the HTML and indent formatters is built from the stream
   primitives only, hence satisfies the position invariant of OutStreamProofs. *)
From Emmet Require Import lib.Base model.MarkupTokenizer model.MarkupParser model.MarkupConvert
     model.OutStream model.FormatHtml model.FormatIndent proofs.OutStreamProofs.

Definition R (c : oconfig) (st : fstate) : Prop := reach (oc_fmt c) (fs_out st).

Lemma R_map_level c st d : R c st -> R c (map_out (fun o => os_add_level o d) st).
Proof. unfold R, map_out, os_add_level. cbn [fs_out]. apply r_level. Qed.
Lemma R_newline c st ind : R c st -> R c (map_out (fun o => os_push_newline (oc_fmt c) o ind) st).
Proof. unfold R, map_out. cbn [fs_out]. apply r_newline. Qed.
Lemma R_level_newline c st d :
  R c st -> R c (map_out (fun o => let o' := os_add_level o d in os_push_newline_int (oc_fmt c) o' (os_level o')) st).
Proof. unfold R, map_out, os_push_newline_int, os_add_level. cbn [fs_out]. intros H. apply r_newline, r_level, H. Qed.
Lemma R_newline_int c st (g : ostream -> Z) :
  R c st -> R c (map_out (fun o => os_push_newline_int (oc_fmt c) o (g o)) st).
Proof. unfold R, map_out, os_push_newline_int. cbn [fs_out]. apply r_newline. Qed.
Lemma R_push_str c s st : R c st -> R c (push_str c s st).
Proof. unfold R, push_str. cbn [fs_out]. apply r_string. Qed.
Lemma R_push_raw c s st : R c st -> R c (push_raw s st).
Proof. unfold R, push_raw. cbn [fs_out]. apply r_push. Qed.

Lemma R_push_tokens c toks st : R c st -> R c (push_tokens c toks st).
Proof.
  unfold R, push_tokens. intros H.
  assert (G : forall toks o lg, reach (oc_fmt c) o ->
            reach (oc_fmt c) (fst (fold_left (fun '(o, lg) t =>
                 match t with
                 | VStr s => (os_push_string (oc_fmt c) o s, lg)
                 | VField i nm => (os_push_field o (fs_field st + i)%N nm,
                                   match lg with Some l => Some (N.max l i) | None => Some i end)
                 end) toks (o, lg)))).
  { induction toks0 as [|t ts IH]; intros o lg Ho; cbn [fold_left fst]; [exact Ho|].
    destruct t as [s|i nm]; apply IH; [apply r_string|apply r_field]; exact Ho. }
  specialize (G toks (fs_out st) None H).
  destruct (fold_left _ toks (fs_out st, None)) as [out largest]. cbn [fst] in G. cbn [fs_out]. exact G.
Qed.

#[export] Hint Resolve R_map_level R_newline R_level_newline R_newline_int R_push_str R_push_raw R_push_tokens : reachdb.

Lemma R_fold_left {A} c (f : fstate -> A -> fstate) (l : list A) :
  (forall st a, R c st -> R c (f st a)) -> forall st, R c st -> R c (fold_left f l st).
Proof. intros Hf. induction l as [|a l IH]; intros st H; cbn [fold_left]; [exact H|]. apply IH, Hf, H. Qed.

Lemma R_push_attribute c a st : R c st -> R c (push_attribute c a st).
Proof.
  intros H. unfold push_attribute.
  repeat match goal with
         | |- R _ (match ?x with _ => _ end) => destruct x
         | |- R _ (if ?x then _ else _) => destruct x
         end; auto 10 with reachdb.
Qed.
#[export] Hint Resolve R_push_attribute : reachdb.

Lemma R_comment_output c n toks st : R c st -> R c (comment_output c n toks st).
Proof.
  intros H. unfold comment_output. apply R_fold_left; [|exact H].
  intros st' t H'. destruct t as [s|b a nm]; [auto with reachdb|].
  destruct (assoc_str nm _); auto 10 with reachdb.
Qed.
Lemma R_comment_node c text n st : R c st -> R c (comment_node c text n st).
Proof.
  intros H. unfold comment_node. destruct text; [exact H|].
  destruct (should_comment c n); [apply R_comment_output|]; exact H.
Qed.
#[export] Hint Resolve R_comment_node : reachdb.

(* induction principle for the nested tree *)
Fixpoint anode_size (n : anode) : nat :=
  match n with
  | ANode _ _ _ _ ch _ => S ((fix go (l : list anode) := match l with [] => O | c :: r => anode_size c + go r end) ch)
  end.

Lemma anode_ind' (P : anode -> Prop) :
  (forall nm v rp at_ ch sc, Forall P ch -> P (ANode nm v rp at_ ch sc)) -> forall n, P n.
Proof.
  intros H. fix IH 1. intros [nm v rp at_ ch sc]. apply H.
  induction ch as [|c ch IHch]; constructor; [apply IH|exact IHch].
Qed.

Lemma R_opt c (x : option fstate) (e : fstate) :
  (forall s, x = Some s -> R c s) -> R c e -> R c (match x with Some s => s | None => e end).
Proof. intros H1 H2. destruct x; [apply H1; reflexivity|exact H2]. Qed.

Lemma R_html_element c : forall node parent index items st,
  R c st -> R c (html_element c parent node index items st).
Proof.
  induction node as [nm v rp at_ ch sc IHch] using anode_ind'. intros parent index items st H.
  cbn [html_element].
  (* the local `next` over the children *)
  assert (Hnext : forall l i st', Forall (fun n => forall parent index items st, R c st -> R c (html_element c parent n index items st)) l ->
            R c st' ->
            R c ((fix go (i : nat) (l : list anode) (st : fstate) {struct l} : fstate :=
                    match l with
                    | [] => st
                    | ch0 :: r => go (S i) r (html_element c (Some (ANode nm v rp at_ ch sc)) ch0 i (an_children (ANode nm v rp at_ ch sc)) st)
                    end) i l st')).
  { induction l as [|x l IHl]; intros i st' HF H'; [exact H'|].
    inversion HF as [|y z Hx HF']; subst. apply IHl; [exact HF'|]. apply Hx, H'. }
  repeat match goal with
         | Hs : None = Some _ |- _ => discriminate Hs
         | Hs : Some _ = Some _ |- _ => injection Hs as <-
         | Hs : (_, _) = (_, _) |- _ => injection Hs as <- <-
         | Hs : match ?y with _ => _ end = _ |- _ => destruct y eqn:?
         | Hs : (if ?y then _ else _) = _ |- _ => destruct y eqn:?
         | |- R _ (match ?x with Some st' => st' | None => _ end) => apply R_opt; [intros ? ?|]
         | |- R _ (map_out _ _) => first [apply R_map_level | apply R_newline_int | apply R_newline | apply R_level_newline]
         | |- R _ (if ?x then _ else _) => destruct x
         | |- R _ (match ?x with _ => _ end) => destruct x eqn:?
         | |- R _ (push_str _ _ _) => apply R_push_str
         | |- R _ (push_tokens _ _ _) => apply R_push_tokens
         | |- R _ (comment_node _ _ _ _) => apply R_comment_node
         | |- R _ (fold_left _ _ _) => apply R_fold_left; [intros ? ? ?; match goal with |- R _ (if ?y then _ else _) => destruct y end; auto with reachdb|]
         | |- R _ ((fix go (i : nat) (l : list anode) (st : fstate) {struct l} : fstate := _) _ _ _) => apply Hnext; [exact IHch|]
         | |- R _ ?x => exact H
         end.
Qed.
