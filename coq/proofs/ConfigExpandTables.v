(* C20 -- the built-in tables with their VALUES: gen/GenConfig.v holds the tables with values abstracted to
   ids, gen/GenConfigVals.v the value behind every id (both regenerated from emmet/config.py on every run). *)
From Coq Require Import List ZArith.
From Emmet Require Import lib.Base lib.ConfigLib lib.ConfigVal gen.GenConfig gen.GenConfigVals
     model.Config proofs.ConfigTables.
Import ListNotations.
Local Open Scope Z_scope.

Fixpoint assoc_Z {A} (k : Z) (l : list (Z * A)) : option A :=
  match l with
  | [] => None
  | (k', v) :: l' => if k =? k' then Some v else assoc_Z k l'
  end.

(* the value behind an id *)
Definition val_of (extra : list (Z * cval)) (id : Z) : cval :=
  match assoc_Z id extra with
  | Some c => c
  | None => match assoc_Z id builtin_vals with Some c => c | None => COther id end
  end.

Definition map_dict {A B} (f : A -> B) (d : dict A) : dict B := map (fun kv => (fst kv, f (snd kv))) d.
Definition map_layer {A B} (f : A -> B) (c : layer_cfg A) : layer_cfg B := map (fun sd => (fst sd, map_dict f (snd sd))) c.
Definition map_table {A B} (f : A -> B) (t : cfg_table A) : cfg_table B := map (fun nl => (fst nl, map_layer f (snd nl))) t.
Definition map_builtin {A B} (f : A -> B) (b : builtin A) : builtin B :=
  {| b_default := map_layer f (b_default b);
     b_syntax_config := map_table f (b_syntax_config b);
     b_default_syntaxes := b_default_syntaxes b |}.

(* DEFAULT_CONFIG / SYNTAX_CONFIG / DEFAULT_SYNTAXES as the code has them *)
Definition builtin_cvals : builtin cval := map_builtin (val_of []) builtin_tables.
