(* C04 -- wrap_implicit instantiated: X = an element with text, with any number of `$#` in the text
   (each stands for the line) or none (the line is appended). *)
From Coq Require Import ZArith List Bool Lia ZifyBool.
From Emmet Require Import lib.Base model.MarkupTokenizer model.MarkupParser model.MarkupConvert
     proofs.TextSpec proofs.TextConvert proofs.TextWrap.
Local Open Scope N_scope.

(* tokens of a text value: literal text and `$#` *)
Definition simple_tok (t : token) : Prop :=
  match tk t with TLiteral _ | TWhiteSpace _ | TRepeaterPlaceholder => True | _ => False end.
Definition is_ph (t : token) : bool := match tk t with TRepeaterPlaceholder => true | _ => false end.
(* the text as written, with [line] at every `$#` *)
Definition render (line : str) (t : token) : str :=
  match tk t with TLiteral v | TWhiteSpace v => v | TRepeaterPlaceholder => line | _ => [] end.
Definition render_all (line : str) (vs : list token) : str := concat (map (render line) vs).

Lemma stringify_simple env lines count (j : nat) rs :
  ce_text env = WList lines -> (j < length (wrap_lines lines))%nat ->
  forall vs a st,
    Forall simple_tok vs ->
    cs_repeaters st = mkRep count (N.of_nat j) true :: rs ->
    stringify_value_acc env vs (Some a) st =
      Ok ([VStr (a ++ render_all (nth j (wrap_lines lines) []) vs)], mark (existsb is_ph vs) st).
Proof.
  intros Et Hj. induction vs as [|t vs IH]; intros a st HF Hrs.
  - cbn [stringify_value_acc render_all map concat existsb mark]. rewrite app_nil_r. reflexivity.
  - inversion HF as [|x y Ht HF']; subst. unfold simple_tok in Ht.
    cbn [stringify_value_acc]. unfold render_all. cbn [map concat existsb]. unfold is_ph at 1, render at 1.
    destruct (tk t) eqn:Etk; try contradiction.
    + unfold stringify. rewrite Etk. rewrite (IH _ st HF' Hrs). unfold render_all. rewrite <- app_assoc. reflexivity.
    + unfold stringify. rewrite Etk. rewrite (IH _ st HF' Hrs). unfold render_all. rewrite <- app_assoc. reflexivity.
    + unfold stringify. rewrite Etk. rewrite Hrs. cbn [find rimplicit rvalue].
      rewrite (get_text_line env lines _ j Et Hj).
      rewrite (IH _ (set_text_inserted (set_inserted st)) HF' Hrs).
      unfold render_all. rewrite <- app_assoc. cbn [orb]. destruct (existsb is_ph vs); reflexivity.
Qed.

Lemma stringify_simple_value env lines count (j : nat) rs :
  ce_text env = WList lines -> (j < length (wrap_lines lines))%nat ->
  forall t vs st,
    Forall simple_tok (t :: vs) ->
    cs_repeaters st = mkRep count (N.of_nat j) true :: rs ->
    stringify_value env (t :: vs) st =
      Ok ([VStr (render_all (nth j (wrap_lines lines) []) (t :: vs))], mark (existsb is_ph (t :: vs)) st).
Proof.
  intros Et Hj t vs st HF Hrs.
  pose proof (stringify_simple env lines count j rs Et Hj (t :: vs) [] st HF Hrs) as H.
  unfold stringify_value. cbn [stringify_value_acc] in H |- *.
  inversion HF as [|x y Ht HF']; subst. unfold simple_tok in Ht.
  destruct (tk t) eqn:Etk; try contradiction; cbn [app] in H; exact H.
Qed.

(* X = name{ ...$#... } : how one copy converts *)
Lemma once_text_leaf env lines count (j : nat) rs (name : str) nt t vs rp cur st :
  ce_text env = WList lines -> (j < length (wrap_lines lines))%nat ->
  name <> [] -> tk nt = TLiteral name -> Forall simple_tok (t :: vs) ->
  cs_repeaters st = mkRep count (N.of_nat j) true :: rs ->
  once_of env (TElem (Some [nt]) None (Some (t :: vs)) rp false []) cur st =
    Ok ([ANode (Some name) (Some [VStr (render_all (nth j (wrap_lines lines) []) (t :: vs))]) cur None [] false],
        mark (existsb is_ph (t :: vs)) st).
Proof.
  intros Et Hj Hne Hn HF Hrs. destruct name as [|c name']; [congruence|].
  unfold once_of. cbn [nonempty stringify_name]. unfold stringify at 1. rewrite Hn. cbn [bind].
  rewrite (stringify_simple_value env lines count j rs Et Hj t vs st HF Hrs). cbn [bind conv_kids].
  rewrite app_nil_r. reflexivity.
Qed.

(* wrap_implicit for `name{text}*`: with `$#` in the text every copy carries its line at each `$#`,
   without, the line follows the text *)
Theorem wrap_text_leaf env mr lines (name : str) nt t vs r0 :
  ce_text env = WList lines ->
  name <> [] -> tk nt = TLiteral name -> Forall simple_tok (t :: vs) -> rimplicit r0 = true ->
  let L := wrap_lines lines in
  (Z.of_nat (length L) <= match mr with Some m => Z.of_N m | None => 1000000 end)%Z ->
  convert env mr [TElem (Some [nt]) None (Some (t :: vs)) (Some r0) false []] =
    Ok (map (fun j =>
               ANode (Some name)
                     (Some [VStr (if existsb is_ph (t :: vs)
                                  then render_all (nth j L []) (t :: vs)
                                  else render_all [] (t :: vs) ++ nth j L [])])
                     (Some (mkRep (N.of_nat (length L)) (N.of_nat j) true)) None [] false)
            (seq 0 (length L))).
Proof.
  intros Et Hne Hn HF Himp L Hg.
  set (ph := existsb is_ph (t :: vs)).
  set (copy := fun j : nat =>
         [ANode (Some name) (Some [VStr (render_all (nth j L []) (t :: vs))])
                (Some (mkRep (N.of_nat (length L)) (N.of_nat j) true)) None [] false]).
  rewrite (wrap_implicit_convert env mr (TElem (Some [nt]) None (Some (t :: vs)) (Some r0) false []) r0 lines ph copy Et eq_refl Himp).
  - (* the pieces *)
    clear Hg. subst L. f_equal. generalize (seq 0 (length (wrap_lines lines))). intros l. induction l as [|j l IH]; [reflexivity|].
    cbn [map concat]. rewrite IH. unfold piece, copy. fold ph. destruct ph eqn:Eph; [reflexivity|].
    cbn [app]. f_equal.
    assert (Hr : render_all (nth j (wrap_lines lines) []) (t :: vs) = render_all [] (t :: vs)).
    { unfold render_all. f_equal. apply map_ext_in. intros x Hx. unfold render.
      destruct (tk x) eqn:Ex; try reflexivity.
      (* a `$#` would make ph true *)
      exfalso. unfold ph in Eph.
      assert (Hex : exists y, In y (t :: vs) /\ is_ph y = true).
      { exists x. split; [exact Hx|]. unfold is_ph. rewrite Ex. reflexivity. }
      apply existsb_exists in Hex. rewrite Hex in Eph. discriminate. }
    rewrite Hr. reflexivity.
  - intros j st rs Hj Hrs. unfold copy. subst L.
    apply (once_text_leaf env lines _ j rs name nt t vs (Some r0) _ st Et ltac:(lia) Hne Hn HF Hrs).
  - right. intros j. unfold copy. discriminate.
  - exact Hg.
Qed.
