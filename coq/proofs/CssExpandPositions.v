(* C13 end to end for stylesheet abbreviations: emmet.expand(abbr, {'type': 'stylesheet', ...}) as
   model/CssExpandStream.expand_css_stream (convert_snippets, parse, resolve, stream formatter). *)
From Coq Require Import ZArith List Bool Lia ZifyBool String.
From Emmet Require Import lib.Base lib.StyleLib model.CssTokenizer model.CssParser model.Score model.Color
     model.CssSnippets model.CssResolve model.CssFormat model.MarkupConvert model.OutStream
     model.CssFormatStream model.CssExpandStream proofs.OutStreamProofs proofs.CssFormatStream proofs.CssFormatStreamEq.
Import ListNotations.

Lemma expand_css_stream_inv cfg abbr o :
  expand_css_stream cfg abbr = Ok o ->
  exists sn nodes, convert_snippets (c_snippets cfg) = Ok sn /\ parse_with cfg sn abbr = Ok nodes /\
                   o = css_stream (fmt_of cfg) nodes.
Proof.
  unfold expand_css_stream, expand_stream_with.
  destruct (convert_snippets (c_snippets cfg)) as [sn| | |] eqn:E1; cbn [bind]; try discriminate.
  destruct (parse_with cfg sn abbr) as [nodes| | |] eqn:E2; cbn [bind]; try discriminate.
  intros E. injection E as <-. exists sn, nodes. split; [reflexivity|split; [exact E2|reflexivity]].
Qed.

(* every abbreviation, every configuration, no hypothesis: the string expand returns is the concatenation of
   what the callbacks returned, and every callback was told the offset where its string lands (line = number
   of line ends the stream wrote before, column = distance from the last of them) *)
Theorem expand_css_offsets_lemma cfg abbr o a e b :
  expand_css_stream cfg abbr = Ok o -> chron o = a ++ e :: b ->
  expand_css cfg abbr = Ok (text_of a ++ ev_text e ++ text_of b) /\
  ev_off e = length (text_of a) /\
  ev_line e = count_nl (rev a) /\
  ev_col e = length (text_of a) - line_start (cf_fmt (fmt_of cfg)) (rev a).
Proof.
  intros Ho Hs. rewrite expand_css_stream_value, Ho.
  destruct (expand_css_stream_inv cfg abbr o Ho) as [sn [nodes [_ [_ ->]]]].
  destruct (css_callback_offsets_exact_lemma (fmt_of cfg) nodes a e b Hs) as [H1 [H2 [H3 H4]]].
  rewrite H1. repeat split; assumption.
Qed.

(* line and column as read off the returned string, when the raw fragments of the resolved properties
   (function names, stylesheet.after) have no line feed *)
Theorem expand_css_positions_lemma cfg abbr sn nodes a e b :
  convert_snippets (c_snippets cfg) = Ok sn -> parse_with cfg sn abbr = Ok nodes ->
  fmt_lf (cf_fmt (fmt_of cfg)) -> css_raw_ok (fmt_of cfg) nodes ->
  chron (css_stream (fmt_of cfg) nodes) = a ++ e :: b ->
  expand_css_stream cfg abbr = Ok (css_stream (fmt_of cfg) nodes) /\
  expand_css cfg abbr = Ok (text_of a ++ ev_text e ++ text_of b) /\
  ev_off e = length (text_of a) /\
  ev_line e = line_of (text_of a) /\
  ev_col e = column_of (text_of a).
Proof.
  intros Hc Hp Hf Hok Hs.
  assert (Ho : expand_css_stream cfg abbr = Ok (css_stream (fmt_of cfg) nodes)).
  { unfold expand_css_stream, expand_stream_with. rewrite Hc. cbn [bind]. rewrite Hp. reflexivity. }
  split; [exact Ho|]. rewrite expand_css_stream_value, Ho.
  destruct (css_callback_positions_exact_lemma (fmt_of cfg) nodes a e b Hf Hok Hs) as [H1 [H2 [H3 H4]]].
  rewrite H1. repeat split; assumption.
Qed.
